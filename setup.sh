#!/bin/bash
# MANIFEST.setup_cmd: offline, clean full build (.vo, never -vos/-vok) of the
# Coq development.  Gen/*.v is generated from /repo's working tree first.
set -e
HERE="$(cd "$(dirname "${BASH_SOURCE[0]}")" && pwd)"
cd "$HERE"
export NANITE_REPO="${NANITE_REPO:-/repo}"
export PYTHONPATH="$NANITE_REPO/src:$HERE/tools"
export PYTHONHASHSEED=0 PYTHONDONTWRITEBYTECODE=1
mkdir -p coq/Gen coq/Cases evidence replays
/venv/bin/python -W ignore - <<'PY'
from nv import common, gen_all
gen_all.generate_all()
common.ensure_makefile()
PY
cd coq
timeout 3000 make -j"$(nproc)" 2>&1 | tail -40
echo "setup done"
