(* CPython list primitives used by the modelled code, over nat elements
   (identifiers are positions in a generated table). *)
From Coq Require Import List Arith Bool Lia.
Import ListNotations.

Fixpoint index (x : nat) (l : list nat) : option nat :=
  match l with
  | [] => None
  | y :: t => if Nat.eqb x y then Some 0
              else match index x t with Some i => Some (S i) | None => None end
  end.

Definition mem (x : nat) (l : list nat) : bool :=
  existsb (Nat.eqb x) l.

(* list.remove(x): first occurrence (the caller guarantees presence) *)
Fixpoint remove1 (x : nat) (l : list nat) : list nat :=
  match l with
  | [] => []
  | y :: t => if Nat.eqb x y then t else y :: remove1 x t
  end.

(* list.insert(n, x) for n >= 0: positions beyond the end clamp *)
Fixpoint insert_at (n : nat) (x : nat) (l : list nat) : list nat :=
  match n, l with
  | 0, _ => x :: l
  | S _, [] => [x]
  | S m, y :: t => y :: insert_at m x t
  end.

Definition list_eqb (a b : list nat) : bool :=
  if list_eq_dec Nat.eq_dec a b then true else false.

Lemma list_eqb_eq a b : list_eqb a b = true <-> a = b.
Proof. unfold list_eqb. destruct (list_eq_dec Nat.eq_dec a b); split; congruence. Qed.

Lemma mem_In x l : mem x l = true <-> In x l.
Proof.
  unfold mem. rewrite existsb_exists. split.
  - intros [y [H1 H2]]. apply Nat.eqb_eq in H2. subst. exact H1.
  - intros H. exists x. split; [exact H | apply Nat.eqb_refl].
Qed.

Lemma index_Some_In x l i : index x l = Some i -> In x l.
Proof.
  revert i. induction l as [|y t IH]; intros i H; simpl in *; [discriminate|].
  destruct (Nat.eqb x y) eqn:E.
  - apply Nat.eqb_eq in E. left. congruence.
  - destruct (index x t) eqn:E2; [|discriminate]. right. eapply IH. reflexivity.
Qed.

Lemma index_None_notin x l : index x l = None -> ~ In x l.
Proof.
  induction l as [|y t IH]; intros H; simpl in *; [tauto|].
  destruct (Nat.eqb x y) eqn:E; [discriminate|].
  destruct (index x t) eqn:E2; [discriminate|].
  apply Nat.eqb_neq in E. intros [H1|H1]; [congruence|]. apply IH; auto.
Qed.

Lemma In_index x l : In x l -> exists i, index x l = Some i.
Proof.
  intros H. destruct (index x l) eqn:E; [eauto|].
  exfalso. eapply index_None_notin; eauto.
Qed.
