(* Result type: total models return Ok v or the kind of exception raised. *)
Inductive exn :=
| KeyError | ValueError | IndexError | TypeError | AssertionError
| FitKeyError | FitDataError
| ModelIncompleteError | ModelImplementationError | ModelImportError
| UnboundLocalError | OtherError.

Inductive res (A : Type) := Ok (a : A) | Err (e : exn).
Arguments Ok {A} a.
Arguments Err {A} e.

Definition bind {A B} (r : res A) (f : A -> res B) : res B :=
  match r with Ok a => f a | Err e => Err e end.
Notation "'do' x <- r ; k" := (bind r (fun x => k))
  (at level 200, x name, r at level 100, k at level 200).

Definition is_ok {A} (r : res A) : bool := match r with Ok _ => true | _ => false end.

Definition exn_eqb (a b : exn) : bool :=
  match a, b with
  | KeyError, KeyError | ValueError, ValueError | IndexError, IndexError
  | TypeError, TypeError | AssertionError, AssertionError
  | FitKeyError, FitKeyError | FitDataError, FitDataError
  | ModelIncompleteError, ModelIncompleteError
  | ModelImplementationError, ModelImplementationError
  | ModelImportError, ModelImportError
  | UnboundLocalError, UnboundLocalError | OtherError, OtherError => true
  | _, _ => false
  end.
