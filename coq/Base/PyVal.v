(* Value universe of fit settings, with Python `==` and truthiness.
   Floats carry their exact value (a rational) and the text that Python's
   str(float(x)) printed for them (the model does not re-implement
   shortest-round-trip printing; see DESIGN.md 3.3). *)
From Coq Require Import List String ZArith QArith Bool Ascii.
From Coq Require DecimalString.
Import ListNotations.
Local Close Scope Q_scope.
Local Open Scope string_scope.

Inductive xkind := XNaN | XPosInf | XNegInf.

Inductive pyval :=
| VNone
| VBool (b : bool)
| VInt (z : Z)
| VFloat (q : Q) (txt : string)
| VFloatX (k : xkind)
| VStr (s : string)
| VBytes (s : string)                  (* numpy array: dtype/shape tag ++ tobytes *)
| VList (l : list pyval)
| VTuple (l : list pyval)
| VDict (kvs : list (string * pyval))  (* dict / lmfit.Parameters, insertion order *)
| VParam (value vmax vmin vary expr : pyval) (name : string) (extra : pyval)
    (* extra = (brute_step, stderr, correl, init_value, user_data): the rest of
       Parameter.__getstate__ *)
| VOther (tag : nat).                  (* object with no encoding rule *)

(* induction principle that reaches into the nested lists *)
Section PyvalInd.
  Variable P : pyval -> Prop.
  Hypothesis HNone : P VNone.
  Hypothesis HBool : forall b, P (VBool b).
  Hypothesis HInt : forall z, P (VInt z).
  Hypothesis HFloat : forall q t, P (VFloat q t).
  Hypothesis HFloatX : forall k, P (VFloatX k).
  Hypothesis HStr : forall s, P (VStr s).
  Hypothesis HBytes : forall s, P (VBytes s).
  Hypothesis HList : forall l, Forall P l -> P (VList l).
  Hypothesis HTuple : forall l, Forall P l -> P (VTuple l).
  Hypothesis HDict : forall kvs, Forall (fun kv => P (snd kv)) kvs -> P (VDict kvs).
  Hypothesis HParam : forall a b c d e n x, P a -> P b -> P c -> P d -> P e -> P x -> P (VParam a b c d e n x).
  Hypothesis HOther : forall t, P (VOther t).

  Fixpoint pyval_ind' (v : pyval) : P v :=
    match v with
    | VNone => HNone
    | VBool b => HBool b
    | VInt z => HInt z
    | VFloat q t => HFloat q t
    | VFloatX k => HFloatX k
    | VStr s => HStr s
    | VBytes s => HBytes s
    | VList l => HList l ((fix go (l : list pyval) : Forall P l :=
                             match l with
                             | [] => Forall_nil _
                             | x :: t => Forall_cons _ (pyval_ind' x) (go t)
                             end) l)
    | VTuple l => HTuple l ((fix go (l : list pyval) : Forall P l :=
                             match l with
                             | [] => Forall_nil _
                             | x :: t => Forall_cons _ (pyval_ind' x) (go t)
                             end) l)
    | VDict kvs => HDict kvs ((fix go (l : list (string * pyval)) : Forall (fun kv => P (snd kv)) l :=
                             match l with
                             | [] => Forall_nil _
                             | x :: t => Forall_cons _ (pyval_ind' (snd x)) (go t)
                             end) kvs)
    | VParam a b c d e n x => HParam a b c d e n x (pyval_ind' a) (pyval_ind' b) (pyval_ind' c)
                                   (pyval_ind' d) (pyval_ind' e) (pyval_ind' x)
    | VOther t => HOther t
    end.
End PyvalInd.

(* ---- numbers -------------------------------------------------------------- *)
Definition num_of (v : pyval) : option Q :=
  match v with
  | VBool b => Some (if b then 1%Q else 0%Q)
  | VInt z => Some (inject_Z z)
  | VFloat q _ => Some q
  | _ => None
  end.

Definition xkind_eqb (a b : xkind) : bool :=
  match a, b with
  | XPosInf, XPosInf | XNegInf, XNegInf => true
  | _, _ => false            (* NaN != NaN *)
  end.

(* ---- association lists ---------------------------------------------------- *)
Fixpoint assoc {A} (k : string) (l : list (string * A)) : option A :=
  match l with
  | [] => None
  | (k', v) :: t => if String.eqb k k' then Some v else assoc k t
  end.

(* ---- Python == ------------------------------------------------------------ *)
(* fuel-free structural definition: nested fixpoints over the lists *)
Fixpoint py_eq (a b : pyval) {struct a} : bool :=
  let fix eq_list (la lb : list pyval) {struct la} : bool :=
      match la, lb with
      | [], [] => true
      | x :: ta, y :: tb => py_eq x y && eq_list ta tb
      | _, _ => false
      end in
  let fix sub_dict (da : list (string * pyval)) (db : list (string * pyval)) {struct da} : bool :=
      match da with
      | [] => true
      | (k, v) :: t =>
          match assoc k db with
          | Some w => py_eq v w && sub_dict t db
          | None => false
          end
      end in
  match a, b with
  | VNone, VNone => true
  | VFloatX k, VFloatX k' => xkind_eqb k k'
  | VStr s, VStr s' => String.eqb s s'
  | VBytes s, VBytes s' => String.eqb s s'
  | VList la, VList lb => eq_list la lb
  | VTuple la, VTuple lb => eq_list la lb
  | VDict da, VDict db => Nat.eqb (List.length da) (List.length db) && sub_dict da db
  | VParam v1 _ _ _ _ _ _, _ =>            (* lmfit Parameter.__eq__ compares the value *)
      match b with
      | VParam v2 _ _ _ _ _ _ => py_eq v1 v2
      | _ => py_eq v1 b
      end
  | VOther t, VOther t' => Nat.eqb t t'
  | _, _ =>
      match num_of a, num_of b with
      | Some x, Some y => Qeq_bool x y
      | _, _ => false
      end
  end.

Definition truthy (v : pyval) : bool :=
  match v with
  | VNone => false
  | VBool b => b
  | VInt z => negb (Z.eqb z 0)
  | VFloat q _ => negb (Qeq_bool q 0)
  | VFloatX _ => true
  | VStr s => negb (String.eqb s "")
  | VBytes _ => true
  | VList l | VTuple l => match l with [] => false | _ => true end
  | VDict d => match d with [] => false | _ => true end
  | VParam _ _ _ _ _ _ _ => true
  | VOther _ => true
  end.

(* ---- str(float(x)) for the number leaves ---------------------------------- *)
Definition z_text (z : Z) : string :=
  DecimalString.NilZero.string_of_int (Z.to_int z).

(* valid for |z| < 10^16 (beyond, Python switches to exponent notation);
   the guard is part of the model *)
Definition int_float_text (z : Z) : option string :=
  if (Z.abs z <? 10000000000000000)%Z then Some (z_text z ++ ".0") else None.

Definition xkind_text (k : xkind) : string :=
  match k with XNaN => "nan" | XPosInf => "inf" | XNegInf => "-inf" end.

(* ---- hex presentation layer used only by the correspondence files -------- *)
Definition hexdigit (c : ascii) : option N :=
  let n := N_of_ascii c in
  if (48 <=? n)%N && (n <=? 57)%N then Some (n - 48)%N
  else if (97 <=? n)%N && (n <=? 102)%N then Some (n - 87)%N
  else None.

Fixpoint of_hex (s : string) : string :=
  match s with
  | String a (String b t) =>
      match hexdigit a, hexdigit b with
      | Some x, Some y => String (ascii_of_N (16 * x + y)) (of_hex t)
      | _, _ => ""
      end
  | _ => ""
  end.
