(* Real-number helpers shared by the generated formulas and their specs. *)
From Coq Require Import Reals Lra.
Local Open Scope R_scope.

(* models have a parameter called R (tip radius): name the type differently *)
Notation real := Rdefinitions.R (only parsing).

(* Python's x ** y for a float base x >= 0 and a non-integer exponent y > 0:
   0.0 ** y = 0.0, whereas Coq's Rpower 0 y = 1 (ln 0 = 0 by convention).
   A negative base would be NaN in Python; every use is guarded by a contact
   mask or by the parameter bounds. *)
Definition ppow (x y : R) : R :=
  if Rle_dec x 0 then 0 else Rpower x y.

Lemma ppow_pos x y : 0 < x -> ppow x y = Rpower x y.
Proof. intros H. unfold ppow. destruct (Rle_dec x 0); [lra | reflexivity]. Qed.

Lemma ppow_0 y : ppow 0 y = 0.
Proof. unfold ppow. destruct (Rle_dec 0 0); [reflexivity | lra]. Qed.

Lemma ppow_nonneg x y : 0 <= ppow x y.
Proof.
  unfold ppow. destruct (Rle_dec x 0); [lra|]. left. unfold Rpower. apply exp_pos.
Qed.

Lemma Rpower_3_2 r : 0 < r -> Rpower r (3 / 2) = r * sqrt r.
Proof.
  intros H. replace (3 / 2) with (1 + / 2) by lra.
  rewrite Rpower_plus, Rpower_1, Rpower_sqrt by assumption. reflexivity.
Qed.

Lemma ppow_mult k r y : 0 < k -> 0 <= r -> ppow (k * r) y = Rpower k y * ppow r y.
Proof.
  intros Hk Hr. unfold ppow.
  destruct (Rle_dec r 0) as [H0|H0].
  - assert (r = 0) by lra. subst. rewrite Rmult_0_r.
    destruct (Rle_dec 0 0); [ring | lra].
  - assert (0 < k * r) by (apply Rmult_lt_0_compat; lra).
    destruct (Rle_dec (k * r) 0); [lra|].
    symmetry. apply Rpower_mult_distr; lra.
Qed.

Lemma ppow_mono x1 x2 y : 0 < y -> 0 <= x1 <= x2 -> ppow x1 y <= ppow x2 y.
Proof.
  intros Hy [H1 H2]. unfold ppow.
  destruct (Rle_dec x1 0); destruct (Rle_dec x2 0); try lra.
  - left. unfold Rpower. apply exp_pos.
  - apply Rle_Rpower_l; lra.
Qed.
