(* Property C13 -- theorems only. *)
From Coq Require Import Reals List.
From NV Require Import Base.RealExtra Gen.ModelFuncs Model.Wrapper Proofs.ScalingP Proofs.WrapperP
     Proofs.WeightsP Proofs.MonotoneP.
Import ListNotations.
Local Open Scope R_scope.

(* ---- the direction-agnostic default wrapper, for EVERY user function -------------- *)
Theorem C13_wrapper_length : forall (A : Type) ltb (f : list A -> list A) delta out,
  (forall l, length (f l) = length l) ->
  wrap A ltb f delta = Some out -> length out = length delta.
Proof. exact wrap_length. Qed.

Theorem C13_wrapper_model_sees_descending : forall (A : Type) (ltb : A -> A -> bool),
  (forall a b, ltb a b = true -> ltb b a = false) ->
  forall delta, ascending A ltb (seen_by_model A ltb delta) = false.
Proof. exact model_sees_descending. Qed.

Theorem C13_wrapper_calls_on_seen : forall (A : Type) ltb (f : list A -> list A) delta,
  delta <> [] ->
  wrap A ltb f delta =
  Some (if ascending A ltb delta then rev (f (seen_by_model A ltb delta))
        else f (seen_by_model A ltb delta)).
Proof. exact wrap_calls_on_seen. Qed.

Theorem C13_wrapper_pointwise : forall (A : Type) ltb (g : A -> A) delta, delta <> [] ->
  wrap A ltb (map g) delta = Some (map g delta).
Proof. exact wrap_pointwise. Qed.

(* ---- shipped models: shifting abscissa and contact point together ------------------ *)
Theorem C13_translate :
  (forall E R nu cp bl d s, m_hertz_para E R nu (cp + s) bl (d + s) = m_hertz_para E R nu cp bl d) /\
  (forall E a nu cp bl d s, m_hertz_cone E a nu (cp + s) bl (d + s) = m_hertz_cone E a nu cp bl d) /\
  (forall E a nu cp bl d s, m_hertz_pyr3s E a nu (cp + s) bl (d + s) = m_hertz_pyr3s E a nu cp bl d) /\
  (forall E R nu cp bl d s,
     m_sneddon_spher_approx E R nu (cp + s) bl (d + s) = m_sneddon_spher_approx E R nu cp bl d) /\
  (forall ES EL R nS nL t cp bl d s,
     m_power_layer_clifford_2009 ES EL R nS nL t (cp + s) bl (d + s)
     = m_power_layer_clifford_2009 ES EL R nS nL t cp bl d).
Proof.
  repeat split.
  - exact translate_para.
  - exact translate_cone.
  - exact translate_pyr.
  - exact translate_sneddon.
  - exact translate_clifford.
Qed.

Theorem C13_baseline_add :
  (forall E R nu cp bl d c, m_hertz_para E R nu cp (bl + c) d = m_hertz_para E R nu cp bl d + c) /\
  (forall E a nu cp bl d c, m_hertz_cone E a nu cp (bl + c) d = m_hertz_cone E a nu cp bl d + c) /\
  (forall E a nu cp bl d c, m_hertz_pyr3s E a nu cp (bl + c) d = m_hertz_pyr3s E a nu cp bl d + c) /\
  (forall E R nu cp bl d c,
     m_sneddon_spher_approx E R nu cp (bl + c) d = m_sneddon_spher_approx E R nu cp bl d + c) /\
  (forall ES EL R nS nL t cp bl d c,
     m_power_layer_clifford_2009 ES EL R nS nL t cp (bl + c) d
     = m_power_layer_clifford_2009 ES EL R nS nL t cp bl d + c).
Proof.
  repeat split.
  - exact baseline_para.
  - exact baseline_cone.
  - exact baseline_pyr.
  - exact baseline_sneddon.
  - exact baseline_clifford.
Qed.

Theorem C13_modulus_linear :
  (forall E R nu cp bl d l,
     m_hertz_para (l * E) R nu cp bl d - bl = l * (m_hertz_para E R nu cp bl d - bl)) /\
  (forall E a nu cp bl d l,
     m_hertz_cone (l * E) a nu cp bl d - bl = l * (m_hertz_cone E a nu cp bl d - bl)) /\
  (forall E a nu cp bl d l,
     m_hertz_pyr3s (l * E) a nu cp bl d - bl = l * (m_hertz_pyr3s E a nu cp bl d - bl)) /\
  (forall E R nu cp bl d l,
     m_sneddon_spher_approx (l * E) R nu cp bl d - bl
     = l * (m_sneddon_spher_approx E R nu cp bl d - bl)) /\
  (forall ES EL R nS nL t cp bl d l, l <> 0 -> ES <> 0 ->
     m_power_layer_clifford_2009 (l * ES) (l * EL) R nS nL t cp bl d - bl
     = l * (m_power_layer_clifford_2009 ES EL R nS nL t cp bl d - bl)).
Proof.
  repeat split.
  - exact modulus_para.
  - exact modulus_cone.
  - exact modulus_pyr.
  - exact modulus_sneddon.
  - exact modulus_clifford.
Qed.

(* force non-decreasing with indentation depth (d2 <= d1 is the deeper point):
   the three power laws here, the sphere series (depths up to R) and the layered
   model in C13_monotone_series_and_layered below *)
Theorem C13_monotone_powerlaws :
  (forall E R nu cp bl d1 d2, 0 <= E -> 0 < 1 - nu ^ 2 -> d2 <= d1 ->
     m_hertz_para E R nu cp bl d1 <= m_hertz_para E R nu cp bl d2) /\
  (forall E a nu cp bl d1 d2, 0 <= E -> 0 < 1 - nu ^ 2 -> 0 <= a < 90 -> d2 <= d1 ->
     m_hertz_cone E a nu cp bl d1 <= m_hertz_cone E a nu cp bl d2) /\
  (forall E a nu cp bl d1 d2, 0 <= E -> 0 < 1 - nu ^ 2 -> 0 <= a < 90 -> d2 <= d1 ->
     m_hertz_pyr3s E a nu cp bl d1 <= m_hertz_pyr3s E a nu cp bl d2).
Proof.
  repeat split.
  - exact monotone_para.
  - exact monotone_cone.
  - exact monotone_pyr.
Qed.

(* the truncated sphere series, for indentation depths up to the tip radius (beyond it the
   polynomial is not claimed), and the layered model for every depth.  Guards as the code
   has them: E_S > 0 (the code divides by it), t > 0, Poisson ratios within the parameter
   bounds [0, 0.5] make both Poisson factors positive. *)
Theorem C13_monotone_series_and_layered :
  (forall E R nu cp bl d1 d2, 0 <= E -> 0 < 1 - nu ^ 2 -> 0 < R -> d2 <= d1 -> cp - d2 <= R ->
     m_sneddon_spher_approx E R nu cp bl d1 <= m_sneddon_spher_approx E R nu cp bl d2) /\
  (forall ES EL R nuS nuL t cp bl d1 d2, 0 < ES -> 0 <= EL -> 0 < t ->
     0 <= nuS <= 1 / 2 -> 0 <= nuL <= 1 / 2 -> d2 <= d1 ->
     m_power_layer_clifford_2009 ES EL R nuS nuL t cp bl d1
     <= m_power_layer_clifford_2009 ES EL R nuS nuL t cp bl d2).
Proof.
  split.
  - exact monotone_sneddon.
  - exact monotone_clifford_bounds.
Qed.

(* continuity at contact with an explicit modulus (power laws) *)
Theorem C13_continuous_at_contact :
  (forall E R nu cp bl d, 0 <= cp - d <= 1 ->
     Rabs (m_hertz_para E R nu cp bl d - bl) <= Rabs (4 / 3 * E / (1 - nu ^ 2) * sqrt R) * (cp - d)) /\
  (forall E a nu cp bl d, 0 <= cp - d <= 1 ->
     Rabs (m_hertz_cone E a nu cp bl d - bl)
     <= Rabs (2 * tan (a * PI / 180) / PI * E / (1 - nu ^ 2)) * (cp - d)) /\
  (forall E a nu cp bl d, 0 <= cp - d <= 1 ->
     Rabs (m_hertz_pyr3s E a nu cp bl d - bl)
     <= Rabs (8887 / 10000 * tan (a * PI / 180) * E / (1 - nu ^ 2)) * (cp - d)).
Proof.
  repeat split.
  - exact contact_para.
  - exact contact_cone.
  - exact contact_pyr.
Qed.

(* ... and for the sphere series (depth up to min(R, 1)) and the layered model (the Hertz
   law of the stiffer material bounds the force) *)
Theorem C13_continuous_at_contact_series_and_layered :
  (forall E R nu cp bl d, 0 < R -> 0 <= cp - d <= 1 -> cp - d <= R ->
     Rabs (m_sneddon_spher_approx E R nu cp bl d - bl)
     <= Rabs (4 / 3 * E / (1 - nu ^ 2) * sqrt R) * (cp - d)) /\
  (forall ES EL R nuS nuL t cp bl d, 0 < ES -> 0 <= EL -> 0 < t ->
     0 <= nuS <= 1 / 2 -> 0 <= nuL <= 1 / 2 -> 0 <= cp - d <= 1 ->
     Rabs (m_power_layer_clifford_2009 ES EL R nuS nuL t cp bl d - bl)
     <= 4 / 3 * sqrt R * Rmax ES EL * (cp - d)).
Proof.
  split.
  - exact contact_sneddon.
  - exact contact_clifford_bounds.
Qed.

(* default residual = (data - model) * contact-point weights *)
Theorem C13_default_residual : forall f cp wd delta y,
  residual_pt f cp wd true delta y = (y - f delta) * cp_weight cp wd delta /\
  residual_pt f cp wd false delta y = y - f delta.
Proof. intros. split; reflexivity. Qed.
