(* Property C10 -- theorems only, over the reference model Model/Heap.v: object graphs
   with identities, API calls that copy, in-place edits by the caller and by the
   library. *)
From Coq Require Import List Bool Arith.
From NV Require Import Model.Heap Proofs.HeapP.
Import ListNotations.

(* over ALL histories of copying API calls, caller edits, library writes and new caller
   objects: no identity is shared between library state and caller objects *)
Theorem C10_separation : forall ops, forallb good ops = true ->
  Sep (run empty ops) /\ shared (run empty ops) = [].
Proof.
  intros ops Hg. split.
  - exact (proj2 (inv_run ops empty Hg (proj1 inv_empty) (proj2 inv_empty))).
  - apply reachable_separated. exact Hg.
Qed.

(* the library never modifies an object handed to it (or any other caller object):
   after a storing call, a returning call or a library write, every object the
   caller held is what it was *)
Theorem C10_no_mutation : forall w o, Sep w ->
  match o with Mutate _ _ => False | CallStoreRef _ | CallReturnRef _ => False | _ => True end ->
  firstn (length (caller w)) (caller (step w o)) = caller w.
Proof. exact lib_never_mutates_caller. Qed.

(* an in-place edit by the caller never changes library state *)
Theorem C10_caller_edit_keeps_library : forall w i f, Sep w ->
  lib (step w (Mutate i f)) = lib w.
Proof. exact caller_edit_keeps_lib. Qed.

(* taken by value: the stored argument keeps the value it had at the time of the
   call, whatever the caller does afterwards (so a later call with the edited object
   is compared against the OLD value: the change is noticed) *)
Theorem C10_by_value : forall w k a ops, Fresh w -> Sep w ->
  nth_error (caller w) k = Some a -> forallb caller_op ops = true ->
  lib_values (run (step w (CallStore k)) ops) = lib_values w ++ [erase a].
Proof. exact by_value. Qed.

(* a returned object is detached from library state *)
Theorem C10_returned_copy_detached : forall w j ops, Fresh w -> Sep w ->
  forallb caller_op ops = true ->
  lib (run (step w (CallReturn j)) ops) = lib w.
Proof. exact returned_copy_detached. Qed.

(* non-vacuity / necessity: keeping or handing out the object itself breaks it *)
Theorem C10_storing_a_reference_refuted :
  let w := run empty [CallerNew [(0, 7, 0)]; CallStoreRef 0; Mutate 0 (fun _ => 9)] in
  shared w <> [] /\ lib_values w = [[(9, 0)]] /\
  lib_values (run empty [CallerNew [(0, 7, 0)]; CallStore 0; Mutate 0 (fun _ => 9)]) = [[(7, 0)]].
Proof. exact storing_a_reference_refuted. Qed.

Theorem C10_returning_a_reference_refuted :
  let w := run empty [CallerNew [(0, 7, 0)]; CallStore 0; CallReturnRef 0; Mutate 1 (fun _ => 9)] in
  shared w <> [] /\ lib_values w = [[(9, 0)]].
Proof. exact returning_a_reference_refuted. Qed.
