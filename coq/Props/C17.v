(* Property C17 -- theorems only (R instance of Model/Features.v; the exact rational
   instance of the same definitions is executed against nanite.rate.features). *)
From Coq Require Import String.
From Coq Require Import List Bool Arith Reals.
From NV Require Import Base.Exn Gen.Tables Model.FitCore Model.Steps Model.Features
                       Proofs.FitCoreP Proofs.StepsP Proofs.PocP Proofs.FeaturesP Proofs.FeaturesMoreP Model.FeaturesG Proofs.FeaturesGP Model.FeaturesG2 Proofs.FeaturesG2P.
Import ListNotations.
Local Open Scope R_scope.

(* without a successful fit (or without a contact point among the fitted parameters)
   every fit-dependent feature is NaN, never an error; with empty settings all are *)
Theorem C17_unfitted_nan : forall (A : Type) s (v : option A),
  (is_fitted s = false -> guard_cp s v = None) /\
  (has_cp_param s = false -> guard_cp s v = None) /\
  (fp_nonempty s = false -> guard_valid s v = None /\ guard_cp s v = None) /\
  (fp_nonempty s = true -> fp_success s = true -> has_cp_param s = true -> guard_cp s v = v).
Proof.
  intros A s v. split; [apply unfitted_nan|]. split; [apply no_cp_param_nan|].
  split; [apply empty_settings_nan | apply fitted_value].
Qed.

(* the table of feature names discovered in the current tree is strictly sorted *)
Theorem C17_table_sorted :
  ForallOrdPairs (fun a b => String.ltb a b = true) feature_names_all.
Proof. apply fop_b_sound. vm_compute. reflexivity. Qed.

(* names come back in sorted order, each once, of the requested type, restricted to
   the requested names; an unknown name is a ValueError *)
Theorem C17_order : forall which names l,
  select_names feature_names_all which names = Ok l ->
  ForallOrdPairs (fun a b => String.ltb a b = true) l /\
  (forall f, In f l -> In f (names_of_type feature_names_all which)) /\
  (forall ns, names = Some ns -> ns <> [] ->
     forall f, In f l <-> In f (names_of_type feature_names_all which) /\ In f ns).
Proof. intros which names l. apply select_names_spec. exact C17_table_sorted. Qed.

Theorem C17_unknown_name : forall table which n ns,
  existsb (String.eqb n) table = false -> select_names table which (Some (n :: ns)) = Err ValueError.
Proof. exact select_names_unknown. Qed.

(* binary features are booleans by construction of the model (option bool); fraction-type
   features lie in [0, 1] *)
Theorem C17_fraction : forall cp x, x <> [] -> 0 <= r_apr_size cp x <= 1.
Proof. exact apr_size_range. Qed.

Theorem C17_fraction_counts : forall p q : nat, (0 < p + q)%nat -> 0 <= INR p / (INR p + INR q) <= 1.
Proof. exact count_fraction_range. Qed.

(* magnitude-type features: c * log(1 + v) >= 0 for v >= 0, and the modelled cores are
   >= 0 whenever the approach force reaches positive values *)
Theorem C17_magnitude : forall c v, 0 <= c -> 0 <= v -> 0 <= finish c v.
Proof. exact finish_nonneg. Qed.

Theorem C17_magnitude_apr_sum : forall cp x y res, x <> [] -> 0 < r_list_max y ->
  0 <= r_apr_sum_core cp x y res.
Proof. exact apr_sum_core_nonneg. Qed.

Theorem C17_magnitude_idt_sum : forall cp x y fit v, r_list_max y <> r_list_min y ->
  r_idt_sum_core cp x y fit = Some v -> 0 <= v.
Proof. exact idt_sum_core_nonneg. Qed.

(* independence of the force unit (force, fit and residuals times k > 0); the features
   that do not read the force at all are trivially independent *)
Theorem C17_scale_invariant_apr_sum : forall k cp x y res, 0 < k -> x <> [] -> y <> [] ->
  r_list_max y <> 0 ->
  r_apr_sum_core cp x (map (fun v => k * v) y) (map (fun v => k * v) res) = r_apr_sum_core cp x y res.
Proof. exact apr_sum_core_scale. Qed.

Theorem C17_scale_invariant_idt_sum : forall k cp x y fit, 0 < k -> y <> [] ->
  r_list_max y <> r_list_min y ->
  r_idt_sum_core cp x (map (fun v => k * v) y) (map (fun v => k * v) fit) = r_idt_sum_core cp x y fit.
Proof. exact idt_sum_core_scale. Qed.

(* the filter-free baseline / contact-point features: baseline variation (means of the first
   and last ten baseline residuals), baseline slope (least-squares line through the outer
   half of the baseline), curvature at the contact point (force minus the straight line
   between its extremes) *)
Theorem C17_scale_invariant_bln_variation : forall k cp x y res, 0 < k -> y <> [] ->
  r_list_max y <> 0 ->
  r_bln_variation_core cp x (map (fun v => k * v) y) (map (fun v => k * v) res)
  = r_bln_variation_core cp x y res.
Proof. exact bln_variation_core_scale. Qed.

Theorem C17_magnitude_bln_variation : forall cp x y res v, 0 < r_list_max y ->
  r_bln_variation_core cp x y res = Some v -> 0 <= v.
Proof. exact bln_variation_core_nonneg. Qed.

Theorem C17_scale_invariant_bln_slope : forall k cp x y res, 0 < k -> y <> [] ->
  r_list_max y <> 0 ->
  r_bln_slope_core cp x (map (fun v => k * v) y) (map (fun v => k * v) res)
  = r_bln_slope_core cp x y res.
Proof. exact bln_slope_core_scale. Qed.

Theorem C17_scale_invariant_cp_curvature : forall k cp x y, 0 < k -> y <> [] ->
  r_list_max y <> 0 ->
  r_cp_curvature_core cp x (map (fun v => k * v) y) = r_cp_curvature_core cp x y.
Proof. exact cp_curvature_core_scale. Qed.

(* the features that smooth with a gaussian filter before they count or sum gradients
   (Model/FeaturesG.v), for EVERY filter that commutes with positive factors *)
Theorem C17_scale_invariant_apr_flatness : forall gauss,
  (forall s k l, 0 < k -> gauss s (map (fun v => k * v) l) = map (fun v => k * v) (gauss s l)) ->
  forall k cp x res, 0 < k ->
  r_apr_flatness gauss cp x (map (fun v => k * v) res) = r_apr_flatness gauss cp x res.
Proof. exact apr_flatness_scale. Qed.

Theorem C17_fraction_apr_flatness : forall gauss cp x res p q v,
  r_flatness_counts gauss cp x res = Some (p, q) -> (0 < p + q)%nat ->
  r_apr_flatness gauss cp x res = Some v -> 0 <= v <= 1.
Proof. exact apr_flatness_range. Qed.

Theorem C17_scale_invariant_idt_monotony : forall gauss,
  (forall s k l, 0 < k -> gauss s (map (fun v => k * v) l) = map (fun v => k * v) (gauss s l)) ->
  forall k cp x y, 0 < k ->
  (forall g, g = r_np_gradient (gauss 2%nat (rows R (fun v => r_ltb v cp) x y)) ->
     r_tsum (filter (fun v => r_ltb 0 v) g) <> 0) ->
  r_idt_monotony_core gauss cp x (map (fun v => k * v) y) = r_idt_monotony_core gauss cp x y.
Proof. exact idt_monotony_core_scale. Qed.

(* spike count, spike area and the residual maxima (Model/FeaturesG2.v; oracles: the filter
   and the square root inside np.std, which over R is sqrt) *)
Theorem C17_scale_invariant_spikes_count : forall gauss,
  (forall s k l, 0 < k -> gauss s (map (fun v => k * v) l) = map (fun v => k * v) (gauss s l)) ->
  forall k cp x res, 0 < k ->
  r_spikes_count gauss cp x (map (fun v => k * v) res) = r_spikes_count gauss cp x res.
Proof. exact spikes_count_scale. Qed.

Theorem C17_scale_invariant_spike_area : forall gauss,
  (forall s k l, 0 < k -> gauss s (map (fun v => k * v) l) = map (fun v => k * v) (gauss s l)) ->
  forall k cp x y res, 0 < k -> y <> [] -> r_list_max y <> 0 ->
  r_spike_area_core gauss cp x (map (fun v => k * v) y) (map (fun v => k * v) res)
  = r_spike_area_core gauss cp x y res.
Proof. exact spike_area_core_scale. Qed.

Theorem C17_scale_invariant_maxima_75 : forall gauss,
  (forall s k l, 0 < k -> gauss s (map (fun v => k * v) l) = map (fun v => k * v) (gauss s l)) ->
  forall k cp x y fit, 0 < k -> y <> [] -> r_list_max y <> 0 ->
  r_maxima_75_core gauss cp x (map (fun v => k * v) y) (map (fun v => k * v) fit)
  = r_maxima_75_core gauss cp x y fit.
Proof. exact maxima_75_core_scale. Qed.
