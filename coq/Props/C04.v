(* Property C04 -- theorems only. *)
From Coq Require Import Reals List Arith.
From NV Require Import Base.RealExtra Gen.ModelFuncs Model.FitCore Proofs.WeightsP Proofs.FitCoreP
     Proofs.ScalingP Model.FitOutcome Proofs.FitOutcomeP Model.FitRelative Proofs.FitRelativeP Proofs.RelShapeP.
Import ListNotations.
Local Open Scope R_scope.

(* contact-point weights (generated from compute_contact_point_weights):
   0 at the contact point, rising linearly to 1 at the weighting distance,
   1 beyond, monotone in the distance, always within [0, 1] *)
Theorem C04_weights_linear : forall cp wd, 0 < wd ->
  cp_weight cp wd cp = 0 /\
  (forall delta, Rabs (delta - cp) <= wd -> cp_weight cp wd delta = Rabs (delta - cp) / wd) /\
  (forall delta, wd < Rabs (delta - cp) -> cp_weight cp wd delta = 1) /\
  (forall delta, 0 <= cp_weight cp wd delta <= 1) /\
  (forall d1 d2, Rabs (d1 - cp) <= Rabs (d2 - cp) -> cp_weight cp wd d1 <= cp_weight cp wd d2).
Proof.
  intros cp wd Hw. repeat split.
  - apply weight_at_cp; exact Hw.
  - intros; apply weight_inside; assumption.
  - intros; apply weight_outside; assumption.
  - apply weight_range; exact Hw.
  - apply weight_range; exact Hw.
  - intros; apply weight_monotone; assumption.
Qed.

(* residual column: (data - fit) times the weights; plain difference when
   weighting is off; zero at the generating parameters *)
Theorem C04_residual_column : forall f cp wd delta y,
  residual_pt f cp wd true delta y = (y - f delta) * cp_weight cp wd delta /\
  residual_pt f cp wd false delta y = y - f delta /\
  forall w, residual_pt f cp wd w delta (f delta) = 0.
Proof. intros. repeat split. intros w. apply residual_truth. Qed.

(* a contact point that is fixed is reported unchanged: (cp * k) / k = cp *)
Theorem C04_fixed_contact_point_kept : forall k cp, k <> 0 -> k * cp / k = cp.
Proof. exact unscale. Qed.

(* the too-few-points guard: a fit is attempted iff varied + 1 < points *)
Theorem C04_too_few_points : forall v n, enough_points v n = true <-> (v + 1 < n)%nat.
Proof. exact enough_points_spec. Qed.

(* what a fit of one or more passes (absolute range: one; `relative cp`: four;
   plateau search: many) leaves behind is decided by its last pass alone: if
   that pass could be done, exactly what the optimiser returned for it (the
   columns filled on the segment, NaN elsewhere); if not, NaN columns, success
   False and no parameters, chi-square or xmin/xmax -- whatever earlier passes
   or earlier fits had stored.  The optimiser is an oracle (every pass carries
   what it would return). *)
Theorem C04_outcome_is_last_pass : forall (P T : Type) seg (s : fstate P T) ps p,
  (enough_points (p_varied p) (p_points p) = true ->
     fit_outcome seg s (ps ++ [p]) = stored P T seg p) /\
  (enough_points (p_varied p) (p_points p) = false ->
     fit_outcome seg s (ps ++ [p]) = nothing P T seg).
Proof.
  intros P T seg s ps p. split.
  - exact (outcome_last_done P T seg s ps p).
  - exact (outcome_last_refused P T seg s ps p).
Qed.

Theorem C04_unsuccessful_leaves_nothing : forall (P T : Type) seg (s : fstate P T) ps,
  ps <> [] -> f_success (fit_outcome seg s ps) = false ->
  fit_outcome seg s ps = nothing P T seg.
Proof. exact unsuccessful_leaves_nothing. Qed.

Theorem C04_outcome_independent_of_history : forall (P T : Type) seg (s s' : fstate P T) ps,
  ps <> [] -> fit_outcome seg s ps = fit_outcome seg s' ps.
Proof. exact outcome_independent_of_history. Qed.

(* the final clean-up in fit_model is what makes this true: the fitter alone
   keeps the results of an earlier pass when the last one is refused *)
Theorem C04_cleanup_needed : forall (P T : Type) seg (s : fstate P T) p q,
  enough_points (p_varied p) (p_points p) = true ->
  enough_points (p_varied q) (p_points q) = false ->
  f_fitted (run_passes seg s [p; q]) = Some (o_params (p_opt p)).
Proof. exact run_passes_keeps_stale. Qed.

(* the columns: NaN outside the segment, the optimiser's values on it *)
Theorem C04_columns_on_segment : forall (T : Type) seg (v : list T),
  length (scatter seg v) = length seg /\
  (forall i, nth i seg false = false -> nth i (scatter seg v) None = None) /\
  (forall i d, nth i seg false = true -> length v = count seg ->
     nth i (scatter seg v) None = Some (nth (count (firstn i seg)) v d)) /\
  (forall i, nth i (@blank T seg) None = None).
Proof.
  intros T seg v. repeat split.
  - apply scatter_length.
  - intros i. apply scatter_outside.
  - intros i d. apply scatter_inside.
  - intros i. apply blank_nth.
Qed.

(* non-vacuity: a four-pass fit whose last pass is refused, after a good fit *)
Example C04_outcome_inhabited :
  let o n := mkO n n [n; n] [n; n] n n in
  let good n := mkP 2 10 (o n) in
  let s0 := stored nat nat [true; true; false] (good 9%nat) in
  fit_outcome [true; true; false] s0 [good 1; good 2; good 3; mkP 2 3 (o 4)]%nat
    = nothing nat nat [true; true; false] /\
  fit_outcome [true; true; false] s0 [good 1; mkP 2 3 (o 2); good 3]%nat
    = stored nat nat [true; true; false] (good 3%nat).
Proof. split; reflexivity. Qed.

(* the pass schedule of a contact-point-relative fit (Model/FitRelative.v: a
   first pass over the whole segment, then up to three passes anchored at the
   contact point fitted by the pass before, a refused pass ending the loop):
   the repaired loop never reads a contact point that was not fitted (no
   KeyError), for every earlier state, every first pass and every oracle of
   later passes; it performs at most four passes and what it leaves behind is
   the outcome model's result for those passes *)
Theorem C04_relative_fit_never_raises : forall (P T : Type) seg (next : P -> pass P T) s first,
  relative_fit seg next s first <> None.
Proof. exact relative_fit_total. Qed.

Theorem C04_relative_fit_is_outcome : forall (P T : Type) seg (next : P -> pass P T) s first,
  relative_fit seg next s first =
    Some (fit_outcome seg s (first :: rel_passes seg next 3 (one_pass seg s first))) /\
  (length (rel_passes seg next 3 (one_pass seg s first)) <= 3)%nat.
Proof.
  intros. split; [apply relative_fit_is_outcome | apply rel_passes_length].
Qed.

(* D33 (repaired by fix 5a6a0b1): the loop as it was read the fitted contact
   point whatever the pass before had done -- with a refused first pass on a
   curve without earlier results that is the KeyError *)
Theorem C04_unrepaired_loop_raised : forall (P T : Type) seg (next : P -> pass P T) s first,
  f_fitted s = None ->
  enough_points (p_varied first) (p_points first) = false ->
  relative_fit_old seg next s first = None.
Proof. exact old_loop_raises. Qed.

(* the predicate the correspondence check evaluates on the recorded passes of
   every relative fit (rel_shape: at most four, all but the last done, fewer
   than four only after a refusal) is what the loop model produces, for every
   earlier state, first pass and oracle of later passes *)
Theorem C04_relative_passes_have_shape : forall (P T : Type) seg (next : P -> pass P T)
    (s : fstate P T) (first : pass P T),
  rel_shape (map (vn P T) (first :: rel_passes seg next 3 (one_pass seg s first))) = true.
Proof. exact relative_passes_have_shape. Qed.

(* non-vacuity: a concrete relative fit over three points of a five-sample
   curve -- all four passes done; stopped after a refused second pass; and the
   hypotheses of C04_unrepaired_loop_raised met by an unfitted curve *)
Example C04_relative_inhabited :
  let seg := [true; true; true; false; false] in
  let o n := mkO n n [n; n; n] [n; n; n] n n in
  let fresh : fstate nat nat := mkF (blank seg) (blank seg) false None None None None in
  let all_done (n : nat) := mkP 2 10 (o (S n)) in
  let then_refused (n : nat) := mkP 2 3 (o (S n)) in
  relative_fit seg all_done fresh (mkP 2 10 (o 1%nat)) = Some (stored nat nat seg (all_done 3%nat)) /\
  relative_fit seg then_refused fresh (mkP 2 10 (o 1%nat)) = Some (nothing nat nat seg) /\
  length (rel_passes seg then_refused 3 (one_pass seg fresh (mkP 2 10 (o 1%nat)))) = 1%nat /\
  relative_fit_old seg all_done fresh (mkP 2 3 (o 1%nat)) = None /\
  relative_fit seg all_done fresh (mkP 2 3 (o 1%nat)) = Some (nothing nat nat seg).
Proof. repeat split; reflexivity. Qed.
