(* Property C04 -- theorems only. *)
From Coq Require Import Reals List Arith.
From NV Require Import Base.RealExtra Gen.ModelFuncs Model.FitCore Proofs.WeightsP Proofs.FitCoreP
     Proofs.ScalingP.
Local Open Scope R_scope.

(* contact-point weights (generated from compute_contact_point_weights):
   0 at the contact point, rising linearly to 1 at the weighting distance,
   1 beyond, monotone in the distance, always within [0, 1] *)
Theorem C04_weights_linear : forall cp wd, 0 < wd ->
  cp_weight cp wd cp = 0 /\
  (forall delta, Rabs (delta - cp) <= wd -> cp_weight cp wd delta = Rabs (delta - cp) / wd) /\
  (forall delta, wd < Rabs (delta - cp) -> cp_weight cp wd delta = 1) /\
  (forall delta, 0 <= cp_weight cp wd delta <= 1) /\
  (forall d1 d2, Rabs (d1 - cp) <= Rabs (d2 - cp) -> cp_weight cp wd d1 <= cp_weight cp wd d2).
Proof.
  intros cp wd Hw. repeat split.
  - apply weight_at_cp; exact Hw.
  - intros; apply weight_inside; assumption.
  - intros; apply weight_outside; assumption.
  - apply weight_range; exact Hw.
  - apply weight_range; exact Hw.
  - intros; apply weight_monotone; assumption.
Qed.

(* residual column: (data - fit) times the weights; plain difference when
   weighting is off; zero at the generating parameters *)
Theorem C04_residual_column : forall f cp wd delta y,
  residual_pt f cp wd true delta y = (y - f delta) * cp_weight cp wd delta /\
  residual_pt f cp wd false delta y = y - f delta /\
  forall w, residual_pt f cp wd w delta (f delta) = 0.
Proof. intros. repeat split. intros w. apply residual_truth. Qed.

(* a contact point that is fixed is reported unchanged: (cp * k) / k = cp *)
Theorem C04_fixed_contact_point_kept : forall k cp, k <> 0 -> k * cp / k = cp.
Proof. exact unscale. Qed.

(* the too-few-points guard: a fit is attempted iff varied + 1 < points *)
Theorem C04_too_few_points : forall v n, enough_points v n = true <-> (v + 1 < n)%nat.
Proof. exact enough_points_spec. Qed.
