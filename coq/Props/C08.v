(* Property C08 -- theorems only (R instance of Model/Poc.v; the binary64 instance of
   the same definitions is executed against nanite.poc). *)
From Coq Require Import ZArith String.
From Coq Require Import Reals List Arith Bool.
From NV Require Import Base.Exn Model.FitCore Model.Steps Model.Poc
                       Proofs.FitCoreP Proofs.StepsP Proofs.PocP.
Import ListNotations.
Local Open Scope R_scope.

(* only the part before the (first) force maximum is used; it is strictly shorter
   than the data, and clipping commutes with scaling/shifting the force *)
Theorem C08_clip : forall f, f <> [] ->
  r_clip f = firstn (r_argmax f) f /\ (length (r_clip f) < length f)%nat /\
  forall c s, 0 < c -> r_clip (map (aff c s) f) = map (aff c s) (r_clip f).
Proof.
  intros f Hf. split; [reflexivity|]. split; [apply clip_shorter; exact Hf|].
  intros c s Hc. apply clip_aff. exact Hc.
Qed.

(* ---- scale and shift invariance: force |-> c * force + s, c > 0 -------------------- *)
Theorem C08_invariant_deviation : forall c s f, 0 < c ->
  deviation_exact (map (aff c s) f) = deviation_exact f.
Proof. exact deviation_exact_aff. Qed.

Theorem C08_invariant_frechet : forall sA cA c s f, 0 < c -> r_list_max f <> r_list_min f ->
  r_frechet sA cA (map (aff c s) f) = r_frechet sA cA f.
Proof. exact frechet_aff. Qed.

(* the three piecewise fits: WHATEVER the optimiser NM does, it is handed the same
   normalised data and the same start index, and its answer is filtered identically *)
Theorem C08_invariant_fit_based : forall sA cA NM minsize c s f, 0 < c ->
  r_fit_based sA cA NM minsize (map (aff c s) f) = r_fit_based sA cA NM minsize f.
Proof. exact fit_based_aff. Qed.

(* gradient zero crossing, for every length-preserving filter that commutes with
   positive affine maps (a moving average does) *)
Theorem C08_invariant_gradient : forall UF,
  (forall k l, length (UF k l) = length l) ->
  (forall k c s l, 0 < c -> UF k (map (aff c s) l) = map (aff c s) (UF k l)) ->
  forall c s f, 0 < c -> r_gzc UF (map (aff c s) f) = r_gzc UF f.
Proof. intros UF H1 H2 c s f Hc. apply gzc_aff; assumption. Qed.

(* ---- validity of the returned index -------------------------------------------------- *)
Theorem C08_valid_deviation : forall avg f cp, r_deviation avg f = Some cp -> (cp < length f)%nat.
Proof. exact deviation_valid. Qed.

Theorem C08_valid_frechet : forall sA cA f,
  (forall cp, r_frechet sA cA f = Some cp -> (cp < length f)%nat) /\
  r_frechet sA cA [] = None.
Proof. intros. split; [apply frechet_valid | reflexivity]. Qed.

Theorem C08_valid_gradient : forall UF, (forall k l, length (UF k l) = length l) ->
  forall f cp, r_gzc UF f = Some cp -> (cp < length f)%nat.
Proof. intros UF H f cp. apply gzc_valid. exact H. Qed.

(* int() of a value in [0, n) is an index: hypothesis on the oracle's pair (x0, int x0) *)
Theorem C08_valid_fit_based : forall sA cA NM minsize f z,
  (forall y i x zz, NM y i = Some (x, zz) -> 0 <= x < INR (length f) ->
                    (0 <= zz < Z.of_nat (length f))%Z) ->
  r_fit_based sA cA NM minsize f = Some z -> (0 <= z < Z.of_nat (length f))%Z.
Proof. exact fit_based_valid. Qed.

(* ---- compute_poc: unknown method, estimate, fallback to the centre ------------------- *)
Theorem C08_unknown_method : forall tab est meth f, lookup meth tab = None ->
  r_compute_poc tab est meth f = Err ValueError.
Proof. exact compute_poc_unknown. Qed.

Theorem C08_estimate_returned : forall tab est meth f flag cp,
  lookup meth tab = Some flag ->
  est meth (if flag then r_clip f else f) = Ok (Some cp) ->
  r_compute_poc tab est meth f = Ok cp.
Proof. exact compute_poc_estimate. Qed.

Theorem C08_fallback : forall tab est meth f flag,
  lookup meth tab = Some flag ->
  let f' := if flag then r_clip f else f in
  est meth f' = Ok None ->
  r_compute_poc tab est meth f = Ok (Z.of_nat (length f' / 2)) /\
  (f <> [] -> (length f' / 2 < length f)%nat).
Proof. exact compute_poc_fallback. Qed.
