(* Property C06 -- theorems only (control part: what is remembered, when a
   request is executed or skipped; what each step computes is C07). *)
From Coq Require Import List String ZArith QArith Bool.
From NV Require Import Base.Exn Base.PyVal Gen.Tables Model.Curve
     Proofs.CurveP Proofs.CurveG Proofs.CurveC.
Import ListNotations.
Local Close Scope Q_scope.
Local Open Scope string_scope.

(* a rejected request (whatever the reason) is not remembered: the curve names
   no pipeline, raw data / empty pipeline are reported, rating and fit
   columns are gone ... *)
Theorem C06_rejected_not_remembered : forall s p q r orc s' out,
  apply_pre_x s p q r orc = (s', out, PFailed) ->
  dhas "preprocessing" (fp s') = false /\ dhas "preprocessing_options" (fp s') = false /\
  pre s' = VList [] /\ popts s' = VDict [] /\ rating s' = None /\ cols s' = false /\
  exists e, out = Raised e.
Proof. exact failed_forgets. Qed.

(* ... and therefore the next request -- in particular the same one -- is
   executed again, never skipped *)
Theorem C06_rejected_again : forall s p q r orc s' out p2 q2 r2 orc2,
  apply_pre_x s p q r orc = (s', out, PFailed) ->
  snd (apply_pre_x s' p2 q2 r2 orc2) <> PSkipped.
Proof.
  intros. apply unnamed_never_skips.
  destruct (failed_forgets _ _ _ _ _ _ _ H) as [H1 _]. exact H1.
Qed.

(* re-applying the pipeline that was just applied changes nothing at all *)
Theorem C06_reapply_identity : forall s p o r orc s' out,
  apply_pre_x s (Some p) (Some o) r orc = (s', out, PApplied) ->
  plain p -> plain o -> py_eq (VList [p; o]) (VList [p; o]) = true ->
  forall orc2, apply_pre_x s' (Some p) (Some o) false orc2 = (s', Done, PSkipped).
Proof. exact reapply_is_identity. Qed.

(* whenever a request is executed the old results, columns and rating are
   dropped; when it is skipped the settings and columns are untouched *)
Theorem C06_execute_or_skip : forall s p q r orc s' out ps,
  apply_pre_x s p q r orc = (s', out, ps) ->
  (ps = PSkipped /\ fp s' = fp s /\ cols s' = cols s) \/
  (ps = PNone /\ (s' = s \/ dhas "hash" (fp s') = false)) \/
  ((ps = PApplied \/ ps = PFailed) /\ dhas "hash" (fp s') = false).
Proof. exact apply_pre_x_cases. Qed.
