(* Property C06 -- theorems only (control part: what is remembered, when a
   request is executed or skipped; what each step computes is C07). *)
From Coq Require Import List String ZArith QArith Bool.
From NV Require Import Base.Exn Base.PyVal Gen.Tables Model.Curve
     Proofs.CurveP Proofs.CurveG Proofs.CurveC Proofs.CurveH.
Import ListNotations.
Local Close Scope Q_scope.
Local Open Scope string_scope.

(* a rejected request (whatever the reason) is not remembered: the curve names
   no pipeline, raw data / empty pipeline are reported, rating and fit
   columns are gone ... *)
Theorem C06_rejected_not_remembered : forall s p q r orc s' out,
  apply_pre_x s p q r orc = (s', out, PFailed) ->
  dhas "preprocessing" (fp s') = false /\ dhas "preprocessing_options" (fp s') = false /\
  pre s' = VList [] /\ popts s' = VDict [] /\ rating s' = None /\ cols s' = false /\
  exists e, out = Raised e.
Proof. exact failed_forgets. Qed.

(* ... and therefore the next request -- in particular the same one -- is
   executed again, never skipped *)
Theorem C06_rejected_again : forall s p q r orc s' out p2 q2 r2 orc2,
  apply_pre_x s p q r orc = (s', out, PFailed) ->
  snd (apply_pre_x s' p2 q2 r2 orc2) <> PSkipped.
Proof.
  intros. apply unnamed_never_skips.
  destruct (failed_forgets _ _ _ _ _ _ _ H) as [H1 _]. exact H1.
Qed.

(* re-applying the pipeline that was just applied changes nothing at all *)
Theorem C06_reapply_identity : forall s p o r orc s' out,
  apply_pre_x s (Some p) (Some o) r orc = (s', out, PApplied) ->
  plain p -> plain o -> py_eq (VList [p; o]) (VList [p; o]) = true ->
  forall orc2, apply_pre_x s' (Some p) (Some o) false orc2 = (s', Done, PSkipped).
Proof. exact reapply_is_identity. Qed.

(* whenever a request is executed the old results, columns and rating are
   dropped; when it is skipped the settings and columns are untouched *)
Theorem C06_execute_or_skip : forall s p q r orc s' out ps,
  apply_pre_x s p q r orc = (s', out, ps) ->
  (ps = PSkipped /\ fp s' = fp s /\ cols s' = cols s) \/
  (ps = PNone /\ (s' = s \/ dhas "hash" (fp s') = false)) \/
  ((ps = PApplied \/ ps = PFailed) /\ dhas "hash" (fp s') = false).
Proof. exact apply_pre_x_cases. Qed.

(* an executed request leaves a curve that names exactly that request and
   shows neither a fit nor a rating -- in every state it arrives in *)
Theorem C06_applied_is_request : forall s p q r orc s' out,
  apply_pre_x s p q r orc = (s', out, PApplied) ->
  pre s' = match p with Some v => v | None => pre s end /\
  popts s' = match q with Some v => v | None => popts s end /\
  out = Done /\ rating s' = None /\ cols s' = false /\
  (exists u, o_pre orc = Ok u).
Proof. exact applied_is_request. Qed.

(* a request is skipped only if it compares equal to the remembered one, and
   then settings, columns, rating and details are untouched *)
Theorem C06_skipped_means_equal : forall s p q r orc s' out,
  apply_pre_x s p q r orc = (s', out, PSkipped) ->
  exists po, assoc "preprocessing_options" (fp s) = Some po /\
  py_eq (VList [dget "preprocessing" (fp s); po])
        (VList [match p with Some v => v | None => pre s end;
                match q with Some v => v | None => popts s end]) = true /\
  fp s' = fp s /\ cols s' = cols s /\ rating s' = rating s /\ details s' = details s /\
  out = Done.
Proof. exact skipped_means_equal. Qed.

(* history level: after ANY history of operations with ANY oracle answers, an
   explicit request decides alone which pipeline the data columns were
   produced by (ghost field gdata): the request itself when it is executed,
   the raw data when it is refused, and nothing changes when it is skipped *)
Theorem C06_request_decides_data : forall h g0 p o r orc,
  let g := grun g0 h in
  let g' := gstep g (ApplyPre (Some p) (Some o) r) orc in
  forall s' out ps, apply_pre_x (cs g) (Some p) (Some o) r orc = (s', out, ps) ->
  (ps = PApplied -> gdata g' = (p, o) /\ pre (cs g') = p /\ popts (cs g') = o /\ gres g' = None) /\
  (ps = PFailed -> gdata g' = raw_pipe /\ pre (cs g') = VList [] /\ popts (cs g') = VDict [] /\
                   gres g' = None) /\
  (ps = PSkipped -> gdata g' = gdata g /\ gres g' = gres g) /\
  (ps = PNone -> gdata g' = gdata g).
Proof. exact request_decides_data. Qed.
