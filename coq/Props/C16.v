(* Property C16 -- theorems only, over Model/Container.v (the container as two maps,
   save_hdf5 as its sequence of write calls, load_hdf5). *)
From Coq Require Import String.
From Coq Require Import List Bool Arith.
From NV Require Import Base.Exn Model.Container Proofs.ContainerP.
Import ListNotations.
Local Open Scope string_scope.

(* only ever grows: storing a curve -- or failing to, after ANY number n of write
   calls -- never alters another entry *)
Theorem C16_other_entries_untouched : forall fm s c u n id', id' <> cid c ->
  aget id' (hana (save_upto n fm s c u)) = aget id' (hana s).
Proof. exact other_entries_untouched. Qed.

(* a save that fails part-way never makes the container unreadable: whatever was
   loadable stays loadable after a save interrupted after ANY number of write calls
   (new curve, re-created incomplete group, re-save, refused save) *)
Theorem C16_crash_safe : forall fm s c u, (exists rs, load s = Ok rs) -> WFC c u ->
  forall n, exists rs', load (save_upto n fm s c u) = Ok rs'.
Proof.
  intros fm s c u H W n. apply loadable_iff. apply crash_safe; [apply loadable_iff; exact H | exact W].
Qed.

(* round trip: a complete save of a new curve stores every attribute and dataset
   with the value given, and the loader returns exactly the stored group *)
Theorem C16_roundtrip : forall fm s c u rs, WFC c u -> aget (cid c) (hana s) = None ->
  load (save fm s c u) = Ok rs ->
  snd (save_writes fm s c u) = None /\
  In {| rid := cid c; rattrs := gattrs (final_group c u); rdsets := gdsets (final_group c u) |} rs /\
  (forall k v, In (k, v) (cattrs c) -> aget k (gattrs (final_group c u)) = Some v) /\
  (forall k v, In (k, v) u -> aget k (gattrs (final_group c u)) = Some v) /\
  (forall n v, In (n, v) (cdsets c) -> aget n (gdsets (final_group c u)) = Some v) /\
  aget "fit" (gdsets (final_group c u)) = Some (cfit c).
Proof.
  intros fm s c u rs W Hn Hl. destruct (save_new fm s c u W Hn) as [H1 H2].
  split; [exact H1|]. split.
  - apply (load_returns_stored _ rs (cid c) (final_group c u) Hl H2).
    destruct (final_group_values c u W) as [_ [_ [_ VF]]]. unfold complete, ahas. rewrite VF. reflexivity.
  - apply final_group_values. exact W.
Qed.

(* storing the same curve with the same fit again updates the user fields only *)
Theorem C16_resave_user_only : forall fm s c u g old, (exists rs, load s = Ok rs) -> WFC c u ->
  aget (cid c) (hana s) = Some g -> complete g = true -> aget "fit" (gdsets g) = Some old ->
  fm (cfit c) old = true ->
  snd (save_writes fm s c u) = None /\
  exists g', aget (cid c) (hana (save fm s c u)) = Some g' /\ complete g' = true /\
             gdsets g' = gdsets g /\
             (forall k, ~ In k (map fst u) -> aget k (gattrs g') = aget k (gattrs g)).
Proof.
  intros fm s c u g old H. apply resave_user_only. apply loadable_iff. exact H.
Qed.

(* a different fit for an already stored curve is refused; the analysis part is
   untouched and, when the measurement file is already embedded, so is the file *)
Theorem C16_different_fit_refused : forall fm s c u g old,
  aget (cid c) (hana s) = Some g -> complete g = true -> aget "fit" (gdsets g) = Some old ->
  fm (cfit c) old = false ->
  snd (save_writes fm s c u) = Some ValueError /\ hana (save fm s c u) = hana s /\
  (data_loadable s (chash c) = true -> save fm s c u = s).
Proof. exact different_fit_refused. Qed.

(* an incomplete group (interrupted save) is ignored by the loader and by hdf5_rated *)
Theorem C16_incomplete_ignored : forall s id g, aget id (hana s) = Some g -> complete g = false ->
  load_group s (id, g) = Ok None /\ rated s id = None.
Proof.
  intros s id g Hg Hc. split.
  - unfold load_group. rewrite Hc. reflexivity.
  - unfold rated. rewrite Hg, Hc. reflexivity.
Qed.
