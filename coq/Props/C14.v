(* Property C14 -- theorems only.  step_table is regenerated from
   nanite.preproc.PREPROCESSORS on every run. *)
From Coq Require Import List Arith Bool Lia.
From NV Require Import Base.Exn Base.PyList Gen.Tables Model.Preproc Proofs.PreprocP Proofs.C14P.
Import ListNotations.

(* Every ordered selection without repetition of the available steps that
   contains the required steps of each member: autosort returns a permutation
   that passes the declarative order relation and the code's own check, is
   idempotent, and leaves an already valid order unchanged. *)
Theorem C14_autosort_all :
  forall l, NoDup l -> (forall x, In x l -> x < length step_table) ->
            autosort_good step_table l = true.
Proof. exact C14P.autosort_all. Qed.

(* the list of available steps is itself valid *)
Theorem C14_available_valid :
  exists s, available step_table = Ok s /\ ordered step_table s = true /\
            check_order step_table s = Ok tt /\ is_perm s (seq 0 (length step_table)) = true.
Proof. exact C14P.available_valid. Qed.

(* the code's order check is the declarative order relation *)
Theorem C14_check_order_spec :
  forall l, NoDup l -> (forall x, In x l -> x < length step_table) ->
            is_ok (check_order step_table l) = ordered step_table l.
Proof. exact C14P.check_order_spec. Qed.

(* apply accepts a list (any length, repetitions allowed) iff every
   identifier is known and its required steps occur earlier in the list *)
Theorem C14_apply_iff :
  forall l, apply_check step_table l = Ok tt <->
    (forall i pid, nth_error l i = Some pid ->
       exists m, nth_error step_table pid = Some m /\
                 forall r, In r (fst m) -> In r (firstn i l)).
Proof. exact C14P.apply_iff. Qed.

Theorem C14_apply_unknown_rejected :
  forall pre pid post, apply_check step_table pre = Ok tt ->
    length step_table <= pid ->
    apply_check step_table (pre ++ pid :: post) = Err KeyError.
Proof. exact C14P.apply_unknown. Qed.
