(* Property C03 -- theorems only.  M1 = coq/Model/Curve.v (control state of one
   curve); the numerical world enters through the oracle record of each step,
   over which every theorem is universally quantified. *)
From Coq Require Import List String ZArith QArith Bool Relations.
From NV Require Import Base.Exn Base.PyVal Gen.Tables Model.Curve
     Proofs.CurveP Proofs.CurveG Proofs.CurveC Proofs.C03P.
Import ListNotations.
Local Close Scope Q_scope.
Local Open Scope string_scope.

(* FitProperties.__setitem__ (any key but "hash"): the hash is never created,
   and it survives only if the settings were changed by at most one
   replacement of a value by an equal one (Python ==, parameter state) *)
Theorem C03_setitem_sound : forall d k v d',
  fp_setitem d k v = Ok d' -> k <> "hash" -> dhas "hash" d' = true ->
  dhas "hash" d = true /\
  (fp_reset d' = fp_reset d \/ eq_step (fp_reset d) (fp_reset d')).
Proof. exact fp_setitem_sound. Qed.

(* Every history over the operation alphabet, whatever the oracles answer:
   whenever results are visible (hash present) they were computed from the
   pipeline the data columns hold now and from settings equivalent to the
   stored ones, and the fit columns exist. *)
Theorem C03_valid : forall h,
  Forall (fun oo => allowed (fst oo)) h -> Inv (grun ginit h).
Proof. intros h H. apply run_Inv; [exact Inv_init | exact H]. Qed.

(* the instrumented run is the model run (ghost fields do not influence it) *)
Theorem C03_ghost_is_conservative : forall g o orc,
  cs (gstep g o orc) = fst (fst (step (cs g) o orc)).
Proof. exact gstep_obs. Qed.

(* repeating a fit with unchanged settings: no optimisation, nothing changes *)
Theorem C03_no_recompute : forall s orc,
  dhas "hash" (fp s) = true -> dhas "model_key" (fp s) = true ->
  dhas "params_initial" (fp s) = true -> is_none (dget "params_initial" (fp s)) = false ->
  fit_model s [] orc = (s, Done, 0).
Proof. exact no_recompute. Qed.

(* non-vacuity: a concrete history ends with results visible, and the
   hypotheses of C03_no_recompute hold there *)
Theorem C03_example_reaches_results :
  exists h, Forall (fun oo => allowed (fst oo)) h /\
    let s := cs (grun ginit h) in
    dhas "hash" (fp s) = true /\ dhas "model_key" (fp s) = true /\
    dhas "params_initial" (fp s) = true /\ is_none (dget "params_initial" (fp s)) = false.
Proof. exact example_history. Qed.

(* The alphabet restriction in `allowed` is necessary: editing the
   "preprocessing" key of the fit properties by hand makes the stored pipeline
   differ from the one the data (and hence the visible results) come from.
   Known finding C03/direct-edit-of-preprocessing-keys. *)
Theorem C03_direct_edit_refuted :
  exists h, let g := grun ginit h in
    dhas "hash" (fp (cs g)) = true /\
    py_eq (dget "preprocessing" (fp (cs g))) (fst (gdata g)) = false.
Proof. exact direct_edit_witness. Qed.
