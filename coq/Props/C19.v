(* Property C19 -- theorems only, over Model/Profile.v. *)
From Coq Require Import String ZArith.
From Coq Require Import List Bool Arith.
From NV Require Import Base.Exn Gen.Tables Model.Container Model.Preproc Model.Profile Proofs.ProfileP.
Import ListNotations.
Local Open Scope string_scope.

(* persistence: after ANY sequence of writes, reads and new profile objects on the same
   file, a read of key k yields the last value written for k, else what was there
   before (stored value or default) *)
Theorem C19_store : forall d, NoDup (map fst d) -> forall ops st k,
  value_of d (prun d st ops) k =
  match last_set ops k None with Some v => Some v | None => value_of d st k end.
Proof. exact prun_value. Qed.

(* ... where the sequences include writes that are refused because the value cannot be
   stored (PSetBad): such a write raises and leaves every key as it was *)
Theorem C19_refused_write_keeps : forall d st k,
  fst (pstep d st (PSetBad k)) = st /\ exists e, snd (pstep d st (PSetBad k)) = Err e.
Proof. exact refused_write_keeps. Qed.

Theorem C19_read : forall d st k,
  (forall v st', pget d st k = Ok (v, st') ->
     value_of d st k = Some v /\ forall k', value_of d st' k' = value_of d st k') /\
  (aget k d = None -> pget d st k = Err KeyError).
Proof. intros. split; [apply pget_spec | apply pget_unknown]. Qed.

Theorem C19_write : forall d st k v,
  (forall st', pset st k v = Ok st' ->
     value_of d st' k = Some v /\ forall k', k' <> k -> value_of d st' k' = value_of d st k') /\
  (key_ok k = false -> pset st k v = Err ValueError).
Proof. intros. split; [apply pset_spec | apply pset_rejects]. Qed.

(* fit parameters: the selected model's defaults overridden by exactly the stored
   value / vary entries, in the order of the model's parameters *)
Theorem C19_fit_params : forall md st,
  map fst (get_fit_params md st) = map fst md /\
  forall p dv dy, NoDup (map fst md) -> In (p, (dv, dy)) md ->
    exists v y, In (p, (v, y)) (get_fit_params md st) /\
      v = match aget (vkey p) st with Some x => x | None => dv end /\
      y = match aget (fkey p) st with Some x => x | None => dy end.
Proof. intros. split; [apply get_fit_params_names | intros; apply get_fit_params_spec; assumption]. Qed.

(* interactive setup: accepted answers are what is stored, and what is stored is
   accepted by the batch fit *)
Theorem C19_setup_range_type : forall cur ans rt, prompt_range_type cur ans = Some rt ->
  (ans = "" /\ rt = cur) \/ (ans <> "" /\ In rt fitter_range_types).
Proof. exact range_type_accepted. Qed.

Theorem C19_setup_menu : forall (A : Type) (items : list A) n,
  (forall x, menu_item items n = Some x ->
     (1 <= n <= Z.of_nat (length items))%Z /\ nth_error items (Z.to_nat (n - 1)) = Some x) /\
  ((n < 1 \/ Z.of_nat (length items) < n)%Z -> menu_item items n = None).
Proof. intros. split; [apply menu_item_spec | apply menu_item_rejects]. Qed.

Theorem C19_setup_interval : forall (T : Type) (cur : T * T) left right,
  fst (prompt_interval cur left right) = match left with Some l => l | None => fst cur end /\
  snd (prompt_interval cur left right) = match right with Some r => r | None => snd cur end.
Proof. intros. apply interval_spec. Qed.

(* a preprocessing selection that passes the setup's order check is accepted by
   preproc.apply (exhaustive over all duplicate-free selections of this tree's steps) *)
Theorem C19_setup_preproc_fit_accepts : forall l, NoDup l ->
  (forall x, In x l -> x < length step_table) ->
  check_order step_table l = Ok tt -> apply_check step_table l = Ok tt.
Proof. exact checked_applied. Qed.

(* ---- the legacy "key = value" format (Model/Legacy.v; names qualified: that model
   works on lists of characters) ------------------------------------------------------ *)
Require NV.Model.Legacy NV.Proofs.LegacyP.

(* "legacy profiles load to the same values as their JSON form": a profile whose entries
   the old format can hold (keys and value texts without surrounding white space, keys
   without "=", every value of the type the loader derives from DEFAULTS for its key,
   list elements without commas), written one "key = value" line per entry, loads to
   exactly these entries, in order -- for EVERY behaviour of float() / int() (oracles)
   that does not read the words "approach" / "retract" as integers, and every DEFAULTS
   table that types "segment" as an integer. *)
Theorem C19_legacy_roundtrip : forall isfloat isint kinds,
  isint (Legacy.Str "approach") = false /\ isint (Legacy.Str "retract") = false ->
  Legacy.klookup kinds (Legacy.Str "segment") = Some Legacy.KInt ->
  forall st, Forall (LegacyP.storable isfloat isint kinds) st -> NoDup (LegacyP.keys st) ->
  Legacy.load_legacy isfloat isint kinds (LegacyP.render st) = Ok st.
Proof. exact LegacyP.legacy_roundtrip. Qed.

Example C19_legacy_roundtrip_inhabited :
  Forall (LegacyP.storable LegacyP.ex_isfloat LegacyP.ex_isint LegacyP.ex_kinds) LegacyP.ex_profile
  /\ NoDup (LegacyP.keys LegacyP.ex_profile).
Proof. exact LegacyP.ex_storable. Qed.

(* the words of profiles older than 1.8.0 *)
Theorem C19_legacy_segment_words : forall isfloat isint kinds,
  Legacy.klookup kinds (Legacy.Str "segment") = Some Legacy.KInt ->
  isint (Legacy.Str "0") = true -> isint (Legacy.Str "1") = true ->
  Legacy.load_legacy isfloat isint kinds [Legacy.Str "segment = approach"]
    = Ok [(Legacy.Str "segment", Legacy.LInt (Legacy.Str "0"))] /\
  Legacy.load_legacy isfloat isint kinds [Legacy.Str "segment=retract "]
    = Ok [(Legacy.Str "segment", Legacy.LInt (Legacy.Str "1"))].
Proof. intros isfloat isint kinds. exact (LegacyP.legacy_segment_words isfloat isint kinds). Qed.

(* whatever text loads, every entry has the type the command line relies on (a "vary"
   entry is a bool -- get_fit_params asserts it --, a list holds at least two numbers or
   is a list of names, ...) *)
Theorem C19_legacy_typed : forall isfloat isint kinds lines out,
  Legacy.load_legacy isfloat isint kinds lines = Ok out ->
  Forall (fun e => LegacyP.typed isfloat isint kinds (fst e) (snd e)) out.
Proof. exact LegacyP.legacy_typed. Qed.

(* a key written twice in an old profile: the last line gives the value, the key keeps
   the place of its first line, every other key keeps its value *)
Theorem C19_legacy_last_wins : forall lines d k t,
  LegacyP.clean k -> LegacyP.noeq k -> LegacyP.clean t ->
  Legacy.pass1 lines = Ok d ->
  exists d', Legacy.pass1 (lines ++ [LegacyP.render_line k t])%list = Ok d' /\
    LegacyP.dget d' k = Some (LegacyP.seg_tr k t) /\
    (forall k2, k2 <> k -> LegacyP.dget d' k2 = LegacyP.dget d k2) /\
    LegacyP.keys d' = if existsb (Legacy.str_eqb k) (LegacyP.keys d)
                      then LegacyP.keys d else (LegacyP.keys d ++ [k])%list.
Proof. exact LegacyP.legacy_last_wins. Qed.
