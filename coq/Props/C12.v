(* Property C12 -- theorems only.  fp_default_keys and step_names are
   regenerated from nanite.fit.FP_DEFAULT / nanite.preproc on every run.
   The theorems speak about the md5 PRE-IMAGE (`preimage`); md5 itself is
   outside the model. *)
From Coq Require Import List String ZArith QArith Bool Permutation.
From NV Require Import Base.Exn Base.PyVal Model.HashEnc Proofs.StringP Proofs.HashEncP Proofs.C12P Proofs.C12TwiceP Proofs.C12FlipP Gen.Tables.
Import ListNotations.
Local Close Scope Q_scope.
Local Open Scope string_scope.

(* --- representation details do not matter --------------------------------- *)
Theorem C12_tuple_list : forall l, encode (VTuple l) = encode (VList l).
Proof. exact encode_tuple_eq. Qed.

Theorem C12_dict_order : forall kvs kvs' s,
  Permutation kvs kvs' -> NoDup (map fst kvs) ->
  encode (VDict kvs) = Ok s -> encode (VDict kvs') = Ok s.
Proof. exact dict_order. Qed.

Theorem C12_bool_int_float :
  encode (VBool true) = encode (VInt 1) /\ encode (VBool false) = encode (VInt 0) /\
  forall z q t, int_float_text z = Some t -> encode (VInt z) = encode (VFloat q t).
Proof.
  split; [reflexivity|]. split; [reflexivity|].
  intros z q t H. simpl. rewrite H. reflexivity.
Qed.

(* --- the documented don't-cares -------------------------------------------- *)
Theorem C12_dontcare_num_samples : forall fp fp' x y s s' e,
  agree_except "optimal_fit_num_samples" fp fp' ->
  fp_get fp "optimal_fit_edelta" = Ok e -> truthy e = false ->
  preimage fp_default_keys fp x y = Ok s -> preimage fp_default_keys fp' x y = Ok s' -> s = s'.
Proof. exact dontcare_num_samples. Qed.

Theorem C12_dontcare_range0 : forall fp fp' x y s s' e r r',
  agree_except "range_x" fp fp' ->
  fp_get fp "optimal_fit_edelta" = Ok e -> truthy e = true ->
  fp_get fp "range_x" = Ok r -> fp_get fp' "range_x" = Ok r' -> item1 r = item1 r' ->
  In "range_x" fp_default_keys ->
  preimage fp_default_keys fp x y = Ok s -> preimage fp_default_keys fp' x y = Ok s' -> s = s'.
Proof. exact dontcare_range0. Qed.

(* --- every other key is covered: a change of one key changes the pre-image
       exactly when that key's contribution encodes differently --------------- *)
Theorem C12_key_effect : forall fp fp' x y k s s' e,
  In k fp_default_keys -> special k = false ->
  agree_except k fp fp' ->
  fp_get fp "optimal_fit_edelta" = Ok e ->
  preimage fp_default_keys fp x y = Ok s -> preimage fp_default_keys fp' x y = Ok s' ->
  exists c c', contrib fp (truthy e) k = Ok c /\ contrib fp' (truthy e) k = Ok c' /\
               (s = s' <-> encode_all c = encode_all c').
Proof. exact key_effect. Qed.

Theorem C12_sensitive_scalar : forall fp fp' x y k s s' e v v',
  In k fp_default_keys -> ordinary k = true ->
  agree_except k fp fp' ->
  fp_get fp "optimal_fit_edelta" = Ok e ->
  fp_get fp k = Ok v -> fp_get fp' k = Ok v' ->
  preimage fp_default_keys fp x y = Ok s -> preimage fp_default_keys fp' x y = Ok s' ->
  (s = s' <-> encode v = encode v').
Proof. exact sensitive_scalar. Qed.

Theorem C12_sensitive_range_full : forall fp fp' x y s s' e v v',
  In "range_x" fp_default_keys ->
  agree_except "range_x" fp fp' ->
  fp_get fp "optimal_fit_edelta" = Ok e -> truthy e = false ->
  fp_get fp "range_x" = Ok v -> fp_get fp' "range_x" = Ok v' ->
  preimage fp_default_keys fp x y = Ok s -> preimage fp_default_keys fp' x y = Ok s' ->
  (s = s' <-> encode v = encode v').
Proof. exact sensitive_range_full. Qed.

(* a change of any data sample (arrays of equal byte length) *)
Theorem C12_sensitive_sample : forall fp x x' y y' s s',
  preimage fp_default_keys fp x y = Ok s -> preimage fp_default_keys fp x' y' = Ok s' ->
  String.length (match encode x with Ok t => t | _ => "" end) =
  String.length (match encode x' with Ok t => t | _ => "" end) ->
  String.length (match encode y with Ok t => t | _ => "" end) =
  String.length (match encode y' with Ok t => t | _ => "" end) ->
  (s = s' <-> encode x = encode x' /\ encode y = encode y').
Proof. exact sensitive_data. Qed.

(* step lists over the available identifiers encode injectively *)
Theorem C12_sensitive_steps :
  prefix_free_b step_names = true /\
  forall l1 l2, Forall (fun a => In a step_names) l1 -> Forall (fun a => In a step_names) l2 ->
    encode (VList (map VStr l1)) = encode (VList (map VStr l2)) -> l1 = l2.
Proof. split; [vm_compute; reflexivity | apply steps_injective; vm_compute; reflexivity]. Qed.

(* the two settings that enter the hash twice (in front of the data and again in the loop
   over FP_DEFAULT): still injective -- equal pre-images force equal encodings *)
Theorem C12_sensitive_twice_hashed : forall fp fp' x y k s s' v v',
  In k fp_default_keys -> (k = "preprocessing" \/ k = "preprocessing_options") ->
  agree_except k fp fp' ->
  fp_get fp k = Ok v -> fp_get fp' k = Ok v' ->
  preimage fp_default_keys fp x y = Ok s -> preimage fp_default_keys fp' x y = Ok s' ->
  (s = s' <-> encode v = encode v').
Proof. exact sensitive_twice. Qed.

Example C12_twice_hashed_keys_present :
  In "preprocessing" fp_default_keys /\ In "preprocessing_options" fp_default_keys.
Proof. split; vm_compute; tauto. Qed.

(* switching the plateau search on or off (the flag as a bool): the pre-images differ -- the
   flag itself is hashed right after the model key, before every setting whose contribution
   depends on it *)
Theorem C12_sensitive_plateau_flag : forall fp fp' x y b s s',
  agree_except "optimal_fit_edelta" fp fp' ->
  fp_get fp "optimal_fit_edelta" = Ok (VBool b) ->
  fp_get fp' "optimal_fit_edelta" = Ok (VBool (negb b)) ->
  preimage fp_default_keys fp x y = Ok s -> preimage fp_default_keys fp' x y = Ok s' ->
  s <> s'.
Proof. exact flip_changes. Qed.

(* --- structured values: the full statement is FALSE of the faithful model --- *)
(* changing ONE element of a list/tuple/parameter always shows ... *)
Theorem C12_sensitive_structured_partial : forall l1 a b l2 s s',
  encode (VList (l1 ++ a :: l2)) = Ok s -> encode (VList (l1 ++ b :: l2)) = Ok s' ->
  (s = s' <-> encode a = encode b).
Proof. exact element_sensitive. Qed.

(* ... but two elements changed together can cancel (known finding D7):
   range_x = [1.0, 23.0] and [1.02, 3.0] have the same pre-image "1.023.0" *)
Theorem C12_sensitive_structured_refuted :
  exists v v', py_eq v v' = false /\ encode v = encode v'.
Proof. exists (VList [f10; f230]), (VList [f102; f30]). exact structured_collision. Qed.
