(* Property C11 -- theorems only. *)
From Coq Require Import Reals.
From NV Require Import Base.RealExtra Gen.ModelFuncs Proofs.ScalingP Proofs.PowerLawP.
Local Open Scope R_scope.

(* Objective equivalence: with abscissa and contact point multiplied by k, the
   modulus E * k^(-p) reproduces the k = 1 force at every point.  Hence (with
   weighting off) the residual vector of the k-problem at (E k^-p, k cp, b)
   equals that of the 1-problem at (E, cp, b): minimisers correspond, the
   reported contact point (divided by k), baseline and fitted curve coincide
   and E_k = E_1 * k^(-p). *)
Theorem C11_objective_equiv_para : forall E R nu cp bl x k, 0 < k ->
  m_hertz_para (E * Rpower k (- (3 / 2))) R nu (k * cp) bl (k * x) = m_hertz_para E R nu cp bl x.
Proof. exact gcf_para. Qed.

Theorem C11_objective_equiv_cone : forall E alpha nu cp bl x k, 0 < k ->
  m_hertz_cone (E / k ^ 2) alpha nu (k * cp) bl (k * x) = m_hertz_cone E alpha nu cp bl x.
Proof. exact gcf_cone. Qed.

Theorem C11_objective_equiv_pyr3s : forall E alpha nu cp bl x k, 0 < k ->
  m_hertz_pyr3s (E / k ^ 2) alpha nu (k * cp) bl (k * x) = m_hertz_pyr3s E alpha nu cp bl x.
Proof. exact gcf_pyr. Qed.

(* reported xmin/xmax and contact point are divided by k again *)
Theorem C11_unscale : forall k x, k <> 0 -> k * x / k = x.
Proof. exact unscale. Qed.

(* the generic form of the clause "for models in which force is proportional
   to E times depth to the power p the reported modulus is the k = 1 modulus
   multiplied by k to the power -p": for EVERY prefactor c and EVERY real
   exponent p, the model  c * E * depth^p + baseline  (baseline off the
   indented part) has the same value at (E k^-p, k cp, k x) as at (E, cp, x) *)
Theorem C11_power_law_equiv : forall c p E cp bl x k, 0 < k ->
  power_law c p (E * Rpower k (- p)) (k * cp) bl (k * x) = power_law c p E cp bl x.
Proof. exact power_law_gcf. Qed.

(* ... and k^-p is the only factor that does this: a modulus that reproduces
   the k = 1 force at a single indented point is E * k^-p *)
Theorem C11_power_law_factor_unique : forall c p E E' cp bl x k,
  0 < k -> c <> 0 -> 0 < cp - x ->
  power_law c p E' (k * cp) bl (k * x) = power_law c p E cp bl x ->
  E' = E * Rpower k (- p).
Proof. exact power_law_gcf_unique. Qed.

(* the three shipped power-law models (regenerated from the source) are
   instances, with p = 3/2, 2, 2 *)
Theorem C11_shipped_power_laws : forall E R alpha nu cp bl x,
  m_hertz_para E R nu cp bl x = power_law (4 / 3 * sqrt R / (1 - nu ^ 2)) (3 / 2) E cp bl x /\
  m_hertz_cone E alpha nu cp bl x =
    power_law (2 * tan (alpha * PI / 180) / PI / (1 - nu ^ 2)) 2 E cp bl x /\
  m_hertz_pyr3s E alpha nu cp bl x =
    power_law (8887 / 10000 * tan (alpha * PI / 180) / (1 - nu ^ 2)) 2 E cp bl x.
Proof.
  intros. split; [apply para_is_power_law | split; [apply cone_is_power_law | apply pyr3s_is_power_law]].
Qed.
