(* Property C11 -- theorems only. *)
From Coq Require Import Reals.
From NV Require Import Base.RealExtra Gen.ModelFuncs Proofs.ScalingP.
Local Open Scope R_scope.

(* Objective equivalence: with abscissa and contact point multiplied by k, the
   modulus E * k^(-p) reproduces the k = 1 force at every point.  Hence (with
   weighting off) the residual vector of the k-problem at (E k^-p, k cp, b)
   equals that of the 1-problem at (E, cp, b): minimisers correspond, the
   reported contact point (divided by k), baseline and fitted curve coincide
   and E_k = E_1 * k^(-p). *)
Theorem C11_objective_equiv_para : forall E R nu cp bl x k, 0 < k ->
  m_hertz_para (E * Rpower k (- (3 / 2))) R nu (k * cp) bl (k * x) = m_hertz_para E R nu cp bl x.
Proof. exact gcf_para. Qed.

Theorem C11_objective_equiv_cone : forall E alpha nu cp bl x k, 0 < k ->
  m_hertz_cone (E / k ^ 2) alpha nu (k * cp) bl (k * x) = m_hertz_cone E alpha nu cp bl x.
Proof. exact gcf_cone. Qed.

Theorem C11_objective_equiv_pyr3s : forall E alpha nu cp bl x k, 0 < k ->
  m_hertz_pyr3s (E / k ^ 2) alpha nu (k * cp) bl (k * x) = m_hertz_pyr3s E alpha nu cp bl x.
Proof. exact gcf_pyr. Qed.

(* reported xmin/xmax and contact point are divided by k again *)
Theorem C11_unscale : forall k x, k <> 0 -> k * x / k = x.
Proof. exact unscale. Qed.
