(* Property C09 -- theorems only. *)
From Coq Require Import List String ZArith QArith Bool Reals.
From NV Require Import Base.Exn Base.PyVal Gen.Tables Model.Curve Model.Rater
     Proofs.CurveP Proofs.CurveG Proofs.CurveC Proofs.RaterP.
Import ListNotations.
Local Close Scope Q_scope.
Local Open Scope string_scope.

(* pseudo-regressor "none" (any capitalisation): -1, cache untouched *)
Theorem C09_none_regressor : forall s r ts nm ld orc,
  String.eqb (lower r) "none" = true ->
  rate_quality s (VStr r) ts nm ld orc = (s, Value (VInt (-1))).
Proof. exact rate_none_regressor. Qed.

(* a cached value is returned only while hash, regressor, training set,
   feature selection and LDA flag are all unchanged *)
Theorem C09_cache_hit_needs_equal_key : forall s r ts nm ld orc h rg t n l v,
  String.eqb (lower r) "none" = false ->
  rating s = Some (h, rg, t, n, l, v) ->
  (o_rate orc <> Ok v) ->
  rate_quality s (VStr r) ts nm ld orc = (s, Value v) ->
  py_eq h (curhash s) = true /\ py_eq rg (VStr r) = true /\ same_ts t ts = true /\
  py_eq n nm = true /\ py_eq l ld = true.
Proof. exact rate_cache_hit. Qed.

(* any difference in the key: the rater is asked, its answer is returned and
   remembered under the current key; a failing rater leaves the state alone *)
Theorem C09_cache_miss_recomputes : forall s r ts nm ld orc,
  String.eqb (lower r) "none" = false ->
  (match rating s with
   | None => True
   | Some (h, rg, t, n, l, _) =>
       py_eq h (curhash s) = false \/ py_eq rg (VStr r) = false \/ same_ts t ts = false \/
       py_eq n nm = false \/ py_eq l ld = false
   end) ->
  match o_rate orc with
  | Ok v => exists s', rate_quality s (VStr r) ts nm ld orc = (s', Value v) /\
                       rating s' = Some (curhash s, VStr r, ts, nm, ld, v) /\ fp s' = fp s
  | Err e => rate_quality s (VStr r) ts nm ld orc = (s, Raised e)
  end.
Proof. exact rate_cache_miss. Qed.

(* preprocessing that ran (or was rejected) forgets the rating *)
Theorem C09_cache_reset_on_preprocessing : forall s p q r orc s' out ps,
  apply_pre_x s p q r orc = (s', out, ps) -> ps = PApplied \/ ps = PFailed -> rating s' = None.
Proof. exact applied_forgets_rating. Qed.

(* the rater's own decision: exclusion criterion -> 0, undefined feature -> -1,
   otherwise the regressor's prediction *)
Theorem C09_decision : forall is_zero predict bs fs,
  (any_zero is_zero bs = true /\ rate_one is_zero predict bs fs = 0%R) \/
  (any_zero is_zero bs = false /\ any_nan fs = true /\ rate_one is_zero predict bs fs = (-1)%R) \/
  (any_zero is_zero bs = false /\ any_nan fs = false /\
   rate_one is_zero predict bs fs = predict (strip fs)).
Proof. exact rate_one_cases. Qed.

(* an averaging regressor (tree leaf = weighted mean of training responses;
   forest = mean of trees) predicts within the range of the training responses *)
Theorem C09_avg_in_range : forall lo hi ws trees,
  List.length ws = List.length trees ->
  Forall (fun w => (0 <= w)%R) ws -> (0 < total ws)%R ->
  Forall (fun t => List.length (fst t) = List.length (snd t) /\ Forall (fun w => (0 <= w)%R) (fst t) /\
                   Forall (fun y => (lo <= y <= hi)%R) (snd t) /\ (0 < total (fst t))%R) trees ->
  (lo <= wavg ws (map (fun t => wavg (fst t) (snd t)) trees) <= hi)%R.
Proof. exact wavg_of_wavg. Qed.
