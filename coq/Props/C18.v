(* Property C18 -- theorems only. *)
From Coq Require Import List String Bool.
From NV Require Import Base.Exn Model.Registry Proofs.RegistryP.
Import ListNotations.
Local Open Scope string_scope.

(* a module is accepted iff it is complete and consistent *)
Theorem C18_check_complete : forall m, module_check m = Ok tt <-> complete m.
Proof. exact check_complete. Qed.

(* and otherwise rejected with a model error, never with anything else *)
Theorem C18_rejected_with_model_error : forall m e, module_check m = Err e ->
  e = ModelIncompleteError \/ e = ModelImplementationError.
Proof. exact check_error_kind. Qed.

(* registering makes exactly that key available, with the default wrappers *)
Theorem C18_register_available : forall r m r', register r m = Ok r' ->
  complete m /\ rget (mkey m) r' = Some (autocomplete m) /\
  forall k, k <> mkey m -> rget k r' = rget k r.
Proof. exact register_available. Qed.

Theorem C18_autocomplete_defaults : forall m,
  has (autocomplete m) "model" = true /\ has (autocomplete m) "residual" = true.
Proof. exact autocomplete_defaults. Qed.

(* deregistering removes exactly that key *)
Theorem C18_deregister_exact : forall r k r', deregister r k = Ok r' ->
  rget k r' = None /\ forall k', k' <> k -> rget k' r' = rget k' r.
Proof. exact deregister_exact. Qed.

(* over all sequences: a failing operation changes nothing, sys.path is never
   changed, and the only errors are model / import errors (and KeyError for
   deregistering an unknown key) *)
Theorem C18_failure_preserves : forall st o st' e, rstep st o = (st', Some e) -> st' = st.
Proof. exact rstep_failure_preserves. Qed.

Theorem C18_syspath_restored : forall st o, snd (fst (rstep st o)) = snd st.
Proof. exact rstep_syspath. Qed.

Theorem C18_error_kinds : forall st o st' e, rstep st o = (st', Some e) ->
  e = ModelIncompleteError \/ e = ModelImplementationError \/ e = ModelImportError \/ e = KeyError.
Proof. exact rstep_error_kind. Qed.

(* ancillary values whose key matches a fit parameter seed it unless NaN *)
Theorem C18_ancillary_seeding : forall anc params k,
  (forall v old, NoDup (map fst anc) -> In (k, Some v) anc -> aget k params = Some old ->
     aget k (seed params anc) = Some v) /\
  ((forall v, ~ In (k, Some v) anc) -> aget k (seed params anc) = aget k params).
Proof.
  intros anc params k. split.
  - intros v old Hnd Hin Hold. eapply seed_sets; eauto.
  - apply seed_untouched.
Qed.
