(* Property C02 -- theorems only.  Gen/ModelFuncs.v is re-translated from the
   model_func bodies of the working tree on every run. *)
From Coq Require Import Reals.
From NV Require Import Base.RealExtra Gen.ModelFuncs Model.Formulas Proofs.FormulasP Proofs.SeriesIntervalP.
Local Open Scope R_scope.

(* each shipped model = its published closed form in contact + baseline,
   baseline elsewhere, for every parameter vector (the side conditions exclude
   only divisions by zero; the parameter bounds imply them) and every delta *)
Theorem C02_formula_hertz_para : forall E R nu cp bl delta, 1 - nu ^ 2 <> 0 ->
  m_hertz_para E R nu cp bl delta = piecewise (spec_hertz_para E R nu) cp bl delta.
Proof. exact formula_hertz_para. Qed.

Theorem C02_formula_hertz_cone : forall E alpha nu cp bl delta, 1 - nu ^ 2 <> 0 ->
  m_hertz_cone E alpha nu cp bl delta = piecewise (spec_hertz_cone E alpha nu) cp bl delta.
Proof. exact formula_hertz_cone. Qed.

Theorem C02_formula_hertz_pyr3s : forall E alpha nu cp bl delta, 1 - nu ^ 2 <> 0 ->
  m_hertz_pyr3s E alpha nu cp bl delta = piecewise (spec_hertz_pyr3s E alpha nu) cp bl delta.
Proof. exact formula_hertz_pyr3s. Qed.

Theorem C02_formula_sneddon_series : forall E R nu cp bl delta, 1 - nu ^ 2 <> 0 -> R <> 0 ->
  m_sneddon_spher_approx E R nu cp bl delta = piecewise (spec_sneddon_series E R nu) cp bl delta.
Proof. exact formula_sneddon. Qed.

Theorem C02_formula_clifford : forall E_S E_L R nu_S nu_L t cp bl delta,
  0 <= R -> t <> 0 -> 1 - 192 / 100 * nu_L ^ 2 <> 0 ->
  1 + 225 / 100 * ppow (clifford_xi E_S E_L R nu_S nu_L t (cp - delta)) (3 / 2) <> 0 ->
  m_power_layer_clifford_2009 E_S E_L R nu_S nu_L t cp bl delta
  = piecewise (spec_clifford E_S E_L R nu_S nu_L t) cp bl delta.
Proof. exact formula_clifford. Qed.

(* wherever the tip is not in contact the force is the baseline, for ALL
   other parameter values (no side condition) *)
Theorem C02_offcontact_exact :
  (forall E R nu cp bl delta, cp - delta <= 0 -> m_hertz_para E R nu cp bl delta = bl) /\
  (forall E a nu cp bl delta, cp - delta <= 0 -> m_hertz_cone E a nu cp bl delta = bl) /\
  (forall E a nu cp bl delta, cp - delta <= 0 -> m_hertz_pyr3s E a nu cp bl delta = bl) /\
  (forall E R nu cp bl delta, cp - delta <= 0 -> m_sneddon_spher_approx E R nu cp bl delta = bl) /\
  (forall ES EL R nS nL t cp bl delta, cp - delta <= 0 ->
      m_power_layer_clifford_2009 ES EL R nS nL t cp bl delta = bl).
Proof.
  repeat split.
  - exact offcontact_para.
  - exact offcontact_cone.
  - exact offcontact_pyr.
  - exact offcontact_sneddon.
  - exact offcontact_clifford.
Qed.

(* the series model in physical units is the unit series (R = 1, E/(1-nu^2) = 1) *)
Theorem C02_sphere_scaling : forall E R nu d, 0 < R -> 0 < d -> 1 - nu ^ 2 <> 0 ->
  spec_sneddon_series E R nu d = E / (1 - nu ^ 2) * R ^ 2 * series_unit (d / R).
Proof. exact sphere_scaling. Qed.

(* the truncated series stays within 1e-4 of the maximum force of the exact
   Sneddon sphere solution for all depths up to the tip radius: the exact
   solution is parametrised by the contact radius a; depths 0..R correspond to
   a in [0, a_R] with 0.8335 <= a_R <= 0.8336, and the exact force at depth R is
   at least F(0.8335) >= 1.19 (F is increasing in a) *)
Theorem C02_sneddon_series_close :
  (forall a, 0 <= a <= 8336 / 10000 ->
     Rabs (series_unit (sn_delta a) - sn_F a) <= 1 / 10000 * (119 / 100)) /\
  sn_delta (8335 / 10000) <= 1 <= sn_delta (8336 / 10000) /\
  119 / 100 <= sn_F (8335 / 10000).
Proof. split; [exact series_close | split; [exact depth_range | exact max_force_lower]]. Qed.
