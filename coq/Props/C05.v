(* Property C05 -- theorems only (R instance of Model/FitCore.v; the binary64
   instance of the same definitions is what the correspondence executes). *)
From Coq Require Import Reals List Arith.
From NV Require Import Base.Exn Model.FitCore Model.Rater Proofs.FitCoreP Model.Plateau Model.PlateauF Proofs.PlateauP Proofs.PlateauWitnessP.
Import ListNotations.
Local Open Scope R_scope.

(* exactly the points of the segment whose abscissa lies in the closed interval *)
Theorem C05_mask_exact : forall seg xs a b i,
  length seg = length xs -> a <> b -> (i < length seg)%nat ->
  (nth i (r_range_mask seg xs a b) false = true <->
   nth i seg false = true /\ Rmin a b <= nth i xs 0 <= Rmax a b).
Proof. exact mask_exact. Qed.

(* a zero-width interval selects the whole segment *)
Theorem C05_zero_width : forall seg xs a, r_range_mask seg xs a a = seg.
Proof. exact mask_zero_width. Qed.

(* reported xmin / xmax are the extreme abscissae of the used points, in
   uncorrected units *)
Theorem C05_xmin_xmax : forall k xs, 0 < k ->
  (forall m, reported_min R r_ltb Rmult Rdiv k xs = Some m ->
             In m xs /\ forall x, In x xs -> m <= x) /\
  (forall m, reported_max R r_ltb Rmult Rdiv k xs = Some m ->
             In m xs /\ forall x, In x xs -> x <= m).
Proof.
  intros k xs Hk. split; intros m H.
  - eapply reported_min_exact; eassumption.
  - eapply reported_max_exact; eassumption.
Qed.

(* relative cp: four passes; the first uses the whole segment, the last is
   anchored at the contact point the third pass returned (at convergence,
   cp4 = cp3, that is [cp + a, cp + b] for the reported cp) *)
Theorem C05_relative_anchor : forall FITCP seg xs a b,
  let ps := relative_passes R r_ltb r_eqb Rplus FITCP seg xs a b in
  let cp3 := FITCP (nth 2 ps []) in
  length ps = 4%nat /\ nth 0 ps [] = seg /\
  nth 3 ps [] = r_range_mask seg xs (a + cp3) (b + cp3).
Proof. exact relative_anchor. Qed.

(* plateau search: the depth grid has the requested number of samples, starts
   and ends at the requested depths and is strictly monotone *)
Theorem C05_plateau_grid : forall a b m,
  length (r_linspace a b (S (S m))) = S (S m) /\
  nth 0 (r_linspace a b (S (S m))) 0 = a /\ nth (S m) (r_linspace a b (S (S m))) 0 = b /\
  (a < b -> forall i j, (i < j <= S m)%nat ->
     nth i (r_linspace a b (S (S m))) 0 < nth j (r_linspace a b (S (S m))) 0).
Proof.
  intros a b m. split; [apply linspace_length|].
  destruct (linspace_ends a b m) as [H1 H2]. split; [exact H1|]. split; [exact H2|].
  intros Hab i j Hij. apply linspace_strict; assumption.
Qed.

(* the optimal depth (a grid point, or the mean of consecutive grid points)
   lies inside the scanned depths *)
Theorem C05_optimal_depth_in_grid : forall lo hi ys, ys <> [] ->
  Forall (fun y => lo <= y <= hi) ys ->
  lo <= wavg (map (fun _ => 1) ys) ys <= hi.
Proof. exact mean_in_range. Qed.

(* ---- plateau selection after the Butterworth filter (Model/Plateau.v; the filtered
   moduli are the input, scipy's filter is an oracle) ---------------------------------- *)
(* whatever scalar type and comparison: the selection returns a stretch of the scanned
   samples -- both ends exist and are in order and carry the same sequence label -- so the
   reported depth (the sample, or the mean over the stretch) lies inside the scanned depths
   (with C05_optimal_depth_in_grid) *)
Theorem C05_plateau_indices : forall (T : Type) add sub mul div abs ltb of_nat (zero : T) smooth i0 i1,
  Plateau.plateau T add sub mul div abs ltb of_nat zero smooth = Ok (i0, i1) ->
  (i0 <= i1 < length smooth)%nat /\
  exists labs k, length labs = length smooth /\ nth i0 labs (S k) = k /\ nth i1 labs (S k) = k.
Proof. exact PlateauP.plateau_indices. Qed.

(* kernel-checked witness of the observation in DESIGN.md (section 5): after the longest
   sequence was dropped for lying below the bin size, the label taken is an index into the
   SHORTENED list of counts -- here label 8 (four samples) instead of label 9 (fourteen).
   The depth still lies inside the scanned depths; no clause of C05 is violated. *)
Theorem C05_plateau_observation :
  Plateau.bincount PlateauWitnessP.ex_labs = [33; 5; 2; 3; 3; 3; 2; 3; 4; 14]%nat /\
  PlateauF.f_plateau PlateauWitnessP.smooth_example = Ok (54, 57)%nat /\
  Plateau.first_index 9 PlateauWitnessP.ex_labs 0 = Some 58%nat.
Proof.
  destruct PlateauWitnessP.plateau_pop_shifts_label as [H1 [_ [H3 [_ H5]]]].
  split; [exact H1 | split; [exact H5 | exact H3]].
Qed.

(* "ignore sequences with a modulus below the binning size": the sequence that is selected
   passed that test (the centre of its bin exceeds the bin size) unless the fallback label
   5 was taken *)
Theorem C05_plateau_selected_passes : forall (T : Type) ltb (zero : T) fuel counts labs bins iv st k,
  Plateau.select T ltb zero fuel counts labs bins iv st = Ok k ->
  k = 5%nat \/
  exists labid, Plateau.first_index k labs 0 = Some labid /\
                ltb st (nth (nth labid bins 0%nat) iv zero) = true.
Proof. exact PlateauP.select_spec. Qed.
