(* Property C20 -- theorems only, over Model/QMap.v and the progress arithmetic of
   nanite.read.load_data. *)
From Coq Require Import List Bool Arith Reals.
From NV Require Import Base.Exn Model.QMap Proofs.QMapP.
Import ListNotations.

(* progress over several files: if every file's own callback values are non-decreasing
   within [0, 1], so is the concatenated sequence callback((i + x) / n) *)
Theorem C20_progress : forall n files, length files = n ->
  Forall in01 files -> Forall nondecr files ->
  nondecr (all_progress n 0 files) /\ in01 (all_progress n 0 files).
Proof. intros n files Hl. apply progress_monotone. simpl. rewrite Hl. apply le_n. Qed.

(* a group refuses exactly the curves that have neither a spring constant nor a tip
   position; every other curve is appended at the end (order preserved) *)
Theorem C20_append_guard : forall g c,
  (has_spring_constant c = false /\ has_tip_position c = false -> append g c = Err OtherError) /\
  (has_spring_constant c = true \/ has_tip_position c = true -> append g c = Ok (g ++ [c])).
Proof. exact append_spec. Qed.

(* maps: the pixel of a coordinate holds the value of the LAST curve of the group with
   that coordinate; with pairwise distinct coordinates, curve i's value sits at its own
   pixel and every pixel without a curve is NaN *)
Theorem C20_pixel : forall (V : Type) xn yn coords (vals : list (option V)) x y,
  Forall (fun c => fst c < xn /\ snd c < yn) coords ->
  pixel V (map_grid V xn yn coords vals) x y = last_at V (combine coords vals) x y None.
Proof. exact map_grid_pixel. Qed.

Theorem C20_pixel_distinct : forall (V : Type) xn yn coords (vals : list (option V)),
  Forall (fun c => fst c < xn /\ snd c < yn) coords -> NoDup coords -> length coords = length vals ->
  (forall i c v, nth_error coords i = Some c -> nth_error vals i = Some v ->
     pixel V (map_grid V xn yn coords vals) (fst c) (snd c) = v) /\
  (forall x y, ~ In (x, y) coords -> pixel V (map_grid V xn yn coords vals) x y = None).
Proof.
  intros V xn yn coords vals Hc Hnd Hl. split.
  - intros i c v H1 H2. rewrite map_grid_pixel by exact Hc. eapply distinct_pixels; eauto.
  - intros x y Hn. rewrite map_grid_pixel by exact Hc. apply last_at_notin.
    assert (E : map fst (combine coords vals) = coords).
    { clear -Hl. revert vals Hl. induction coords as [|a l IH]; intros [|b vals] H; simpl in *;
        try reflexivity; try discriminate. f_equal. apply IH. congruence. }
    rewrite E. exact Hn.
Qed.

(* values: contact point in nm and modulus only for a successful fit, rating only when
   it belongs to the CURRENT fit; otherwise NaN *)
Theorem C20_values : forall (T : Type) (mul : T -> T -> T) (nano : T) (s : cstate T),
  (success T s = false -> feat_contact_point T mul nano s = None /\
                          feat_youngs_modulus T s = Ok None) /\
  (success T s = true -> feat_contact_point T mul nano s = Some (mul (fitted_cp T s) nano)) /\
  (forall h v, rating T s = Some (h, v) -> h <> cur_hash T s -> feat_rating T s = None) /\
  (forall v, rating T s = Some (cur_hash T s, v) -> feat_rating T s = Some v) /\
  (rating T s = None -> feat_rating T s = None).
Proof.
  intros T mul nano s. unfold feat_contact_point, feat_youngs_modulus, feat_rating.
  split; [intros ->; split; reflexivity|]. split; [intros ->; reflexivity|]. split; [|split].
  - intros h v -> Hne. apply Nat.eqb_neq in Hne. rewrite Hne. reflexivity.
  - intros v ->. rewrite Nat.eqb_refl. reflexivity.
  - intros ->. reflexivity.
Qed.
