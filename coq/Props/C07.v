(* Property C07 -- theorems only (R instance of Model/Steps.v; the binary64
   instance of the same definitions is executed against the implementation). *)
From Coq Require Import Reals List Arith Bool Lia.
From NV Require Import Base.Exn Model.FitCore Model.Steps Proofs.FitCoreP Proofs.StepsP.
Import ListNotations.
Local Open Scope R_scope.

(* tip-sample separation: tip position = measured height + force / spring constant *)
Theorem C07_tip_position : forall k hs fs i, length hs = length fs -> (i < length hs)%nat ->
  length (r_tip_position k hs fs) = length hs /\
  nth i (r_tip_position k hs fs) 0 = nth i hs 0 + nth i fs 0 / k.
Proof. intros. split; [apply tip_position_length | apply tip_position_nth]; assumption. Qed.

(* force offset: one constant is subtracted; it is the mean of the pre-contact force
   (so that the corrected pre-contact mean is zero), or the first sample when the
   estimated contact index is 0 *)
Theorem C07_force_offset : forall idp avg fs, fs <> [] ->
  length (r_force_offset idp avg fs) = length fs /\
  (forall i, (i < length fs)%nat ->
     nth i (r_force_offset idp avg fs) 0 - nth i fs 0 = - offset_of idp avg fs) /\
  ((0 < idp)%nat -> avg = mean (firstn idp fs) ->
     mean (firstn idp (r_force_offset idp avg fs)) = 0) /\
  (idp = 0%nat -> nth 0 (r_force_offset idp avg fs) 0 = 0).
Proof.
  intros idp avg fs Hne. split; [apply force_offset_length|]. split.
  - intros i Hi. apply force_offset_constant. exact Hi.
  - split.
    + intros Hp Ha. apply force_offset_mean_zero; assumption.
    + intros ->. apply force_offset_first_zero. exact Hne.
Qed.

(* tip offset: one constant is subtracted and the tip position is zero at the
   estimated contact index; an index outside the data is an error *)
Theorem C07_tip_offset : forall cpid tip,
  (forall out, r_tip_offset cpid tip = Ok out ->
     length out = length tip /\ nth cpid out 0 = 0 /\
     forall i, (i < length tip)%nat -> nth i out 0 - nth i tip 0 = - nth cpid tip 0) /\
  ((length tip <= cpid)%nat -> r_tip_offset cpid tip = Err IndexError).
Proof. intros. split; [apply tip_offset_spec | apply tip_offset_rejects]. Qed.

(* slope correction (any region: the first `stop` samples, anchored at `anchor`):
   inside the region the fitted line m*(x - x_anchor) is subtracted, outside nothing
   changes, and the correction vanishes at the anchor *)
Theorem C07_slope_region : forall m c stop anchor xs fs, length xs = length fs ->
  length (r_slope_upto m c stop anchor xs fs) = length fs /\
  (forall i, (i < length fs)%nat ->
     nth i (r_slope_upto m c stop anchor xs fs) 0 =
     if Nat.ltb i stop then nth i fs 0 - m * (nth i xs 0 - nth anchor xs 0) else nth i fs 0) /\
  ((anchor < length fs)%nat ->
     nth anchor (r_slope_upto m c stop anchor xs fs) 0 = nth anchor fs 0).
Proof.
  intros m c stop anchor xs fs H. split; [apply slope_upto_length; exact H|]. split.
  - intros i Hi. apply slope_upto_nth; assumption.
  - intros Ha. rewrite slope_upto_nth by assumption.
    destruct (Nat.ltb anchor stop); [ring | reflexivity].
Qed.

(* the three regions of the implementation are instances *)
Theorem C07_slope_regions_are_instances : forall m c idp idturn xs fs,
  r_slope_baseline m c idp xs fs = r_slope_upto m c idp (idp - 1) xs fs /\
  r_slope_approach m c idturn xs fs = r_slope_upto m c idturn (idturn - 1) xs fs /\
  r_slope_all m c idp xs fs = r_slope_upto m c (length fs) idp xs fs.
Proof. intros. repeat split. Qed.

(* no jump at the end of the corrected region: the step from the last corrected
   sample to the first untouched one is what it was *)
Theorem C07_slope_no_jump : forall m c stop xs fs, length xs = length fs ->
  (1 <= stop < length fs)%nat ->
  let new := r_slope_upto m c stop (stop - 1) xs fs in
  nth stop new 0 - nth (stop - 1) new 0 = nth stop fs 0 - nth (stop - 1) fs 0.
Proof.
  intros m c stop xs fs H Hs new. unfold new.
  rewrite !slope_upto_nth by (try assumption; lia).
  assert (E1 : Nat.ltb stop stop = false) by (apply Nat.ltb_irrefl).
  assert (E2 : Nat.ltb (stop - 1) stop = true) by (apply Nat.ltb_lt; lia).
  rewrite E1, E2. ring.
Qed.

(* the fitted linear trend is removed: when m is the least-squares slope of the first
   n samples (the baseline), the least-squares slope of the corrected samples is 0 *)
Theorem C07_slope_removes_trend : forall m c n stop anchor xs fs, length xs = length fs ->
  (n <= stop)%nat -> (n <= length fs)%nat -> ls_den (firstn n xs) <> 0 ->
  m = ls_slope (firstn n xs) (firstn n fs) ->
  ls_slope (firstn n xs) (firstn n (r_slope_upto m c stop anchor xs fs)) = 0.
Proof. exact slope_removes_trend. Qed.

(* segment discovery: one switch from approach (false) to retract (true), at idturn,
   and idturn is a farthest point (maximal normalised squared distance) *)
Theorem C07_split_single_switch : forall n t, (0 < t < n)%nat ->
  length (split n t) = n /\
  nth (t - 1) (split n t) false = false /\ nth t (split n t) false = true /\
  forall i, (S i < n)%nat -> nth i (split n t) false <> nth (S i) (split n t) false -> S i = t.
Proof. intros n t H. split; [apply split_length | apply split_single_switch; exact H]. Qed.

Theorem C07_turning_point_farthest : forall d, d <> [] ->
  (r_argmax d < length d)%nat /\
  forall j, (j < length d)%nat -> nth j d 0 <= nth (r_argmax d) d 0.
Proof. exact argmax_spec. Qed.

(* height smoothing, PARTIAL: the tie-breaking loop returns only pairwise distinct
   values of the same length; together with weak monotonicity (the exit condition of
   the window-doubling loop over scipy's median filter -- not modelled) that is
   strict monotonicity.  Exhausting max_iter is a ValueError. *)
Theorem C07_smooth_strict_partial : forall fuel s out, r_tiebreak fuel s = Ok out ->
  length out = length s /\ NoDup out /\
  ((forall i j, (i < j < length out)%nat -> nth i out 0 <= nth j out 0) ->
   forall i j, (i < j < length out)%nat -> nth i out 0 < nth j out 0) /\
  ((forall i j, (i < j < length out)%nat -> nth j out 0 <= nth i out 0) ->
   forall i j, (i < j < length out)%nat -> nth j out 0 < nth i out 0).
Proof.
  intros fuel s out H. split; [eapply tiebreak_length; exact H|].
  pose proof (tiebreak_distinct fuel s out H) as Hd. split; [exact Hd|]. split.
  - intros Hw. apply strict_of_weak_distinct; assumption.
  - intros Hw. apply strict_of_weak_distinct_desc; assumption.
Qed.

Theorem C07_smooth_exhausted : forall s, r_tiebreak 0 s = Err ValueError.
Proof. reflexivity. Qed.
