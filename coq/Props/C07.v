(* Property C07 -- theorems only (R instance of Model/Steps.v; the binary64
   instance of the same definitions is executed against the implementation). *)
From Coq Require Import Reals List Arith Bool Lia Lra.
From NV Require Import Base.Exn Model.FitCore Model.Steps Model.Poc Model.Median Proofs.FitCoreP Proofs.StepsP Proofs.MedianP Proofs.MedianWideP Proofs.TieP Proofs.TieStrictP Proofs.TieTermP Proofs.SmoothTermP.
Import ListNotations.
Local Open Scope R_scope.

(* tip-sample separation: tip position = measured height + force / spring constant *)
Theorem C07_tip_position : forall k hs fs i, length hs = length fs -> (i < length hs)%nat ->
  length (r_tip_position k hs fs) = length hs /\
  nth i (r_tip_position k hs fs) 0 = nth i hs 0 + nth i fs 0 / k.
Proof. intros. split; [apply tip_position_length | apply tip_position_nth]; assumption. Qed.

(* force offset: one constant is subtracted; it is the mean of the pre-contact force
   (so that the corrected pre-contact mean is zero), or the first sample when the
   estimated contact index is 0 *)
Theorem C07_force_offset : forall idp avg fs, fs <> [] ->
  length (r_force_offset idp avg fs) = length fs /\
  (forall i, (i < length fs)%nat ->
     nth i (r_force_offset idp avg fs) 0 - nth i fs 0 = - offset_of idp avg fs) /\
  ((0 < idp)%nat -> avg = mean (firstn idp fs) ->
     mean (firstn idp (r_force_offset idp avg fs)) = 0) /\
  (idp = 0%nat -> nth 0 (r_force_offset idp avg fs) 0 = 0).
Proof.
  intros idp avg fs Hne. split; [apply force_offset_length|]. split.
  - intros i Hi. apply force_offset_constant. exact Hi.
  - split.
    + intros Hp Ha. apply force_offset_mean_zero; assumption.
    + intros ->. apply force_offset_first_zero. exact Hne.
Qed.

(* tip offset: one constant is subtracted and the tip position is zero at the
   estimated contact index; an index outside the data is an error *)
Theorem C07_tip_offset : forall cpid tip,
  (forall out, r_tip_offset cpid tip = Ok out ->
     length out = length tip /\ nth cpid out 0 = 0 /\
     forall i, (i < length tip)%nat -> nth i out 0 - nth i tip 0 = - nth cpid tip 0) /\
  ((length tip <= cpid)%nat -> r_tip_offset cpid tip = Err IndexError).
Proof. intros. split; [apply tip_offset_spec | apply tip_offset_rejects]. Qed.

(* slope correction (any region: the first `stop` samples, anchored at `anchor`):
   inside the region the fitted line m*(x - x_anchor) is subtracted, outside nothing
   changes, and the correction vanishes at the anchor *)
Theorem C07_slope_region : forall m c stop anchor xs fs, length xs = length fs ->
  length (r_slope_upto m c stop anchor xs fs) = length fs /\
  (forall i, (i < length fs)%nat ->
     nth i (r_slope_upto m c stop anchor xs fs) 0 =
     if Nat.ltb i stop then nth i fs 0 - m * (nth i xs 0 - nth anchor xs 0) else nth i fs 0) /\
  ((anchor < length fs)%nat ->
     nth anchor (r_slope_upto m c stop anchor xs fs) 0 = nth anchor fs 0).
Proof.
  intros m c stop anchor xs fs H. split; [apply slope_upto_length; exact H|]. split.
  - intros i Hi. apply slope_upto_nth; assumption.
  - intros Ha. rewrite slope_upto_nth by assumption.
    destruct (Nat.ltb anchor stop); [ring | reflexivity].
Qed.

(* the three regions of the implementation are instances *)
Theorem C07_slope_regions_are_instances : forall m c idp idturn xs fs,
  r_slope_baseline m c idp xs fs = r_slope_upto m c idp (idp - 1) xs fs /\
  r_slope_approach m c idturn xs fs = r_slope_upto m c idturn (idturn - 1) xs fs /\
  r_slope_all m c idp xs fs = r_slope_upto m c (length fs) idp xs fs.
Proof. intros. repeat split. Qed.

(* no jump at the end of the corrected region: the step from the last corrected
   sample to the first untouched one is what it was *)
Theorem C07_slope_no_jump : forall m c stop xs fs, length xs = length fs ->
  (1 <= stop < length fs)%nat ->
  let new := r_slope_upto m c stop (stop - 1) xs fs in
  nth stop new 0 - nth (stop - 1) new 0 = nth stop fs 0 - nth (stop - 1) fs 0.
Proof.
  intros m c stop xs fs H Hs new. unfold new.
  rewrite !slope_upto_nth by (try assumption; lia).
  assert (E1 : Nat.ltb stop stop = false) by (apply Nat.ltb_irrefl).
  assert (E2 : Nat.ltb (stop - 1) stop = true) by (apply Nat.ltb_lt; lia).
  rewrite E1, E2. ring.
Qed.

(* the fitted linear trend is removed: when m is the least-squares slope of the first
   n samples (the baseline), the least-squares slope of the corrected samples is 0 *)
Theorem C07_slope_removes_trend : forall m c n stop anchor xs fs, length xs = length fs ->
  (n <= stop)%nat -> (n <= length fs)%nat -> ls_den (firstn n xs) <> 0 ->
  m = ls_slope (firstn n xs) (firstn n fs) ->
  ls_slope (firstn n xs) (firstn n (r_slope_upto m c stop anchor xs fs)) = 0.
Proof. exact slope_removes_trend. Qed.

(* segment discovery: one switch from approach (false) to retract (true), at idturn,
   and idturn is a farthest point (maximal normalised squared distance) *)
Theorem C07_split_single_switch : forall n t, (0 < t < n)%nat ->
  length (split n t) = n /\
  nth (t - 1) (split n t) false = false /\ nth t (split n t) false = true /\
  forall i, (S i < n)%nat -> nth i (split n t) false <> nth (S i) (split n t) false -> S i = t.
Proof. intros n t H. split; [apply split_length | apply split_single_switch; exact H]. Qed.

Theorem C07_turning_point_farthest : forall d, d <> [] ->
  (r_argmax d < length d)%nat /\
  forall j, (j < length d)%nat -> nth j d 0 <= nth (r_argmax d) d 0.
Proof. exact argmax_spec. Qed.

(* height smoothing, PARTIAL: the tie-breaking loop returns only pairwise distinct
   values of the same length; together with weak monotonicity (the exit condition of
   the window-doubling loop over scipy's median filter -- not modelled) that is
   strict monotonicity.  Exhausting max_iter is a ValueError. *)
Theorem C07_smooth_strict_partial : forall fuel s out, r_tiebreak fuel s = Ok out ->
  length out = length s /\ NoDup out /\
  ((forall i j, (i < j < length out)%nat -> nth i out 0 <= nth j out 0) ->
   forall i j, (i < j < length out)%nat -> nth i out 0 < nth j out 0) /\
  ((forall i j, (i < j < length out)%nat -> nth j out 0 <= nth i out 0) ->
   forall i j, (i < j < length out)%nat -> nth j out 0 < nth i out 0).
Proof.
  intros fuel s out H. split; [eapply tiebreak_length; exact H|].
  pose proof (tiebreak_distinct fuel s out H) as Hd. split; [exact Hd|]. split.
  - intros Hw. apply strict_of_weak_distinct; assumption.
  - intros Hw. apply strict_of_weak_distinct_desc; assumption.
Qed.

Theorem C07_smooth_exhausted : forall s, r_tiebreak 0 s = Err ValueError.
Proof. reflexivity. Qed.

(* the exit test of the window-doubling loop, |sum d| = sum |d| over the differences of
   neighbouring values, holds only for weakly monotone data ... *)
Theorem C07_smooth_exit_test : forall s,
  Rabs (rsum (diffs s)) = rsum (map Rabs (diffs s)) ->
  (forall i, (S i < length s)%nat -> nth i s 0 <= nth (S i) s 0) \/
  (forall i, (S i < length s)%nat -> nth (S i) s 0 <= nth i s 0).
Proof.
  intros s H. destruct (sum_abs_eq_one_sign _ H) as [Hp|Hn].
  - left. apply diffs_nonneg_monotone. exact Hp.
  - right. intros i Hi.
    assert (G : forall l, (forall d, In d (diffs l) -> d <= 0) ->
                forall i, (S i < length l)%nat -> nth (S i) l 0 <= nth i l 0).
    { clear. induction l as [|a l IH]; intros H i Hi; [simpl in Hi; lia|].
      destruct l as [|b l]; [simpl in Hi; lia|]. destruct i as [|i].
      - simpl. assert (b - a <= 0); [apply H; simpl; left; reflexivity | lra].
      - change (nth (S i) (a :: b :: l) 0) with (nth i (b :: l) 0).
        change (nth (S (S i)) (a :: b :: l) 0) with (nth (S i) (b :: l) 0).
        apply IH; [|simpl in *; lia]. intros d Hd. apply H. simpl. right. exact Hd. }
    apply G; assumption.
Qed.

(* ... whereas the test on central differences (np.gradient), which the code used
   before the repair a48a15a, accepts zigzagging data *)
Theorem C07_gradient_test_refuted :
  Forall (fun g => 0 < g) (Poc.np_gradient R Rminus Rdiv 2 zigzag) /\
  nth 2 zigzag 0 < nth 1 zigzag 0.
Proof. exact zigzag_gradient_positive. Qed.

(* ---- height smoothing: the median filter, the window-doubling loop, the whole
   function (Model/Median.v) ------------------------------------------------------------ *)
(* every output sample of the median filter is an input sample; the length is kept *)
Theorem C07_median_filter_selects : forall w l i, (0 < w)%nat -> (i < length l)%nat ->
  In (nth i (r_median_filter w l) 0) l /\ length (r_median_filter w l) = length l.
Proof. intros w l i Hw Hi. split; [exact (median_filter_In w l i Hw Hi) | exact (median_filter_length w l)]. Qed.

(* weakly monotone data pass the filter unchanged (increasing: any window;
   decreasing: odd windows, which is what the doubling w -> 2w+1 keeps) *)
Theorem C07_median_filter_monotone_identity :
  (forall w l, (0 < w)%nat ->
     (forall i j, (i < j < length l)%nat -> nth i l 0 <= nth j l 0) -> r_median_filter w l = l) /\
  (forall h l,
     (forall i j, (i < j < length l)%nat -> nth j l 0 <= nth i l 0) ->
     r_median_filter (2 * h + 1) l = l).
Proof. split; [exact median_filter_asc_id | exact median_filter_desc_id]. Qed.

(* the whole function: when it returns, the first loop stopped at some window with a
   weakly monotone filter output s, the second loop turned s into pairwise distinct
   values, and the number of samples is that of the input *)
Theorem C07_smooth_whole : forall m w data out, r_smooth m w data = Ok out ->
  length out = length data /\ NoDup out /\
  exists w' s, r_widen m w data = Ok (w', s) /\ s = r_median_filter w' data /\
    ((forall i, (S i < length s)%nat -> nth i s 0 <= nth (S i) s 0) \/
     (forall i, (S i < length s)%nat -> nth (S i) s 0 <= nth i s 0)) /\
    r_tiebreak m s = Ok out.
Proof.
  intros m w data out H. destruct (smooth_length_distinct _ _ _ _ H) as [Hl Hd].
  split; [exact Hl|]. split; [exact Hd|].
  destruct (smooth_spec _ _ _ _ H) as [w' [s [Hw Ht]]]. exists w', s.
  destruct (widen_spec _ _ _ _ _ Hw) as [Es Hm]. repeat split; assumption.
Qed.

(* strictly monotone data are returned unchanged: the function is idempotent on
   its own (strictly monotone) results *)
Theorem C07_smooth_fixed_point : forall m data,
  (forall w, (0 < w)%nat ->
     (forall i j, (i < j < length data)%nat -> nth i data 0 < nth j data 0) ->
     r_smooth (S m) w data = Ok data) /\
  (forall h,
     (forall i j, (i < j < length data)%nat -> nth j data 0 < nth i data 0) ->
     r_smooth (S m) (2 * h + 1) data = Ok data).
Proof. intros m data. split; [intros w Hw H; exact (smooth_fixed_asc m w data Hw H) | intros h H; exact (smooth_fixed_desc m h data H)]. Qed.

Theorem C07_smooth_loops_exhausted : forall w data, r_widen 0 w data = Err ValueError.
Proof. exact widen_exhausted. Qed.

(* ... but the window-doubling loop never gets there on real arrays.  Once the window
   reaches over the whole array from every position, the window of position i holds
   copies of the first sample, the array, and copies of the last sample; one step to the
   right swaps one copy of the first for one of the last, so the median moves weakly in the
   direction from the first to the last sample: the filter output is weakly monotone *)
Theorem C07_wide_window_monotone : forall w l, reaches_over w (length l) ->
  (forall i, (S i < length (r_median_filter w l))%nat ->
     nth i (r_median_filter w l) 0 <= nth (S i) (r_median_filter w l) 0) \/
  (forall i, (S i < length (r_median_filter w l))%nat ->
     nth (S i) (r_median_filter w l) 0 <= nth i (r_median_filter w l) 0).
Proof. exact wide_monotone. Qed.

(* ... hence the first loop returns within max_iter = fuel + 1 rounds whenever the last
   window it may try, 2^fuel (w + 1) - 1, is at least twice the array (max_iter = 1000,
   w = 15: every array shorter than 2^1002 samples) *)
Theorem C07_smooth_first_loop_terminates : forall fuel w data,
  (2 * length data + 1 <= 2 ^ fuel * (w + 1))%nat ->
  exists w' s, r_widen (S fuel) w data = Ok (w', s).
Proof. exact widen_terminates. Qed.

(* the tie-breaking loop: one pass resolves the first run of equal neighbours for good.
   When that run ends inside the array (first_dup gives its first pair p, p+1; lead its
   length), every neighbour pair of the run and the pair that leaves it becomes a strict
   step in the direction of the (weakly monotone) data, and no sample outside the run
   moves -- so a pass creates no new tie and removes all ties of the run.  (The run that
   touches the last sample moves that sample only; termination of the loop as a whole is
   not proved.) *)
Theorem C07_tiebreak_pass_resolves_run : forall s p, first_dup s = Some p ->
  (S (p + lead (skipn p s)) < length s)%nat ->
  (asc_adj s -> forall i, (p <= i <= p + lead (skipn p s))%nat ->
     nth i (r_tb_update s (r_find_equal s 0 false)) 0
     < nth (S i) (r_tb_update s (r_find_equal s 0 false)) 0) /\
  (desc_adj s -> forall i, (p <= i <= p + lead (skipn p s))%nat ->
     nth (S i) (r_tb_update s (r_find_equal s 0 false)) 0
     < nth i (r_tb_update s (r_find_equal s 0 false)) 0) /\
  (forall i, (i <= p \/ p + lead (skipn p s) < i)%nat ->
     nth i (r_tb_update s (r_find_equal s 0 false)) 0 = nth i s 0).
Proof.
  intros s p F H. split; [|split].
  - intros Hs. exact (tb_pass_resolves_asc s p Hs F H).
  - intros Hs. exact (tb_pass_resolves_desc s p Hs F H).
  - exact (tb_pass_frame s p F H).
Qed.

(* ... and with it the loop: every pass removes at least one pair of equal neighbours
   (the run inside the array disappears; a run that touches the last sample loses its last
   pair, because the last sample moves by a positive multiple of the first step), weak
   monotonicity and "first sample <> last sample" are kept, so after at most (number of
   tied pairs) passes the data are pairwise distinct *)
Theorem C07_tiebreak_terminates : forall m s, (ties s <= m)%nat ->
  (live_asc s \/ live_desc s) -> exists out, r_tiebreak (S m) s = Ok out.
Proof.
  intros m s Hm [H|H]; [apply tiebreak_terminates_asc | apply tiebreak_terminates_desc]; assumption.
Qed.

(* the whole function returns -- no ValueError -- when the doubling sequence can reach a
   window of twice the array (2n + 1 <= 2^(max_iter-1) (w+1)), the filter output the first
   loop ends with has fewer tied neighbour pairs than the budget, and it is not constant.  (Constant
   filtered data cannot be resolved: every increment is a multiple of a zero step.) *)
Theorem C07_smooth_terminates : forall m w data,
  (2 * length data + 1 <= 2 ^ m * (w + 1))%nat ->
  (forall w' s, r_widen (S m) w data = Ok (w', s) ->
     (ties s <= m)%nat /\ nth 0 s 0 <> nth (length s - 1) s 0) ->
  exists out, r_smooth (S m) w data = Ok out.
Proof. exact smooth_terminates_ties. Qed.

(* (arrays of at most max_iter samples meet the bound on the tied pairs by their length) *)
Theorem C07_smooth_terminates_short : forall m w data,
  (2 * length data + 1 <= 2 ^ m * (w + 1))%nat ->
  (length data <= S m)%nat ->
  (forall w' s, r_widen (S m) w data = Ok (w', s) -> nth 0 s 0 <> nth (length s - 1) s 0) ->
  exists out, r_smooth (S m) w data = Ok out.
Proof. exact smooth_terminates. Qed.

(* the last hypothesis is necessary: on constant data (two or more samples) a pass changes
   nothing, so the loop runs out of iterations whatever the budget *)
Theorem C07_tiebreak_constant_raises : forall s, (2 <= length s)%nat ->
  (forall i, (i < length s)%nat -> nth i s 0 = nth 0 s 0) ->
  forall fuel, r_tiebreak fuel s = Err ValueError.
Proof. exact tiebreak_constant_raises. Qed.

Example C07_first_loop_bound_met : (2 * 200 + 1 <= 2 ^ 5 * (15 + 1))%nat /\ reaches_over 63 31.
Proof. split; [simpl; lia | unfold reaches_over; simpl; lia]. Qed.

(* the exit test |sum d| = sum |d| (used until the repair recorded as D28) is not
   a sign test in binary64: a contrary step is absorbed by rounding *)
Theorem C07_sum_test_refuted_in_floats :
  PrimFloat.eqb (PrimFloat.abs (f_sum absorbed)) (f_sum (map PrimFloat.abs absorbed)) = true /\
  Median.one_sign PrimFloat.float PrimFloat.leb PrimFloat.zero absorbed = false.
Proof. exact sum_test_absorbs. Qed.

Example C07_smooth_fixed_point_nonvacuous :
  r_smooth 1000 15 [3; 2; 1] = Ok [3; 2; 1].
Proof.
  apply (proj2 (C07_smooth_fixed_point 999 [3; 2; 1]) 7%nat).
  intros i j Hij. simpl in Hij.
  destruct i as [|[|[|i]]]; destruct j as [|[|[|j]]]; simpl; try lia; lra.
Qed.

(* ---- height smoothing, complete: the result is strictly monotonic -------------------- *)
(* one pass of the tie-breaking loop changes every difference of neighbouring samples
   into a non-negative combination of differences of the data it started from *)
Theorem C07_tiebreak_pass_differences : forall s i, (S i < length s)%nat ->
  exists al ka j, 0 <= al /\ 0 <= ka /\ (S j < length s)%nat /\
    nth (S i) (r_tb_update s (r_find_equal s 0 false)) 0
    - nth i (r_tb_update s (r_find_equal s 0 false)) 0
    = al * (nth (S i) s 0 - nth i s 0) + ka * (nth (S j) s 0 - nth j s 0).
Proof. exact tb_pass_diff. Qed.

(* whenever smooth_axis_monotone returns, the result has the length of the input and is
   strictly increasing or strictly decreasing *)
Theorem C07_smooth_strictly_monotone : forall m w data out, r_smooth m w data = Ok out ->
  length out = length data /\
  ((forall i j, (i < j < length out)%nat -> nth i out 0 < nth j out 0) \/
   (forall i j, (i < j < length out)%nat -> nth j out 0 < nth i out 0)).
Proof.
  intros m w data out H. destruct (C07_smooth_whole m w data out H) as [Hl [_ [w' [s [_ [_ [Hm Ht]]]]]]].
  split; [exact Hl|]. destruct Hm as [Hm|Hm].
  - left. exact (tiebreak_strict_asc m s out Hm Ht).
  - right. exact (tiebreak_strict_desc m s out Hm Ht).
Qed.

(* (hypothesis satisfiable: C07_smooth_fixed_point_nonvacuous above; inputs with ties are
   executed in the binary64 instance against the implementation) *)
