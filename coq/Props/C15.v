(* Property C15 -- theorems only.  The sample matrix is a list of columns. *)
From Coq Require Import List QArith Bool.
From NV Require Import Base.Exn Model.FitCore Model.Training Proofs.TrainingP.
Import ListNotations.
Local Open Scope Q_scope.

(* all flags on: whatever the NaN/inf pattern, a successful load returns finite
   entries only *)
Theorem C15_clean : forall cols resp cols3 resp3,
  Forall (fun c => length c = length resp) cols ->
  load true true true cols resp = Ok (cols3, resp3) ->
  Forall (fun c => forallb is_fin c = true) cols3.
Proof. exact load_clean. Qed.

(* rows stay paired with their responses: every column and the response vector
   are filtered by ONE mask; and nothing else is altered: an entry that was
   finite in a kept row is returned unchanged *)
Theorem C15_aligned_and_frame : forall cols resp cols3 resp3,
  Forall (fun c => length c = length resp) cols ->
  load true true true cols resp = Ok (cols3, resp3) ->
  exists valid, resp3 = select valid resp /\
    Forall2 (fun c c3 => Forall2 frame (select valid c) c3) cols cols3.
Proof. exact load_frame. Qed.

Theorem C15_select_pairs : forall (m : list bool) (c : list xnum) (resp : list Q),
  length c = length resp ->
  combine (select m c) (select m resp) = select m (combine c resp).
Proof. intros. apply select_combine. assumption. Qed.

(* the kept rows are exactly those without NaN after imputation *)
Theorem C15_kept_rows_have_no_nan : forall n cols,
  Forall (fun c => length c = n) cols ->
  Forall (fun c => existsb is_nan (select (valid_rows n cols) c) = false) cols.
Proof.
  intros n cols H. pose proof (valid_rows_sound n cols H) as Hs.
  rewrite Forall_forall in Hs |- *. intros c Hc. apply select_no_nan. apply Hs. exact Hc.
Qed.

(* a feature whose kept entries are all infinite cannot be cleaned: the loader
   raises ValueError (recorded finding) *)
Theorem C15_all_inf_column_rejected : forall col, col <> [] -> forallb is_inf col = true ->
  replace_inf_col col = Err ValueError.
Proof. exact all_inf_column_rejected. Qed.

(* sample weights: non-negative, sum to one, and every class present has the same
   total weight (1 before normalisation) *)
Theorem C15_weights : forall ys,
  Forall (fun w => 0 <= w) (sample_weight ys) /\
  (~ qsum (map (raw_weight ys) ys) == 0 -> qsum (sample_weight ys) == 1) /\
  (forall c, (0 <= c <= 10)%Z -> (0 < occur c ys)%nat ->
     qsum (map (fun y => if Z.eqb c y then raw_weight ys y else 0) ys) == 1).
Proof.
  intros ys. split; [apply sample_weight_nonneg|]. split; [apply sample_weight_sum|].
  intros c Hc Ho. apply class_total_raw; assumption.
Qed.
