(* Property C01 -- what a proof can carry (see DESIGN.md: the convergence of
   the third-party optimisers from the stated basin, and the noise clause,
   are runtime behaviour that no executable model exhibits; they are
   explored by the recovery sweep, not proved). *)
From Coq Require Import Reals Lra.
From NV Require Import Base.RealExtra Gen.ModelFuncs Proofs.WeightsP Proofs.IdentP Proofs.IdentMoreP
     Proofs.FormulasP Model.Formulas.
Local Open Scope R_scope.

(* the generating parameters have zero residual at every point, with or without
   contact-point weighting: chi-square attains its global minimum 0 there *)
Theorem C01_truth_is_zero_residual : forall f cp wd w delta,
  residual_pt f cp wd w delta (f delta) = 0.
Proof. exact residual_truth. Qed.

(* and for a power-law contact model it is the ONLY exact fit: two sample
   abscissae in contact and two distinct ones off contact determine modulus
   prefactor, contact point and baseline *)
Theorem C01_identifiable_powerlaw : forall p a cp b a' cp' b' x1 x2 x3 x4,
  p <> 0 -> 0 < a -> 0 < a' ->
  x1 < cp -> x2 < cp -> x1 <> x2 ->
  cp <= x3 -> cp <= x4 -> x3 <> x4 ->
  plaw p a' cp' b' x1 = plaw p a cp b x1 ->
  plaw p a' cp' b' x2 = plaw p a cp b x2 ->
  plaw p a' cp' b' x3 = plaw p a cp b x3 ->
  plaw p a' cp' b' x4 = plaw p a cp b x4 ->
  a' = a /\ cp' = cp /\ b' = b.
Proof. exact plaw_identifiable. Qed.

(* the shipped paraboloid model is such a power law (p = 3/2) *)
Theorem C01_para_is_powerlaw : forall E R nu cp bl delta, 1 - nu ^ 2 <> 0 ->
  m_hertz_para E R nu cp bl delta
  = plaw (3 / 2) (4 / 3 * (E / (1 - nu ^ 2)) * sqrt R) cp bl delta.
Proof.
  intros E R nu cp bl delta Hn. rewrite formula_hertz_para by exact Hn.
  unfold piecewise, plaw, spec_hertz_para.
  destruct (Rlt_dec delta cp); destruct (Rlt_dec 0 (cp - delta)); try lra; reflexivity.
Qed.

(* the cone and the three-sided pyramid are power laws with p = 2, so the
   identifiability theorem applies to them as well *)
Lemma Rpower_2 r : 0 < r -> Rpower r 2 = r ^ 2.
Proof.
  intros H. replace 2 with (1 + 1) by lra. rewrite Rpower_plus, Rpower_1 by exact H. ring.
Qed.

Theorem C01_cone_is_powerlaw : forall E alpha nu cp bl delta, 1 - nu ^ 2 <> 0 ->
  m_hertz_cone E alpha nu cp bl delta
  = plaw 2 (2 * tan (alpha * PI / 180) / PI * (E / (1 - nu ^ 2))) cp bl delta.
Proof.
  intros E alpha nu cp bl delta Hn. rewrite formula_hertz_cone by exact Hn.
  unfold piecewise, plaw, spec_hertz_cone.
  destruct (Rlt_dec delta cp); destruct (Rlt_dec 0 (cp - delta)); try lra; try reflexivity.
  rewrite Rpower_2 by assumption. reflexivity.
Qed.

Theorem C01_pyr3s_is_powerlaw : forall E alpha nu cp bl delta, 1 - nu ^ 2 <> 0 ->
  m_hertz_pyr3s E alpha nu cp bl delta
  = plaw 2 (8887 / 10000 * tan (alpha * PI / 180) * (E / (1 - nu ^ 2))) cp bl delta.
Proof.
  intros E alpha nu cp bl delta Hn. rewrite formula_hertz_pyr3s by exact Hn.
  unfold piecewise, plaw, spec_hertz_pyr3s.
  destruct (Rlt_dec delta cp); destruct (Rlt_dec 0 (cp - delta)); try lra; try reflexivity.
  rewrite Rpower_2 by assumption. reflexivity.
Qed.

(* the two models that are not power laws: identifiable from the whole curve.  Parameter
   sets (modulus, contact point, baseline; geometry and -- for the layered model -- the
   layer's modulus and thickness given, as in a fit that holds them fixed) that give the
   same force at EVERY abscissa are equal: the baseline is read off far from contact, the
   contact point where the force leaves it (the in-contact force is strictly positive), the
   modulus at one depth (the force is injective in it) *)
Theorem C01_identifiable_series : forall E E' R nu cp cp' bl bl',
  0 < E -> 0 < E' -> 0 < R -> 0 < 1 - nu ^ 2 ->
  (forall x, m_sneddon_spher_approx E' R nu cp' bl' x = m_sneddon_spher_approx E R nu cp bl x) ->
  E' = E /\ cp' = cp /\ bl' = bl.
Proof. exact sneddon_identifiable. Qed.

Theorem C01_identifiable_layered : forall EL R nuS nuL t, 0 < EL -> 0 < R -> 0 < t ->
  0 <= nuS <= 1 / 2 -> 0 <= nuL <= 1 / 2 ->
  forall ES ES' cp cp' bl bl', 0 < ES -> 0 < ES' ->
  (forall x, m_power_layer_clifford_2009 ES' EL R nuS nuL t cp' bl' x
             = m_power_layer_clifford_2009 ES EL R nuS nuL t cp bl x) ->
  ES' = ES /\ cp' = cp /\ bl' = bl.
Proof. exact layered_identifiable. Qed.

(* ---- the library's own initial guess (Model/Guess.v: guess_initial_parameters) --------
   names, order, vary flags and bounds are the model's defaults; a parameter that is neither
   the contact point nor named by a non-NaN ancillary keeps its default value; the contact
   point is the tip position at the estimated index, clipped to the parameter's bounds; NaN
   ancillaries are ignored.  (The contact-point index and the ancillary values are inputs:
   C08 / C18.) *)
From Coq Require Import String.
From Coq Require List.
Require NV.Model.Guess NV.Proofs.GuessP.

Theorem C01_guess_frame : forall defaults cp anc,
  List.Forall2 GuessP.frame (Guess.guess defaults cp anc) defaults.
Proof. exact GuessP.guess_frame. Qed.

Theorem C01_guess_untouched : forall defaults cp anc k, k <> "contact_point"%string ->
  (forall v, ~ List.In (k, Some v) anc) ->
  Guess.value_of (Guess.guess defaults cp anc) k = Guess.value_of defaults k.
Proof. exact GuessP.guess_untouched. Qed.

Theorem C01_guess_contact_point : forall defaults c anc,
  (forall v, ~ List.In ("contact_point"%string, Some v) anc) ->
  Guess.value_of (Guess.guess defaults (Some c) anc) "contact_point"%string =
  match List.find (fun p => String.eqb (Guess.p_name p) "contact_point"%string) defaults with
  | Some p => Some (Guess.clip (Guess.p_min p) (Guess.p_max p) c)
  | None => None
  end.
Proof. exact GuessP.guess_contact_point. Qed.

Theorem C01_guess_nan_ignored : forall defaults cp anc1 anc2 k,
  Guess.guess defaults cp (anc1 ++ (k, None) :: anc2)%list = Guess.guess defaults cp (anc1 ++ anc2)%list.
Proof. exact GuessP.guess_nan_ignored. Qed.
