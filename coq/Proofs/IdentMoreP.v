(* C01: the two shipped models that are not power laws are identifiable from the whole
   curve: parameter sets (modulus, contact point, baseline -- the geometry, and for the
   layered model the layer's modulus and thickness, given) that produce the same force at
   EVERY abscissa are equal.  (For the power laws four abscissae suffice: IdentP.v.) *)
From Coq Require Import Reals Lra Lia Psatz.
From NV Require Import Base.RealExtra Gen.ModelFuncs Proofs.MonotoneP.
Local Open Scope R_scope.

(* ---- sphere series ---- *)

Lemma G_pos v : 0 < v <= 1 -> 0 < G v.
Proof.
  intros [H0 H1]. unfold G.
  assert (P3 : 0 < v ^ 3) by (apply pow_lt; exact H0).
  assert (A : v ^ 5 <= v ^ 3).
  { replace (v ^ 5) with (v ^ 3 * v ^ 2) by ring.
    assert (v ^ 2 <= 1). { replace 1 with (1 ^ 2) by ring. apply pow_incr; lra. }
    rewrite <- (Rmult_1_r (v ^ 3)) at 2. apply Rmult_le_compat_l; lra. }
  assert (B : v ^ 7 <= v ^ 3).
  { replace (v ^ 7) with (v ^ 3 * v ^ 4) by ring.
    assert (v ^ 4 <= 1). { replace 1 with (1 ^ 4) by ring. apply pow_incr; lra. }
    rewrite <- (Rmult_1_r (v ^ 3)) at 2. apply Rmult_le_compat_l; lra. }
  assert (0 <= v ^ 9) by (apply pow_le; lra).
  assert (0 <= v ^ 11) by (apply pow_le; lra).
  lra.
Qed.

Lemma series_part_pos R r : 0 < R -> 0 < r <= R -> 0 < series_part R r.
Proof.
  intros HR [H0 H1]. rewrite series_part_G by lra.
  apply Rmult_lt_0_compat; [apply Rmult_lt_0_compat; [lra | apply sqrt_lt_R0; lra]|].
  apply G_pos. split.
  - apply sqrt_lt_R0. apply Rdiv_lt_0_compat; lra.
  - apply sqrt_ratio_le1; lra.
Qed.

Lemma sneddon_in_contact E R nu cp bl x : 0 < cp - x ->
  m_sneddon_spher_approx E R nu cp bl x
  = 4 / 3 * E / (1 - nu ^ 2) * sqrt R * series_part R (cp - x) + bl.
Proof.
  intros H. unfold m_sneddon_spher_approx, series_part. cbv zeta.
  destruct (Rlt_dec 0 (cp - x)); [|lra]. unfold Rdiv. ring.
Qed.

Lemma sneddon_off_contact E R nu cp bl x : cp - x <= 0 ->
  m_sneddon_spher_approx E R nu cp bl x = bl.
Proof.
  intros H. unfold m_sneddon_spher_approx. cbv zeta. destruct (Rlt_dec 0 (cp - x)); [lra | ring].
Qed.

Lemma pref_pos E R nu : 0 < E -> 0 < R -> 0 < 1 - nu ^ 2 -> 0 < 4 / 3 * E / (1 - nu ^ 2) * sqrt R.
Proof.
  intros HE HR Hn. apply Rmult_lt_0_compat; [|apply sqrt_lt_R0; exact HR].
  unfold Rdiv. apply Rmult_lt_0_compat; [lra | apply Rinv_0_lt_compat; exact Hn].
Qed.

(* a contact point that is too high shows in the stretch between the two candidates *)
Lemma sneddon_cp_le E E' R nu cp cp' bl :
  0 < E' -> 0 < R -> 0 < 1 - nu ^ 2 ->
  (forall x, m_sneddon_spher_approx E' R nu cp' bl x = m_sneddon_spher_approx E R nu cp bl x) ->
  cp' <= cp.
Proof.
  intros HE' HR Hn H. destruct (Rle_lt_dec cp' cp) as [L|L]; [exact L|]. exfalso.
  set (r := Rmin ((cp' - cp) / 2) R).
  assert (Hr : 0 < r <= R).
  { unfold r. split; [apply Rmin_glb_lt; lra | apply Rmin_r]. }
  assert (Hr2 : r <= (cp' - cp) / 2) by (unfold r; apply Rmin_l).
  specialize (H (cp' - r)).
  rewrite sneddon_in_contact in H by lra.
  rewrite sneddon_off_contact in H by lra.
  replace (cp' - (cp' - r)) with r in H by ring.
  pose proof (series_part_pos R r HR Hr) as Hp.
  pose proof (pref_pos E' R nu HE' HR Hn) as Ha.
  assert (0 < 4 / 3 * E' / (1 - nu ^ 2) * sqrt R * series_part R r)
    by (apply Rmult_lt_0_compat; assumption).
  lra.
Qed.

Theorem sneddon_identifiable E E' R nu cp cp' bl bl' :
  0 < E -> 0 < E' -> 0 < R -> 0 < 1 - nu ^ 2 ->
  (forall x, m_sneddon_spher_approx E' R nu cp' bl' x = m_sneddon_spher_approx E R nu cp bl x) ->
  E' = E /\ cp' = cp /\ bl' = bl.
Proof.
  intros HE HE' HR Hn H.
  (* far off contact: the baselines *)
  assert (Hb : bl' = bl).
  { specialize (H (Rmax cp cp' + 1)).
    pose proof (Rmax_l cp cp'). pose proof (Rmax_r cp cp').
    rewrite !sneddon_off_contact in H by lra. exact H. }
  subst bl'.
  assert (Hc : cp' = cp).
  { apply Rle_antisym.
    - apply (sneddon_cp_le E E' R nu cp cp' bl HE' HR Hn H).
    - apply (sneddon_cp_le E' E R nu cp' cp bl HE HR Hn). intros x. symmetry. apply H. }
  subst cp'. split; [|split; reflexivity].
  specialize (H (cp - R)).
  rewrite !sneddon_in_contact in H by lra.
  replace (cp - (cp - R)) with R in H by ring.
  assert (Hp : 0 < series_part R R) by (apply series_part_pos; lra).
  assert (Hs : 0 < sqrt R) by (apply sqrt_lt_R0; exact HR).
  assert (Hq : 4 / 3 * E' / (1 - nu ^ 2) * sqrt R = 4 / 3 * E / (1 - nu ^ 2) * sqrt R).
  { apply Rmult_eq_reg_r with (series_part R R); [lra | lra]. }
  apply Rmult_eq_reg_r in Hq; [|lra].
  unfold Rdiv in Hq. apply Rmult_eq_reg_r in Hq; [|apply Rinv_neq_0_compat; lra]. lra.
Qed.

(* ---- layered model ---- *)

Definition Aconst (R nuS nuL t : real) : real :=
  sqrt R / t * (1 - 11 / 50 * nuS ^ 2) / (1 - 48 / 25 * nuL ^ 2).

Lemma Aconst_pos R nuS nuL t : 0 < R -> 0 < t -> 0 <= nuS <= 1 / 2 -> 0 <= nuL <= 1 / 2 ->
  0 < Aconst R nuS nuL t.
Proof.
  intros HR Ht HS HL. destruct (poisson_factors nuS nuL HS HL) as [P1 P2].
  assert (nuS ^ 2 <= (1 / 2) ^ 2) by (apply pow_incr; lra).
  unfold Aconst, Rdiv.
  apply Rmult_lt_0_compat; [|apply Rinv_0_lt_compat; exact P2].
  apply Rmult_lt_0_compat; [|lra].
  apply Rmult_lt_0_compat; [apply sqrt_lt_R0; exact HR | apply Rinv_0_lt_compat; exact Ht].
Qed.

(* kappa is inversely proportional to the substrate modulus *)
Lemma kappa_form ES EL R nuS nuL t : 0 < ES -> 0 < EL -> 0 < R -> 0 < t ->
  0 <= nuS <= 1 / 2 -> 0 <= nuL <= 1 / 2 ->
  kappa ES EL R nuS nuL t = 9 / 4 * Rpower (Aconst R nuS nuL t) (3 / 2) * (EL / ES).
Proof.
  intros HS HL HR Ht HnS HnL.
  pose proof (Aconst_pos R nuS nuL t HR Ht HnS HnL) as HA.
  destruct (poisson_factors nuS nuL HnS HnL) as [P1 P2].
  assert (Hq : 0 < EL / ES) by (apply Rdiv_lt_0_compat; assumption).
  unfold kappa, c0. rewrite (ppow_pos (EL / ES)) by exact Hq.
  assert (Hrho : 0 < Rpower (EL / ES) (2 / 3)) by (unfold Rpower; apply exp_pos).
  replace (sqrt R / t * Rpower (EL / ES) (2 / 3) * (1 - 11 / 50 * nuS ^ 2) / (1 - 48 / 25 * nuL ^ 2))
    with (Aconst R nuS nuL t * Rpower (EL / ES) (2 / 3)) by (unfold Aconst; field; split; lra).
  rewrite ppow_mult by lra. rewrite (ppow_pos _ _ Hrho).
  rewrite Rpower_mult. replace (2 / 3 * (3 / 2)) with 1 by lra. rewrite Rpower_1 by exact Hq.
  ring.
Qed.

Lemma z34_pos r : 0 < r -> 0 < z34 r.
Proof.
  intros H. unfold z34. rewrite ppow_pos by (apply sqrt_lt_R0; exact H).
  unfold Rpower. apply exp_pos.
Qed.

Lemma Hlay_pos ES EL kap z : 0 < ES -> 0 < EL -> 0 <= kap -> 0 < z -> 0 < Hlay ES EL kap z.
Proof.
  intros HS HL Hk Hz. rewrite Hlay_alt by lra.
  assert (0 <= kap * z) by (apply Rmult_le_pos; lra).
  assert (0 <= ES * (kap * z)) by (apply Rmult_le_pos; lra).
  unfold Rdiv. apply Rmult_lt_0_compat; [|apply Rinv_0_lt_compat; lra].
  apply Rmult_lt_0_compat; [lra | apply Rmult_lt_0_compat; lra].
Qed.

(* with kappa = K EL / ES the force core is E_L (1 + K E_L... ) -- injective in E_S *)
Lemma Hlay_inj ES ES' EL K z : 0 < ES -> 0 < ES' -> 0 < EL -> 0 < K -> 0 < z ->
  Hlay ES EL (K * (EL / ES)) z = Hlay ES' EL (K * (EL / ES')) z -> ES' = ES.
Proof.
  intros HS HS' HL HK Hz H.
  assert (k1 : 0 < K * (EL / ES)) by (apply Rmult_lt_0_compat; [lra | apply Rdiv_lt_0_compat; lra]).
  assert (k2 : 0 < K * (EL / ES')) by (apply Rmult_lt_0_compat; [lra | apply Rdiv_lt_0_compat; lra]).
  rewrite !Hlay_alt in H by lra.
  replace (ES * (K * (EL / ES) * z)) with (K * EL * z) in H by (field; lra).
  replace (ES' * (K * (EL / ES') * z)) with (K * EL * z) in H by (field; lra).
  assert (Hn : 0 < (EL + K * EL * z) * (z * z)).
  { apply Rmult_lt_0_compat; [|apply Rmult_lt_0_compat; lra].
    assert (0 < K * EL * z) by (apply Rmult_lt_0_compat; [apply Rmult_lt_0_compat|]; lra). lra. }
  assert (d1 : 0 < 1 + K * (EL / ES) * z) by (assert (0 < K * (EL / ES) * z) by (apply Rmult_lt_0_compat; lra); lra).
  assert (d2 : 0 < 1 + K * (EL / ES') * z) by (assert (0 < K * (EL / ES') * z) by (apply Rmult_lt_0_compat; lra); lra).
  assert (Hd : 1 + K * (EL / ES) * z = 1 + K * (EL / ES') * z).
  { unfold Rdiv in H at 1 3.
    apply Rmult_eq_reg_l in H; [|lra].
    apply Rinv_eq_reg in H || (apply (f_equal Rinv) in H; rewrite !Rinv_inv in H). exact H. }
  assert (Hq : EL / ES = EL / ES').
  { assert (K * (EL / ES) * z = K * (EL / ES') * z) by lra.
    apply Rmult_eq_reg_r in H0; [|lra]. apply Rmult_eq_reg_l in H0; [exact H0 | lra]. }
  unfold Rdiv in Hq. apply Rmult_eq_reg_l in Hq; [|lra].
  apply (f_equal Rinv) in Hq. rewrite !Rinv_inv in Hq. symmetry. exact Hq.
Qed.

Section Layered.
  Variables EL R nuS nuL t : real.
  Hypothesis HL : 0 < EL.
  Hypothesis HR : 0 < R.
  Hypothesis Ht : 0 < t.
  Hypothesis HnS : 0 <= nuS <= 1 / 2.
  Hypothesis HnL : 0 <= nuL <= 1 / 2.

  Let P1 := proj1 (poisson_factors nuS nuL HnS HnL).
  Let P2 := proj2 (poisson_factors nuS nuL HnS HnL).

  Lemma lay_in ES cp bl x : 0 < cp - x ->
    m_power_layer_clifford_2009 ES EL R nuS nuL t cp bl x
    = 4 / 3 * sqrt R * Hlay ES EL (kappa ES EL R nuS nuL t) (z34 (cp - x)) + bl.
  Proof. intros H. apply clifford_in_contact; assumption. Qed.

  Lemma kap_nonneg ES : 0 <= kappa ES EL R nuS nuL t.
  Proof. unfold kappa. apply Rmult_le_pos; [lra | apply ppow_nonneg]. Qed.

  Lemma lay_cp_le ES ES' cp cp' bl : 0 < ES' ->
    (forall x, m_power_layer_clifford_2009 ES' EL R nuS nuL t cp' bl x
               = m_power_layer_clifford_2009 ES EL R nuS nuL t cp bl x) ->
    cp' <= cp.
  Proof.
    intros HS' H. destruct (Rle_lt_dec cp' cp) as [L|L]; [exact L|]. exfalso.
    specialize (H ((cp + cp') / 2)).
    rewrite lay_in in H by lra. rewrite clifford_off_contact in H by lra.
    assert (Hz : 0 < z34 (cp' - (cp + cp') / 2)) by (apply z34_pos; lra).
    pose proof (Hlay_pos ES' EL _ _ HS' HL (kap_nonneg ES') Hz) as Hp.
    assert (0 < 4 / 3 * sqrt R) by (apply Rmult_lt_0_compat; [lra | apply sqrt_lt_R0; exact HR]).
    assert (0 < 4 / 3 * sqrt R * Hlay ES' EL (kappa ES' EL R nuS nuL t) (z34 (cp' - (cp + cp') / 2)))
      by (apply Rmult_lt_0_compat; assumption).
    lra.
  Qed.

  Theorem layered_identifiable ES ES' cp cp' bl bl' : 0 < ES -> 0 < ES' ->
    (forall x, m_power_layer_clifford_2009 ES' EL R nuS nuL t cp' bl' x
               = m_power_layer_clifford_2009 ES EL R nuS nuL t cp bl x) ->
    ES' = ES /\ cp' = cp /\ bl' = bl.
  Proof.
    intros HS HS' H.
    assert (Hb : bl' = bl).
    { specialize (H (Rmax cp cp' + 1)).
      pose proof (Rmax_l cp cp'). pose proof (Rmax_r cp cp').
      rewrite !clifford_off_contact in H by lra. exact H. }
    subst bl'.
    assert (Hc : cp' = cp).
    { apply Rle_antisym.
      - apply (lay_cp_le ES ES' cp cp' bl HS' H).
      - apply (lay_cp_le ES' ES cp' cp bl HS). intros x. symmetry. apply H. }
    subst cp'. split; [|split; reflexivity].
    specialize (H (cp - 1)). rewrite !lay_in in H by lra.
    replace (cp - (cp - 1)) with 1 in H by ring.
    assert (Hz : 0 < z34 1) by (apply z34_pos; lra).
    assert (Hs : 0 < 4 / 3 * sqrt R) by (apply Rmult_lt_0_compat; [lra | apply sqrt_lt_R0; exact HR]).
    assert (Hh : Hlay ES' EL (kappa ES' EL R nuS nuL t) (z34 1)
                 = Hlay ES EL (kappa ES EL R nuS nuL t) (z34 1)).
    { apply Rmult_eq_reg_l with (4 / 3 * sqrt R); [lra | lra]. }
    rewrite !kappa_form in Hh by assumption.
    set (K := 9 / 4 * Rpower (Aconst R nuS nuL t) (3 / 2)) in Hh.
    assert (HK : 0 < K).
    { unfold K. apply Rmult_lt_0_compat; [lra | unfold Rpower; apply exp_pos]. }
    symmetry in Hh. apply (Hlay_inj ES ES' EL K (z34 1) HS HS' HL HK Hz Hh).
  Qed.
End Layered.
