(* R instance of FitCore and its theorems. *)
From Coq Require Import List Bool Arith Reals Lra Lia.
From NV Require Import Model.FitCore Model.Rater Proofs.RaterP.
Import ListNotations.
Local Open Scope R_scope.

Definition r_ltb (x y : R) : bool := if Rlt_dec x y then true else false.
Definition r_eqb (x y : R) : bool := if Req_EM_T x y then true else false.
Definition r_range_mask := range_mask R r_ltb r_eqb.
Definition r_in_range := in_range R r_ltb.

Lemma r_ltb_true x y : r_ltb x y = true <-> x < y.
Proof. unfold r_ltb. destruct (Rlt_dec x y); split; intros; try assumption; try reflexivity; try discriminate; contradiction. Qed.
Lemma r_ltb_false x y : r_ltb x y = false <-> y <= x.
Proof. unfold r_ltb. destruct (Rlt_dec x y); split; intros; try discriminate; try lra; reflexivity. Qed.

Lemma r_tmin a b : tmin R r_ltb a b = Rmin a b.
Proof.
  unfold tmin, Rmin. destruct (r_ltb b a) eqn:E; destruct (Rle_dec a b); try reflexivity.
  - apply r_ltb_true in E. lra.
  - apply r_ltb_false in E. lra.
Qed.
Lemma r_tmax a b : tmax R r_ltb a b = Rmax a b.
Proof.
  unfold tmax, Rmax. destruct (r_ltb a b) eqn:E; destruct (Rle_dec a b); try reflexivity.
  - apply r_ltb_true in E. lra.
  - apply r_ltb_false in E. lra.
Qed.

Lemma in_range_spec a b x : r_in_range a b x = true <-> Rmin a b <= x <= Rmax a b.
Proof.
  unfold r_in_range, in_range. rewrite r_tmin, r_tmax. rewrite andb_true_iff, !negb_true_iff.
  rewrite !r_ltb_false. tauto.
Qed.

(* exactly the requested points *)
Lemma mask_exact : forall seg xs a b i,
  length seg = length xs -> a <> b -> (i < length seg)%nat ->
  (nth i (r_range_mask seg xs a b) false = true <->
   nth i seg false = true /\ Rmin a b <= nth i xs 0 <= Rmax a b).
Proof.
  intros seg xs a b i Hl Hab. unfold r_range_mask, range_mask.
  assert (E : r_eqb a b = false).
  { unfold r_eqb. destruct (Req_EM_T a b); [contradiction | reflexivity]. }
  rewrite E. clear E. revert xs i Hl.
  induction seg as [|s seg IH]; intros [|x xs] i Hl Hi; simpl in *; try discriminate; try lia.
  destruct i as [|i].
  - rewrite andb_true_iff. rewrite in_range_spec. tauto.
  - apply IH; [congruence | lia].
Qed.

Lemma mask_zero_width seg xs a : r_range_mask seg xs a a = seg.
Proof.
  unfold r_range_mask, range_mask, r_eqb. destruct (Req_EM_T a a); [reflexivity | contradiction].
Qed.

Lemma mask_length seg xs a b : length seg = length xs -> length (r_range_mask seg xs a b) = length seg.
Proof.
  unfold r_range_mask, range_mask. destruct (r_eqb a b); [reflexivity|].
  revert xs. induction seg as [|s seg IH]; intros [|x xs] H; simpl in *; try discriminate; try reflexivity.
  f_equal. apply IH. congruence.
Qed.

(* ---- reported xmin / xmax --------------------------------------------------------- *)
Lemma fold_min_spec : forall l x,
  In (fold_min R r_ltb x l) (x :: l) /\ forall y, In y (x :: l) -> fold_min R r_ltb x l <= y.
Proof.
  induction l as [|z l IH]; intros x; simpl.
  - split; [left; reflexivity | intros y [<-|[]]; lra].
  - destruct (r_ltb z x) eqn:E.
    + apply r_ltb_true in E. destruct (IH z) as [H1 H2]. split.
      * right. exact H1.
      * intros y [<-|Hy]; [specialize (H2 z (or_introl eq_refl)); lra | apply H2; exact Hy].
    + apply r_ltb_false in E. destruct (IH x) as [H1 H2]. split.
      * destruct H1 as [H1|H1]; [left; exact H1 | right; right; exact H1].
      * intros y [<-|[<-|Hy]].
        -- apply H2. left. reflexivity.
        -- specialize (H2 x (or_introl eq_refl)). lra.
        -- apply H2. right. exact Hy.
Qed.

Lemma fold_max_spec : forall l x,
  In (fold_max R r_ltb x l) (x :: l) /\ forall y, In y (x :: l) -> y <= fold_max R r_ltb x l.
Proof.
  induction l as [|z l IH]; intros x; simpl.
  - split; [left; reflexivity | intros y [<-|[]]; lra].
  - destruct (r_ltb x z) eqn:E.
    + apply r_ltb_true in E. destruct (IH z) as [H1 H2]. split.
      * right. exact H1.
      * intros y [<-|Hy]; [specialize (H2 z (or_introl eq_refl)); lra | apply H2; exact Hy].
    + apply r_ltb_false in E. destruct (IH x) as [H1 H2]. split.
      * destruct H1 as [H1|H1]; [left; exact H1 | right; right; exact H1].
      * intros y [<-|[<-|Hy]].
        -- apply H2. left. reflexivity.
        -- specialize (H2 x (or_introl eq_refl)). lra.
        -- apply H2. right. exact Hy.
Qed.

Lemma reported_min_exact k xs m : 0 < k ->
  reported_min R r_ltb Rmult Rdiv k xs = Some m ->
  In m xs /\ forall x, In x xs -> m <= x.
Proof.
  intros Hk. unfold reported_min. destruct xs as [|x0 xs]; simpl; [discriminate|].
  intros H. inversion H; subst m. clear H.
  destruct (fold_min_spec (map (fun x => x * k) xs) (x0 * k)) as [H1 H2].
  change (x0 * k :: map (fun x => x * k) xs) with (map (fun x => x * k) (x0 :: xs)) in H1, H2.
  apply in_map_iff in H1. destruct H1 as [xm [Hm Hin]]. rewrite <- Hm.
  assert (E : xm * k / k = xm) by (field; lra). rewrite E. split; [exact Hin|].
  intros x Hx. assert (Hx' : In (x * k) (map (fun x => x * k) (x0 :: xs))) by (apply (in_map (fun x => x * k) (x0 :: xs) x); exact Hx).
  specialize (H2 _ Hx'). rewrite <- Hm in H2.
  apply Rmult_le_reg_r with k; assumption.
Qed.

Lemma reported_max_exact k xs m : 0 < k ->
  reported_max R r_ltb Rmult Rdiv k xs = Some m ->
  In m xs /\ forall x, In x xs -> x <= m.
Proof.
  intros Hk. unfold reported_max. destruct xs as [|x0 xs]; simpl; [discriminate|].
  intros H. inversion H; subst m. clear H.
  destruct (fold_max_spec (map (fun x => x * k) xs) (x0 * k)) as [H1 H2].
  change (x0 * k :: map (fun x => x * k) xs) with (map (fun x => x * k) (x0 :: xs)) in H1, H2.
  apply in_map_iff in H1. destruct H1 as [xm [Hm Hin]]. rewrite <- Hm.
  assert (E : xm * k / k = xm) by (field; lra). rewrite E. split; [exact Hin|].
  intros x Hx. assert (Hx' : In (x * k) (map (fun x => x * k) (x0 :: xs))) by (apply (in_map (fun x => x * k) (x0 :: xs) x); exact Hx).
  specialize (H2 _ Hx'). rewrite <- Hm in H2.
  apply Rmult_le_reg_r with k; assumption.
Qed.

(* ---- relative cp: the last pass is anchored at the previous pass's contact point ---- *)
Lemma relative_anchor FITCP seg xs a b :
  let ps := relative_passes R r_ltb r_eqb Rplus FITCP seg xs a b in
  let cp3 := FITCP (nth 2 ps []) in
  length ps = 4%nat /\ nth 0 ps [] = seg /\
  nth 3 ps [] = r_range_mask seg xs (a + cp3) (b + cp3).
Proof. cbv zeta. repeat split. Qed.

(* ---- too few points -------------------------------------------------------------- *)
Lemma enough_points_spec v n : enough_points v n = true <-> (v + 1 < n)%nat.
Proof. unfold enough_points. rewrite Nat.ltb_lt. lia. Qed.

(* ---- the depth grid of the plateau search ---------------------------------------- *)
Definition r_linspace (a b : R) (n : nat) := linspace R Rplus Rmult Rdiv INR a b Rminus n.

Lemma linspace_length a b n : length (r_linspace a b n) = n.
Proof.
  unfold r_linspace, linspace. destruct n as [|[|m]]; try reflexivity.
  rewrite app_length, map_length, seq_length. simpl. lia.
Qed.

Lemma map_nth_lt {A B} (f : A -> B) l d d0 i : (i < length l)%nat ->
  nth i (map f l) d = f (nth i l d0).
Proof.
  revert i. induction l as [|x l IH]; intros i H; simpl in *; [lia|].
  destruct i; [reflexivity | apply IH; lia].
Qed.

Lemma linspace_nth a b m i : (i <= S m)%nat ->
  nth i (r_linspace a b (S (S m))) 0 = a + INR i * ((b - a) / INR (S m)).
Proof.
  intros Hi. unfold r_linspace, linspace.
  destruct (Nat.eq_dec i (S m)) as [->|Hne].
  - rewrite app_nth2; rewrite map_length, seq_length; [|lia].
    replace (S m - S m)%nat with 0%nat by lia. simpl nth.
    assert (INR (S m) <> 0) by (apply not_0_INR; lia). field. assumption.
  - rewrite app_nth1 by (rewrite map_length, seq_length; lia).
    rewrite (map_nth_lt _ _ 0 0%nat) by (rewrite seq_length; lia).
    rewrite seq_nth by lia. simpl plus. ring.
Qed.

Lemma linspace_strict a b m i j : a < b -> (i < j <= S m)%nat ->
  nth i (r_linspace a b (S (S m))) 0 < nth j (r_linspace a b (S (S m))) 0.
Proof.
  intros Hab [Hij Hj]. rewrite !linspace_nth by lia.
  assert (Hs : 0 < (b - a) / INR (S m)).
  { unfold Rdiv. apply Rmult_lt_0_compat; [lra|]. apply Rinv_0_lt_compat. apply lt_0_INR. lia. }
  assert (INR i < INR j) by (apply lt_INR; exact Hij).
  apply Rplus_lt_compat_l. apply Rmult_lt_compat_r; assumption.
Qed.

Lemma linspace_ends a b m :
  nth 0 (r_linspace a b (S (S m))) 0 = a /\ nth (S m) (r_linspace a b (S (S m))) 0 = b.
Proof.
  split; rewrite linspace_nth by lia.
  - simpl. ring.
  - assert (INR (S m) <> 0) by (apply not_0_INR; lia). field. assumption.
Qed.

(* the optimal depth is a grid point or the mean of consecutive grid points:
   in either case it lies between the smallest and the largest depth scanned *)
Lemma mean_in_range lo hi (ys : list R) : ys <> [] ->
  Forall (fun y => lo <= y <= hi) ys ->
  lo <= wavg (map (fun _ => 1) ys) ys <= hi.
Proof.
  intros Hne Hy. apply wavg_in_range.
  - rewrite map_length. reflexivity.
  - apply Forall_forall. intros w Hw. apply in_map_iff in Hw. destruct Hw as [? [<- _]]. lra.
  - exact Hy.
  - destruct ys as [|y t]; [contradiction|]. simpl.
    assert (G : forall l : list R, 0 <= total (map (fun _ => 1) l)).
    { induction l; simpl; lra. }
    specialize (G t). lra.
Qed.
