(* Theorems about Model/Profile.v *)
From Coq Require Import String ZArith.
From Coq Require Import List Bool Arith Lia.
From NV Require Import Base.Exn Base.PyList Gen.Tables Model.Container Model.Preproc Model.Profile
                       Proofs.ContainerP Proofs.PreprocP Proofs.C14P.
Import ListNotations.
Local Open Scope string_scope.
Local Open Scope list_scope.

(* ---- the store is a map with defaults ------------------------------------------------------- *)
Lemma value_of_set d st k v k' :
  value_of d (aset k v st) k' = if String.eqb k' k then Some v else value_of d st k'.
Proof.
  unfold value_of. destruct (String.eqb k' k) eqn:E.
  - apply String.eqb_eq in E. subst. rewrite aget_aset_same. reflexivity.
  - apply String.eqb_neq in E. rewrite aget_aset_other by exact E. reflexivity.
Qed.

Lemma pset_spec d st k v st' : pset st k v = Ok st' ->
  value_of d st' k = Some v /\ forall k', k' <> k -> value_of d st' k' = value_of d st k'.
Proof.
  unfold pset. destruct (key_ok k); [|discriminate]. intros H. injection H as <-. split.
  - rewrite value_of_set, String.eqb_refl. reflexivity.
  - intros k' Hne. rewrite value_of_set. apply String.eqb_neq in Hne. rewrite Hne. reflexivity.
Qed.

Lemma pset_rejects st k v : key_ok k = false -> pset st k v = Err ValueError.
Proof. intros H. unfold pset. rewrite H. reflexivity. Qed.

(* a read returns the stored value or the default and changes no value *)
Lemma pget_spec d st k v st' : pget d st k = Ok (v, st') ->
  value_of d st k = Some v /\ forall k', value_of d st' k' = value_of d st k'.
Proof.
  unfold pget. destruct (aget k d) as [dv|] eqn:Ed; [|discriminate].
  destruct (key_ok k); [|discriminate]. intros H. injection H as <- <-.
  assert (Hv : value_of d st k = Some match aget k st with Some v => v | None => dv end).
  { unfold value_of. destruct (aget k st); [reflexivity | exact Ed]. }
  split; [exact Hv|]. intros k'. rewrite value_of_set.
  destruct (String.eqb k' k) eqn:E; [|reflexivity].
  apply String.eqb_eq in E. subst. symmetry. exact Hv.
Qed.

Lemma pget_unknown d st k : aget k d = None -> pget d st k = Err KeyError.
Proof. intros H. unfold pget. rewrite H. reflexivity. Qed.

Lemma pinit_fold d : forall l st, (forall k v, In (k, v) l -> aget k d = Some v) ->
  forall k, value_of d (fold_left (fun st kd => match aget (fst kd) st with
                                                | Some _ => st
                                                | None => aset (fst kd) (snd kd) st
                                                end) l st) k = value_of d st k.
Proof.
  induction l as [|[k0 v0] l IH]; intros st H k; simpl; [reflexivity|].
  rewrite IH by (intros k1 v1 Hin; apply H; right; exact Hin).
  destruct (aget k0 st) eqn:E; [reflexivity|].
  rewrite value_of_set. destruct (String.eqb k k0) eqn:Ek; [|reflexivity].
  apply String.eqb_eq in Ek. subst. unfold value_of. rewrite E. symmetry. apply H. left. reflexivity.
Qed.

Lemma aget_In_nodup {V} (l : list (string * V)) k v :
  NoDup (map fst l) -> In (k, v) l -> aget k l = Some v.
Proof.
  induction l as [|[k0 v0] l IH]; intros Hnd Hin; simpl in *; [contradiction|].
  inversion Hnd as [|? ? Hn Hd]; subst. destruct Hin as [E|Hin].
  - injection E as -> ->. rewrite String.eqb_refl. reflexivity.
  - destruct (String.eqb k k0) eqn:Ek.
    + apply String.eqb_eq in Ek. subst. exfalso. apply Hn. apply in_map_iff.
      exists (k0, v). split; [reflexivity | exact Hin].
    + apply IH; assumption.
Qed.

(* a new profile object on the same file changes no value *)
Lemma pinit_spec d st : NoDup (map fst d) -> forall k, value_of d (pinit d st) k = value_of d st k.
Proof.
  intros Hnd k. unfold pinit. apply pinit_fold. intros k0 v0 Hin. apply aget_In_nodup; assumption.
Qed.

(* the last value set for a key in a sequence of operations *)
Fixpoint last_set (ops : list pop) (k : string) (acc : option string) : option string :=
  match ops with
  | [] => acc
  | PSet k' v :: t => last_set t k (if String.eqb k k' && key_ok k' then Some v else acc)
  | _ :: t => last_set t k acc
  end.

Lemma last_set_some : forall ops k a, exists w, last_set ops k (Some a) = Some w.
Proof.
  induction ops as [|o ops IH]; intros k a; simpl; [eexists; reflexivity|].
  destruct o; try apply IH. destruct (String.eqb k k0 && key_ok k0); apply IH.
Qed.

Lemma last_set_acc : forall ops k a,
  last_set ops k (Some a) = match last_set ops k None with Some w => Some w | None => Some a end.
Proof.
  induction ops as [|o ops IH]; intros k a; simpl; [reflexivity|].
  destruct o; try apply IH. destruct (String.eqb k k0 && key_ok k0); [|apply IH].
  destruct (last_set_some ops k v) as [w Hw]. rewrite Hw. reflexivity.
Qed.

Lemma prun_value d : NoDup (map fst d) -> forall ops st k,
  value_of d (prun d st ops) k =
  match last_set ops k None with Some v => Some v | None => value_of d st k end.
Proof.
  intros Hnd. unfold prun.
  induction ops as [|o ops IH]; intros st k; simpl; [reflexivity|].
  rewrite IH. destruct o as [k' v|k'| |k']; simpl.
  - unfold pset. destruct (key_ok k') eqn:Ek; simpl.
    + rewrite andb_true_r. destruct (String.eqb k k') eqn:E.
      * rewrite last_set_acc. destruct (last_set ops k None); [reflexivity|].
        rewrite value_of_set, E. reflexivity.
      * destruct (last_set ops k None); [reflexivity|].
        rewrite value_of_set, E. reflexivity.
    + rewrite andb_false_r. reflexivity.
  - destruct (pget d st k') as [[v st']|e] eqn:Eg; simpl; [|reflexivity].
    destruct (pget_spec d st k' v st' Eg) as [_ H]. rewrite H. reflexivity.
  - rewrite pinit_spec by exact Hnd. reflexivity.
  - reflexivity.
Qed.

(* a refused write leaves the file as it was, whatever the key *)
Lemma refused_write_keeps d st k : fst (pstep d st (PSetBad k)) = st /\
  exists e, snd (pstep d st (PSetBad k)) = Err e.
Proof. simpl. split; [reflexivity | eexists; reflexivity]. Qed.

(* ---- fit parameters --------------------------------------------------------------------------- *)
Lemma get_fit_params_spec md st p dv dy :
  NoDup (map fst md) -> In (p, (dv, dy)) md ->
  exists v y, In (p, (v, y)) (get_fit_params md st) /\
    v = match aget (vkey p) st with Some x => x | None => dv end /\
    y = match aget (fkey p) st with Some x => x | None => dy end.
Proof.
  intros _ Hin. eexists. eexists. split; [|split; reflexivity].
  unfold get_fit_params. apply in_map_iff. exists (p, (dv, dy)). split; [reflexivity | exact Hin].
Qed.

Lemma get_fit_params_names md st : map fst (get_fit_params md st) = map fst md.
Proof. unfold get_fit_params. rewrite map_map. reflexivity. Qed.

(* ---- prompts ------------------------------------------------------------------------------------ *)
Lemma range_type_accepted cur ans rt : prompt_range_type cur ans = Some rt ->
  (ans = "" /\ rt = cur) \/ (ans <> "" /\ In rt fitter_range_types).
Proof.
  unfold prompt_range_type. destruct (String.eqb ans "") eqn:E.
  - intros H. injection H as <-. left. apply String.eqb_eq in E. tauto.
  - apply String.eqb_neq in E.
    set (r := if String.eqb ans "relative" then "relative cp" else ans).
    destruct (existsb (String.eqb r) fitter_range_types) eqn:Ex; [|discriminate].
    intros H. injection H as <-. right. split; [exact E|].
    apply existsb_exists in Ex. destruct Ex as [x [Hx Hr]]. apply String.eqb_eq in Hr. subst. exact Hx.
Qed.

Lemma range_type_relative cur : prompt_range_type cur "relative" = Some "relative cp" /\
  prompt_range_type cur "relative cp" = Some "relative cp" /\
  prompt_range_type cur "absolute" = Some "absolute".
Proof. repeat split. Qed.

Lemma menu_item_spec {A} (items : list A) n x : menu_item items n = Some x ->
  (1 <= n <= Z.of_nat (length items))%Z /\ nth_error items (Z.to_nat (n - 1)) = Some x.
Proof.
  unfold menu_item. destruct ((1 <=? n)%Z && (n <=? Z.of_nat (length items))%Z) eqn:E; [|discriminate].
  apply andb_true_iff in E. destruct E as [E1 E2]. apply Z.leb_le in E1, E2. tauto.
Qed.

Lemma menu_item_rejects {A} (items : list A) n :
  (n < 1 \/ Z.of_nat (length items) < n)%Z -> menu_item items n = None.
Proof.
  intros H. unfold menu_item.
  destruct ((1 <=? n)%Z && (n <=? Z.of_nat (length items))%Z) eqn:E; [|reflexivity].
  apply andb_true_iff in E. destruct E as [E1 E2]. apply Z.leb_le in E1, E2. lia.
Qed.

Lemma interval_spec {T} (cur : T * T) left right :
  fst (prompt_interval cur left right) = match left with Some l => l | None => fst cur end /\
  snd (prompt_interval cur left right) = match right with Some r => r | None => snd cur end.
Proof. split; reflexivity. Qed.

(* every duplicate-free selection that the code's order check passes is accepted by
   preproc.apply (exhaustive over all selections of the step table of this tree) *)
Definition checked_implies_applied (t : table) (l : list nat) : bool :=
  if is_ok (check_order t l) then is_ok (apply_check t l) else true.

Lemma checked_applied_all :
  forallb (checked_implies_applied step_table) (all_selections step_table) = true.
Proof. vm_compute. reflexivity. Qed.

Lemma checked_applied : forall l, NoDup l -> (forall x, In x l -> x < List.length step_table) ->
  check_order step_table l = Ok tt -> apply_check step_table l = Ok tt.
Proof.
  intros l Hnd Hin Hc. pose proof checked_applied_all as H. rewrite forallb_forall in H.
  specialize (H l (all_selections_complete _ _ Hnd Hin)).
  unfold checked_implies_applied in H. rewrite Hc in H. simpl in H.
  destruct (apply_check step_table l) as [[]|e]; [reflexivity | discriminate].
Qed.
