From Coq Require Import List String QArith Bool.
From NV Require Import Model.Guess.
Import ListNotations.
Local Open Scope string_scope.

Definition frame (a b : param) : Prop :=
  p_name a = p_name b /\ p_vary a = p_vary b /\ p_min a = p_min b /\ p_max a = p_max b.

Lemma set_value_frame k v ps : Forall2 frame (set_value k v ps) ps.
Proof.
  induction ps as [|p ps IH]; simpl; [constructor|]. constructor; [|exact IH].
  destruct (String.eqb (p_name p) k); unfold frame; simpl; auto.
Qed.

Lemma Forall2_frame_trans a b c : Forall2 frame a b -> Forall2 frame b c -> Forall2 frame a c.
Proof.
  intros H. revert c. induction H as [|x y l l' Hxy _ IH]; intros c Hc; inversion Hc; subst; constructor.
  - destruct Hxy as [A [B [C D]]]. destruct H1 as [A' [B' [C' D']]]. unfold frame. repeat split; congruence.
  - apply IH. assumption.
Qed.

Lemma Forall2_frame_refl ps : Forall2 frame ps ps.
Proof. induction ps; constructor; [unfold frame; auto | assumption]. Qed.

Lemma apply_anc_frame anc : forall ps, Forall2 frame (apply_anc ps anc) ps.
Proof.
  induction anc as [|[k [v|]] anc IH]; intros ps; simpl.
  - apply Forall2_frame_refl.
  - eapply Forall2_frame_trans; [apply IH | apply set_value_frame].
  - apply IH.
Qed.

(* names, order, vary flags and bounds are the model's defaults *)
Theorem guess_frame defaults cp anc : Forall2 frame (guess defaults cp anc) defaults.
Proof.
  unfold guess. eapply Forall2_frame_trans; [apply apply_anc_frame|].
  destruct cp; [apply set_value_frame | apply Forall2_frame_refl].
Qed.

Lemma set_value_other k v ps k2 : k2 <> k -> value_of (set_value k v ps) k2 = value_of ps k2.
Proof.
  intros Hne. unfold value_of. induction ps as [|p ps IH]; simpl; [reflexivity|].
  destruct (String.eqb (p_name p) k) eqn:E; simpl.
  - apply String.eqb_eq in E.
    destruct (String.eqb (p_name p) k2) eqn:E2.
    + apply String.eqb_eq in E2. congruence.
    + exact IH.
  - destruct (String.eqb (p_name p) k2); [reflexivity | exact IH].
Qed.

Lemma apply_anc_untouched anc : forall ps k2,
  (forall v, ~ In (k2, Some v) anc) -> value_of (apply_anc ps anc) k2 = value_of ps k2.
Proof.
  induction anc as [|[k [v|]] anc IH]; intros ps k2 H; simpl; [reflexivity| |].
  - rewrite IH by (intros w Hw; apply (H w); right; exact Hw).
    apply set_value_other. intros E. subst k2. apply (H v). left. reflexivity.
  - apply IH. intros w Hw. apply (H w). right. exact Hw.
Qed.

(* a parameter that is neither the contact point nor named by a non-NaN ancillary keeps
   its default value *)
Theorem guess_untouched defaults cp anc k : k <> "contact_point" ->
  (forall v, ~ In (k, Some v) anc) ->
  value_of (guess defaults cp anc) k = value_of defaults k.
Proof.
  intros Hk Hanc. unfold guess. rewrite apply_anc_untouched by exact Hanc.
  destruct cp; [apply set_value_other; exact Hk | reflexivity].
Qed.

(* NaN ancillaries are ignored *)
Theorem guess_nan_ignored defaults cp anc1 anc2 k :
  guess defaults cp (anc1 ++ (k, None) :: anc2) = guess defaults cp (anc1 ++ anc2).
Proof. unfold guess, apply_anc. rewrite !fold_left_app. reflexivity. Qed.

Lemma set_value_same k v ps :
  value_of (set_value k v ps) k =
  match find (fun p => String.eqb (p_name p) k) ps with
  | Some p => Some (clip (p_min p) (p_max p) v)
  | None => None
  end.
Proof.
  unfold value_of. induction ps as [|p ps IH]; simpl; [reflexivity|].
  destruct (String.eqb (p_name p) k) eqn:E; simpl; rewrite E; [reflexivity | exact IH].
Qed.

(* the contact point is the tip position at the estimated index, clipped to the
   parameter's bounds, unless an ancillary parameter of that name overrides it *)
Theorem guess_contact_point defaults c anc :
  (forall v, ~ In ("contact_point", Some v) anc) ->
  value_of (guess defaults (Some c) anc) "contact_point" =
  match find (fun p => String.eqb (p_name p) "contact_point") defaults with
  | Some p => Some (clip (p_min p) (p_max p) c)
  | None => None
  end.
Proof.
  intros H. unfold guess. rewrite apply_anc_untouched by exact H. apply set_value_same.
Qed.
