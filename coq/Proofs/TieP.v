(* the tie-breaking loop of smooth_axis_monotone keeps weak monotonicity *)
From Coq Require Import List Bool Arith Reals Lra Lia.
From NV Require Import Base.Exn Model.FitCore Model.Steps Proofs.FitCoreP Proofs.StepsP.
Import ListNotations.
Local Open Scope R_scope.

Definition r_find_equal := find_equal R r_eqb.

(* number of leading neighbours equal to their predecessor *)
Fixpoint lead (l : list R) : nat :=
  match l with
  | a :: ((b :: _) as t) => if r_eqb b a then S (lead t) else O
  | _ => O
  end.

(* index of the first pair of equal neighbours *)
Fixpoint first_dup (l : list R) : option nat :=
  match l with
  | a :: ((b :: _) as t) =>
      if r_eqb b a then Some O else option_map S (first_dup t)
  | _ => None
  end.

Lemma lead_cons2 a b t : lead (a :: b :: t) = if r_eqb b a then S (lead (b :: t)) else O.
Proof. reflexivity. Qed.
Lemma first_dup_cons2 a b t :
  first_dup (a :: b :: t) = if r_eqb b a then Some O else option_map S (first_dup (b :: t)).
Proof. reflexivity. Qed.

Lemma find_equal_cons2 a b t ii st :
  r_find_equal (a :: b :: t) ii st =
  if r_eqb b a then S ii :: r_find_equal (b :: t) (S ii) true
  else if st then [] else r_find_equal (b :: t) (S ii) false.
Proof. reflexivity. Qed.

Lemma find_equal_started : forall l ii, r_find_equal l ii true = seq (S ii) (lead l).
Proof.
  induction l as [|a l IH]; intros ii; [reflexivity|].
  destruct l as [|b t]; [reflexivity|].
  rewrite find_equal_cons2, lead_cons2.
  destruct (r_eqb b a); [|reflexivity].
  cbn [seq]. f_equal. apply IH.
Qed.

Lemma find_equal_fresh : forall l ii,
  r_find_equal l ii false =
  match first_dup l with
  | None => []
  | Some p => seq (S (ii + p)) (lead (skipn p l))
  end.
Proof.
  induction l as [|a l IH]; intros ii; [reflexivity|].
  destruct l as [|b t]; [reflexivity|].
  rewrite find_equal_cons2, first_dup_cons2.
  destruct (r_eqb b a) eqn:E.
  - cbn [skipn]. rewrite Nat.add_0_r, lead_cons2, E. cbn [seq]. f_equal.
    apply find_equal_started.
  - rewrite IH. destruct (first_dup (b :: t)) as [p|]; [|reflexivity].
    cbn [option_map skipn]. f_equal. lia.
Qed.

Lemma lead_lt : forall l, l <> [] -> (lead l < length l)%nat.
Proof.
  induction l as [|a l IH]; intros H; [congruence|].
  destruct l as [|b t]; [simpl; lia|]. rewrite lead_cons2.
  destruct (r_eqb b a); [|simpl; lia].
  assert (lead (b :: t) < length (b :: t))%nat by (apply IH; discriminate). simpl in *. lia.
Qed.

Lemma lead_equal : forall l j, (j <= lead l)%nat -> nth j l 0 = nth 0 l 0.
Proof.
  induction l as [|a l IH]; intros j Hj; [destruct j; reflexivity|].
  destruct l as [|b t]; [simpl in Hj; assert (j = 0)%nat by lia; subst; reflexivity|].
  rewrite lead_cons2 in Hj. destruct (r_eqb b a) eqn:E.
  - apply r_eqb_true in E. destruct j as [|j]; [reflexivity|].
    change (nth (S j) (a :: b :: t) 0) with (nth j (b :: t) 0).
    rewrite IH by lia. simpl. exact E.
  - assert (j = 0)%nat by lia. subst. reflexivity.
Qed.

Lemma lead_stop : forall l, (S (lead l) < length l)%nat ->
  nth (S (lead l)) l 0 <> nth (lead l) l 0.
Proof.
  induction l as [|a l IH]; intros H; [simpl in H; lia|].
  destruct l as [|b t]; [simpl in H; lia|].
  rewrite lead_cons2 in *. destruct (r_eqb b a) eqn:E.
  - change (nth (S (S (lead (b :: t)))) (a :: b :: t) 0) with (nth (S (lead (b :: t))) (b :: t) 0).
    change (nth (S (lead (b :: t))) (a :: b :: t) 0) with (nth (lead (b :: t)) (b :: t) 0).
    apply IH. simpl in *. lia.
  - simpl. intros Hc. assert (r_eqb b a = true) by (apply r_eqb_true; exact Hc). congruence.
Qed.

Lemma first_dup_spec : forall l p, first_dup l = Some p ->
  (S p < length l)%nat /\ nth (S p) l 0 = nth p l 0.
Proof.
  induction l as [|a l IH]; intros p H; [discriminate|].
  destruct l as [|b t]; [discriminate|].
  rewrite first_dup_cons2 in H. destruct (r_eqb b a) eqn:E.
  - injection H as <-. apply r_eqb_true in E. split; [simpl; lia | simpl; exact E].
  - destruct (first_dup (b :: t)) as [q|] eqn:F; [|discriminate].
    injection H as <-. destruct (IH q eq_refl) as [H1 H2]. split; [simpl in *; lia|].
    exact H2.
Qed.

Lemma first_dup_none : forall l, first_dup l = None -> NoDup l \/ True.
Proof. intros; right; exact I. Qed.

(* no equal neighbours at all and weakly monotone => pairwise distinct *)
Lemma first_dup_none_adj : forall l, first_dup l = None ->
  forall i, (S i < length l)%nat -> nth (S i) l 0 <> nth i l 0.
Proof.
  induction l as [|a l IH]; intros H i Hi; [simpl in Hi; lia|].
  destruct l as [|b t]; [simpl in Hi; lia|].
  rewrite first_dup_cons2 in H. destruct (r_eqb b a) eqn:E; [discriminate|].
  destruct (first_dup (b :: t)) eqn:F; [discriminate|].
  destruct i as [|i].
  - simpl. intros Hc. assert (r_eqb b a = true) by (apply r_eqb_true; exact Hc). congruence.
  - change (nth (S (S i)) (a :: b :: t) 0) with (nth (S i) (b :: t) 0).
    change (nth (S i) (a :: b :: t) 0) with (nth i (b :: t) 0).
    apply IH; [reflexivity | simpl in *; lia].
Qed.

Lemma nth_skipn {A} (d : A) : forall p (l : list A) j, nth j (skipn p l) d = nth (p + j) l d.
Proof.
  induction p as [|p IH]; intros l j; [reflexivity|].
  destruct l as [|x l]; [destruct j; reflexivity|]. simpl. apply IH.
Qed.

(* ---- one pass of the update ---------------------------------------------------- *)
Lemma nth_upd : forall (l : list R) j x i,
  nth i (upd R l j x) 0 = if (Nat.eqb i j && Nat.ltb j (length l))%bool then x else nth i l 0.
Proof.
  induction l as [|y l IH]; intros j x i.
  - destruct j, i; simpl; try reflexivity; rewrite ?andb_false_r; reflexivity.
  - destruct j as [|j], i as [|i]; simpl; try reflexivity.
    rewrite IH. reflexivity.
Qed.

Lemma combine_seq : forall L a s0,
  combine (seq s0 L) (seq (a + s0) L) = map (fun c => (c, a + c)%nat) (seq s0 L).
Proof.
  induction L as [|L IH]; intros a s0; [reflexivity|].
  cbn [seq combine map]. f_equal. replace (S (a + s0)) with (a + S s0)%nat by lia. apply IH.
Qed.

Lemma last_seq a L : last (seq a (S L)) 0%nat = (a + L)%nat.
Proof.
  revert a. induction L as [|L IH]; intros a; [simpl; lia|].
  change (seq a (S (S L))) with (a :: seq (S a) (S L)).
  change (last (a :: seq (S a) (S L)) 0%nat) with (last (seq (S a) (S L)) 0%nat).
  rewrite IH. lia.
Qed.

(* the two bodies of the inner loop *)
Definition stepA (a L : nat) (s : list R) (c : nat) : list R :=
  upd R s (a + c) (nth (a + c) s 0 + (nth (a + L) s 0 - nth a s 0) / INR (L + 5) * INR (S c)).
Definition stepB (s : list R) (c : nat) : list R :=
  upd R s (length s - 1) (nth (length s - 1) s 0 + (nth 1 s 0 - nth 0 s 0) / INR 10).

Lemma stepA_length a L s c : length (stepA a L s c) = length s.
Proof. apply upd_length. Qed.
Lemma stepB_length s c : length (stepB s c) = length s.
Proof. apply upd_length. Qed.

Lemma tb_update_seq s a L :
  r_tb_update s (seq a (S L)) =
  if Nat.ltb (S (a + L)) (length s) then fold_left (stepA a (S L)) (seq 0 (S L)) s
  else fold_left stepB (seq 0 (S L)) s.
Proof.
  unfold r_tb_update, tb_update. rewrite seq_length, last_seq.
  change (hd 0%nat (seq a (S L))) with a.
  replace (seq a (S L)) with (seq (a + 0) (S L)) at 1 by (f_equal; lia).
  rewrite combine_seq.
  generalize (seq 0 (S L)). intros cs. revert s.
  induction cs as [|c cs IH]; intros s.
  - simpl. destruct (Nat.ltb (S (a + L)) (length s)); reflexivity.
  - cbn [map fold_left].
    destruct (Nat.ltb (S (a + L)) (length s)) eqn:E.
    + rewrite IH, upd_length, E. unfold stepA.
      replace (a + S L)%nat with (S (a + L)) by lia. reflexivity.
    + rewrite IH, upd_length, E. reflexivity.
Qed.

Lemma fold_stepA_length a L : forall cs s, length (fold_left (stepA a L) cs s) = length s.
Proof. induction cs as [|c cs IH]; intros s; simpl; [reflexivity|]. rewrite IH. apply stepA_length. Qed.
Lemma fold_stepB_length : forall cs s, length (fold_left stepB cs s) = length s.
Proof. induction cs as [|c cs IH]; intros s; simpl; [reflexivity|]. rewrite IH. apply stepB_length. Qed.

(* closed form after k passes of the first body *)
Definition FA (s : list R) (a L k i : nat) : R :=
  let v := nth a s 0 in
  let top := nth (a + L) s 0 in
  let q := / INR (L + 5) in
  if (Nat.leb a i && Nat.ltb i (a + k))%bool
  then (if Nat.eqb i a then v + (top - v) * q
        else v + (top - (v + (top - v) * q)) * q * INR (S (i - a)))
  else nth i s 0.

Lemma FA_out s a L k i : ~ (a <= i < a + k)%nat -> FA s a L k i = nth i s 0.
Proof.
  intros H. unfold FA.
  destruct (Nat.leb a i) eqn:E1; destruct (Nat.ltb i (a + k)) eqn:E2; simpl; try reflexivity.
  apply Nat.leb_le in E1. apply Nat.ltb_lt in E2. lia.
Qed.

Lemma FA_in s a L k i : (a <= i < a + k)%nat ->
  FA s a L k i =
  if Nat.eqb i a then nth a s 0 + (nth (a + L) s 0 - nth a s 0) * / INR (L + 5)
  else nth a s 0 + (nth (a + L) s 0 - (nth a s 0 + (nth (a + L) s 0 - nth a s 0) * / INR (L + 5)))
                   * / INR (L + 5) * INR (S (i - a)).
Proof.
  intros H. unfold FA.
  assert (E1 : Nat.leb a i = true) by (apply Nat.leb_le; lia).
  assert (E2 : Nat.ltb i (a + k) = true) by (apply Nat.ltb_lt; lia).
  rewrite E1, E2. reflexivity.
Qed.

Lemma foldA_nth s a L :
  (forall c, (c < L)%nat -> nth (a + c) s 0 = nth a s 0) -> (a + L < length s)%nat ->
  forall k, (k <= L)%nat -> forall i,
  nth i (fold_left (stepA a L) (seq 0 k) s) 0 = FA s a L k i.
Proof.
  intros Hrun Hlen. induction k as [|k IH]; intros Hk i.
  - simpl. rewrite FA_out by lia. reflexivity.
  - rewrite seq_S, fold_left_app. cbn [fold_left Nat.add]. unfold stepA at 1.
    rewrite nth_upd, fold_stepA_length.
    assert (Hlt : Nat.ltb (a + k) (length s) = true) by (apply Nat.ltb_lt; lia).
    rewrite Hlt, andb_true_r. rewrite !IH by lia.
    destruct (Nat.eqb i (a + k)) eqn:E.
    + apply Nat.eqb_eq in E. subst i.
      rewrite (FA_out s a L k (a + k)) by lia.
      rewrite (FA_out s a L k (a + L)) by lia.
      rewrite (FA_in s a L (S k) (a + k)) by lia.
      rewrite (Hrun k) by lia.
      destruct k as [|k].
      * rewrite (FA_out s a L 0 a) by lia. rewrite Nat.add_0_r, Nat.eqb_refl.
        simpl INR. unfold Rdiv. ring.
      * rewrite (FA_in s a L (S k) a) by lia. rewrite Nat.eqb_refl.
        assert (En : Nat.eqb (a + S k) a = false) by (apply Nat.eqb_neq; lia). rewrite En.
        replace (a + S k - a)%nat with (S k) by lia. unfold Rdiv. ring.
    + apply Nat.eqb_neq in E.
      destruct (Nat.lt_ge_cases i a) as [Hl|Hl].
      * rewrite !FA_out by lia. reflexivity.
      * destruct (Nat.lt_ge_cases i (a + k)) as [Hm|Hm].
        -- rewrite (FA_in s a L k i), (FA_in s a L (S k) i) by lia. reflexivity.
        -- rewrite !FA_out by lia. reflexivity.
Qed.

(* closed form for the second body: only the last sample moves *)
Lemma foldB_nth s :
  ((3 <= length s)%nat \/ nth 1 s 0 = nth 0 s 0) ->
  forall k i,
  nth i (fold_left stepB (seq 0 k) s) 0 =
  if Nat.eqb i (length s - 1) then nth i s 0 + INR k * ((nth 1 s 0 - nth 0 s 0) / INR 10)
  else nth i s 0.
Proof.
  intros Hc. induction k as [|k IH]; intros i.
  - simpl. destruct (Nat.eqb i (length s - 1)); [ring | reflexivity].
  - rewrite seq_S, fold_left_app. cbn [fold_left Nat.add]. unfold stepB at 1.
    rewrite nth_upd, fold_stepB_length. rewrite !IH.
    destruct (Nat.eqb i (length s - 1)) eqn:E; [|rewrite andb_false_l; reflexivity].
    apply Nat.eqb_eq in E. subst i. rewrite Nat.eqb_refl.
    destruct (Nat.ltb (length s - 1) (length s)) eqn:E2.
    + simpl andb. cbv iota.
      destruct Hc as [Hc|Hc].
      * assert (E1 : Nat.eqb 1 (length s - 1) = false) by (apply Nat.eqb_neq; lia).
        assert (E0 : Nat.eqb 0 (length s - 1) = false) by (apply Nat.eqb_neq; lia).
        rewrite E1, E0. rewrite (S_INR k). unfold Rdiv. ring.
      * rewrite Hc. rewrite (S_INR k).
        destruct (Nat.eqb 1 (length s - 1)); destruct (Nat.eqb 0 (length s - 1));
          rewrite ?Hc; unfold Rdiv; ring.
    + apply Nat.ltb_ge in E2. assert (length s = 0)%nat by lia.
      destruct s; [|discriminate]. simpl. destruct Hc as [Hc|Hc]; [simpl in Hc; lia|].
      simpl. unfold Rdiv. ring.
Qed.

Lemma first_dup_lead : forall l p, first_dup l = Some p -> lead (skipn p l) <> O.
Proof.
  induction l as [|a l IH]; intros p H; [discriminate|].
  destruct l as [|b t]; [discriminate|].
  rewrite first_dup_cons2 in H. destruct (r_eqb b a) eqn:E.
  - injection H as <-. cbn [skipn]. rewrite lead_cons2, E. discriminate.
  - destruct (first_dup (b :: t)) as [q|] eqn:F; [|discriminate].
    injection H as <-. cbn [skipn]. apply IH. reflexivity.
Qed.

(* ---- what one pass does to the differences of neighbouring samples ---------------- *)
Lemma tb_pass_diff s :
  forall i, (S i < length s)%nat ->
  exists al ka j, 0 <= al /\ 0 <= ka /\ (S j < length s)%nat /\
    nth (S i) (r_tb_update s (r_find_equal s 0 false)) 0
    - nth i (r_tb_update s (r_find_equal s 0 false)) 0
    = al * (nth (S i) s 0 - nth i s 0) + ka * (nth (S j) s 0 - nth j s 0).
Proof.
  intros i Hi. rewrite find_equal_fresh.
  destruct (first_dup s) as [p|] eqn:F.
  2:{ exists 1, 0, i. repeat split; try lra; try exact Hi.
      unfold r_tb_update, tb_update. simpl. ring. }
  destruct (first_dup_spec s p F) as [Hp Epp].
  pose proof (first_dup_lead s p F) as Hl0.
  destruct (lead (skipn p s)) as [|L] eqn:EL; [congruence|]. clear Hl0.
  assert (Hrun : forall c, (c <= S L)%nat -> nth (p + c) s 0 = nth p s 0).
  { intros c Hc. pose proof (lead_equal (skipn p s) c) as H. rewrite EL in H.
    specialize (H Hc). rewrite !nth_skipn in H. rewrite Nat.add_0_r in H. exact H. }
  assert (Hlen : (p + S L < length s)%nat).
  { assert (H : (lead (skipn p s) < length (skipn p s))%nat).
    { apply lead_lt. intros Hc. apply (f_equal (@length R)) in Hc.
      rewrite skipn_length in Hc. simpl in Hc. lia. }
    rewrite EL, skipn_length in H. lia. }
  change (S (0 + p)) with (S p). set (a := S p).
  rewrite tb_update_seq.
  assert (Hq6 : 6 <= INR (S L + 5)).
  { replace 6 with (INR 6) by (simpl; lra). apply le_INR. lia. }
  set (q := / INR (S L + 5)).
  assert (Hq : 0 < q <= 1 / 6).
  { unfold q. split; [apply Rinv_0_lt_compat; lra|].
    unfold Rdiv. rewrite Rmult_1_l. apply Rinv_le_contravar; lra. }
  assert (HqL : q * INR (S L + 5) = 1) by (unfold q; field; lra).
  destruct (Nat.ltb (S (a + L)) (length s)) eqn:EA.
  - (* the run ends inside the array *)
    apply Nat.ltb_lt in EA.
    assert (HrunA : forall c, (c < S L)%nat -> nth (a + c) s 0 = nth a s 0).
    { intros c Hc. unfold a. replace (S p + c)%nat with (p + S c)%nat by lia.
      rewrite Hrun by lia. replace (S p) with (p + 1)%nat by lia. rewrite Hrun by lia. reflexivity. }
    assert (HlenA : (a + S L < length s)%nat) by lia.
    rewrite !(foldA_nth s a (S L) HrunA HlenA (S L)) by lia.
    set (v := nth a s 0). set (top := nth (a + S L) s 0).
    assert (Ev : nth (a + L) s 0 = v) by (apply HrunA; lia).
    assert (Evp : nth p s 0 = v).
    { unfold v, a. replace (S p) with (p + 1)%nat by lia. rewrite Hrun by lia. reflexivity. }
    (* D = top - v is the difference at j = a + L *)
    assert (HD : top - v = nth (S (a + L)) s 0 - nth (a + L) s 0).
    { rewrite Ev. unfold top. replace (a + S L)%nat with (S (a + L)) by lia. reflexivity. }
    destruct (Nat.lt_ge_cases (S i) a) as [C1|C1].
    { exists 1, 0, i. repeat split; try lra; try exact Hi. rewrite !FA_out by lia. ring. }
    destruct (Nat.lt_ge_cases i (a + S L)) as [C2|C2].
    2:{ exists 1, 0, i. repeat split; try lra; try exact Hi. rewrite !FA_out by lia. ring. }
    destruct (Nat.eq_dec (S i) a) as [C3|C3].
    { (* i = p, S i = a *)
      exists 0, q, (a + L)%nat. repeat split; try lra; try lia.
      rewrite (FA_in s a (S L) (S L) (S i)) by lia. rewrite (FA_out s a (S L) (S L) i) by lia.
      assert (E : Nat.eqb (S i) a = true) by (apply Nat.eqb_eq; exact C3). rewrite E.
      replace i with p by (unfold a in C3; lia). fold v top. fold q. rewrite Evp, <- HD. ring. }
    destruct (Nat.eq_dec (S i) (a + S L)) as [C4|C4].
    { (* i = a + L is the last moved sample, S i is the first one after the run *)
      rewrite (FA_out s a (S L) (S L) (S i)) by lia. rewrite (FA_in s a (S L) (S L) i) by lia.
      fold v top. fold q. rewrite C4. fold top.
      destruct (Nat.eqb i a) eqn:E.
      - exists 0, (1 - q), (a + L)%nat. repeat split; try lra; try lia. rewrite <- HD. ring.
      - apply Nat.eqb_neq in E. replace (S (i - a)) with (S L) by lia.
        exists 0, (1 - (1 - q) * q * INR (S L)), (a + L)%nat. repeat split; try lra; try lia.
        + assert (H1 : q * INR (S L) <= 1).
          { rewrite plus_INR in HqL. simpl (INR 5) in HqL. nra. }
          assert (0 <= INR (S L)) by apply pos_INR. nra.
        + rewrite <- HD. ring. }
    (* both samples inside the run *)
    rewrite (FA_in s a (S L) (S L) (S i)), (FA_in s a (S L) (S L) i) by lia.
    fold v top. fold q.
    assert (E1 : Nat.eqb (S i) a = false) by (apply Nat.eqb_neq; lia). rewrite E1.
    destruct (Nat.eqb i a) eqn:E.
    + apply Nat.eqb_eq in E. subst i. replace (S (S a - a)) with 2%nat by lia.
      exists 0, (q * (1 - 2 * q)), (a + L)%nat. repeat split; try lra; try lia; [nra|].
      rewrite <- HD. simpl INR. ring.
    + apply Nat.eqb_neq in E. replace (S (S i - a)) with (S (S (i - a))) by lia.
      exists 0, ((1 - q) * q), (a + L)%nat. repeat split; try lra; try lia; [nra|].
      rewrite <- HD. rewrite (S_INR (S (i - a))). ring.
  - (* the run reaches the last sample: only that one moves *)
    apply Nat.ltb_ge in EA.
    assert (Hn : length s = S (a + L)) by (unfold a in *; lia).
    assert (Hc : (3 <= length s)%nat \/ nth 1 s 0 = nth 0 s 0).
    { destruct (Nat.lt_ge_cases (length s) 3) as [H3|H3]; [right | left; exact H3].
      assert (p = 0)%nat by (unfold a in *; lia). subst p. exact Epp. }
    rewrite !(foldB_nth s Hc).
    assert (E0 : Nat.eqb i (length s - 1) = false) by (apply Nat.eqb_neq; lia). rewrite E0.
    destruct (Nat.eqb (S i) (length s - 1)) eqn:E1.
    + exists 1, (INR (S L) / INR 10), 0%nat.
      split; [lra|]. split.
      { apply Rmult_le_pos; [apply pos_INR|]. apply Rlt_le, Rinv_0_lt_compat. simpl. lra. }
      split; [lia|]. unfold Rdiv. ring.
    + exists 1, 0, i. repeat split; try lra; try exact Hi; try ring.
Qed.

(* ---- the loop keeps weak monotonicity --------------------------------------------- *)
Definition asc_adj (s : list R) : Prop :=
  forall i, (S i < length s)%nat -> nth i s 0 <= nth (S i) s 0.
Definition desc_adj (s : list R) : Prop :=
  forall i, (S i < length s)%nat -> nth (S i) s 0 <= nth i s 0.

Lemma tb_pass_asc s : asc_adj s -> asc_adj (r_tb_update s (r_find_equal s 0 false)).
Proof.
  intros H i Hi. rewrite tb_update_length in Hi.
  destruct (tb_pass_diff s i Hi) as [al [ka [j [Ha [Hk [Hj E]]]]]].
  pose proof (H i Hi) as H1. pose proof (H j Hj) as H2.
  assert (0 <= al * (nth (S i) s 0 - nth i s 0)) by (apply Rmult_le_pos; lra).
  assert (0 <= ka * (nth (S j) s 0 - nth j s 0)) by (apply Rmult_le_pos; lra).
  lra.
Qed.

Lemma tb_pass_desc s : desc_adj s -> desc_adj (r_tb_update s (r_find_equal s 0 false)).
Proof.
  intros H i Hi. rewrite tb_update_length in Hi.
  destruct (tb_pass_diff s i Hi) as [al [ka [j [Ha [Hk [Hj E]]]]]].
  pose proof (H i Hi) as H1. pose proof (H j Hj) as H2.
  assert (0 <= al * (nth i s 0 - nth (S i) s 0)) by (apply Rmult_le_pos; lra).
  assert (0 <= ka * (nth j s 0 - nth (S j) s 0)) by (apply Rmult_le_pos; lra).
  lra.
Qed.

Lemma tiebreak_unfold f s :
  r_tiebreak (S f) s =
  if r_all_distinct s then Ok s else r_tiebreak f (r_tb_update s (r_find_equal s 0 false)).
Proof. reflexivity. Qed.

Lemma tiebreak_asc : forall fuel s out, asc_adj s -> r_tiebreak fuel s = Ok out -> asc_adj out.
Proof.
  induction fuel as [|f IH]; intros s out Hs H; [discriminate|].
  rewrite tiebreak_unfold in H. destruct (r_all_distinct s).
  - injection H as <-. exact Hs.
  - eapply IH; [|exact H]. apply tb_pass_asc. exact Hs.
Qed.

Lemma tiebreak_desc : forall fuel s out, desc_adj s -> r_tiebreak fuel s = Ok out -> desc_adj out.
Proof.
  induction fuel as [|f IH]; intros s out Hs H; [discriminate|].
  rewrite tiebreak_unfold in H. destruct (r_all_distinct s).
  - injection H as <-. exact Hs.
  - eapply IH; [|exact H]. apply tb_pass_desc. exact Hs.
Qed.

Lemma asc_adj_all s : asc_adj s -> forall i j, (i < j < length s)%nat -> nth i s 0 <= nth j s 0.
Proof.
  intros H i j [Hij Hj]. induction j as [|j IH]; [lia|].
  destruct (Nat.eq_dec i j) as [->|N]; [apply H; exact Hj|].
  apply Rle_trans with (nth j s 0); [apply IH; lia | apply H; exact Hj].
Qed.

Lemma desc_adj_all s : desc_adj s -> forall i j, (i < j < length s)%nat -> nth j s 0 <= nth i s 0.
Proof.
  intros H i j [Hij Hj]. induction j as [|j IH]; [lia|].
  destruct (Nat.eq_dec i j) as [->|N]; [apply H; exact Hj|].
  apply Rle_trans with (nth j s 0); [apply H; exact Hj | apply IH; lia].
Qed.

(* the tie-breaking loop turns weakly monotone data into strictly monotone data *)
Lemma tiebreak_strict_asc fuel s out : asc_adj s -> r_tiebreak fuel s = Ok out ->
  forall i j, (i < j < length out)%nat -> nth i out 0 < nth j out 0.
Proof.
  intros Hs H. apply strict_of_weak_distinct.
  - apply asc_adj_all. eapply tiebreak_asc; eassumption.
  - eapply tiebreak_distinct. exact H.
Qed.

Lemma tiebreak_strict_desc fuel s out : desc_adj s -> r_tiebreak fuel s = Ok out ->
  forall i j, (i < j < length out)%nat -> nth j out 0 < nth i out 0.
Proof.
  intros Hs H. apply strict_of_weak_distinct_desc.
  - apply desc_adj_all. eapply tiebreak_desc; eassumption.
  - eapply tiebreak_distinct. exact H.
Qed.
