(* String facts: append cancellation, order facts, prefix-free codes. *)
From Coq Require Import List String Ascii Bool Arith Lia OrderedTypeEx.
Import ListNotations.
Local Open Scope string_scope.

Lemma las_app a b : list_ascii_of_string (a ++ b) = (list_ascii_of_string a ++ list_ascii_of_string b)%list.
Proof. induction a as [|c a IH]; simpl; [reflexivity | rewrite IH; reflexivity]. Qed.

Lemma las_inj a b : list_ascii_of_string a = list_ascii_of_string b -> a = b.
Proof.
  intros H. rewrite <- (string_of_list_ascii_of_string a), <- (string_of_list_ascii_of_string b).
  rewrite H. reflexivity.
Qed.

Lemma append_assoc a b c : (a ++ b) ++ c = a ++ (b ++ c).
Proof. induction a as [|x a IH]; simpl; [reflexivity | rewrite IH; reflexivity]. Qed.

Lemma append_nil_r a : a ++ "" = a.
Proof. induction a as [|x a IH]; simpl; [reflexivity | rewrite IH; reflexivity]. Qed.

Lemma append_inv_head p a b : p ++ a = p ++ b -> a = b.
Proof. induction p as [|x p IH]; simpl; intros H; [exact H | inversion H; auto]. Qed.

Lemma append_inv_tail s a b : a ++ s = b ++ s -> a = b.
Proof.
  intros H. apply las_inj. apply (f_equal list_ascii_of_string) in H.
  rewrite !las_app in H. eapply app_inv_tail. exact H.
Qed.

Lemma length_append a b : String.length (a ++ b) = String.length a + String.length b.
Proof. induction a as [|x a IH]; simpl; [reflexivity | rewrite IH; reflexivity]. Qed.

(* p ++ a ++ s = p ++ b ++ s  ->  a = b *)
Lemma sandwich_inj p s a b : p ++ a ++ s = p ++ b ++ s -> a = b.
Proof. intros H. apply append_inv_head in H. eapply append_inv_tail. exact H. Qed.

(* equal-length heads of equal concatenations are equal *)
Lemma append_eq_length a b r1 r2 :
  String.length a = String.length b -> a ++ r1 = b ++ r2 -> a = b /\ r1 = r2.
Proof.
  revert b. induction a as [|x a IH]; intros [|y b] Hl H; simpl in *; try discriminate.
  - split; [reflexivity | exact H].
  - inversion H; subst. inversion Hl as [Hl']. destruct (IH b Hl' H2) as [-> ->]. split; reflexivity.
Qed.

(* ---- order ---------------------------------------------------------------- *)
Lemma leb_refl s : String.leb s s = true.
Proof.
  unfold String.leb. assert (H : String.compare s s = Eq) by (apply (proj2 (String_as_OT.cmp_eq s s)); reflexivity).
  rewrite H. reflexivity.
Qed.

Lemma leb_trans a b c : String.leb a b = true -> String.leb b c = true -> String.leb a c = true.
Proof.
  unfold String.leb. intros H1 H2.
  destruct (String.compare a b) eqn:E1; try discriminate;
  destruct (String.compare b c) eqn:E2; try discriminate.
  - apply String.compare_eq_iff in E1, E2. subst.
    assert (H : String.compare c c = Eq) by (apply (proj2 (String_as_OT.cmp_eq c c)); reflexivity).
    rewrite H. reflexivity.
  - apply String.compare_eq_iff in E1. subst. rewrite E2. reflexivity.
  - apply String.compare_eq_iff in E2. subst. rewrite E1. reflexivity.
  - assert (L : String_as_OT.lt a c).
    { eapply String_as_OT.lt_trans; apply String_as_OT.cmp_lt; eassumption. }
    apply String_as_OT.cmp_lt in L. unfold String_as_OT.cmp in L. rewrite L. reflexivity.
Qed.

Lemma leb_false_leb a b : String.leb a b = false -> String.leb b a = true.
Proof. intros H. destruct (String.leb_total a b) as [H1|H1]; congruence. Qed.

(* ---- prefix-free codes decode uniquely ------------------------------------ *)
Lemma prefix_append a r : String.prefix a (a ++ r) = true.
Proof.
  induction a as [|x a IH]; simpl.
  - destruct r; reflexivity.
  - destruct (ascii_dec x x); [exact IH | congruence].
Qed.

Lemma append_eq_prefix a b r1 r2 :
  a ++ r1 = b ++ r2 -> String.prefix a b = true \/ String.prefix b a = true.
Proof.
  revert b. induction a as [|x a IH]; intros b H.
  - left. destruct b; reflexivity.
  - destruct b as [|y b].
    + right. reflexivity.
    + simpl in H. inversion H; subst. destruct (IH b H2) as [H3|H3]; [left|right];
        simpl; destruct (ascii_dec y y); congruence.
Qed.

Definition prefix_free (C : list string) : Prop :=
  forall a b, In a C -> In b C -> String.prefix a b = true -> a = b.

Definition prefix_free_b (C : list string) : bool :=
  forallb (fun a => forallb (fun b => implb (String.prefix a b) (String.eqb a b)) C) C
  && forallb (fun a => negb (String.eqb a "")) C.

Lemma prefix_free_b_ok C : prefix_free_b C = true ->
  prefix_free C /\ (forall a, In a C -> a <> "").
Proof.
  unfold prefix_free_b. intros H. apply andb_prop in H. destruct H as [H1 H2].
  rewrite forallb_forall in H1, H2. split.
  - intros a b Ha Hb Hp. specialize (H1 a Ha). rewrite forallb_forall in H1.
    specialize (H1 b Hb). rewrite Hp in H1. simpl in H1. apply String.eqb_eq. exact H1.
  - intros a Ha Hn. specialize (H2 a Ha). subst. simpl in H2. discriminate.
Qed.

Fixpoint concat_all (l : list string) : string :=
  match l with [] => "" | a :: t => a ++ concat_all t end.

Lemma prefix_free_decode C : prefix_free C -> (forall a, In a C -> a <> "") ->
  forall l1 l2, Forall (fun a => In a C) l1 -> Forall (fun a => In a C) l2 ->
                concat_all l1 = concat_all l2 -> l1 = l2.
Proof.
  intros Hpf Hne. induction l1 as [|a t1 IH]; intros l2 F1 F2 H.
  - destruct l2 as [|b t2]; [reflexivity|]. simpl in H. inversion F2; subst.
    exfalso. apply (Hne b); [assumption|]. destruct b; [reflexivity | discriminate].
  - destruct l2 as [|b t2].
    + simpl in H. inversion F1; subst. exfalso. apply (Hne a); [assumption|].
      destruct a; [reflexivity | discriminate].
    + simpl in H. inversion F1; inversion F2; subst.
      assert (a = b) as ->.
      { destruct (append_eq_prefix _ _ _ _ H) as [Hp|Hp].
        - apply Hpf; assumption.
        - symmetry. apply Hpf; assumption. }
      apply append_inv_head in H. f_equal. apply IH; assumption.
Qed.
