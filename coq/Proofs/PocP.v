(* R instance of Model/Poc.v and its theorems: invariance of every estimator under
   positive scaling and shifting of the force, validity of the returned index,
   fallback to the centre. *)
From Coq Require Import ZArith String.
From Coq Require Import List Bool Arith Reals Lra Lia.
From NV Require Import Base.Exn Model.FitCore Model.Steps Model.Poc Proofs.FitCoreP Proofs.StepsP.
Import ListNotations.
Local Open Scope R_scope.

Definition r_leb (x y : R) : bool := if Rle_dec x y then true else false.
Lemma r_leb_true x y : r_leb x y = true <-> x <= y.
Proof. unfold r_leb. destruct (Rle_dec x y); split; intros; try assumption; try reflexivity; try discriminate; contradiction. Qed.

Definition r_list_max := list_max R r_ltb 0.
Definition r_list_min := list_min R r_ltb 0.
Definition r_clip := clip R r_ltb.
Definition r_deviation := deviation R Rminus Rmult Rabs r_ltb 0 2.
Definition r_normalise := normalise R Rminus Rdiv r_ltb 0.
Definition r_linspace01 n := linspace R Rplus Rmult Rdiv INR 0 1 Rminus n.
Definition r_frechet_idx := frechet_idx R Rplus Rminus Rmult Rdiv r_ltb 0 1 INR.
Definition r_frechet := frechet R Rplus Rminus Rmult Rdiv r_ltb 0 1 INR.
Definition r_fit_based := fit_based R Rplus Rminus Rmult Rdiv r_ltb r_leb 0 1 INR.
Definition r_np_gradient := np_gradient R Rminus Rdiv 2.
Definition r_gzc := gzc R Rminus Rmult Rdiv r_ltb r_leb 0 2 (1 / 100).
Definition r_compute_poc := compute_poc R r_ltb.

Definition aff (c s x : R) : R := c * x + s.
Notation r_baseline_of := (baseline_of R).

(* ---- comparisons and extreme values under x |-> c x + s, c > 0 -------------------- *)
Lemma ltb_aff c s a b : 0 < c -> r_ltb (aff c s a) (aff c s b) = r_ltb a b.
Proof.
  intros Hc. unfold aff. destruct (r_ltb a b) eqn:E.
  - apply r_ltb_true in E. apply r_ltb_true. nra.
  - apply r_ltb_false in E. apply r_ltb_false. nra.
Qed.

Lemma leb_scale c a b : 0 < c -> r_leb (c * a) (c * b) = r_leb a b.
Proof.
  intros Hc. unfold r_leb. destruct (Rle_dec a b); destruct (Rle_dec (c * a) (c * b)); try reflexivity; exfalso; nra.
Qed.

Lemma argbest_aff_max c s : 0 < c -> forall l i bi best,
  argbest R (fun a b => r_ltb b a) (map (aff c s) l) i bi (aff c s best) =
  argbest R (fun a b => r_ltb b a) l i bi best.
Proof.
  intros Hc. induction l as [|x l IH]; intros i bi best; simpl; [reflexivity|].
  rewrite ltb_aff by exact Hc. destruct (r_ltb best x); apply IH.
Qed.

Lemma argbest_aff_min c s : 0 < c -> forall l i bi best,
  argbest R (fun a b => r_ltb a b) (map (aff c s) l) i bi (aff c s best) =
  argbest R (fun a b => r_ltb a b) l i bi best.
Proof.
  intros Hc. induction l as [|x l IH]; intros i bi best; simpl; [reflexivity|].
  rewrite ltb_aff by exact Hc. destruct (r_ltb x best); apply IH.
Qed.

Lemma argmax_aff c s l : 0 < c -> r_argmax (map (aff c s) l) = r_argmax l.
Proof. intros Hc. destruct l as [|x l]; [reflexivity|]. apply argbest_aff_max. exact Hc. Qed.

Lemma argmin_aff c s l : 0 < c -> r_argmin (map (aff c s) l) = r_argmin l.
Proof. intros Hc. destruct l as [|x l]; [reflexivity|]. apply argbest_aff_min. exact Hc. Qed.

Lemma fold_max_aff c s : 0 < c -> forall l x,
  fold_max R r_ltb (aff c s x) (map (aff c s) l) = aff c s (fold_max R r_ltb x l).
Proof.
  intros Hc. induction l as [|y l IH]; intros x; simpl; [reflexivity|].
  rewrite ltb_aff by exact Hc. destruct (r_ltb x y); apply IH.
Qed.

Lemma fold_min_aff c s : 0 < c -> forall l x,
  fold_min R r_ltb (aff c s x) (map (aff c s) l) = aff c s (fold_min R r_ltb x l).
Proof.
  intros Hc. induction l as [|y l IH]; intros x; simpl; [reflexivity|].
  rewrite ltb_aff by exact Hc. destruct (r_ltb y x); apply IH.
Qed.

Lemma list_max_aff c s l : 0 < c -> l <> [] -> r_list_max (map (aff c s) l) = aff c s (r_list_max l).
Proof. intros Hc Hl. destruct l as [|x l]; [contradiction|]. apply fold_max_aff. exact Hc. Qed.

Lemma list_min_aff c s l : 0 < c -> l <> [] -> r_list_min (map (aff c s) l) = aff c s (r_list_min l).
Proof. intros Hc Hl. destruct l as [|x l]; [contradiction|]. apply fold_min_aff. exact Hc. Qed.

Lemma map_scale_is_aff c l : map (fun x => c * x) l = map (aff c 0) l.
Proof. apply map_ext. intros x. unfold aff. ring. Qed.

(* ---- clipping ----------------------------------------------------------------------- *)
Lemma clip_aff c s f : 0 < c -> r_clip (map (aff c s) f) = map (aff c s) (r_clip f).
Proof.
  intros Hc. unfold r_clip, clip. fold r_argmax. rewrite argmax_aff by exact Hc.
  apply firstn_map.
Qed.

Lemma argbest_bound (better : R -> R -> bool) : forall l i besti best,
  let r := argbest R better l i besti best in
  (r = besti \/ (i <= r < i + length l)%nat).
Proof.
  induction l as [|x l IH]; intros i besti best; simpl; [left; reflexivity|].
  destruct (better x best).
  - destruct (IH (S i) i x) as [E|E]; right; simpl in *; lia.
  - destruct (IH (S i) besti best) as [E|E]; [left; exact E | right; simpl in *; lia].
Qed.

Lemma argmax_lt l : l <> [] -> (r_argmax l < length l)%nat.
Proof.
  destruct l as [|x l]; [contradiction|]. intros _. unfold r_argmax, argmax.
  pose proof (argbest_bound (fun a b => r_ltb b a) l 1 0 x) as H. simpl in *. lia.
Qed.

Lemma argmin_lt l : l <> [] -> (r_argmin l < length l)%nat.
Proof.
  destruct l as [|x l]; [contradiction|]. intros _. unfold r_argmin, argmin.
  pose proof (argbest_bound (fun a b => r_ltb a b) l 1 0 x) as H. simpl in *. lia.
Qed.

Lemma clip_shorter f : f <> [] -> (length (r_clip f) < length f)%nat.
Proof.
  intros Hf. unfold r_clip, clip. fold r_argmax. rewrite firstn_length.
  pose proof (argmax_lt f Hf). lia.
Qed.

(* ---- deviation from baseline ---------------------------------------------------------- *)
Lemma first_true_bound : forall l i j, first_true l i = Some j -> (i <= j < i + length l)%nat.
Proof.
  induction l as [|b l IH]; intros i j H; simpl in H; [discriminate|].
  destruct b.
  - injection H as <-. simpl. lia.
  - apply IH in H. simpl. lia.
Qed.

Lemma first_true_true : forall l i j, first_true l i = Some j -> nth (j - i) l false = true.
Proof.
  induction l as [|b l IH]; intros i j H; simpl in H; [discriminate|].
  destruct b.
  - injection H as <-. rewrite Nat.sub_diag. reflexivity.
  - pose proof (first_true_bound _ _ _ H) as Hb. apply IH in H.
    replace (j - i)%nat with (S (j - S i)) by lia. exact H.
Qed.

Lemma deviation_valid avg f cp : r_deviation avg f = Some cp -> (cp < length f)%nat.
Proof.
  unfold r_deviation, deviation. destruct (r_baseline_of f); [discriminate|].
  intros H. apply first_true_bound in H. rewrite map_length in H. lia.
Qed.

Lemma baseline_aff c s f : r_baseline_of (map (aff c s) f) = map (aff c s) (r_baseline_of f).
Proof. unfold baseline_of. rewrite map_length. apply firstn_map. Qed.

Lemma deviation_aff c s avg f : 0 < c ->
  r_deviation (aff c s avg) (map (aff c s) f) = r_deviation avg f.
Proof.
  intros Hc. unfold r_deviation, deviation. rewrite baseline_aff.
  destruct (r_baseline_of f) as [|b0 bl] eqn:Eb; [reflexivity|].
  change (map (aff c s) (b0 :: bl)) with (aff c s b0 :: map (aff c s) bl).
  cbv iota.
  set (devs := map (fun b => Rabs (b - avg)) (b0 :: bl)).
  assert (E1 : map (fun b => Rabs (b - aff c s avg)) (aff c s b0 :: map (aff c s) bl)
               = map (aff c 0) devs).
  { unfold devs. change (aff c s b0 :: map (aff c s) bl) with (map (aff c s) (b0 :: bl)).
    rewrite !map_map. apply map_ext. intros b. unfold aff.
    replace (c * b + s - (c * avg + s)) with (c * (b - avg)) by ring.
    rewrite Rabs_mult, (Rabs_pos_eq c) by lra. ring. }
  rewrite E1. fold r_list_max.
  rewrite list_max_aff by (try exact Hc; unfold devs; discriminate).
  rewrite map_map. f_equal. apply map_ext. intros x.
  unfold aff.
  replace (c * x + s - (c * avg + s)) with (c * (x - avg)) by ring.
  replace ((c * r_list_max devs + 0) * 2) with (c * (r_list_max devs * 2)) by ring.
  destruct (r_ltb (r_list_max devs * 2) (x - avg)) eqn:E.
  - apply r_ltb_true in E. apply r_ltb_true. nra.
  - apply r_ltb_false in E. apply r_ltb_false. nra.
Qed.

Lemma rsum_aff c s : forall l, rsum (map (aff c s) l) = c * rsum l + INR (length l) * s.
Proof.
  induction l as [|x l IH]; [simpl; ring|].
  change (map (aff c s) (x :: l)) with (aff c s x :: map (aff c s) l).
  change (length (x :: l)) with (S (length l)). rewrite S_INR.
  simpl rsum. rewrite IH. unfold aff. ring.
Qed.

Lemma mean_aff c s l : l <> [] -> mean (map (aff c s) l) = aff c s (mean l).
Proof.
  intros Hl. unfold mean. rewrite rsum_aff, map_length. unfold aff. field.
  apply not_0_INR. destruct l; [contradiction | simpl; lia].
Qed.

(* the estimator with the baseline mean computed exactly *)
Definition deviation_exact (f : list R) : option nat := r_deviation (mean (r_baseline_of f)) f.

Lemma deviation_exact_aff c s f : 0 < c ->
  deviation_exact (map (aff c s) f) = deviation_exact f.
Proof.
  intros Hc. unfold deviation_exact. rewrite baseline_aff.
  destruct (r_baseline_of f) as [|b0 bl] eqn:Eb.
  - unfold r_deviation, deviation. rewrite baseline_aff, Eb. reflexivity.
  - rewrite mean_aff by discriminate. apply deviation_aff. exact Hc.
Qed.

(* ---- normalisation, Frechet, fit-based --------------------------------------------------- *)
Lemma normalise_aff c s f : 0 < c -> r_list_max f <> r_list_min f ->
  r_normalise (map (aff c s) f) = r_normalise f.
Proof.
  intros Hc Hne. destruct f as [|x0 f0] eqn:Ef; [reflexivity|]. rewrite <- Ef in *.
  assert (Hf : f <> []) by (rewrite Ef; discriminate).
  unfold r_normalise, normalise. fold r_list_max r_list_min.
  rewrite list_max_aff, list_min_aff by assumption. rewrite map_map.
  assert (Hd : r_list_max f - r_list_min f <> 0) by (intros H; apply Hne; lra).
  apply map_ext. intros v. unfold aff. field.
  split; [exact Hd|]. intros H. apply Hd.
  assert (c * (r_list_max f - r_list_min f) = 0) as Hz by lra.
  apply Rmult_integral in Hz. destruct Hz; lra.
Qed.

Lemma frechet_idx_aff sA cA c s f : 0 < c -> r_list_max f <> r_list_min f ->
  r_frechet_idx sA cA (map (aff c s) f) = r_frechet_idx sA cA f.
Proof.
  intros Hc Hne. unfold r_frechet_idx, frechet_idx. fold r_normalise.
  rewrite normalise_aff by assumption. rewrite map_length. reflexivity.
Qed.

Lemma frechet_aff sA cA c s f : 0 < c -> r_list_max f <> r_list_min f ->
  r_frechet sA cA (map (aff c s) f) = r_frechet sA cA f.
Proof.
  intros Hc Hne. unfold r_frechet, frechet. destruct f as [|x f]; [reflexivity|].
  change (map (aff c s) (x :: f)) with (aff c s x :: map (aff c s) f). cbv iota.
  f_equal. apply (frechet_idx_aff sA cA c s (x :: f)); assumption.
Qed.

Lemma normalise_length f : length (r_normalise f) = length f.
Proof. unfold r_normalise, normalise. apply map_length. Qed.

Lemma linspace01_length n : length (r_linspace01 n) = n.
Proof.
  unfold r_linspace01, linspace. destruct n as [|[|m]]; try reflexivity.
  rewrite app_length, map_length, seq_length. simpl. lia.
Qed.

Lemma frechet_valid sA cA f cp : r_frechet sA cA f = Some cp -> (cp < length f)%nat.
Proof.
  unfold r_frechet, frechet. destruct f as [|x f]; [discriminate|].
  intros H. injection H as <-. unfold frechet_idx. fold r_argmin.
  set (l := map2 _ _ _).
  assert (Hl : length l = length (x :: f)).
  { unfold l. rewrite map2_length.
    - fold (r_linspace01 (length (x :: f))). apply linspace01_length.
    - fold (r_linspace01 (length (x :: f))). fold r_normalise.
      rewrite linspace01_length, normalise_length. reflexivity. }
  rewrite <- Hl. apply argmin_lt. intros E. rewrite E in Hl. discriminate.
Qed.

Lemma frechet_empty sA cA : r_frechet sA cA [] = None.
Proof. reflexivity. Qed.

(* whatever the optimiser does: it is handed the same normalised data and start index *)
Lemma fit_based_aff sA cA NM minsize c s f : 0 < c ->
  r_fit_based sA cA NM minsize (map (aff c s) f) = r_fit_based sA cA NM minsize f.
Proof.
  intros Hc. unfold r_fit_based, fit_based. rewrite map_length.
  destruct (Nat.ltb minsize (length f)) eqn:El; [|reflexivity]. simpl andb.
  assert (Hf : f <> []).
  { intros E. subst. simpl in El. apply Nat.ltb_lt in El. lia. }
  fold r_list_max r_list_min. rewrite list_max_aff, list_min_aff by assumption.
  assert (Ep : r_ltb 0 (aff c s (r_list_max f) - aff c s (r_list_min f)) =
               r_ltb 0 (r_list_max f - r_list_min f)).
  { unfold aff. destruct (r_ltb 0 (r_list_max f - r_list_min f)) eqn:E.
    - apply r_ltb_true in E. apply r_ltb_true. nra.
    - apply r_ltb_false in E. apply r_ltb_false. nra. }
  rewrite Ep. destruct (r_ltb 0 (r_list_max f - r_list_min f)) eqn:E; [|reflexivity].
  apply r_ltb_true in E. fold r_normalise.
  assert (Hne : r_list_max f <> r_list_min f) by lra.
  rewrite normalise_aff by assumption.
  fold (r_frechet_idx sA cA (map (aff c s) f)). fold (r_frechet_idx sA cA f).
  assert (Ei : r_frechet_idx sA cA (map (aff c s) f) = r_frechet_idx sA cA f).
  { unfold r_frechet_idx, frechet_idx. fold r_normalise. rewrite normalise_aff by assumption.
    rewrite map_length. reflexivity. }
  rewrite Ei. reflexivity.
Qed.

Lemma fit_based_valid sA cA NM minsize f z :
  (forall y i x zz, NM y i = Some (x, zz) -> 0 <= x < INR (length f) -> (0 <= zz < Z.of_nat (length f))%Z) ->
  r_fit_based sA cA NM minsize f = Some z -> (0 <= z < Z.of_nat (length f))%Z.
Proof.
  intros Hint. unfold r_fit_based, fit_based.
  destruct (Nat.ltb minsize (length f) && r_ltb 0 _); [|discriminate].
  destruct (NM _ _) as [[x zz]|] eqn:En; [|discriminate].
  destruct (r_leb 0 x) eqn:E1; [|discriminate].
  destruct (r_ltb x (INR (length f))) eqn:E2; [|discriminate].
  simpl. intros H. injection H as <-.
  apply r_leb_true in E1. apply r_ltb_true in E2. eapply Hint; [exact En | lra].
Qed.

(* ---- gradient zero crossing ---------------------------------------------------------------- *)
Lemma grad_inner_aff c s : forall l prev,
  grad_inner R Rminus Rdiv 2 (aff c s prev) (map (aff c s) l) =
  map (fun x => c * x) (grad_inner R Rminus Rdiv 2 prev l).
Proof.
  induction l as [|cur l IH]; intros prev; [reflexivity|].
  destruct l as [|nxt l].
  - simpl. f_equal. unfold aff. ring.
  - change (map (aff c s) (cur :: nxt :: l)) with (aff c s cur :: aff c s nxt :: map (aff c s) l).
    change (grad_inner R Rminus Rdiv 2 (aff c s prev) (aff c s cur :: aff c s nxt :: map (aff c s) l))
      with ((aff c s nxt - aff c s prev) / 2 ::
            grad_inner R Rminus Rdiv 2 (aff c s cur) (map (aff c s) (nxt :: l))).
    rewrite IH. simpl. f_equal. unfold aff. field.
Qed.

Lemma np_gradient_aff c s y :
  r_np_gradient (map (aff c s) y) = map (fun x => c * x) (r_np_gradient y).
Proof.
  unfold r_np_gradient, np_gradient. destruct y as [|a [|b y]]; try reflexivity.
  change (map (aff c s) (a :: b :: y)) with (aff c s a :: map (aff c s) (b :: y)).
  change (map (aff c s) (b :: y)) with (aff c s b :: map (aff c s) y) at 1.
  cbv iota. change (aff c s b :: map (aff c s) y) with (map (aff c s) (b :: y)).
  rewrite grad_inner_aff. simpl. f_equal. unfold aff. ring.
Qed.

Lemma last_true_ext : forall (l1 l2 : list bool) i acc, l1 = l2 -> last_true l1 i acc = last_true l2 i acc.
Proof. intros; subst; reflexivity. Qed.

Section GZC.
  Variable UF : nat -> list R -> list R.
  Hypothesis UF_len : forall k l, length (UF k l) = length l.
  Hypothesis UF_aff : forall k c s l, 0 < c -> UF k (map (aff c s) l) = map (aff c s) (UF k l).

  Lemma gzc_aff c s f : 0 < c -> r_gzc UF (map (aff c s) f) = r_gzc UF f.
  Proof.
    intros Hc. unfold r_gzc, gzc. rewrite map_length.
    set (fs := filtsize (length f)).
    rewrite UF_aff by exact Hc. rewrite map_length.
    destruct (Nat.ltb 1 (length (UF fs f))); [|reflexivity].
    fold r_argmax. rewrite argmax_aff by exact Hc.
    fold r_np_gradient. rewrite np_gradient_aff.
    set (cutoff := (length (UF fs f) - r_argmax (UF fs f) + 10)%nat).
    rewrite firstn_map, map_length.
    set (grad := firstn (length (UF fs f) - cutoff) (r_np_gradient (UF fs f))).
    destruct (Nat.ltb 50 (length grad)) eqn:E50; [|reflexivity].
    rewrite map_scale_is_aff, UF_aff by exact Hc. rewrite map_length.
    assert (Hg : UF fs grad <> []).
    { intros E. apply (f_equal (@length R)) in E. rewrite UF_len in E. simpl in E.
      apply Nat.ltb_lt in E50. lia. }
    fold r_list_max. rewrite list_max_aff by assumption.
    rewrite map_map.
    assert (Em : map (fun x => r_leb (aff c 0 x) (1 / 100 * aff c 0 (r_list_max (UF fs grad)))) (UF fs grad)
                 = map (fun g => r_leb g (1 / 100 * r_list_max (UF fs grad))) (UF fs grad)).
    { apply map_ext. intros g. unfold aff.
      replace (c * g + 0) with (c * g) by ring.
      replace (1 / 100 * (c * r_list_max (UF fs grad) + 0)) with (c * (1 / 100 * r_list_max (UF fs grad))) by ring.
      apply leb_scale. exact Hc. }
    rewrite Em. reflexivity.
  Qed.

  Lemma gzc_valid f cp : r_gzc UF f = Some cp -> (cp < length f)%nat.
  Proof.
    unfold r_gzc, gzc. set (fs := filtsize (length f)).
    destruct (Nat.ltb 1 (length (UF fs f))) eqn:E1; [|discriminate].
    destruct (Nat.ltb 50 _); [|discriminate].
    destruct (last_true _ _ _); [|discriminate].
    intros H. injection H as <-. apply Nat.ltb_lt in E1. rewrite UF_len in *. lia.
  Qed.
End GZC.

(* ---- compute_poc ----------------------------------------------------------------------------- *)
Lemma compute_poc_unknown tab est meth f : lookup meth tab = None ->
  r_compute_poc tab est meth f = Err ValueError.
Proof. intros H. unfold r_compute_poc, compute_poc. rewrite H. reflexivity. Qed.

Lemma compute_poc_fallback tab est meth f flag :
  lookup meth tab = Some flag ->
  let f' := if flag then r_clip f else f in
  est meth f' = Ok None ->
  r_compute_poc tab est meth f = Ok (Z.of_nat (length f' / 2)) /\
  (f <> [] -> (length f' / 2 < length f)%nat).
Proof.
  intros Hl f' He. unfold r_compute_poc, compute_poc. rewrite Hl. fold r_clip. fold f'.
  rewrite He. split; [reflexivity|]. intros Hf.
  assert (length f' <= length f)%nat.
  { unfold f'. destruct flag; [|lia]. pose proof (clip_shorter f Hf). lia. }
  assert (0 < length f)%nat by (destruct f; [contradiction | simpl; lia]).
  apply Nat.div_lt_upper_bound; lia.
Qed.

Lemma compute_poc_estimate tab est meth f flag cp :
  lookup meth tab = Some flag ->
  est meth (if flag then r_clip f else f) = Ok (Some cp) ->
  r_compute_poc tab est meth f = Ok cp.
Proof.
  intros Hl He. unfold r_compute_poc, compute_poc. rewrite Hl. fold r_clip. rewrite He. reflexivity.
Qed.
