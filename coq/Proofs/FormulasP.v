(* Generated model functions = published closed forms. *)
From Coq Require Import Reals Lra.
From NV Require Import Base.RealExtra Gen.ModelFuncs Model.Formulas.
Local Open Scope R_scope.

Ltac split_contact cp delta :=
  cbv zeta; destruct (Rlt_dec 0 (cp - delta)); destruct (Rlt_dec delta cp); try lra.

Ltac finish := rewrite ?ppow_pos by assumption; field; repeat split; auto using PI_neq0.

Lemma formula_hertz_para E R nu cp bl delta : 1 - nu ^ 2 <> 0 ->
  m_hertz_para E R nu cp bl delta = piecewise (spec_hertz_para E R nu) cp bl delta.
Proof.
  intros Hn. unfold m_hertz_para, piecewise, spec_hertz_para. split_contact cp delta; finish.
Qed.

Lemma formula_hertz_cone E alpha nu cp bl delta : 1 - nu ^ 2 <> 0 ->
  m_hertz_cone E alpha nu cp bl delta = piecewise (spec_hertz_cone E alpha nu) cp bl delta.
Proof.
  intros Hn. unfold m_hertz_cone, piecewise, spec_hertz_cone. split_contact cp delta; finish.
Qed.

Lemma formula_hertz_pyr3s E alpha nu cp bl delta : 1 - nu ^ 2 <> 0 ->
  m_hertz_pyr3s E alpha nu cp bl delta = piecewise (spec_hertz_pyr3s E alpha nu) cp bl delta.
Proof.
  intros Hn. unfold m_hertz_pyr3s, piecewise, spec_hertz_pyr3s. split_contact cp delta; finish.
Qed.

Lemma formula_sneddon E R nu cp bl delta : 1 - nu ^ 2 <> 0 -> R <> 0 ->
  m_sneddon_spher_approx E R nu cp bl delta
  = piecewise (spec_sneddon_series E R nu) cp bl delta.
Proof.
  intros Hn HR. unfold m_sneddon_spher_approx, piecewise, spec_sneddon_series, series_poly.
  split_contact cp delta; finish.
Qed.

Lemma formula_clifford E_S E_L R nu_S nu_L t cp bl delta :
  0 <= R -> t <> 0 -> 1 - 192 / 100 * nu_L ^ 2 <> 0 ->
  1 + 225 / 100 * ppow (clifford_xi E_S E_L R nu_S nu_L t (cp - delta)) (3 / 2) <> 0 ->
  m_power_layer_clifford_2009 E_S E_L R nu_S nu_L t cp bl delta
  = piecewise (spec_clifford E_S E_L R nu_S nu_L t) cp bl delta.
Proof.
  intros HR Ht Hl Hx. unfold m_power_layer_clifford_2009, piecewise, spec_clifford.
  split_contact cp delta.
  rewrite (ppow_pos (cp - delta)) by assumption.
    assert (Exi : sqrt R * sqrt (cp - delta) / t * ppow (E_L / E_S) (2 / 3)
                  * (1 - 11 / 50 * nu_S ^ 2) / (1 - 48 / 25 * nu_L ^ 2)
                  = clifford_xi E_S E_L R nu_S nu_L t (cp - delta)).
    { unfold clifford_xi. rewrite sqrt_mult by lra. field. repeat split; try exact Ht; lra. }
    rewrite Exi. unfold clifford_E.
    set (X := ppow (clifford_xi E_S E_L R nu_S nu_L t (cp - delta)) (3 / 2)) in *.
    field. split; intros Hc; apply Hx; lra.
Qed.

(* off contact: exactly the baseline, whatever the other parameters *)
Lemma offcontact_para E R nu cp bl delta : cp - delta <= 0 -> m_hertz_para E R nu cp bl delta = bl.
Proof. intros H. unfold m_hertz_para. cbv zeta. destruct (Rlt_dec 0 (cp - delta)); [lra | ring]. Qed.
Lemma offcontact_cone E a nu cp bl delta : cp - delta <= 0 -> m_hertz_cone E a nu cp bl delta = bl.
Proof. intros H. unfold m_hertz_cone. cbv zeta. destruct (Rlt_dec 0 (cp - delta)); [lra | ring]. Qed.
Lemma offcontact_pyr E a nu cp bl delta : cp - delta <= 0 -> m_hertz_pyr3s E a nu cp bl delta = bl.
Proof. intros H. unfold m_hertz_pyr3s. cbv zeta. destruct (Rlt_dec 0 (cp - delta)); [lra | ring]. Qed.
Lemma offcontact_sneddon E R nu cp bl delta : cp - delta <= 0 ->
  m_sneddon_spher_approx E R nu cp bl delta = bl.
Proof. intros H. unfold m_sneddon_spher_approx. cbv zeta. destruct (Rlt_dec 0 (cp - delta)); [lra | ring]. Qed.
Lemma offcontact_clifford ES EL R nS nL t cp bl delta : cp - delta <= 0 ->
  m_power_layer_clifford_2009 ES EL R nS nL t cp bl delta = bl.
Proof.
  intros H. unfold m_power_layer_clifford_2009. cbv zeta.
  destruct (Rlt_dec 0 (cp - delta)); [lra | ring].
Qed.

(* scaling: the series model in physical units is the unit series *)
Lemma sphere_scaling E R nu d : 0 < R -> 0 < d -> 1 - nu ^ 2 <> 0 ->
  spec_sneddon_series E R nu d = E / (1 - nu ^ 2) * R ^ 2 * series_unit (d / R).
Proof.
  intros HR Hd Hn. unfold spec_sneddon_series, series_unit, series_poly.
  rewrite Rpower_3_2 by assumption.
  assert (Hs : sqrt (d / R) = sqrt d / sqrt R) by (apply sqrt_div_alt; lra).
  rewrite Hs.
  assert (HsR : sqrt R * sqrt R = R) by (apply sqrt_sqrt; lra).
  assert (HsR0 : sqrt R <> 0) by (intros Hc; rewrite Hc in HsR; lra).
  replace (R ^ 2) with ((sqrt R * sqrt R) * (sqrt R * sqrt R)) by (rewrite HsR; ring).
  replace (d / R) with (d / (sqrt R * sqrt R)) by (rewrite HsR; reflexivity).
  field. repeat split; assumption.
Qed.

(* the layered model in contact, with every guarded power resolved (used by the
   certified pointwise enclosures of the correspondence check) *)
Lemma clifford_in_contact ES EL R nS nL t cp bl delta :
  0 < ES -> 0 < EL -> 0 < R -> 0 < t -> 0 < cp - delta ->
  0 < 1 - 22 / 100 * nS ^ 2 -> 0 < 1 - 192 / 100 * nL ^ 2 ->
  m_power_layer_clifford_2009 ES EL R nS nL t cp bl delta =
  let xi := sqrt (R * (cp - delta)) / t * Rpower (EL / ES) (2 / 3)
            * (1 - 22 / 100 * nS ^ 2) / (1 - 192 / 100 * nL ^ 2) in
  4 / 3 * (EL + (ES - EL) * (225 / 100 * Rpower xi (3 / 2)) / (1 + 225 / 100 * Rpower xi (3 / 2)))
  * sqrt R * Rpower (cp - delta) (3 / 2) + bl.
Proof.
  intros HES HEL HR Ht Hd HS HL. cbv zeta.
  assert (Hq : 0 < EL / ES) by (unfold Rdiv; apply Rmult_lt_0_compat; [lra | apply Rinv_0_lt_compat; lra]).
  assert (Hxi : 0 < sqrt (R * (cp - delta)) / t * Rpower (EL / ES) (2 / 3)
                    * (1 - 22 / 100 * nS ^ 2) / (1 - 192 / 100 * nL ^ 2)).
  { unfold Rdiv. repeat apply Rmult_lt_0_compat; try lra.
    - apply sqrt_lt_R0. apply Rmult_lt_0_compat; lra.
    - apply Rinv_0_lt_compat; lra.
    - unfold Rpower. apply exp_pos.
    - apply Rinv_0_lt_compat; lra. }
  assert (Exi : clifford_xi ES EL R nS nL t (cp - delta)
                = sqrt (R * (cp - delta)) / t * Rpower (EL / ES) (2 / 3)
                  * (1 - 22 / 100 * nS ^ 2) / (1 - 192 / 100 * nL ^ 2)).
  { unfold clifford_xi. rewrite ppow_pos by exact Hq. reflexivity. }
  rewrite formula_clifford; try lra.
  - unfold piecewise. destruct (Rlt_dec delta cp); [|lra].
    unfold spec_clifford, clifford_E. rewrite Exi. rewrite !ppow_pos by exact Hxi. reflexivity.
  - rewrite Exi. rewrite ppow_pos by exact Hxi.
    assert (0 < Rpower (sqrt (R * (cp - delta)) / t * Rpower (EL / ES) (2 / 3)
                        * (1 - 22 / 100 * nS ^ 2) / (1 - 192 / 100 * nL ^ 2)) (3 / 2))
      by (unfold Rpower; apply exp_pos). lra.
Qed.
