(* C13: monotonicity in depth and continuity at contact of the two models that are not
   power laws: the truncated sphere series (depths up to the radius) and the layered model
   of Clifford et al. (2009).  Both are reduced to polynomial / rational inequalities in
   s = sqrt(depth / R) resp. z = depth^(3/4). *)
From Coq Require Import Reals Lra Lia Psatz.
From NV Require Import Base.RealExtra Gen.ModelFuncs.
Local Open Scope R_scope.

(* ---- sphere series ------------------------------------------------------------- *)

(* the series in the variable s = sqrt (depth / R) *)
Definition G (s : R) : R :=
  s ^ 3 - (1 / 10) * s ^ 5 - (1 / 840) * s ^ 7 + (11 / 15120) * s ^ 9
  + (1357 / 6652800) * s ^ 11.

Lemma d5_le u v : 0 <= u <= v -> v <= 1 -> v ^ 5 - u ^ 5 <= 2 * (v ^ 3 - u ^ 3).
Proof.
  intros [Hu Huv] Hv.
  assert (H3 : 0 <= v ^ 3 - u ^ 3).
  { assert (u ^ 3 <= v ^ 3) by (apply pow_incr; lra). lra. }
  (* v^5 - u^5 = v^2 (v^3 - u^3) + u^3 (v^2 - u^2) *)
  assert (E1 : v ^ 5 - u ^ 5 = v ^ 2 * (v ^ 3 - u ^ 3) + u ^ 3 * (v ^ 2 - u ^ 2)) by ring.
  assert (Hv2 : v ^ 2 <= 1). { replace 1 with (1 ^ 2) by ring. apply pow_incr; lra. }
  assert (A : v ^ 2 * (v ^ 3 - u ^ 3) <= 1 * (v ^ 3 - u ^ 3)).
  { apply Rmult_le_compat_r; lra. }
  assert (B : u ^ 3 * (v ^ 2 - u ^ 2) <= v ^ 3 - u ^ 3).
  { replace (v ^ 3 - u ^ 3) with ((v - u) * (v ^ 2 + u * v + u ^ 2)) by ring.
    replace (u ^ 3 * (v ^ 2 - u ^ 2)) with ((v - u) * (u ^ 3 * (v + u))) by ring.
    apply Rmult_le_compat_l; [lra|].
    assert (u ^ 3 <= u). { replace (u ^ 3) with (u * u ^ 2) by ring.
      assert (u ^ 2 <= 1). { replace 1 with (1 ^ 2) by ring. apply pow_incr; lra. }
      assert (0 <= u ^ 2) by apply pow2_ge_0. nra. }
    assert (0 <= v ^ 2) by apply pow2_ge_0.
    nra. }
  lra.
Qed.

Lemma d7_le u v : 0 <= u <= v -> v <= 1 -> v ^ 7 - u ^ 7 <= 3 * (v ^ 3 - u ^ 3).
Proof.
  intros [Hu Huv] Hv.
  assert (H3 : 0 <= v ^ 3 - u ^ 3).
  { assert (u ^ 3 <= v ^ 3) by (apply pow_incr; lra). lra. }
  assert (E1 : v ^ 7 - u ^ 7 = v ^ 2 * (v ^ 5 - u ^ 5) + u ^ 5 * (v ^ 2 - u ^ 2)) by ring.
  assert (H5 := d5_le u v (conj Hu Huv) Hv).
  assert (H50 : 0 <= v ^ 5 - u ^ 5).
  { assert (u ^ 5 <= v ^ 5) by (apply pow_incr; lra). lra. }
  assert (Hv2 : v ^ 2 <= 1). { replace 1 with (1 ^ 2) by ring. apply pow_incr; lra. }
  assert (A : v ^ 2 * (v ^ 5 - u ^ 5) <= 1 * (v ^ 5 - u ^ 5)).
  { apply Rmult_le_compat_r; lra. }
  assert (B : u ^ 5 * (v ^ 2 - u ^ 2) <= v ^ 3 - u ^ 3).
  { replace (v ^ 3 - u ^ 3) with ((v - u) * (v ^ 2 + u * v + u ^ 2)) by ring.
    replace (u ^ 5 * (v ^ 2 - u ^ 2)) with ((v - u) * (u ^ 5 * (v + u))) by ring.
    apply Rmult_le_compat_l; [lra|].
    assert (u ^ 5 <= u). { replace (u ^ 5) with (u * u ^ 4) by ring.
      assert (u ^ 4 <= 1). { replace 1 with (1 ^ 4) by ring. apply pow_incr; lra. }
      assert (0 <= u ^ 4). { replace (u ^ 4) with ((u ^ 2) ^ 2) by ring. apply pow2_ge_0. }
      nra. }
    assert (0 <= v ^ 2) by apply pow2_ge_0.
    nra. }
  lra.
Qed.

Lemma G_mono u v : 0 <= u <= v -> v <= 1 -> G u <= G v.
Proof.
  intros [Hu Huv] Hv. unfold G.
  assert (H5 := d5_le u v (conj Hu Huv) Hv).
  assert (H7 := d7_le u v (conj Hu Huv) Hv).
  assert (H3 : u ^ 3 <= v ^ 3) by (apply pow_incr; lra).
  assert (H9 : u ^ 9 <= v ^ 9) by (apply pow_incr; lra).
  assert (H11 : u ^ 11 <= v ^ 11) by (apply pow_incr; lra).
  lra.
Qed.

Definition series_part (R r : real) : real :=
  ppow r (3 / 2) * (1 - 1 / 10 * (r / R) - 1 / 840 * (r / R) ^ 2 + 11 / 15120 * (r / R) ^ 3
                    + 1357 / 6652800 * (r / R) ^ 4).

Lemma series_part_G R r : 0 < R -> 0 < r ->
  series_part R r = R * sqrt R * G (sqrt (r / R)).
Proof.
  intros HR Hr. unfold series_part, G.
  assert (Ht : 0 < r / R) by (apply Rdiv_lt_0_compat; assumption).
  set (s := sqrt (r / R)).
  assert (Hs2 : s ^ 2 = r / R) by (unfold s; apply pow2_sqrt; lra).
  assert (Hr' : r = R * s ^ 2) by (rewrite Hs2; field; lra).
  assert (Hs0 : 0 <= s) by apply sqrt_pos.
  assert (Hsr : sqrt r = sqrt R * s).
  { rewrite Hr' at 1. rewrite sqrt_mult by (try lra; apply pow2_ge_0).
    f_equal. rewrite <- (sqrt_pow2 s) at 2 by exact Hs0. reflexivity. }
  rewrite ppow_pos, Rpower_3_2 by assumption. rewrite Hsr, <- Hs2.
  rewrite Hr' at 1. ring.
Qed.

Lemma sqrt_ratio_le1 R r : 0 < R -> 0 <= r <= R -> sqrt (r / R) <= 1.
Proof.
  intros HR [H0 H1]. rewrite <- sqrt_1. apply sqrt_le_1_alt.
  apply Rmult_le_reg_r with R; [lra|]. unfold Rdiv. rewrite Rmult_assoc, Rinv_l by lra. lra.
Qed.

Lemma series_part_mono R r1 r2 : 0 < R -> 0 < r1 <= r2 -> r2 <= R ->
  series_part R r1 <= series_part R r2.
Proof.
  intros HR [H1 H12] H2. rewrite !series_part_G by lra.
  apply Rmult_le_compat_l.
  - apply Rmult_le_pos; [lra | apply sqrt_pos].
  - apply G_mono.
    + split; [apply sqrt_pos|]. apply sqrt_le_1_alt. unfold Rdiv.
      apply Rmult_le_compat_r; [left; apply Rinv_0_lt_compat; lra | lra].
    + apply sqrt_ratio_le1; lra.
Qed.

Lemma G_nonneg v : 0 <= v <= 1 -> 0 <= G v.
Proof.
  intros [H0 H1]. replace 0 with (G 0) by (unfold G; ring). apply G_mono; lra.
Qed.

Lemma series_part_nonneg R r : 0 < R -> 0 < r <= R -> 0 <= series_part R r.
Proof.
  intros HR [H0 H1]. rewrite series_part_G by lra.
  apply Rmult_le_pos; [apply Rmult_le_pos; [lra | apply sqrt_pos]|].
  apply G_nonneg. split; [apply sqrt_pos | apply sqrt_ratio_le1; lra].
Qed.

(* force non-decreasing with indentation depth, for depths up to the radius *)
Lemma monotone_sneddon E R nu cp bl d1 d2 :
  0 <= E -> 0 < 1 - nu ^ 2 -> 0 < R -> d2 <= d1 -> cp - d2 <= R ->
  m_sneddon_spher_approx E R nu cp bl d1 <= m_sneddon_spher_approx E R nu cp bl d2.
Proof.
  intros HE Hn HR Hd Hdepth. unfold m_sneddon_spher_approx. cbv zeta.
  apply Rplus_le_compat_r. apply Rmult_le_compat_l.
  { (* the prefactor, however grouped *)
    unfold Rdiv. repeat (apply Rmult_le_pos);
      first [lra | apply sqrt_pos | assumption | left; apply Rinv_0_lt_compat; assumption]. }
  (* the series, however its terms are ordered *)
  destruct (Rlt_dec 0 (cp - d1)) as [H1|H1]; destruct (Rlt_dec 0 (cp - d2)) as [H2|H2]; try lra.
  - match goal with |- ?L <= ?Rr =>
      replace L with (series_part R (cp - d1)) by (unfold series_part, Rdiv; ring);
      replace Rr with (series_part R (cp - d2)) by (unfold series_part, Rdiv; ring) end.
    apply series_part_mono; lra.
  - match goal with |- _ <= ?Rr =>
      replace Rr with (series_part R (cp - d2)) by (unfold series_part, Rdiv; ring) end.
    apply series_part_nonneg; lra.
Qed.

(* continuity at contact: within depth r <= min(R, 1) of the contact point the
   force differs from the baseline by at most the Hertz prefactor times r *)
Lemma G_le_cube v : 0 <= v <= 1 -> G v <= v ^ 3.
Proof.
  intros [H0 H1]. unfold G.
  assert (A : v ^ 9 <= v ^ 5).
  { replace (v ^ 9) with (v ^ 5 * v ^ 4) by ring.
    assert (v ^ 4 <= 1). { replace 1 with (1 ^ 4) by ring. apply pow_incr; lra. }
    assert (0 <= v ^ 5) by (apply pow_le; lra).
    rewrite <- (Rmult_1_r (v ^ 5)) at 2. apply Rmult_le_compat_l; lra. }
  assert (B : v ^ 11 <= v ^ 5).
  { replace (v ^ 11) with (v ^ 5 * v ^ 6) by ring.
    assert (v ^ 6 <= 1). { replace 1 with (1 ^ 6) by ring. apply pow_incr; lra. }
    assert (0 <= v ^ 5) by (apply pow_le; lra).
    rewrite <- (Rmult_1_r (v ^ 5)) at 2. apply Rmult_le_compat_l; lra. }
  assert (0 <= v ^ 7) by (apply pow_le; lra).
  assert (0 <= v ^ 5) by (apply pow_le; lra).
  lra.
Qed.

Lemma ppow32_le1 r : 0 <= r <= 1 -> ppow r (3 / 2) <= r.
Proof.
  intros [H0 H1]. unfold ppow. destruct (Rle_dec r 0); [lra|].
  rewrite Rpower_3_2 by lra.
  assert (Hs : sqrt r <= 1).
  { rewrite <- sqrt_1. apply sqrt_le_1; lra. }
  assert (0 <= sqrt r) by apply sqrt_pos.
  assert (r * sqrt r <= r * 1) by (apply Rmult_le_compat_l; lra). lra.
Qed.

Lemma series_part_le R r : 0 < R -> 0 < r <= R -> series_part R r <= ppow r (3 / 2).
Proof.
  intros HR [H0 H1]. rewrite series_part_G by lra.
  assert (Ht : 0 < r / R) by (apply Rdiv_lt_0_compat; lra).
  set (s := sqrt (r / R)).
  assert (Hs0 : 0 <= s) by apply sqrt_pos.
  assert (Hs1 : s <= 1) by (apply sqrt_ratio_le1; lra).
  assert (Hs2 : s ^ 2 = r / R) by (unfold s; apply pow2_sqrt; lra).
  assert (Hr' : r = R * s ^ 2) by (rewrite Hs2; field; lra).
  assert (Hsr : sqrt r = sqrt R * s).
  { rewrite Hr' at 1. rewrite sqrt_mult by (try lra; apply pow2_ge_0).
    f_equal. rewrite <- (sqrt_pow2 s) at 2 by exact Hs0. reflexivity. }
  rewrite ppow_pos, Rpower_3_2 by lra. rewrite Hsr. rewrite Hr' at 1.
  replace (R * s ^ 2 * (sqrt R * s)) with (R * sqrt R * s ^ 3) by ring.
  apply Rmult_le_compat_l; [apply Rmult_le_pos; [lra | apply sqrt_pos]|].
  apply G_le_cube. lra.
Qed.

Lemma contact_sneddon E R nu cp bl delta :
  0 < R -> 0 <= cp - delta <= 1 -> cp - delta <= R ->
  Rabs (m_sneddon_spher_approx E R nu cp bl delta - bl)
  <= Rabs (4 / 3 * E / (1 - nu ^ 2) * sqrt R) * (cp - delta).
Proof.
  intros HR Hd HdR. unfold m_sneddon_spher_approx. cbv zeta.
  destruct (Rlt_dec 0 (cp - delta)) as [Hc|Hc].
  - (* prefactor and series of the source, however grouped / ordered *)
    match goal with |- Rabs (?a * ?S + bl - bl) <= Rabs ?b * _ =>
      replace (a * S + bl - bl) with (b * series_part R (cp - delta))
        by (unfold series_part, Rdiv; ring) end.
    rewrite Rabs_mult. apply Rmult_le_compat_l; [apply Rabs_pos|].
    rewrite Rabs_right by (apply Rle_ge; apply series_part_nonneg; lra).
    eapply Rle_trans; [apply series_part_le; lra | apply ppow32_le1; lra].
  - match goal with |- Rabs (?a * 0 + bl - bl) <= _ =>
      replace (a * 0 + bl - bl) with 0 by ring end.
    rewrite Rabs_R0. apply Rmult_le_pos; [apply Rabs_pos | lra].
Qed.

(* ---- layered model ------------------------------------------------------------- *)

Lemma ppow_mult0 k r y : 0 <= k -> 0 <= r -> ppow (k * r) y = ppow k y * ppow r y.
Proof.
  intros [Hk|<-] Hr.
  - rewrite ppow_mult by lra. rewrite (ppow_pos k) by lra. reflexivity.
  - rewrite Rmult_0_l, ppow_0. ring.
Qed.

(* root^(3/4), written as the code reaches it: (sqrt root)^(3/2) *)
Definition z34 (r : real) : real := ppow (sqrt r) (3 / 2).

Lemma z34_sq r : 0 < r -> z34 r * z34 r = ppow r (3 / 2).
Proof.
  intros Hr. unfold z34. assert (0 < sqrt r) by (apply sqrt_lt_R0; exact Hr).
  rewrite !ppow_pos by assumption.
  rewrite <- Rpower_sqrt by exact Hr. rewrite Rpower_mult, <- Rpower_plus.
  f_equal. lra.
Qed.

Lemma z34_nonneg r : 0 <= z34 r. Proof. apply ppow_nonneg. Qed.

Lemma z34_mono r1 r2 : 0 <= r1 <= r2 -> z34 r1 <= z34 r2.
Proof.
  intros [H1 H2]. unfold z34. apply ppow_mono; [lra|]. split; [apply sqrt_pos|].
  apply sqrt_le_1_alt. exact H2.
Qed.

(* effective-modulus force core in the variable z = root^(3/4) *)
Definition Hlay (ES EL kap z : real) : real :=
  (EL + (ES - EL) * (kap * z) / (1 + kap * z)) * (z * z).

Lemma Hlay_alt ES EL kap z : 0 <= kap -> 0 <= z ->
  Hlay ES EL kap z = (EL + ES * (kap * z)) * (z * z) / (1 + kap * z).
Proof.
  intros Hk Hz. unfold Hlay. assert (0 <= kap * z) by (apply Rmult_le_pos; assumption).
  field. lra.
Qed.

Lemma Hlay_mono ES EL kap z1 z2 : 0 <= ES -> 0 <= EL -> 0 <= kap -> 0 <= z1 <= z2 ->
  Hlay ES EL kap z1 <= Hlay ES EL kap z2.
Proof.
  intros HS HL Hk [H1 H12]. rewrite !Hlay_alt by lra.
  assert (K1 : 0 <= kap * z1) by (apply Rmult_le_pos; lra).
  assert (K2 : 0 <= kap * z2) by (apply Rmult_le_pos; lra).
  apply Rmult_le_reg_r with ((1 + kap * z1) * (1 + kap * z2)).
  { apply Rmult_lt_0_compat; lra. }
  replace ((EL + ES * (kap * z1)) * (z1 * z1) / (1 + kap * z1) * ((1 + kap * z1) * (1 + kap * z2)))
    with ((EL + ES * (kap * z1)) * (z1 * z1) * (1 + kap * z2)) by (field; lra).
  replace ((EL + ES * (kap * z2)) * (z2 * z2) / (1 + kap * z2) * ((1 + kap * z1) * (1 + kap * z2)))
    with ((EL + ES * (kap * z2)) * (z2 * z2) * (1 + kap * z1)) by (field; lra).
  assert (A : z1 * z1 <= z2 * z2) by (apply Rmult_le_compat; lra).
  assert (B : z1 * z1 * z2 <= z2 * z2 * z1).
  { replace (z1 * z1 * z2) with (z1 * z2 * z1) by ring.
    replace (z2 * z2 * z1) with (z1 * z2 * z2) by ring.
    apply Rmult_le_compat_l; [apply Rmult_le_pos; lra | lra]. }
  assert (C : z1 * z1 * z1 <= z2 * z2 * z2).
  { apply Rmult_le_compat; try lra. apply Rmult_le_pos; lra. }
  assert (D : z1 * z1 * z1 * z2 <= z2 * z2 * z2 * z1).
  { replace (z1 * z1 * z1 * z2) with (z1 * z2 * (z1 * z1)) by ring.
    replace (z2 * z2 * z2 * z1) with (z1 * z2 * (z2 * z2)) by ring.
    apply Rmult_le_compat_l; [apply Rmult_le_pos; lra | exact A]. }
  assert (P1 : 0 <= EL * kap) by (apply Rmult_le_pos; lra).
  assert (P2 : 0 <= ES * kap) by (apply Rmult_le_pos; lra).
  assert (P3 : 0 <= ES * kap * kap) by (apply Rmult_le_pos; lra).
  assert (T1 : EL * (z1 * z1) <= EL * (z2 * z2)) by (apply Rmult_le_compat_l; lra).
  assert (T2 : EL * kap * (z1 * z1 * z2) <= EL * kap * (z2 * z2 * z1)) by (apply Rmult_le_compat_l; lra).
  assert (T3 : ES * kap * (z1 * z1 * z1) <= ES * kap * (z2 * z2 * z2)) by (apply Rmult_le_compat_l; lra).
  assert (T4 : ES * kap * kap * (z1 * z1 * z1 * z2) <= ES * kap * kap * (z2 * z2 * z2 * z1))
    by (apply Rmult_le_compat_l; lra).
  lra.
Qed.

Lemma Hlay_nonneg ES EL kap z : 0 <= ES -> 0 <= EL -> 0 <= kap -> 0 <= z -> 0 <= Hlay ES EL kap z.
Proof.
  intros HS HL Hk Hz. replace 0 with (Hlay ES EL kap 0) at 1 by (unfold Hlay; field; lra).
  apply Hlay_mono; lra.
Qed.

(* the constant that multiplies sqrt(root) inside xi, and kappa *)
Definition c0 (ES EL R nuS nuL t : real) : real :=
  sqrt R / t * ppow (EL / ES) (2 / 3) * (1 - 11 / 50 * nuS ^ 2) / (1 - 48 / 25 * nuL ^ 2).
Definition kappa (ES EL R nuS nuL t : real) : real := 9 / 4 * ppow (c0 ES EL R nuS nuL t) (3 / 2).

Lemma c0_nonneg ES EL R nuS nuL t :
  0 < t -> 0 <= 1 - 11 / 50 * nuS ^ 2 -> 0 < 1 - 48 / 25 * nuL ^ 2 -> 0 <= c0 ES EL R nuS nuL t.
Proof.
  intros Ht H1 H2. unfold c0, Rdiv.
  apply Rmult_le_pos; [|left; apply Rinv_0_lt_compat; exact H2].
  apply Rmult_le_pos; [|exact H1].
  apply Rmult_le_pos; [|apply ppow_nonneg].
  apply Rmult_le_pos; [apply sqrt_pos | left; apply Rinv_0_lt_compat; exact Ht].
Qed.

Lemma clifford_in_contact ES EL R nuS nuL t cp bl d :
  0 < t -> 0 <= 1 - 11 / 50 * nuS ^ 2 -> 0 < 1 - 48 / 25 * nuL ^ 2 -> 0 < cp - d ->
  m_power_layer_clifford_2009 ES EL R nuS nuL t cp bl d
  = 4 / 3 * sqrt R * Hlay ES EL (kappa ES EL R nuS nuL t) (z34 (cp - d)) + bl.
Proof.
  intros Ht H1 H2 Hr. unfold m_power_layer_clifford_2009. cbv zeta.
  destruct (Rlt_dec 0 (cp - d)) as [_|F]; [|lra].
  set (r := cp - d) in *.
  assert (Hc := c0_nonneg ES EL R nuS nuL t Ht H1 H2).
  assert (Hxi : sqrt R * sqrt r / t * ppow (EL / ES) (2 / 3) * (1 - 11 / 50 * nuS ^ 2)
                / (1 - 48 / 25 * nuL ^ 2) = c0 ES EL R nuS nuL t * sqrt r).
  { unfold c0. field. split; lra. }
  rewrite Hxi. rewrite (ppow_mult0 _ _ (3 / 2) Hc (sqrt_pos r)).
  fold (z34 r). rewrite <- (z34_sq r Hr). unfold Hlay, kappa.
  set (z := z34 r). set (pc := ppow (c0 ES EL R nuS nuL t) (3 / 2)).
  assert (0 <= pc) by apply ppow_nonneg. assert (0 <= z) by apply z34_nonneg.
  assert (0 <= pc * z) by (apply Rmult_le_pos; assumption).
  field. lra.
Qed.

Lemma clifford_off_contact ES EL R nuS nuL t cp bl d :
  cp - d <= 0 -> m_power_layer_clifford_2009 ES EL R nuS nuL t cp bl d = bl.
Proof.
  intros Hr. unfold m_power_layer_clifford_2009. cbv zeta.
  destruct (Rlt_dec 0 (cp - d)); [lra|]. ring.
Qed.

Lemma monotone_clifford ES EL R nuS nuL t cp bl d1 d2 :
  0 <= ES -> 0 <= EL -> 0 < t -> 0 <= 1 - 11 / 50 * nuS ^ 2 -> 0 < 1 - 48 / 25 * nuL ^ 2 ->
  d2 <= d1 ->
  m_power_layer_clifford_2009 ES EL R nuS nuL t cp bl d1
  <= m_power_layer_clifford_2009 ES EL R nuS nuL t cp bl d2.
Proof.
  intros HS HL Ht H1 H2 Hd.
  assert (Hk : 0 <= kappa ES EL R nuS nuL t).
  { unfold kappa. apply Rmult_le_pos; [lra | apply ppow_nonneg]. }
  destruct (Rlt_dec 0 (cp - d1)) as [C1|C1]; destruct (Rlt_dec 0 (cp - d2)) as [C2|C2]; try lra.
  - rewrite !clifford_in_contact by assumption. apply Rplus_le_compat_r.
    apply Rmult_le_compat_l; [apply Rmult_le_pos; [lra | apply sqrt_pos]|].
    apply Hlay_mono; try assumption. split; [apply z34_nonneg | apply z34_mono; lra].
  - rewrite clifford_off_contact by lra. rewrite clifford_in_contact by assumption.
    assert (0 <= 4 / 3 * sqrt R * Hlay ES EL (kappa ES EL R nuS nuL t) (z34 (cp - d2))).
    { apply Rmult_le_pos; [apply Rmult_le_pos; [lra | apply sqrt_pos]|].
      apply Hlay_nonneg; try assumption. apply z34_nonneg. }
    lra.
  - rewrite !clifford_off_contact by lra. lra.
Qed.

Lemma Hlay_le ES EL kap z : 0 <= ES -> 0 <= EL -> 0 <= kap -> 0 <= z ->
  Hlay ES EL kap z <= Rmax ES EL * (z * z).
Proof.
  intros HS HL Hk Hz. unfold Hlay.
  assert (K : 0 <= kap * z) by (apply Rmult_le_pos; assumption).
  apply Rmult_le_compat_r; [apply Rmult_le_pos; assumption|].
  set (w := kap * z / (1 + kap * z)).
  assert (Hw : 0 <= w <= 1).
  { unfold w. split.
    - apply Rmult_le_pos; [exact K | left; apply Rinv_0_lt_compat; lra].
    - apply Rmult_le_reg_r with (1 + kap * z); [lra|]. unfold Rdiv.
      rewrite Rmult_assoc, Rinv_l by lra. lra. }
  replace (EL + (ES - EL) * (kap * z) / (1 + kap * z)) with (EL * (1 - w) + ES * w)
    by (unfold w; field; lra).
  assert (M1 := Rmax_l ES EL). assert (M2 := Rmax_r ES EL).
  assert (EL * (1 - w) <= Rmax ES EL * (1 - w)) by (apply Rmult_le_compat_r; lra).
  assert (ES * w <= Rmax ES EL * w) by (apply Rmult_le_compat_r; lra).
  lra.
Qed.

Lemma ppow32_le1' r : 0 <= r <= 1 -> ppow r (3 / 2) <= r.
Proof.
  intros [H0 H1]. unfold ppow. destruct (Rle_dec r 0); [lra|].
  rewrite Rpower_3_2 by lra.
  assert (Hs : sqrt r <= 1).
  { rewrite <- sqrt_1. apply sqrt_le_1; lra. }
  assert (0 <= sqrt r) by apply sqrt_pos.
  assert (r * sqrt r <= r * 1) by (apply Rmult_le_compat_l; lra). lra.
Qed.

(* continuity at contact: the force leaves the baseline at most like the Hertz law of the
   stiffer of the two materials *)
Lemma contact_clifford ES EL R nuS nuL t cp bl d :
  0 <= ES -> 0 <= EL -> 0 < t -> 0 <= 1 - 11 / 50 * nuS ^ 2 -> 0 < 1 - 48 / 25 * nuL ^ 2 ->
  0 <= cp - d <= 1 ->
  Rabs (m_power_layer_clifford_2009 ES EL R nuS nuL t cp bl d - bl)
  <= 4 / 3 * sqrt R * Rmax ES EL * (cp - d).
Proof.
  intros HS HL Ht H1 H2 [Hd0 Hd1].
  assert (Hk : 0 <= kappa ES EL R nuS nuL t).
  { unfold kappa. apply Rmult_le_pos; [lra | apply ppow_nonneg]. }
  assert (HM : 0 <= Rmax ES EL) by (eapply Rle_trans; [exact HS | apply Rmax_l]).
  assert (HP : 0 <= 4 / 3 * sqrt R) by (apply Rmult_le_pos; [lra | apply sqrt_pos]).
  destruct (Rlt_dec 0 (cp - d)) as [C|C].
  - rewrite clifford_in_contact by assumption.
    set (z := z34 (cp - d)). assert (Hz : 0 <= z) by apply z34_nonneg.
    replace (4 / 3 * sqrt R * Hlay ES EL (kappa ES EL R nuS nuL t) z + bl - bl)
      with (4 / 3 * sqrt R * Hlay ES EL (kappa ES EL R nuS nuL t) z) by ring.
    assert (N := Hlay_nonneg ES EL _ z HS HL Hk Hz).
    rewrite Rabs_right by (apply Rle_ge; apply Rmult_le_pos; assumption).
    replace (4 / 3 * sqrt R * Rmax ES EL * (cp - d))
      with (4 / 3 * sqrt R * (Rmax ES EL * (cp - d))) by ring.
    apply Rmult_le_compat_l; [exact HP|].
    eapply Rle_trans; [apply Hlay_le; assumption|].
    apply Rmult_le_compat_l; [exact HM|]. unfold z. rewrite z34_sq by exact C.
    apply ppow32_le1'. lra.
  - rewrite clifford_off_contact by lra. replace (bl - bl) with 0 by ring. rewrite Rabs_R0.
    apply Rmult_le_pos; [apply Rmult_le_pos; assumption | lra].
Qed.

(* the same under the parameter bounds of the shipped model *)
Lemma poisson_factors nuS nuL : 0 <= nuS <= 1 / 2 -> 0 <= nuL <= 1 / 2 ->
  0 <= 1 - 11 / 50 * nuS ^ 2 /\ 0 < 1 - 48 / 25 * nuL ^ 2.
Proof.
  intros [A1 A2] [B1 B2].
  assert (nuS ^ 2 <= (1 / 2) ^ 2) by (apply pow_incr; lra).
  assert (nuL ^ 2 <= (1 / 2) ^ 2) by (apply pow_incr; lra).
  split; lra.
Qed.

Lemma monotone_clifford_bounds ES EL R nuS nuL t cp bl d1 d2 :
  0 < ES -> 0 <= EL -> 0 < t -> 0 <= nuS <= 1 / 2 -> 0 <= nuL <= 1 / 2 -> d2 <= d1 ->
  m_power_layer_clifford_2009 ES EL R nuS nuL t cp bl d1
  <= m_power_layer_clifford_2009 ES EL R nuS nuL t cp bl d2.
Proof.
  intros HS HL Ht HnS HnL Hd. destruct (poisson_factors nuS nuL HnS HnL) as [P1 P2].
  apply monotone_clifford; try assumption. lra.
Qed.

Lemma contact_clifford_bounds ES EL R nuS nuL t cp bl d :
  0 < ES -> 0 <= EL -> 0 < t -> 0 <= nuS <= 1 / 2 -> 0 <= nuL <= 1 / 2 -> 0 <= cp - d <= 1 ->
  Rabs (m_power_layer_clifford_2009 ES EL R nuS nuL t cp bl d - bl)
  <= 4 / 3 * sqrt R * Rmax ES EL * (cp - d).
Proof.
  intros HS HL Ht HnS HnL Hd. destruct (poisson_factors nuS nuL HnS HnL) as [P1 P2].
  apply contact_clifford; try assumption. lra.
Qed.
