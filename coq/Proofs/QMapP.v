(* Theorems about Model/QMap.v and the progress arithmetic of nanite.read.load_data *)
From Coq Require Import List Bool Arith Reals Lra Lia.
From NV Require Import Base.Exn Model.QMap.
Import ListNotations.

(* ---- progress ---------------------------------------------------------------------------- *)
Local Open Scope R_scope.

(* callback((ii + x) / len(paths)) *)
Notation progress := (gprogress R Rplus Rdiv INR).
Notation all_progress := (gall_progress R Rplus Rdiv INR).

Definition in01 (l : list R) : Prop := Forall (fun x => 0 <= x <= 1) l.
Fixpoint nondecr (l : list R) : Prop :=
  match l with
  | a :: ((b :: _) as t) => a <= b /\ nondecr t
  | _ => True
  end.

Lemma nondecr_app a b : nondecr a -> nondecr b ->
  (forall x y, In x a -> In y b -> x <= y) -> nondecr (a ++ b).
Proof.
  induction a as [|x a IH]; intros Ha Hb H; simpl; [exact Hb|].
  destruct a as [|x2 a].
  - simpl. destruct b as [|y b]; [exact I|]. split; [apply H; simpl; tauto | exact Hb].
  - simpl in Ha. destruct Ha as [Hx Ha]. simpl. split; [exact Hx|].
    apply IH; [exact Ha | exact Hb|]. intros u v Hu Hv. apply H; [right; exact Hu | exact Hv].
Qed.

Lemma nondecr_map f l : (forall a b, a <= b -> f a <= f b) -> nondecr l -> nondecr (map f l).
Proof.
  intros Hf. induction l as [|a l IH]; intros H; simpl; [exact I|].
  destruct l as [|b l]; [exact I|]. simpl in H. destruct H as [H1 H2]. simpl. split; [apply Hf; exact H1|].
  apply IH. exact H2.
Qed.

Lemma progress_bounds n ii x : (ii < n)%nat -> 0 <= x <= 1 ->
  INR ii / INR n <= progress n ii x <= INR (S ii) / INR n.
Proof.
  intros Hi Hx. unfold gprogress. assert (Hn : 0 < INR n) by (apply lt_0_INR; lia).
  rewrite S_INR. unfold Rdiv. split; apply Rmult_le_compat_r; try lra; left; apply Rinv_0_lt_compat; exact Hn.
Qed.

Lemma all_progress_bounds n : forall files ii, (ii + length files <= n)%nat ->
  Forall in01 files ->
  Forall (fun p => INR ii / INR n <= p <= INR (ii + length files) / INR n) (all_progress n ii files).
Proof.
  induction files as [|f files IH]; intros ii Hn Hf; simpl; [constructor|].
  inversion Hf as [|? ? Hf1 Hf2]; subst. simpl in Hn.
  assert (Hpos : 0 < INR n) by (apply lt_0_INR; lia).
  assert (Hmono : forall a b : nat, (a <= b)%nat -> INR a / INR n <= INR b / INR n).
  { intros a b Hab. unfold Rdiv. apply Rmult_le_compat_r; [left; apply Rinv_0_lt_compat; exact Hpos|].
    apply le_INR. exact Hab. }
  apply Forall_app. split.
  - rewrite Forall_forall. intros p Hp. apply in_map_iff in Hp. destruct Hp as [x [<- Hx]].
    unfold in01 in Hf1. rewrite Forall_forall in Hf1.
    destruct (progress_bounds n ii x) as [B1 B2]; [lia | apply Hf1; exact Hx|].
    split; [exact B1|]. eapply Rle_trans; [exact B2|]. apply Hmono. lia.
  - assert (Hb : Forall (fun p => INR (S ii) / INR n <= p <= INR (S ii + length files) / INR n)
                        (all_progress n (S ii) files)) by (apply IH; [lia | exact Hf2]).
    rewrite Forall_forall in Hb |- *. intros p Hp. specialize (Hb p Hp).
    replace (ii + S (length files))%nat with (S ii + length files)%nat by lia.
    split; [|apply Hb]. eapply Rle_trans; [|apply Hb]. apply Hmono. lia.
Qed.

Theorem progress_monotone n : forall files ii, (ii + length files <= n)%nat ->
  Forall in01 files -> Forall nondecr files ->
  nondecr (all_progress n ii files) /\ in01 (all_progress n ii files).
Proof.
  induction files as [|f files IH]; intros ii Hn Hf Hm; simpl; [split; [exact I | constructor]|].
  inversion Hf as [|? ? Hf1 Hf2]; subst. inversion Hm as [|? ? Hm1 Hm2]; subst. simpl in Hn.
  assert (Hpos : 0 < INR n) by (apply lt_0_INR; lia).
  destruct (IH (S ii) ltac:(lia) Hf2 Hm2) as [I1 I2].
  split.
  - apply nondecr_app; [|exact I1|].
    + apply nondecr_map; [|exact Hm1]. intros a b Hab. unfold gprogress, Rdiv.
      apply Rmult_le_compat_r; [left; apply Rinv_0_lt_compat; exact Hpos | lra].
    + intros x y Hx Hy. apply in_map_iff in Hx. destruct Hx as [x0 [<- Hx0]].
      unfold in01 in Hf1. rewrite Forall_forall in Hf1.
      destruct (progress_bounds n ii x0) as [_ B2]; [lia | apply Hf1; exact Hx0|].
      pose proof (all_progress_bounds n files (S ii) ltac:(lia) Hf2) as Hb.
      rewrite Forall_forall in Hb. destruct (Hb y Hy) as [B3 _]. lra.
  - pose proof (all_progress_bounds n (f :: files) ii ltac:(simpl; lia) Hf) as Hb.
    unfold in01. rewrite Forall_forall in *. intros p Hp. destruct (Hb p Hp) as [B1 B2]. split.
    + eapply Rle_trans; [|exact B1]. unfold Rdiv. apply Rmult_le_pos; [apply pos_INR|].
      left. apply Rinv_0_lt_compat. exact Hpos.
    + eapply Rle_trans; [exact B2|]. unfold Rdiv.
      apply (Rmult_le_reg_r (INR n)); [exact Hpos|]. rewrite Rmult_assoc, Rinv_l by lra.
      rewrite Rmult_1_r, Rmult_1_l. apply le_INR. simpl. lia.
Qed.

Local Close Scope R_scope.

(* ---- append guard ------------------------------------------------------------------------ *)
Lemma append_spec g c :
  (has_spring_constant c = false /\ has_tip_position c = false -> append g c = Err OtherError) /\
  (has_spring_constant c = true \/ has_tip_position c = true -> append g c = Ok (g ++ [c])).
Proof.
  unfold append. destruct (has_spring_constant c), (has_tip_position c); simpl; split; intros H;
    try reflexivity; try (destruct H; discriminate); destruct H as [H|H]; discriminate.
Qed.

(* ---- pixels ------------------------------------------------------------------------------- *)
Section GridP.
  Variable V : Type.
  Notation grid := (grid V).

  Lemma set_nth_length {A} : forall (l : list A) i v, length (set_nth l i v) = length l.
  Proof. induction l as [|x l IH]; intros [|i] v; simpl; try reflexivity. f_equal. apply IH. Qed.

  Lemma nth_error_set_nth_same {A} : forall (l : list A) i v, i < length l ->
    nth_error (set_nth l i v) i = Some v.
  Proof.
    induction l as [|x l IH]; intros [|i] v H; simpl in *; try lia; [reflexivity|]. apply IH. lia.
  Qed.

  Lemma nth_error_set_nth_other {A} : forall (l : list A) i j v, i <> j ->
    nth_error (set_nth l i v) j = nth_error l j.
  Proof.
    induction l as [|x l IH]; intros [|i] [|j] v H; simpl; try reflexivity; try congruence.
    apply IH. congruence.
  Qed.

  Definition well_shaped (xn yn : nat) (g : grid) : Prop :=
    length g = yn /\ Forall (fun row => length row = xn) g.

  Lemma blank_shaped xn yn : well_shaped xn yn (blank V xn yn).
  Proof.
    unfold well_shaped, blank. split; [apply repeat_length|].
    rewrite Forall_forall. intros row Hr. apply repeat_spec in Hr. subst. apply repeat_length.
  Qed.

  Lemma pixel_blank xn yn xi yi : pixel V (blank V xn yn) xi yi = None.
  Proof.
    unfold pixel, blank. destruct (nth_error (repeat (repeat None xn) yn) yi) as [row|] eqn:E; [|reflexivity].
    apply nth_error_In, repeat_spec in E. subst.
    destruct (nth_error (repeat None xn) xi) as [v|] eqn:E2; [|reflexivity].
    apply nth_error_In, repeat_spec in E2. subst. reflexivity.
  Qed.

  Lemma put_shaped xn yn g xi yi v : well_shaped xn yn g -> well_shaped xn yn (put V g xi yi v).
  Proof.
    intros [H1 H2]. unfold put. destruct (nth_error g yi) as [row|] eqn:E; [|split; assumption].
    split; [rewrite set_nth_length; exact H1|].
    rewrite Forall_forall in *. intros r Hr.
    destruct (In_nth_error _ _ Hr) as [j Hj].
    destruct (Nat.eq_dec yi j) as [->|Hne].
    - rewrite nth_error_set_nth_same in Hj by (apply nth_error_Some; congruence).
      injection Hj as <-. rewrite set_nth_length. apply H2. eapply nth_error_In. exact E.
    - rewrite nth_error_set_nth_other in Hj by exact Hne. apply H2. eapply nth_error_In. exact Hj.
  Qed.

  Lemma pixel_put xn yn g xi yi v x y : well_shaped xn yn g -> xi < xn -> yi < yn ->
    pixel V (put V g xi yi v) x y = if Nat.eqb x xi && Nat.eqb y yi then v else pixel V g x y.
  Proof.
    intros [H1 H2] Hx Hy. unfold put.
    destruct (nth_error g yi) as [row|] eqn:E; [|apply nth_error_None in E; lia].
    assert (Hrow : length row = xn).
    { rewrite Forall_forall in H2. apply H2. eapply nth_error_In. exact E. }
    unfold pixel. destruct (Nat.eq_dec y yi) as [->|Hne].
    - rewrite Nat.eqb_refl, andb_true_r.
      rewrite nth_error_set_nth_same by lia. rewrite E.
      destruct (Nat.eq_dec x xi) as [->|Hnx].
      + rewrite Nat.eqb_refl. rewrite nth_error_set_nth_same by lia. reflexivity.
      + apply Nat.eqb_neq in Hnx. rewrite Hnx. rewrite nth_error_set_nth_other; [reflexivity|].
        apply Nat.eqb_neq in Hnx. congruence.
    - assert (Eb : Nat.eqb y yi = false) by (apply Nat.eqb_neq; exact Hne).
      rewrite Eb, andb_false_r. rewrite nth_error_set_nth_other by congruence. reflexivity.
  Qed.

  (* the value found at a pixel: the LAST curve of the group with that coordinate *)
  Fixpoint last_at (cvs : list (nat * nat * option V)) (x y : nat) (acc : option V) : option V :=
    match cvs with
    | [] => acc
    | (xi, yi, v) :: t => last_at t x y (if Nat.eqb x xi && Nat.eqb y yi then v else acc)
    end.

  Lemma fold_put xn yn : forall cvs g x y, well_shaped xn yn g ->
    Forall (fun cv => fst (fst cv) < xn /\ snd (fst cv) < yn) cvs ->
    pixel V (fold_left (fun g cv => put V g (fst (fst cv)) (snd (fst cv)) (snd cv)) cvs g) x y =
    last_at cvs x y (pixel V g x y).
  Proof.
    induction cvs as [|[[xi yi] v] cvs IH]; intros g x y Hg Hc; simpl; [reflexivity|].
    inversion Hc as [|? ? [Hx Hy] Hc2]; subst. simpl in Hx, Hy.
    rewrite IH; [|apply put_shaped; exact Hg | exact Hc2].
    rewrite (pixel_put xn yn) by assumption. reflexivity.
  Qed.

  Theorem map_grid_pixel xn yn coords vals x y :
    Forall (fun c => fst c < xn /\ snd c < yn) coords ->
    pixel V (map_grid V xn yn coords vals) x y = last_at (combine coords vals) x y None.
  Proof.
    intros Hc. unfold map_grid. rewrite (fold_put xn yn).
    - rewrite pixel_blank. reflexivity.
    - apply blank_shaped.
    - rewrite Forall_forall in *. intros [[xi yi] v] Hin. simpl.
      apply in_combine_l in Hin. apply (Hc (xi, yi)). exact Hin.
  Qed.

  (* with pairwise distinct coordinates: curve i's value at its own pixel, NaN elsewhere *)
  Lemma last_at_notin : forall cvs x y acc,
    ~ In (x, y) (map fst cvs) -> last_at cvs x y acc = acc.
  Proof.
    induction cvs as [|[[xi yi] v] cvs IH]; intros x y acc H; simpl; [reflexivity|].
    simpl in H. destruct (Nat.eqb x xi && Nat.eqb y yi) eqn:E.
    - apply andb_true_iff in E. destruct E as [E1 E2]. apply Nat.eqb_eq in E1, E2. subst.
      exfalso. apply H. left. reflexivity.
    - apply IH. intros Hin. apply H. right. exact Hin.
  Qed.

  Theorem distinct_pixels coords vals :
    NoDup coords -> length coords = length vals ->
    forall i c v, nth_error coords i = Some c -> nth_error vals i = Some v ->
      last_at (combine coords vals) (fst c) (snd c) None = v.
  Proof.
    revert vals. induction coords as [|c0 coords IH]; intros vals Hnd Hl i c v Hc Hv.
    - destruct i; discriminate.
    - destruct vals as [|v0 vals]; [discriminate|]. simpl in Hl.
      inversion Hnd as [|? ? Hn Hd]; subst. destruct i as [|i]; simpl in Hc, Hv.
      + injection Hc as <-. injection Hv as <-. destruct c0 as [x0 y0]. simpl.
        rewrite !Nat.eqb_refl. simpl. apply last_at_notin.
        assert (E : map fst (combine coords vals) = coords).
        { clear -Hl. revert vals Hl. induction coords as [|a l IH]; intros [|b vals] H; simpl in *;
            try reflexivity; try discriminate. f_equal. apply IH. congruence. }
        rewrite E. exact Hn.
      + destruct c0 as [x0 y0]. simpl.
        assert (Hne : (Nat.eqb (fst c) x0 && Nat.eqb (snd c) y0) = false).
        { destruct (Nat.eqb (fst c) x0 && Nat.eqb (snd c) y0) eqn:E; [|reflexivity].
          apply andb_true_iff in E. destruct E as [E1 E2]. apply Nat.eqb_eq in E1, E2.
          exfalso. apply Hn. apply nth_error_In in Hc. destruct c as [a b]. simpl in *. subst. exact Hc. }
        rewrite Hne. eapply IH; eauto.
  Qed.
End GridP.
