(* Lemmas about Model/Preproc.v *)
From Coq Require Import List Arith Bool Lia.
From NV Require Import Base.Exn Base.PyList Model.Preproc.
Import ListNotations.

(* ---- remove1 ------------------------------------------------------------ *)
Lemma remove1_In_other x y l : In y l -> y <> x -> In y (remove1 x l).
Proof.
  induction l as [|z t IH]; simpl; intros H Hne; [tauto|].
  destruct (Nat.eqb x z) eqn:E.
  - apply Nat.eqb_eq in E. subst z. destruct H as [H|H]; [congruence|exact H].
  - destruct H as [H|H]; [left; exact H | right; apply IH; assumption].
Qed.

Lemma remove1_incl x l : incl (remove1 x l) l.
Proof.
  induction l as [|z t IH]; simpl; intros y H; [exact H|].
  destruct (Nat.eqb x z) eqn:E.
  - right; exact H.
  - destruct H as [H|H]; [left; exact H | right; apply IH; exact H].
Qed.

Lemma remove1_NoDup x l : NoDup l -> NoDup (remove1 x l) /\ ~ In x (remove1 x l).
Proof.
  induction l as [|z t IH]; simpl; intros H; [split; [constructor | tauto]|].
  inversion H as [|? ? Hz Ht]; subst.
  destruct (Nat.eqb x z) eqn:E.
  - apply Nat.eqb_eq in E. subst z. split; assumption.
  - apply Nat.eqb_neq in E. destruct (IH Ht) as [H1 H2]. split.
    + constructor; [|exact H1]. intros Hin. apply Hz. eapply remove1_incl; eauto.
    + intros [Hin|Hin]; [congruence | tauto].
Qed.

(* ---- the enumeration is complete and sound ------------------------------ *)
Lemma sels_complete fuel : forall avail l,
  NoDup l -> incl l avail -> length l <= fuel -> In l (sels fuel avail).
Proof.
  induction fuel as [|f IH]; intros avail l Hnd Hin Hlen.
  - destruct l; simpl in *; [left; reflexivity | lia].
  - destruct l as [|x l']; simpl; [left; reflexivity|]. right.
    apply in_flat_map. exists x. split; [apply Hin; left; reflexivity|].
    apply in_map. inversion Hnd as [|? ? Hx Hl']; subst. apply IH.
    + exact Hl'.
    + intros y Hy. apply remove1_In_other; [apply Hin; right; exact Hy|].
      intros ->. tauto.
    + simpl in Hlen. lia.
Qed.

Lemma sels_sound fuel : forall avail l,
  NoDup avail -> In l (sels fuel avail) -> NoDup l /\ incl l avail.
Proof.
  induction fuel as [|f IH]; intros avail l Hnd H; simpl in H.
  - destruct H as [<-|[]]. split; [constructor | intros y []].
  - destruct H as [<-|H]; [split; [constructor | intros y []]|].
    apply in_flat_map in H. destruct H as [x [Hx H]].
    apply in_map_iff in H. destruct H as [l' [<- Hl']].
    destruct (remove1_NoDup x avail Hnd) as [Hnd' Hnotin].
    destruct (IH _ _ Hnd' Hl') as [H1 H2]. split.
    + constructor; [|exact H1]. intros Hc. apply Hnotin. apply H2. exact Hc.
    + intros y [<-|Hy]; [exact Hx|]. eapply remove1_incl. apply H2. exact Hy.
Qed.

Lemma all_selections_complete (t : table) l :
  NoDup l -> (forall x, In x l -> x < length t) -> In l (all_selections t).
Proof.
  intros Hnd Hlt. unfold all_selections.
  assert (Hincl : incl l (seq 0 (length t))).
  { intros x Hx. apply in_seq. specialize (Hlt x Hx). lia. }
  apply sels_complete; [exact Hnd | exact Hincl |].
  pose proof (NoDup_incl_length Hnd Hincl) as Hl.
  rewrite seq_length in Hl. exact Hl.
Qed.

Lemma all_selections_sound (t : table) l :
  In l (all_selections t) -> NoDup l /\ (forall x, In x l -> x < length t).
Proof.
  intros H. destruct (sels_sound _ _ _ (seq_NoDup (length t) 0) H) as [H1 H2].
  split; [exact H1|]. intros x Hx. apply H2 in Hx. apply in_seq in Hx. lia.
Qed.

(* ---- acceptance of apply: unbounded ------------------------------------- *)
Lemma forallb_mem_incl rq before :
  forallb (fun r => mem r before) rq = true <-> (forall r, In r rq -> In r before).
Proof.
  rewrite forallb_forall. split; intros H r Hr; specialize (H r Hr);
    apply mem_In; exact H.
Qed.

Definition accepted_at (t : table) (avail before : list nat) (rest : list nat) : Prop :=
  forall i pid, nth_error rest i = Some pid ->
    mem pid avail = true /\
    exists m, nth_error t pid = Some m /\
              forall r, In r (fst m) -> In r (before ++ firstn i rest).

Lemma apply_from_iff t avail : forall rest before,
  apply_from t avail before rest = Ok tt <-> accepted_at t avail before rest.
Proof.
  induction rest as [|pid more IH]; intros before; simpl.
  - split; [|reflexivity]. intros _ i p H. destruct i; discriminate.
  - destruct (mem pid avail) eqn:Emem.
    + unfold get_func. destruct (nth_error t pid) as [m|] eqn:Et; simpl.
      * destruct (forallb (fun r => mem r before) (fst m)) eqn:Ef.
        -- rewrite IH. pose proof (proj1 (forallb_mem_incl _ _) Ef) as Ef'. split.
           ++ intros H i p Hi. destruct i as [|i]; simpl in Hi.
              ** inversion Hi; subst p. split; [exact Emem|].
                 exists m. split; [exact Et|]. simpl. rewrite app_nil_r. exact Ef'.
              ** destruct (H i p Hi) as [H1 [m' [H2 H3]]]. split; [exact H1|].
                 exists m'. split; [exact H2|]. intros r Hr. specialize (H3 r Hr).
                 simpl. rewrite <- app_assoc in H3. exact H3.
           ++ intros H i p Hi. destruct (H (S i) p Hi) as [H1 [m' [H2 H3]]].
              split; [exact H1|]. exists m'. split; [exact H2|].
              intros r Hr. specialize (H3 r Hr). simpl in H3.
              rewrite <- app_assoc. exact H3.
        -- split; [discriminate|]. intros H.
           destruct (H 0 pid eq_refl) as [_ [m' [H2 H3]]].
           rewrite Et in H2. inversion H2; subst m'. simpl in H3.
           rewrite app_nil_r in H3. pose proof (proj2 (forallb_mem_incl _ _) H3) as H4. congruence.
      * split; [discriminate|]. intros H.
        destruct (H 0 pid eq_refl) as [_ [m' [H2 _]]]. congruence.
    + split; [discriminate|]. intros H.
      destruct (H 0 pid eq_refl) as [H1 _]. congruence.
Qed.

(* an unknown identifier is rejected with KeyError at its first position,
   provided everything before it was acceptable *)
Lemma apply_from_unknown t avail : forall pre before pid post,
  apply_from t avail before pre = Ok tt ->
  mem pid avail = false ->
  apply_from t avail before (pre ++ pid :: post) = Err KeyError.
Proof.
  induction pre as [|p pre IH]; intros before pid post Hpre Hun; simpl.
  - rewrite Hun. reflexivity.
  - simpl in Hpre. destruct (mem p avail); [|discriminate].
    destruct (get_func t p) as [m|e]; simpl in *; [|discriminate].
    destruct (forallb (fun r => mem r before) (fst m)); [|discriminate].
    apply IH; assumption.
Qed.
