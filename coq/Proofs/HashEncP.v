(* Lemmas about Model/HashEnc.v *)
From Coq Require Import List String ZArith QArith Bool Permutation Lia.
From NV Require Import Base.Exn Base.PyVal Model.HashEnc Proofs.StringP.
Import ListNotations.
Local Close Scope Q_scope.
Local Open Scope string_scope.

(* ---- bind inversion ------------------------------------------------------- *)
Lemma bind_ok {A B} (r : res A) (f : A -> res B) b :
  bind r f = Ok b -> exists a, r = Ok a /\ f a = Ok b.
Proof. destruct r as [a|e]; simpl; intros H; [eauto | discriminate]. Qed.

Ltac inv_bind H :=
  let a := fresh "a" in let Ha := fresh "Ha" in
  apply bind_ok in H; destruct H as [a [Ha H]].

(* ---- global versions of encode's local fixpoints --------------------------- *)
Fixpoint encode_items (l : list (string * pyval)) : res (list (string * string)) :=
  match l with
  | [] => Ok []
  | (k, x) :: t => do a <- encode x ; do b <- encode_items t ; Ok ((k, a) :: b)
  end.

Lemma encode_list_eq l : encode (VList l) = encode_all l.
Proof.
  induction l as [|x t IH]; [reflexivity|].
  change (encode (VList (x :: t))) with
    (do a <- encode x ; do b <- encode (VList t) ; Ok (a ++ b)).
  rewrite IH. reflexivity.
Qed.

Lemma encode_tuple_eq l : encode (VTuple l) = encode (VList l).
Proof. reflexivity. Qed.

Lemma encode_dict_eq kvs :
  encode (VDict kvs) = do items <- encode_items kvs ; Ok (join_items (sort_kvs items)).
Proof.
  change (encode (VDict kvs)) with
    (do items <- (fix enc_items (l : list (string * pyval)) : res (list (string * string)) :=
                    match l with
                    | [] => Ok []
                    | (k, x) :: t => do a <- encode x ; do b <- enc_items t ; Ok ((k, a) :: b)
                    end) kvs ;
     Ok (join_items (sort_kvs items))).
  f_equal.
Qed.

(* ---- sorting is insensitive to the insertion order of distinct keys -------- *)
Lemma insert_comm {A} (a b : string * A) l :
  fst a <> fst b -> insert_kv a (insert_kv b l) = insert_kv b (insert_kv a l).
Proof.
  intros Hne. induction l as [|h t IH]; simpl.
  - destruct (String.leb (fst a) (fst b)) eqn:Eab; destruct (String.leb (fst b) (fst a)) eqn:Eba;
      try reflexivity.
    + exfalso. apply Hne. apply String.leb_antisym; assumption.
    + exfalso. apply leb_false_leb in Eab. congruence.
  - destruct (String.leb (fst b) (fst h)) eqn:Ebh; destruct (String.leb (fst a) (fst h)) eqn:Eah; simpl.
    + rewrite Eah, Ebh.
      destruct (String.leb (fst a) (fst b)) eqn:Eab; destruct (String.leb (fst b) (fst a)) eqn:Eba;
        try reflexivity.
      * exfalso. apply Hne. apply String.leb_antisym; assumption.
      * exfalso. apply leb_false_leb in Eab. congruence.
    + rewrite Ebh.
      destruct (String.leb (fst a) (fst b)) eqn:Eab.
      * exfalso. assert (String.leb (fst a) (fst h) = true) by (eapply leb_trans; eassumption). congruence.
      * rewrite Eah. reflexivity.
    + rewrite Eah.
      destruct (String.leb (fst b) (fst a)) eqn:Eba.
      * exfalso. assert (String.leb (fst b) (fst h) = true) by (eapply leb_trans; eassumption). congruence.
      * rewrite Ebh. reflexivity.
    + rewrite Eah, Ebh. rewrite IH. reflexivity.
Qed.

Lemma sort_perm {A} (l l' : list (string * A)) :
  Permutation l l' -> NoDup (map fst l) -> sort_kvs l = sort_kvs l'.
Proof.
  induction 1 as [|x l l' HP IH|x y l|l l' l'' HP1 IH1 HP2 IH2]; intros Hnd; simpl.
  - reflexivity.
  - inversion Hnd; subst. rewrite IH; [reflexivity | assumption].
  - apply insert_comm. inversion Hnd as [|? ? Hy Hrest]; subst.
    intros E. apply Hy. simpl. left. symmetry. exact E.
  - rewrite IH1; [|exact Hnd]. apply IH2.
    eapply Permutation_NoDup; [apply Permutation_map; exact HP1 | exact Hnd].
Qed.

(* ---- encode_items as a relation -------------------------------------------- *)
Definition item_rel (kv : string * pyval) (ke : string * string) : Prop :=
  fst kv = fst ke /\ encode (snd kv) = Ok (snd ke).

Lemma encode_items_rel l i : encode_items l = Ok i <-> Forall2 item_rel l i.
Proof.
  revert i. induction l as [|[k x] t IH]; intros i; simpl.
  - split; intros H; [inversion H; constructor | inversion H; reflexivity].
  - split; intros H.
    + inv_bind H. inv_bind H. inversion H; subst. constructor.
      * split; [reflexivity | exact Ha].
      * apply IH. exact Ha0.
    + inversion H as [|? [k' e'] ? ? [Hk He] Ht]; subst. simpl in *. subst k'.
      rewrite He. simpl. apply IH in Ht. rewrite Ht. reflexivity.
Qed.

Lemma item_rel_keys l i : Forall2 item_rel l i -> map fst i = map fst l.
Proof.
  induction 1 as [|kv ke l i [Hk _] _ IH]; simpl; [reflexivity | rewrite IH, Hk; reflexivity].
Qed.

Lemma dict_order kvs kvs' s :
  Permutation kvs kvs' -> NoDup (map fst kvs) ->
  encode (VDict kvs) = Ok s -> encode (VDict kvs') = Ok s.
Proof.
  intros HP Hnd. rewrite !encode_dict_eq. intros H. inv_bind H. inversion H; subst. clear H.
  apply encode_items_rel in Ha.
  destruct (Permutation_Forall2 HP Ha) as [i' [HPi HF]].
  apply encode_items_rel in HF. rewrite HF. simpl. f_equal. f_equal.
  symmetry. apply sort_perm; [exact HPi|]. rewrite (item_rel_keys _ _ Ha). exact Hnd.
Qed.

(* ---- concatenation structure ------------------------------------------------ *)
Lemma encode_all_app l1 l2 s :
  encode_all (l1 ++ l2) = Ok s <->
  exists a b, encode_all l1 = Ok a /\ encode_all l2 = Ok b /\ s = a ++ b.
Proof.
  revert s. induction l1 as [|x t IH]; intros s; simpl.
  - split.
    + intros H. exists "", s. auto.
    + intros [a [b [Ha [Hb ->]]]]. inversion Ha; subst. exact Hb.
  - split.
    + intros H. inv_bind H. inv_bind H. inversion H; subst.
      apply IH in Ha0. destruct Ha0 as [a' [b' [H1 [H2 ->]]]].
      exists (a ++ a'), b'. rewrite Ha, H1. simpl. repeat split; auto.
      rewrite append_assoc. reflexivity.
    + intros [a [b [Ha [Hb ->]]]]. inv_bind Ha. inv_bind Ha. inversion Ha; subst.
      rewrite Ha0. simpl.
      assert (E : encode_all (t ++ l2) = Ok (a1 ++ b)) by (apply IH; eauto).
      rewrite E. simpl. rewrite append_assoc. reflexivity.
Qed.

(* two hash lists that differ in one block only: the pre-images are equal
   iff the encodings of the blocks are *)
Lemma block_diff l1 c c' l2 s s' :
  encode_all (l1 ++ c ++ l2) = Ok s -> encode_all (l1 ++ c' ++ l2) = Ok s' ->
  (s = s' <-> encode_all c = encode_all c').
Proof.
  intros H H'. apply encode_all_app in H, H'.
  destruct H as [a [b [Ha [Hb ->]]]]. destruct H' as [a' [b' [Ha' [Hb' ->]]]].
  rewrite Ha in Ha'. inversion Ha'; subst a'. clear Ha'.
  apply encode_all_app in Hb, Hb'.
  destruct Hb as [ec [e2 [Hc [H2 ->]]]]. destruct Hb' as [ec' [e2' [Hc' [H2' ->]]]].
  rewrite H2 in H2'. inversion H2'; subst e2'. clear H2'.
  rewrite Hc, Hc'. split.
  - intros E. apply sandwich_inj in E. congruence.
  - intros E. inversion E. reflexivity.
Qed.

(* ---- the FP_DEFAULT loop ----------------------------------------------------- *)
Definition agree_except (k : string) (fp fp' : list (string * pyval)) : Prop :=
  forall k', k' <> k -> assoc k' fp = assoc k' fp'.

Lemma contrib_agree k fp fp' e k' :
  agree_except k fp fp' -> k' <> k -> contrib fp e k' = contrib fp' e k'.
Proof.
  intros Hag Hne. unfold contrib, fp_get.
  destruct (String.eqb k' "range_x") eqn:Er; simpl.
  - apply String.eqb_eq in Er. subst k'. rewrite (Hag "range_x" Hne). reflexivity.
  - rewrite (Hag k' Hne). reflexivity.
Qed.

Lemma hash_keys_agree k fp fp' e keys :
  agree_except k fp fp' -> ~ In k keys -> hash_keys keys fp e = hash_keys keys fp' e.
Proof.
  intros Hag. induction keys as [|k' more IH]; intros Hnin; simpl; [reflexivity|].
  rewrite (contrib_agree k fp fp' e k' Hag).
  - rewrite IH; [reflexivity|]. intros Hin. apply Hnin. right. exact Hin.
  - intros ->. apply Hnin. left. reflexivity.
Qed.

Lemma hash_keys_app k1 k2 fp e r :
  hash_keys (k1 ++ k2) fp e = Ok r <->
  exists r1 r2, hash_keys k1 fp e = Ok r1 /\ hash_keys k2 fp e = Ok r2 /\ r = (r1 ++ r2)%list.
Proof.
  revert r. induction k1 as [|k t IH]; intros r; simpl.
  - split.
    + intros H. exists [], r. auto.
    + intros [r1 [r2 [H1 [H2 ->]]]]. inversion H1; subst. exact H2.
  - split.
    + intros H. inv_bind H. inv_bind H. inversion H; subst.
      apply IH in Ha0. destruct Ha0 as [r1 [r2 [H1 [H2 ->]]]].
      exists (a ++ r1)%list, r2. rewrite Ha, H1. simpl. rewrite app_assoc. auto.
    + intros [r1 [r2 [H1 [H2 ->]]]]. inv_bind H1. inv_bind H1. inversion H1; subst.
      rewrite Ha. simpl.
      assert (E : hash_keys (t ++ k2) fp e = Ok (a0 ++ r2)%list) by (apply IH; eauto).
      rewrite E. simpl. rewrite app_assoc. reflexivity.
Qed.

(* Main lemma: settings that agree except at key k (k is neither of the two
   keys that are hashed twice nor the plateau-search flag): the pre-images
   are equal iff k's contributions encode equally. *)
Lemma key_diff keys fp fp' x y k s s' e :
  NoDup keys -> In k keys ->
  k <> "preprocessing" -> k <> "preprocessing_options" -> k <> "optimal_fit_edelta" ->
  agree_except k fp fp' ->
  fp_get fp "optimal_fit_edelta" = Ok e ->
  preimage keys fp x y = Ok s -> preimage keys fp' x y = Ok s' ->
  exists c c', contrib fp (truthy e) k = Ok c /\ contrib fp' (truthy e) k = Ok c' /\
               (s = s' <-> encode_all c = encode_all c').
Proof.
  intros Hnd Hin Hk1 Hk2 Hk3 Hag He H H'.
  unfold preimage in H, H'.
  destruct (bind_ok _ _ _ H) as [hl [Hhl Henc]]. clear H.
  destruct (bind_ok _ _ _ H') as [hl' [Hhl' Henc']]. clear H'.
  unfold hashlist in Hhl, Hhl'.
  assert (Ep : fp_get fp' "preprocessing" = fp_get fp "preprocessing").
  { unfold fp_get. rewrite (Hag "preprocessing"); [reflexivity | congruence]. }
  assert (Eo : fp_get fp' "preprocessing_options" = fp_get fp "preprocessing_options").
  { unfold fp_get. rewrite (Hag "preprocessing_options"); [reflexivity | congruence]. }
  assert (Ee : fp_get fp' "optimal_fit_edelta" = fp_get fp "optimal_fit_edelta").
  { unfold fp_get. rewrite (Hag "optimal_fit_edelta"); [reflexivity | congruence]. }
  rewrite Ep, Eo, Ee in Hhl'.
  destruct (bind_ok _ _ _ Hhl) as [p [Hp Hhl2]]. clear Hhl.
  destruct (bind_ok _ _ _ Hhl2) as [o [Ho Hhl3]]. clear Hhl2.
  rewrite He in Hhl3. simpl in Hhl3.
  destruct (bind_ok _ _ _ Hhl3) as [rest [Hrest Hhl4]]. clear Hhl3.
  inversion Hhl4; subst hl. clear Hhl4.
  rewrite Hp, Ho, He in Hhl'. simpl in Hhl'.
  destruct (bind_ok _ _ _ Hhl') as [rest' [Hrest' Hhl4']]. clear Hhl'.
  inversion Hhl4'; subst hl'. clear Hhl4'.
  destruct (in_split _ _ Hin) as [k1 [k2 ->]].
  assert (Hn1 : ~ In k k1 /\ ~ In k k2).
  { apply NoDup_remove_2 in Hnd. split; intros Hc; apply Hnd; apply in_or_app; auto. }
  destruct Hn1 as [Hn1 Hn2].
  apply hash_keys_app in Hrest, Hrest'.
  destruct Hrest as [r1 [r2 [H1 [H2 ->]]]]. destruct Hrest' as [r1' [r2' [H1' [H2' ->]]]].
  rewrite <- (hash_keys_agree k fp fp' _ k1 Hag Hn1) in H1'. rewrite H1 in H1'.
  inversion H1'; subst r1'. clear H1'.
  simpl in H2, H2'.
  destruct (bind_ok _ _ _ H2) as [c [Hc H3]]. clear H2.
  destruct (bind_ok _ _ _ H3) as [t2 [Ht2 H4]]. clear H3. inversion H4; subst r2. clear H4.
  destruct (bind_ok _ _ _ H2') as [c' [Hc' H3']]. clear H2'.
  destruct (bind_ok _ _ _ H3') as [t2' [Ht2' H4']]. clear H3'. inversion H4'; subst r2'. clear H4'.
  rewrite <- (hash_keys_agree k fp fp' _ k2 Hag Hn2) in Ht2'. rewrite Ht2 in Ht2'.
  inversion Ht2'; subst t2'. clear Ht2'.
  exists c, c'. split; [exact Hc|]. split; [exact Hc'|].
  apply (block_diff (p :: o :: x :: y :: r1) c c' t2).
  - exact Henc.
  - exact Henc'.
Qed.
