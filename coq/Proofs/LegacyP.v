(* C19: the legacy "key = value" profile loads to the values it was written from. *)
From Coq Require Import List String Ascii Bool Arith Lia.
From NV Require Import Base.Exn.
From NV Require Import Model.Legacy.
Import ListNotations.

(* ---- strings ------------------------------------------------------------------ *)
Lemma str_eqb_refl a : str_eqb a a = true.
Proof. induction a as [|c a IH]; simpl; [reflexivity|]. rewrite Ascii.eqb_refl, IH. reflexivity. Qed.

Lemma str_eqb_eq a b : str_eqb a b = true <-> a = b.
Proof.
  revert b. induction a as [|c a IH]; intros [|d b]; simpl; split; intros H; try discriminate; auto.
  - apply andb_true_iff in H. destruct H as [H1 H2]. apply Ascii.eqb_eq in H1. apply IH in H2. congruence.
  - inversion H; subst. rewrite Ascii.eqb_refl. simpl. apply str_eqb_refl.
Qed.

Lemma str_eqb_neq a b : a <> b -> str_eqb a b = false.
Proof. intros H. destruct (str_eqb a b) eqn:E; [apply str_eqb_eq in E; contradiction | reflexivity]. Qed.

(* clean: non-empty, no white space at either end *)
Definition clean (s : str) : Prop :=
  (exists c m, s = c :: m /\ is_space c = false) /\
  (exists d m, s = m ++ [d] /\ is_space d = false).

Lemma lstrip_first c m : is_space c = false -> lstrip (c :: m) = c :: m.
Proof. intros H. simpl. rewrite H. reflexivity. Qed.

Lemma rstrip_last m d : is_space d = false -> rstrip (m ++ [d]) = m ++ [d].
Proof.
  intros H. unfold rstrip. rewrite rev_app_distr. simpl. rewrite H. simpl.
  rewrite rev_involutive. reflexivity.
Qed.

Lemma strip_clean s : clean s -> strip s = s.
Proof.
  intros [[c [m [E1 H1]]] [d [m' [E2 H2]]]]. unfold strip.
  rewrite E1, (lstrip_first c m H1), <- E1, E2. apply rstrip_last. exact H2.
Qed.

Lemma clean_nonempty s : clean s -> s <> [].
Proof. intros [[c [m [E _]]] _]. rewrite E. discriminate. Qed.

Definition sp : ascii := " "%char.
Lemma sp_space : is_space sp = true. Proof. reflexivity. Qed.

Lemma strip_lpad s : clean s -> strip (sp :: s) = s.
Proof. intros H. unfold strip. simpl. fold (strip s). apply strip_clean. exact H. Qed.

Lemma strip_rpad s : clean s -> strip (s ++ [sp]) = s.
Proof.
  intros H. destruct H as [[c [m [E1 H1]]] [d [m' [E2 H2]]]]. unfold strip.
  assert (L : lstrip (s ++ [sp]) = s ++ [sp]).
  { rewrite E1. change ((c :: m) ++ [sp]) with (c :: (m ++ [sp])). apply lstrip_first. exact H1. }
  rewrite L. unfold rstrip. rewrite rev_app_distr.
  change (rev [sp] ++ rev s) with (sp :: rev s).
  change (lstrip (sp :: rev s)) with (lstrip (rev s)).
  rewrite E2, rev_app_distr. change (rev [d] ++ rev m') with (d :: rev m').
  rewrite (lstrip_first d (rev m') H2).
  change (d :: rev m') with (rev [d] ++ rev m'). rewrite <- rev_app_distr. apply rev_involutive.
Qed.

Definition noeq (s : str) : Prop := Forall (fun c => Ascii.eqb c eq_char = false) s.
Definition nocomma (s : str) : Prop := Forall (fun c => Ascii.eqb c comma = false) s.

Lemma split_eq_app k r : noeq k -> split_eq (k ++ eq_char :: r) = Some (k, r).
Proof.
  induction 1 as [|c k Hc Hk IH]; simpl.
  - reflexivity.
  - rewrite Hc, IH. reflexivity.
Qed.

(* the rendering of one entry *)
Definition render_line (k t : str) : str := k ++ sp :: eq_char :: sp :: t.

Lemma clean_line k t : clean k -> clean t -> clean (render_line k t).
Proof.
  intros [[c [m [E1 H1]]] _] [_ [d [m' [E2 H2]]]]. unfold render_line. split.
  - exists c, (m ++ sp :: eq_char :: sp :: t). rewrite E1. split; [reflexivity | exact H1].
  - exists d, (k ++ sp :: eq_char :: sp :: m'). rewrite E2. split; [|exact H2].
    rewrite <- app_assoc. reflexivity.
Qed.

Lemma split_line k t : noeq k ->
  split_eq (render_line k t) = Some (k ++ [sp], sp :: t).
Proof.
  intros H. unfold render_line.
  replace (k ++ sp :: eq_char :: sp :: t) with ((k ++ [sp]) ++ eq_char :: sp :: t)
    by (rewrite <- app_assoc; reflexivity).
  apply split_eq_app. apply Forall_app. split; [exact H|]. constructor; [reflexivity | constructor].
Qed.

(* ---- commas ------------------------------------------------------------------- *)
Fixpoint join_comma (l : list str) : str :=
  match l with
  | [] => []
  | [a] => a
  | a :: r => a ++ comma :: join_comma r
  end.

Lemma split_comma_one a : nocomma a -> split_comma a = [a].
Proof.
  induction 1 as [|c a Hc Ha IH]; simpl; [reflexivity|]. rewrite Hc, IH. reflexivity.
Qed.

Lemma split_comma_app a x : nocomma a -> split_comma (a ++ comma :: x) = a :: split_comma x.
Proof.
  induction 1 as [|c a Hc Ha IH]; simpl.
  - reflexivity.
  - rewrite Hc, IH. reflexivity.
Qed.

Lemma split_join l : l <> [] -> Forall nocomma l -> split_comma (join_comma l) = l.
Proof.
  intros Hne H. induction H as [|a r Ha Hr IH]; [contradiction|].
  destruct r as [|b r'].
  - simpl. apply split_comma_one. exact Ha.
  - change (join_comma (a :: b :: r')) with (a ++ comma :: join_comma (b :: r')).
    rewrite split_comma_app by exact Ha. rewrite IH by discriminate. reflexivity.
Qed.

(* ---- pass 1 ------------------------------------------------------------------- *)
Definition keys {V} (d : list (str * V)) : list str := map fst d.

Lemma dset_fresh {V} (d : list (str * V)) k v : ~ In k (keys d) -> dset d k v = d ++ [(k, v)].
Proof.
  induction d as [|[k' v'] d IH]; simpl; intros H; [reflexivity|].
  rewrite str_eqb_neq by (intros E; apply H; left; exact E).
  rewrite IH by (intros E; apply H; right; exact E). reflexivity.
Qed.

Definition seg_tr (k t : str) : str :=
  if str_eqb k (Str "segment")
  then if str_eqb t (Str "approach") then Str "0" else if str_eqb t (Str "retract") then Str "1" else t
  else t.

Lemma pass1_line_render d k t : clean k -> noeq k -> clean t ->
  pass1_line (Ok d) (render_line k t) = Ok (dset d k (seg_tr k t)).
Proof.
  intros Hk Hn Ht. unfold pass1_line.
  rewrite (strip_clean _ (clean_line k t Hk Ht)).
  destruct (render_line k t) eqn:E.
  - exfalso. apply (clean_nonempty _ (clean_line k t Hk Ht)). exact E.
  - rewrite <- E. rewrite (split_line k t Hn).
    rewrite (strip_rpad k Hk), (strip_lpad t Ht). reflexivity.
Qed.

Lemma pass1_blank d line : strip line = [] -> pass1_line (Ok d) line = Ok d.
Proof. intros H. unfold pass1_line. rewrite H. reflexivity. Qed.

Definition entry_ok (e : str * str) : Prop := clean (fst e) /\ noeq (fst e) /\ clean (snd e).

Lemma pass1_render_all (st : list (str * str)) : forall d,
  Forall entry_ok st -> NoDup (keys st) -> (forall k, In k (keys st) -> ~ In k (keys d)) ->
  fold_left pass1_line (map (fun e => render_line (fst e) (snd e)) st) (Ok d)
  = Ok (d ++ map (fun e => (fst e, seg_tr (fst e) (snd e))) st).
Proof.
  induction st as [|[k t] st IH]; intros d Hok Hnd Hfresh.
  - simpl. rewrite app_nil_r. reflexivity.
  - inversion Hok as [|? ? [Hk [Hn Ht]] Hok']; subst. inversion Hnd as [|? ? Hnotin Hnd']; subst.
    cbn [map fold_left fst snd] in *.
    rewrite (pass1_line_render d k t Hk Hn Ht).
    rewrite dset_fresh by (apply Hfresh; left; reflexivity).
    rewrite IH; [rewrite <- app_assoc; reflexivity | exact Hok' | exact Hnd' |].
    intros k' Hin. unfold keys. rewrite map_app. cbn [map fst]. intros Hc. apply in_app_or in Hc.
    destruct Hc as [Hc|[Hc|[]]].
    + apply (Hfresh k'); [right; exact Hin | exact Hc].
    + subst. contradiction.
Qed.

(* ---- pass 2 ------------------------------------------------------------------- *)
Definition text_of (v : lval) : str :=
  match v with
  | LBool true => Str "True"
  | LBool false => Str "False"
  | LFloat t | LInt t | LStr t => t
  | LFloats l | LStrs l => join_comma l
  end.

Section Round.
  Variable isfloat isint : str -> bool.
  Variable kinds : list (str * kind).

  (* the value has the type the loader expects under this key (what the JSON form holds) *)
  Definition well_typed (k : str) (v : lval) : Prop :=
    if starts_with (Str "fit param") k then
      if ends_with (Str "vary") k then exists b, v = LBool b
      else exists t, v = LFloat t /\ isfloat t = true
    else match klookup kinds k with
         | None => False
         | Some KList =>
           (exists a b r, v = LFloats (a :: b :: r) /\ forallb isfloat (a :: b :: r) = true
                          /\ Forall nocomma (a :: b :: r))
           \/ (exists a r, v = LStrs (a :: r) /\ Forall nocomma (a :: r) /\
                           (isfloat a = false \/ exists b r', r = b :: r' /\ isfloat b = false))
         | Some KStr => exists t, v = LStr t
         | Some KInt => exists t, v = LInt t /\ isint t = true
         | Some KOther => exists t, v = LFloat t /\ isfloat t = true
         end.

  Lemma conv_text k v : well_typed k v -> conv isfloat isint kinds k (text_of v) = Ok v.
  Proof.
    unfold well_typed, conv. destruct (starts_with (Str "fit param") k).
    - destruct (ends_with (Str "vary") k).
      + intros [b ->]. destruct b; reflexivity.
      + intros [t [-> Ht]]. simpl. rewrite Ht. reflexivity.
    - destruct (klookup kinds k) as [[| | |]|]; [| | | |contradiction].
      + intros [[a [b [r [-> [Hf Hc]]]]]|[a [r [-> [Hc Hf]]]]].
        * cbn [text_of]. rewrite split_join by (discriminate || exact Hc).
          pose proof Hf as Hf'. cbn [forallb] in Hf'.
          apply andb_true_iff in Hf'. destruct Hf' as [Ha Hf']. apply andb_true_iff in Hf'.
          destruct Hf' as [Hb _]. rewrite Ha, Hb, Hf. reflexivity.
        * cbn [text_of]. rewrite split_join by (discriminate || exact Hc).
          destruct Hf as [Ha|[b [r' [-> Hb]]]].
          -- rewrite Ha. reflexivity.
          -- rewrite Hb. destruct (isfloat a); reflexivity.
      + intros [t ->]. reflexivity.
      + intros [t [-> Ht]]. simpl. rewrite Ht. reflexivity.
      + intros [t [-> Ht]]. simpl. rewrite Ht. reflexivity.
  Qed.

  Lemma pass2_texts (st : list (str * lval)) :
    Forall (fun e => well_typed (fst e) (snd e)) st ->
    pass2 isfloat isint kinds (map (fun e => (fst e, text_of (snd e))) st) = Ok st.
  Proof.
    induction 1 as [|[k v] st Hwt _ IH]; [reflexivity|].
    cbn [map pass2 fst snd] in *. rewrite (conv_text k v Hwt), IH. reflexivity.
  Qed.

  (* an entry of a profile as the old format can hold it *)
  Definition storable (e : str * lval) : Prop :=
    clean (fst e) /\ noeq (fst e) /\ clean (text_of (snd e)) /\ well_typed (fst e) (snd e).

  Definition render (st : list (str * lval)) : list str :=
    map (fun e => render_line (fst e) (text_of (snd e))) st.

  (* words are not numbers: the "segment" translation does not touch numeric texts *)
  Hypothesis int_not_word : isint (Str "approach") = false /\ isint (Str "retract") = false.
  Hypothesis segment_is_int : klookup kinds (Str "segment") = Some KInt.

  Lemma seg_tr_id k v : well_typed k v -> seg_tr k (text_of v) = text_of v.
  Proof.
    unfold seg_tr. destruct (str_eqb k (Str "segment")) eqn:E; [|reflexivity].
    apply str_eqb_eq in E. subst k. unfold well_typed.
    change (starts_with (Str "fit param") (Str "segment")) with false. cbv iota.
    rewrite segment_is_int. intros [t [-> Ht]]. cbn [text_of].
    destruct int_not_word as [Ha Hr].
    destruct (str_eqb t (Str "approach")) eqn:E1.
    { apply str_eqb_eq in E1. subst. congruence. }
    destruct (str_eqb t (Str "retract")) eqn:E2.
    { apply str_eqb_eq in E2. subst. congruence. }
    reflexivity.
  Qed.

  Theorem legacy_roundtrip (st : list (str * lval)) :
    Forall storable st -> NoDup (keys st) ->
    load_legacy isfloat isint kinds (render st) = Ok st.
  Proof.
    intros Hst Hnd. unfold load_legacy, pass1, render.
    pose (tx := map (fun e : str * lval => (fst e, text_of (snd e))) st).
    assert (E : map (fun e : str * lval => render_line (fst e) (text_of (snd e))) st
                = map (fun e : str * str => render_line (fst e) (snd e)) tx).
    { unfold tx. rewrite map_map. reflexivity. }
    rewrite E. rewrite (pass1_render_all tx []).
    - cbn [app]. assert (E2 : map (fun e : str * str => (fst e, seg_tr (fst e) (snd e))) tx = tx).
      { unfold tx. rewrite map_map. apply map_ext_in. intros [k v] Hin. cbn [fst snd].
        rewrite Forall_forall in Hst. destruct (Hst _ Hin) as [_ [_ [_ Hwt]]].
        rewrite (seg_tr_id k v Hwt). reflexivity. }
      rewrite E2. unfold tx. apply pass2_texts.
      eapply Forall_impl; [|exact Hst]. intros e [_ [_ [_ H]]]. exact H.
    - unfold tx. rewrite Forall_map. eapply Forall_impl; [|exact Hst].
      intros e [H1 [H2 [H3 _]]]. split; [exact H1 | split; [exact H2 | exact H3]].
    - unfold tx, keys. rewrite map_map. exact Hnd.
    - intros k _ [].
  Qed.

  (* the words of old profiles *)
  Theorem legacy_segment_words :
    isint (Str "0") = true -> isint (Str "1") = true ->
    load_legacy isfloat isint kinds [Str "segment = approach"] = Ok [(Str "segment", LInt (Str "0"))] /\
    load_legacy isfloat isint kinds [Str "segment=retract "] = Ok [(Str "segment", LInt (Str "1"))].
  Proof.
    intros H0 H1. unfold load_legacy. split.
    - replace (pass1 [Str "segment = approach"]) with (@Ok (list (str * str)) [(Str "segment", Str "0")])
        by (vm_compute; reflexivity).
      cbn [pass2]. unfold conv. change (starts_with (Str "fit param") (Str "segment")) with false.
      cbv iota. rewrite segment_is_int, H0. reflexivity.
    - replace (pass1 [Str "segment=retract "]) with (@Ok (list (str * str)) [(Str "segment", Str "1")])
        by (vm_compute; reflexivity).
      cbn [pass2]. unfold conv. change (starts_with (Str "fit param") (Str "segment")) with false.
      cbv iota. rewrite segment_is_int, H1. reflexivity.
  Qed.
End Round.

(* ---- whatever loads has the types the rest of the command line relies on --------- *)
Section Types.
  Variable isfloat isint : str -> bool.
  Variable kinds : list (str * kind).

  Definition typed (k : str) (v : lval) : Prop :=
    if starts_with (Str "fit param") k then
      if ends_with (Str "vary") k then exists b, v = LBool b else exists t, v = LFloat t /\ isfloat t = true
    else match klookup kinds k with
         | None => False
         | Some KList => (exists l, v = LFloats l /\ forallb isfloat l = true /\ 2 <= List.length l)
                         \/ (exists l, v = LStrs l /\ l <> [])
         | Some KStr => exists t, v = LStr t
         | Some KInt => exists t, v = LInt t /\ isint t = true
         | Some KOther => exists t, v = LFloat t /\ isfloat t = true
         end.

  Lemma conv_typed k t v : conv isfloat isint kinds k t = Ok v -> typed k v.
  Proof.
    unfold conv, typed. destruct (starts_with (Str "fit param") k).
    - destruct (ends_with (Str "vary") k).
      + intros H. inversion H. eexists. reflexivity.
      + destruct (isfloat t) eqn:E; intros H; inversion H. exists t. split; [reflexivity | exact E].
    - destruct (klookup kinds k) as [[| | |]|]; try discriminate.
      + destruct (split_comma t) as [|a rest] eqn:El; [discriminate|].
        destruct (isfloat a) eqn:Ea.
        * destruct rest as [|b rest']; [discriminate|].
          destruct (isfloat b) eqn:Eb.
          -- destruct (forallb isfloat (a :: b :: rest')) eqn:Ef; intros H; inversion H.
             left. exists (a :: b :: rest'). split; [reflexivity|]. split; [exact Ef | simpl; lia].
          -- intros H; inversion H. right. eexists. split; [reflexivity | discriminate].
        * intros H; inversion H. right. eexists. split; [reflexivity | discriminate].
      + intros H; inversion H. eexists. reflexivity.
      + destruct (isint t) eqn:E; intros H; inversion H. exists t. split; [reflexivity | exact E].
      + destruct (isfloat t) eqn:E; intros H; inversion H. exists t. split; [reflexivity | exact E].
  Qed.

  Lemma pass2_typed d : forall out, pass2 isfloat isint kinds d = Ok out ->
    Forall (fun e => typed (fst e) (snd e)) out /\ map fst out = map fst d.
  Proof.
    induction d as [|[k t] d IH]; intros out H.
    - inversion H. split; [constructor | reflexivity].
    - cbn [pass2] in H. destruct (conv isfloat isint kinds k t) as [x|] eqn:Ec; [|discriminate].
      destruct (pass2 isfloat isint kinds d) as [r|] eqn:Er; [|discriminate].
      inversion H; subst. destruct (IH r eq_refl) as [H1 H2]. split.
      + constructor; [exact (conv_typed k t x Ec) | exact H1].
      + cbn [map fst]. rewrite H2. reflexivity.
  Qed.

  Theorem legacy_typed lines out :
    load_legacy isfloat isint kinds lines = Ok out -> Forall (fun e => typed (fst e) (snd e)) out.
  Proof.
    unfold load_legacy. destruct (pass1 lines) as [d|]; [|discriminate].
    intros H. exact (proj1 (pass2_typed d out H)).
  Qed.
End Types.

(* ---- a concrete profile meets the hypotheses (non-vacuity) ------------------------ *)
Definition cleanb (s : str) : bool :=
  match s with
  | c :: _ => negb (is_space c) && negb (is_space (last s c))
  | [] => false
  end.

Lemma cleanb_sound s : cleanb s = true -> clean s.
Proof.
  destruct s as [|c m]; [discriminate|]. unfold cleanb. intros H.
  apply andb_true_iff in H. destruct H as [H1 H2].
  apply negb_true_iff in H1. apply negb_true_iff in H2. split.
  - exists c, m. split; [reflexivity | exact H1].
  - exists (last (c :: m) c), (removelast (c :: m)). split; [|exact H2].
    apply app_removelast_last. discriminate.
Qed.

Definition noeqb (s : str) : bool := forallb (fun c => negb (Ascii.eqb c eq_char)) s.
Lemma noeqb_sound s : noeqb s = true -> noeq s.
Proof.
  unfold noeqb, noeq. rewrite forallb_forall, Forall_forall. intros H c Hc.
  apply negb_true_iff. apply H. exact Hc.
Qed.
Definition nocommab (s : str) : bool := forallb (fun c => negb (Ascii.eqb c comma)) s.
Lemma nocommab_sound s : nocommab s = true -> nocomma s.
Proof.
  unfold nocommab, nocomma. rewrite forallb_forall, Forall_forall. intros H c Hc.
  apply negb_true_iff. apply H. exact Hc.
Qed.

Definition ex_kinds : list (str * kind) :=
  [(Str "model_key", KStr); (Str "preprocessing", KList); (Str "range_x", KList);
   (Str "segment", KInt); (Str "weight_cp", KOther)].
Definition ex_isfloat (s : str) : bool :=
  existsb (str_eqb s) [Str "0.0"; Str "2.5e-06"; Str "5e-07"; Str "3000.0"; Str "0"; Str "1"].
Definition ex_isint (s : str) : bool := existsb (str_eqb s) [Str "0"; Str "1"].
Definition ex_profile : list (str * lval) :=
  [(Str "model_key", LStr (Str "hertz_para"));
   (Str "preprocessing", LStrs [Str "compute_tip_position"; Str "correct_force_offset"]);
   (Str "range_x", LFloats [Str "0.0"; Str "2.5e-06"]);
   (Str "segment", LInt (Str "1"));
   (Str "weight_cp", LFloat (Str "5e-07"));
   (Str "fit param E value", LFloat (Str "3000.0"));
   (Str "fit param E vary", LBool true)].

Ltac storable_entry tac :=
  split; [apply cleanb_sound; vm_compute; reflexivity|];
  split; [apply noeqb_sound; vm_compute; reflexivity|];
  split; [apply cleanb_sound; vm_compute; reflexivity|];
  unfold well_typed;
  match goal with |- context [starts_with ?a ?b] =>
    let v := eval vm_compute in (starts_with a b) in change (starts_with a b) with v end;
  cbv iota;
  try match goal with |- context [ends_with ?a ?b] =>
    let v := eval vm_compute in (ends_with a b) in change (ends_with a b) with v end;
  cbv iota;
  try match goal with |- context [klookup ?a ?b] =>
    let v := eval vm_compute in (klookup a b) in change (klookup a b) with v end;
  cbv iota; tac.

Lemma ex_storable : Forall (storable ex_isfloat ex_isint ex_kinds) ex_profile /\ NoDup (keys ex_profile).
Proof.
  split.
  - unfold ex_profile. repeat apply Forall_cons; [| | | | | | |apply Forall_nil].
    + storable_entry ltac:(exists (Str "hertz_para"); reflexivity).
    + storable_entry ltac:(right; exists (Str "compute_tip_position"), [Str "correct_force_offset"];
        split; [reflexivity|]; split; [|left; reflexivity];
        repeat constructor; apply nocommab_sound; vm_compute; reflexivity).
    + storable_entry ltac:(left; exists (Str "0.0"), (Str "2.5e-06"), []; split; [reflexivity|];
        split; [reflexivity|]; repeat constructor; apply nocommab_sound; vm_compute; reflexivity).
    + storable_entry ltac:(exists (Str "1"); split; reflexivity).
    + storable_entry ltac:(exists (Str "5e-07"); split; reflexivity).
    + storable_entry ltac:(exists (Str "3000.0"); split; reflexivity).
    + storable_entry ltac:(exists true; reflexivity).
  - unfold keys. cbn [map fst ex_profile].
    repeat (constructor; [cbn [In]; intros H;
      repeat (destruct H as [H|H]; [apply str_eqb_eq in H; vm_compute in H; discriminate|]); exact H|]).
    constructor.
Qed.

(* ---- a key given twice: the last line wins, the key keeps its place ---------------- *)
Fixpoint dget {V} (d : list (str * V)) (k : str) : option V :=
  match d with
  | [] => None
  | (k', v) :: r => if str_eqb k' k then Some v else dget r k
  end.

Lemma dget_dset_same {V} (d : list (str * V)) k v : dget (dset d k v) k = Some v.
Proof.
  induction d as [|[k' v'] d IH]; simpl.
  - rewrite str_eqb_refl. reflexivity.
  - destruct (str_eqb k' k) eqn:E; simpl; rewrite E; [reflexivity | exact IH].
Qed.

Lemma dget_dset_other {V} (d : list (str * V)) k v k2 : k2 <> k ->
  dget (dset d k v) k2 = dget d k2.
Proof.
  intros Hne. induction d as [|[k' v'] d IH]; simpl.
  - rewrite str_eqb_neq by (intros E; apply Hne; symmetry; exact E). reflexivity.
  - destruct (str_eqb k' k) eqn:E; simpl.
    + apply str_eqb_eq in E. subst k'.
      rewrite str_eqb_neq by (intros F; apply Hne; symmetry; exact F). reflexivity.
    + destruct (str_eqb k' k2); [reflexivity | exact IH].
Qed.

Lemma keys_dset {V} (d : list (str * V)) k v :
  keys (dset d k v) = if existsb (str_eqb k) (keys d) then keys d else keys d ++ [k].
Proof.
  induction d as [|[k' v'] d IH]; simpl; [reflexivity|].
  destruct (str_eqb k' k) eqn:E; simpl.
  - apply str_eqb_eq in E. subst k'. rewrite str_eqb_refl. reflexivity.
  - assert (E' : str_eqb k k' = false).
    { destruct (str_eqb k k') eqn:F; [apply str_eqb_eq in F; subst; rewrite str_eqb_refl in E; discriminate | reflexivity]. }
    rewrite E'. cbn [orb]. change (map fst (dset d k v)) with (keys (dset d k v)).
    rewrite IH. change (map fst d) with (keys d).
    destruct (existsb (str_eqb k) (keys d)); reflexivity.
Qed.

Lemma pass1_app lines more :
  pass1 (lines ++ more) = fold_left pass1_line more (pass1 lines).
Proof. unfold pass1. apply fold_left_app. Qed.

Theorem legacy_last_wins lines d k t : clean k -> noeq k -> clean t ->
  pass1 lines = Ok d ->
  exists d', pass1 (lines ++ [render_line k t]) = Ok d' /\
    dget d' k = Some (seg_tr k t) /\ (forall k2, k2 <> k -> dget d' k2 = dget d k2) /\
    keys d' = if existsb (str_eqb k) (keys d) then keys d else keys d ++ [k].
Proof.
  intros Hk Hn Ht Hd. exists (dset d k (seg_tr k t)).
  rewrite pass1_app, Hd. cbn [fold_left]. rewrite (pass1_line_render d k t Hk Hn Ht).
  split; [reflexivity|]. split; [apply dget_dset_same|].
  split; [intros k2 Hne; apply dget_dset_other; exact Hne | apply keys_dset].
Qed.
