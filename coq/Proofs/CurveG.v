(* Ghost-instrumented runs of M1 and the provenance invariant (C03, C06). *)
From Coq Require Import List String ZArith QArith Bool Relations.
From NV Require Import Base.Exn Base.PyVal Gen.Tables Model.Curve Proofs.CurveP.
Import ListNotations.
Local Close Scope Q_scope.
Local Open Scope string_scope.

Definition pipe := (pyval * pyval)%type.
Definition raw_pipe : pipe := (VList [], VDict []).

Record gstate := {
  cs : cstate;
  gdata : pipe;                       (* pipeline the data columns were produced by *)
  gres : option (pipe * dict)         (* data pipeline and settings of the last fit *)
}.

Definition ginit : gstate := {| cs := init_state; gdata := raw_pipe; gres := None |}.

Definition gdata_after (g : gstate) (s' : cstate) (ps : pstat) : pipe :=
  match ps with
  | PApplied => (pre s', popts s')
  | PFailed => raw_pipe
  | _ => gdata g
  end.

Definition gstep (g : gstate) (o : op) (orc : oracle) : gstate :=
  match o with
  | ApplyPre p q r =>
      let '(s', _, ps) := apply_pre_x (cs g) p q r orc in
      {| cs := s'; gdata := gdata_after g s' ps;
         gres := match ps with PApplied | PFailed => None | _ => gres g end |}
  | FitModel kw =>
      let '(s', _, _, ps, fitted) := fit_model_x (cs g) kw orc in
      let gd := gdata_after g s' ps in
      {| cs := s'; gdata := gd;
         gres := if fitted then Some (gd, fp_reset (fp s'))
                 else match ps with PApplied | PFailed => None | _ => gres g end |}
  | _ => {| cs := fst (fst (step (cs g) o orc)); gdata := gdata g; gres := gres g |}
  end.

Lemma gstep_obs g o orc : cs (gstep g o orc) = fst (fst (step (cs g) o orc)).
Proof.
  destruct o; simpl; try reflexivity.
  - unfold apply_pre. destruct (apply_pre_x (cs g) p o ret_details orc) as [[s' out] ps]. reflexivity.
  - unfold fit_model. destruct (fit_model_x (cs g) kwargs orc) as [[[[s' out] n] ps] f]. reflexivity.
Qed.

Fixpoint grun (g : gstate) (h : list (op * oracle)) : gstate :=
  match h with
  | [] => g
  | (o, orc) :: t => grun (gstep g o orc) t
  end.

(* operations of the property's alphabet: settings are edited through
   fit_properties[k] = v for setting keys; result keys are never written by
   hand, and the two preprocessing keys are changed through
   apply_preprocessing / fit_model only (see C03_direct_edit_refuted) *)
Definition no_hash_key (kw : dict) : Prop := forall kv, In kv kw -> fst kv <> "hash".

Definition allowed (o : op) : Prop :=
  match o with
  | SetFP k _ => in_results k = false /\ k <> "preprocessing" /\ k <> "preprocessing_options"
  | FitModel kw => no_hash_key kw
  | _ => True
  end.

(* results visible => computed from the current data and from settings
   equivalent to the current ones; and the fit columns exist *)
Definition Inv (g : gstate) : Prop :=
  dhas "hash" (fp (cs g)) = true ->
  exists st, gres g = Some (gdata g, st) /\
             settings_equiv st (fp_reset (fp (cs g))) /\ cols (cs g) = true.

(* "b still shows the results that a showed" *)
Definition Carry (a b : cstate) : Prop :=
  dhas "hash" (fp b) = true ->
  dhas "hash" (fp a) = true /\ settings_equiv (fp_reset (fp a)) (fp_reset (fp b)) /\
  cols b = cols a.

Lemma Carry_refl a : Carry a a.
Proof. intros H. split; [exact H|]. split; [apply rt_refl | reflexivity]. Qed.

Lemma Carry_trans a b c : Carry a b -> Carry b c -> Carry a c.
Proof.
  intros H1 H2 Hc. destruct (H2 Hc) as [Hb [E2 C2]]. destruct (H1 Hb) as [Ha [E1 C1]].
  split; [exact Ha|]. split; [eapply rt_trans; eassumption | congruence].
Qed.

Lemma Carry_with_fp s d k v :
  fp_setitem (fp s) k v = Ok d -> k <> "hash" -> Carry s (with_fp s d).
Proof.
  intros H Hk Hh. simpl in Hh. destruct (fp_setitem_equiv _ _ _ _ H Hk Hh) as [H1 H2].
  split; [exact H1|]. split; [exact H2 | reflexivity].
Qed.

Lemma fp_setitem_no_create d k v d' :
  fp_setitem d k v = Ok d' -> k <> "hash" -> dhas "hash" d = false -> dhas "hash" d' = false.
Proof.
  intros H Hk Hn. destruct (dhas "hash" d') eqn:E; [|reflexivity].
  destruct (fp_setitem_equiv _ _ _ _ H Hk E) as [H1 _]. congruence.
Qed.

Lemma set_all_no_create kvs d d' e :
  set_all d kvs = (d', e) -> (forall kv, In kv kvs -> fst kv <> "hash") ->
  dhas "hash" d = false -> dhas "hash" d' = false.
Proof.
  intros H Hk Hn. destruct (dhas "hash" d') eqn:E; [|reflexivity].
  destruct (set_all_equiv _ _ _ _ H Hk E) as [H1 _]. congruence.
Qed.

(* ---- apply_preprocessing --------------------------------------------------- *)
Lemma dhas_dpop k k' d : dhas k' (dpop k d) = (negb (String.eqb k k') && dhas k' d).
Proof. unfold dhas. rewrite assoc_dpop. destruct (String.eqb k k'); reflexivity. Qed.

Lemma pop_axes_nohash d2 bx by_ :
  dhas "hash" d2 = false ->
  dhas "hash" (let d3 := if dhas "x_axis" d2 && bx then dpop "x_axis" d2 else d2 in
               if dhas "y_axis" d3 && by_ then dpop "y_axis" d3 else d3) = false.
Proof.
  intros H. cbv zeta.
  destruct (dhas "x_axis" d2 && bx).
  - destruct (dhas "y_axis" (dpop "x_axis" d2) && by_); rewrite ?dhas_dpop; simpl; rewrite ?H; reflexivity.
  - destruct (dhas "y_axis" d2 && by_); rewrite ?dhas_dpop; simpl; rewrite ?H; reflexivity.
Qed.

Lemma apply_pre_x_cases s p q r orc s' out ps :
  apply_pre_x s p q r orc = (s', out, ps) ->
  (ps = PSkipped /\ fp s' = fp s /\ cols s' = cols s) \/
  (ps = PNone /\ (s' = s \/ dhas "hash" (fp s') = false)) \/
  ((ps = PApplied \/ ps = PFailed) /\ dhas "hash" (fp s') = false).
Proof.
  unfold apply_pre_x. intros H.
  set (p' := match p with Some v => v | None => pre s end) in *.
  set (o' := match q with Some v => v | None => popts s end) in *.
  assert (G : forall differs,
    (if differs || (negb (details s) && r) then
      let d0 := fp_reset (fp s) in
      match fp_setitem d0 "preprocessing" p' with
      | Err e => (with_fp s d0, Raised e, PNone)
      | Ok d1 =>
        match fp_setitem d1 "preprocessing_options" o' with
        | Err e => (with_fp s d1, Raised e, PNone)
        | Ok d2 =>
          match o_pre orc with
          | Err e =>
              ({| pre := VList []; popts := VDict []; details := false;
                  fp := dpop "preprocessing_options" (dpop "preprocessing" d2);
                  cols := false; rating := None |}, Raised e, PFailed)
          | Ok _ =>
              let d3 := if dhas "x_axis" d2 && negb (o_xaxis orc) then dpop "x_axis" d2 else d2 in
              let d4 := if dhas "y_axis" d3 && negb (o_yaxis orc) then dpop "y_axis" d3 else d3 in
              ({| pre := p'; popts := o'; details := r && nonempty_seq p';
                  fp := d4; cols := false; rating := None |}, Done, PApplied)
          end
        end
      end
    else
      ({| pre := p'; popts := o'; details := details s; fp := fp s; cols := cols s;
          rating := rating s |}, Done, PSkipped)) = (s', out, ps) ->
    (ps = PSkipped /\ fp s' = fp s /\ cols s' = cols s) \/
    (ps = PNone /\ (s' = s \/ dhas "hash" (fp s') = false)) \/
    ((ps = PApplied \/ ps = PFailed) /\ dhas "hash" (fp s') = false)).
  { intros differs HG. destruct (differs || (negb (details s) && r)).
    - cbv zeta in HG.
      assert (H0 : dhas "hash" (fp_reset (fp s)) = false) by apply dhas_reset_hash.
      destruct (fp_setitem (fp_reset (fp s)) "preprocessing" p') as [d1|e] eqn:E1.
      + assert (H1 : dhas "hash" d1 = false).
        { eapply fp_setitem_no_create; [exact E1 | discriminate | exact H0]. }
        destruct (fp_setitem d1 "preprocessing_options" o') as [d2|e] eqn:E2.
        * assert (H2 : dhas "hash" d2 = false).
          { eapply fp_setitem_no_create; [exact E2 | discriminate | exact H1]. }
          destruct (o_pre orc) as [u|e].
          -- inversion HG; subst. right. right. split; [left; reflexivity|].
             cbn [fp]. apply (pop_axes_nohash d2 (negb (o_xaxis orc)) (negb (o_yaxis orc)) H2).
          -- inversion HG; subst. right. right. split; [right; reflexivity|]. cbn [fp].
             rewrite !dhas_dpop. simpl. exact H2.
        * inversion HG; subst. right. left. split; [reflexivity|]. right. exact H1.
      + inversion HG; subst. right. left. split; [reflexivity|]. right. exact H0.
    - inversion HG; subst. left. simpl. auto. }
  destruct (dhas "preprocessing" (fp s)).
  - destruct (assoc "preprocessing_options" (fp s)) as [po|].
    + exact (G _ H).
    + inversion H; subst. right. left. split; [reflexivity | left; reflexivity].
  - exact (G true H).
Qed.

(* ---- one step preserves the invariant -------------------------------------- *)
Lemma Inv_carry g s' :
  Inv g -> Carry (cs g) s' ->
  Inv {| cs := s'; gdata := gdata g; gres := gres g |}.
Proof.
  intros HI HC Hh. simpl in *. destruct (HC Hh) as [Ha [E C]].
  destruct (HI Ha) as [st [G1 [G2 G3]]]. exists st. split; [exact G1|].
  split; [eapply rt_trans; eassumption | congruence].
Qed.

Lemma Inv_nohash s' gd gr : dhas "hash" (fp s') = false -> Inv {| cs := s'; gdata := gd; gres := gr |}.
Proof. intros H Hh. simpl in Hh. congruence. Qed.

Lemma step_ApplyPre g p q r orc : Inv g -> Inv (gstep g (ApplyPre p q r) orc).
Proof.
  intros HI. simpl. destruct (apply_pre_x (cs g) p q r orc) as [[s' out] ps] eqn:E.
  destruct (apply_pre_x_cases _ _ _ _ _ _ _ _ E) as [[-> [Hf Hc]] | [[-> [->|Hn]] | [[->| ->] Hn]]]; simpl.
  - apply Inv_carry; [exact HI|]. intros Hh. rewrite Hf in *. split; [exact Hh|].
    split; [apply rt_refl | exact Hc].
  - destruct g; exact HI.
  - apply Inv_nohash. exact Hn.
  - apply Inv_nohash. exact Hn.
  - apply Inv_nohash. exact Hn.
Qed.

Lemma step_SetFP g k v orc : Inv g -> allowed (SetFP k v) -> Inv (gstep g (SetFP k v) orc).
Proof.
  intros HI [Hres _]. simpl. destruct (fp_setitem (fp (cs g)) k v) as [d|e] eqn:E; simpl.
  - apply Inv_carry; [exact HI|]. eapply Carry_with_fp; [exact E|].
    intros ->. destruct hash_is_result as [H1 _]. congruence.
  - destruct g; exact HI.
Qed.

Lemma step_Rate g a b c d orc : Inv g -> Inv (gstep g (Rate a b c d) orc).
Proof.
  intros HI. simpl. apply Inv_carry; [exact HI|].
  unfold rate_quality. destruct a; simpl; try apply Carry_refl.
  destruct (String.eqb (lower s) "none"); simpl; [apply Carry_refl|].
  destruct (match rating (cs g) with
            | Some (h, rg, t, nm, ld, _) => _ | None => true end); simpl.
  - destruct (o_rate orc); simpl; [|apply Carry_refl].
    intros Hh. simpl in *. split; [exact Hh|]. split; [apply rt_refl | reflexivity].
  - destruct (rating (cs g)) as [[[[[[? ?] ?] ?] ?] ?]|]; simpl; apply Carry_refl.
Qed.

Lemma step_EMod g orc : Inv g -> Inv (gstep g EModMinDelta orc).
Proof.
  intros HI. simpl. apply Inv_carry; [exact HI|]. unfold emod_mindelta.
  destruct (dhas "optimal_fit_E_array" (fp (cs g))); simpl; [apply Carry_refl|].
  destruct (fitter_init (fp (cs g)) orc); simpl; [|apply Carry_refl].
  destruct (o_fit orc); simpl; [|apply Carry_refl].
  intros Hh. simpl in *. rewrite !dhas_dset in Hh. simpl in Hh. split; [exact Hh|].
  split; [|reflexivity].
  rewrite !reset_dset_nondefault by (vm_compute; reflexivity). apply rt_refl.
Qed.

Lemma step_GetInit g mk orc : Inv g -> Inv (gstep g (GetInit mk) orc).
Proof.
  intros HI. simpl. apply Inv_carry; [exact HI|]. unfold get_init.
  destruct mk as [k|]; simpl.
  - destruct (fp_setitem (fp (cs g)) "model_key" k) as [d|e] eqn:E; simpl; [|apply Carry_refl].
    assert (HC : Carry (cs g) (with_fp (cs g) d)) by (eapply Carry_with_fp; [exact E | discriminate]).
    destruct (truthy (dget "params_initial" d) && dhas "params_initial" d); simpl; [exact HC|].
    destruct (o_guess orc); exact HC.
  - assert (HC : Carry (cs g) (with_fp (cs g) (fp (cs g)))).
    { intros Hh. simpl in *. split; [exact Hh|]. split; [apply rt_refl | reflexivity]. }
    destruct (truthy (dget "params_initial" (fp (cs g))) && dhas "params_initial" (fp (cs g))); simpl;
      [exact HC|]. destruct (o_guess orc); exact HC.
Qed.

(* ---- fit_model ---------------------------------------------------------------- *)
Lemma sorted_items_keys kw kv : In kv (sorted_items kw) -> In (fst kv) (map fst kw).
Proof.
  unfold sorted_items. intros H. apply in_map_iff in H. destruct H as [k [<- Hk]]. simpl.
  assert (G : forall l x, In x (sort_strs l) -> In x l).
  { induction l as [|a t IH]; simpl; intros x Hx; [exact Hx|].
    assert (I : forall y l', In x (insert_str y l') -> x = y \/ In x l').
    { intros y l'. induction l' as [|b t' IH']; simpl; intros Hi.
      - destruct Hi as [->|[]]; auto.
      - destruct (String.leb y b); simpl in Hi.
        + destruct Hi as [->|[->|Hi]]; auto.
        + destruct Hi as [->|Hi]; auto. destruct (IH' Hi); auto. }
    destruct (I _ _ Hx) as [->|Hx']; auto. }
  apply G. exact Hk.
Qed.

Lemma fit_tail_Inv g s1 ps kw orc s' out n ps' fitted :
  no_hash_key kw ->
  pre s1 = pre s1 ->
  Inv {| cs := s1; gdata := gdata_after g s1 ps;
         gres := match ps with PApplied | PFailed => None | _ => gres g end |} ->
  fit_tail s1 ps kw orc = (s', out, n, ps', fitted) ->
  Inv {| cs := s'; gdata := gdata_after g s' ps';
         gres := if fitted then Some (gdata_after g s' ps', fp_reset (fp s'))
                 else match ps' with PApplied | PFailed => None | _ => gres g end |}.
Proof.
  intros Hkw _ HI H. unfold fit_tail in H.
  set (g1 := {| cs := s1; gdata := gdata_after g s1 ps;
                gres := match ps with PApplied | PFailed => None | _ => gres g end |}) in *.
  (* any state with_fp s1 d reached by carrying *)
  assert (Fin : forall d, Carry s1 (with_fp s1 d) ->
     Inv {| cs := with_fp s1 d; gdata := gdata_after g (with_fp s1 d) ps;
            gres := match ps with PApplied | PFailed => None | _ => gres g end |}).
  { intros d HC.
    assert (E : gdata_after g (with_fp s1 d) ps = gdata g1) by (destruct ps; reflexivity).
    rewrite E. apply (Inv_carry g1 (with_fp s1 d) HI HC). }
  destruct (set_all (fp s1) (sorted_items kw)) as [d e] eqn:Eset.
  assert (C1 : Carry s1 (with_fp s1 d)).
  { intros Hh. simpl in Hh.
    assert (Hk : forall kv, In kv (sorted_items kw) -> fst kv <> "hash").
    { intros kv Hin Heq. apply sorted_items_keys in Hin. apply in_map_iff in Hin.
      destruct Hin as [kv' [Hf Hin']]. apply (Hkw kv' Hin'). congruence. }
    destruct (set_all_equiv _ _ _ _ Eset Hk Hh) as [H1 H2].
    split; [exact H1|]. split; [exact H2 | reflexivity]. }
  destruct e as [e|].
  { inversion H; subst. apply Fin. exact C1. }
  set (rd2 := if dhas "model_key" d then Ok d
              else fp_setitem d "model_key" (dget "model_key" fp_default_values)) in *.
  destruct rd2 as [d2|e2] eqn:E2.
  2:{ inversion H; subst. apply Fin. exact C1. }
  assert (C2 : Carry s1 (with_fp s1 d2)).
  { unfold rd2 in E2. destruct (dhas "model_key" d).
    - inversion E2; subst. exact C1.
    - eapply Carry_trans; [exact C1|].
      apply (Carry_with_fp (with_fp s1 d) d2 "model_key" _ E2). discriminate. }
  set (rd3 := if negb (dhas "params_initial" d2) || is_none (dget "params_initial" d2)
              then match o_guess orc with
                   | Err e => Err e
                   | Ok g0 => fp_setitem d2 "params_initial" g0 end
              else Ok d2) in *.
  destruct rd3 as [d3|e3] eqn:E3.
  2:{ inversion H; subst. apply Fin. exact C2. }
  assert (C3 : Carry s1 (with_fp s1 d3)).
  { unfold rd3 in E3.
    destruct (negb (dhas "params_initial" d2) || is_none (dget "params_initial" d2)).
    - destruct (o_guess orc) as [g0|]; [|discriminate].
      eapply Carry_trans; [exact C2|].
      apply (Carry_with_fp (with_fp s1 d2) d3 "params_initial" _ E3). discriminate.
    - inversion E3; subst. exact C2. }
  destruct (dhas "hash" d3) eqn:Eh.
  { inversion H; subst. apply Fin. exact C3. }
  destruct (fitter_init d3 orc) as [f|ef].
  2:{ inversion H; subst. apply Inv_nohash. exact Eh. }
  destruct (o_fit orc) as [success|ef].
  2:{ inversion H; subst. apply Inv_nohash. exact Eh. }
  inversion H; subst. intros _. cbn [cs fp cols gdata gres].
  eexists. split; [reflexivity|]. split; [apply rt_refl | reflexivity].
Qed.

Lemma step_FitModel g kw orc : Inv g -> allowed (FitModel kw) -> Inv (gstep g (FitModel kw) orc).
Proof.
  intros HI Hkw. simpl in Hkw. cbn [gstep].
  destruct (fit_model_x (cs g) kw orc) as [[[[s' out] n] ps'] fitted] eqn:E.
  unfold fit_model_x in E.
  set (stage1 := if dhas "preprocessing" kw || dhas "preprocessing_options" kw
                 then apply_pre_x (cs g)
                        (Some (if dhas "preprocessing" kw then dget "preprocessing" kw else pre (cs g)))
                        (Some (if dhas "preprocessing_options" kw then dget "preprocessing_options" kw
                               else popts (cs g))) false orc
                 else (cs g, Done, PNone)) in *.
  destruct stage1 as [[s1 out1] ps] eqn:E1.
  assert (HI1 : Inv {| cs := s1; gdata := gdata_after g s1 ps;
                       gres := match ps with PApplied | PFailed => None | _ => gres g end |}).
  { unfold stage1 in E1.
    destruct (dhas "preprocessing" kw || dhas "preprocessing_options" kw).
    - pose proof (step_ApplyPre g
                    (Some (if dhas "preprocessing" kw then dget "preprocessing" kw else pre (cs g)))
                    (Some (if dhas "preprocessing_options" kw then dget "preprocessing_options" kw
                           else popts (cs g))) false orc HI) as HA.
      cbn [gstep] in HA. rewrite E1 in HA. exact HA.
    - inversion E1; subst. destruct g; exact HI. }
  destruct out1 as [| e |v].
  - eapply fit_tail_Inv; eauto.
  - inversion E; subst. exact HI1.
  - eapply fit_tail_Inv; eauto.
Qed.

(* ---- all histories ---------------------------------------------------------------- *)
Lemma step_Inv g o orc : Inv g -> allowed o -> Inv (gstep g o orc).
Proof.
  intros HI Ha. destruct o.
  - apply step_ApplyPre; assumption.
  - apply step_FitModel; assumption.
  - apply step_SetFP; assumption.
  - apply step_Rate; assumption.
  - apply step_EMod; assumption.
  - apply step_GetInit; assumption.
Qed.

Lemma Inv_init : Inv ginit.
Proof. intros H. discriminate. Qed.

Lemma run_Inv h : forall g, Inv g -> Forall (fun oo => allowed (fst oo)) h -> Inv (grun g h).
Proof.
  induction h as [|[o orc] t IH]; intros g HI HF; simpl; [exact HI|].
  inversion HF; subst. apply IH; [apply step_Inv; assumption | assumption].
Qed.
