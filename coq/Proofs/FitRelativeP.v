(* C04: the repaired loop of relative fits never reads a contact point that
   was not fitted; the loop as it was did (D33). *)
From Coq Require Import List Bool Arith Lia.
Import ListNotations.
From NV Require Import Model.FitCore Model.FitOutcome Proofs.FitOutcomeP.
From NV Require Import Model.FitRelative.

Section P.
  Variables P T : Type.
  Variable seg : list bool.
  Variable next : P -> pass P T.

  (* after any pass: success implies fitted parameters *)
  Definition Has (s : fstate P T) : Prop := f_success s = true -> f_fitted s <> None.

  Lemma one_pass_Has s p : Has (one_pass seg s p).
  Proof.
    unfold Has, one_pass. destruct (enough_points (p_varied p) (p_points p)); cbn.
    - intros _. discriminate.
    - discriminate.
  Qed.

  Lemma rel_loop_total fuel : forall s, Has s -> rel_loop seg next fuel s <> None.
  Proof.
    induction fuel as [|n IH]; intros s Hs; cbn [rel_loop]; [discriminate|].
    destruct (f_success s) eqn:E; [|discriminate].
    destruct (f_fitted s) as [p|] eqn:F.
    - apply IH. apply one_pass_Has.
    - exfalso. apply (Hs E). exact F.
  Qed.

  (* no KeyError, whatever the earlier state, the passes and the optimiser *)
  Theorem relative_fit_total s first : relative_fit seg next s first <> None.
  Proof.
    unfold relative_fit.
    destruct (rel_loop seg next 3 (one_pass seg s first)) eqn:E; [discriminate|].
    exfalso. exact (rel_loop_total 3 _ (one_pass_Has s first) E).
  Qed.

  (* the loop is the fold of the outcome model over the passes it performs *)
  Lemma rel_loop_is_fold fuel : forall s, Has s ->
    rel_loop seg next fuel s = Some (run_passes seg s (rel_passes seg next fuel s)).
  Proof.
    induction fuel as [|n IH]; intros s Hs; cbn [rel_loop rel_passes]; [reflexivity|].
    destruct (f_success s) eqn:E; [|reflexivity].
    destruct (f_fitted s) as [p|] eqn:F.
    - rewrite IH by apply one_pass_Has. reflexivity.
    - exfalso. apply (Hs E). exact F.
  Qed.

  Theorem relative_fit_is_outcome s first :
    relative_fit seg next s first =
    Some (fit_outcome seg s (first :: rel_passes seg next 3 (one_pass seg s first))).
  Proof.
    unfold relative_fit, fit_outcome. rewrite rel_loop_is_fold by apply one_pass_Has.
    reflexivity.
  Qed.

  (* at most four passes *)
  Lemma rel_passes_length fuel : forall s, length (rel_passes seg next fuel s) <= fuel.
  Proof.
    induction fuel as [|n IH]; intros s; cbn [rel_passes length]; [lia|].
    destruct (f_success s); [|cbn; lia].
    destruct (f_fitted s); [|cbn; lia]. cbn [length]. specialize (IH (one_pass seg s (next p))). lia.
  Qed.

  (* D33: the loop as it was raised when the first pass was refused on a curve
     that showed no earlier result *)
  Theorem old_loop_raises s first :
    f_fitted s = None ->
    enough_points (p_varied first) (p_points first) = false ->
    relative_fit_old seg next s first = None.
  Proof.
    intros Hf He. unfold relative_fit_old, one_pass. rewrite He.
    cbn [rel_loop_old f_fitted]. rewrite Hf. reflexivity.
  Qed.
End P.
