(* C07: smooth_axis_monotone returns (does not raise) whenever the window-doubling loop can
   reach a window twice the array, the iteration budget is at least the array length, and
   the filtered data are not constant. *)
From Coq Require Import List Bool Arith Reals Lra Lia.
From NV Require Import Base.Exn Model.FitCore Model.Steps Model.Median Proofs.FitCoreP Proofs.StepsP
     Proofs.TieP Proofs.MedianP Proofs.MedianWideP.
From NV Require Import Proofs.TieStrictP Proofs.TieTermP.
Import ListNotations.
Local Open Scope R_scope.

Lemma tiebreak_more_fuel : forall m s out, r_tiebreak m s = Ok out ->
  forall k, r_tiebreak (k + m) s = Ok out.
Proof.
  induction m as [|m IH]; intros s out H k; [discriminate|].
  replace (k + S m)%nat with (S (k + m)) by lia.
  rewrite tiebreak_unfold in *. destruct (r_all_distinct s); [exact H|].
  apply IH. exact H.
Qed.

Theorem smooth_terminates_ties m w data :
  (2 * length data + 1 <= 2 ^ m * (w + 1))%nat ->
  (forall w' s, r_widen (S m) w data = Ok (w', s) ->
     (ties s <= m)%nat /\ nth 0 s 0 <> nth (length s - 1) s 0) ->
  exists out, r_smooth (S m) w data = Ok out.
Proof.
  intros Hw Hnc.
  destruct (widen_terminates m w data Hw) as [w' [s Hs]].
  destruct (widen_spec _ _ _ _ _ Hs) as [Es Hmono].
  destruct (Hnc w' s Hs) as [Ht Hne].
  assert (Hex : exists out, r_tiebreak (S m) s = Ok out).
  { destruct Hmono as [Ha|Hd].
    - apply tiebreak_terminates_asc; [exact Ht|]. split; [exact Ha|].
      destruct (Nat.eq_dec (length s - 1) 0) as [Z1|Z1]; [rewrite Z1 in Hne; contradiction|].
      assert (nth 0 s 0 <= nth (length s - 1) s 0) by (apply asc_adj_all; [exact Ha | lia]).
      lra.
    - apply tiebreak_terminates_desc; [exact Ht|]. split; [exact Hd|].
      destruct (Nat.eq_dec (length s - 1) 0) as [Z1|Z1]; [rewrite Z1 in Hne; contradiction|].
      assert (nth (length s - 1) s 0 <= nth 0 s 0) by (apply desc_adj_all; [exact Hd | lia]).
      lra. }
  destruct Hex as [out Hout]. exists out.
  unfold r_smooth, smooth_axis_monotone. fold (r_widen (S m) w data). rewrite Hs. simpl.
  exact Hout.
Qed.

(* arrays no longer than the budget have at most budget - 1 tied pairs *)
Theorem smooth_terminates m w data :
  (2 * length data + 1 <= 2 ^ m * (w + 1))%nat ->
  (length data <= S m)%nat ->
  (forall w' s, r_widen (S m) w data = Ok (w', s) -> nth 0 s 0 <> nth (length s - 1) s 0) ->
  exists out, r_smooth (S m) w data = Ok out.
Proof.
  intros Hw Hm Hnc. apply smooth_terminates_ties; [exact Hw|].
  intros w' s Hs. split; [|apply (Hnc w' s Hs)].
  destruct (widen_spec _ _ _ _ _ Hs) as [Es _].
  assert (Hlen : length s = length data) by (rewrite Es; apply median_filter_length).
  pose proof (ties_le s). lia.
Qed.
