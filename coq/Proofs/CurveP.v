(* Lemmas about Model/Curve.v (FitProperties and the operations of a curve) *)
From Coq Require Import List String ZArith QArith Bool Relations.
From NV Require Import Base.Exn Base.PyVal Gen.Tables Model.Curve.
Import ListNotations.
Local Close Scope Q_scope.
Local Open Scope string_scope.

(* ---- facts about the generated key tables --------------------------------- *)
Lemma results_not_default : forallb (fun k => negb (in_default k)) fp_result_keys = true.
Proof. vm_compute. reflexivity. Qed.

Lemma hash_is_result : in_results "hash" = true /\ in_default "hash" = false.
Proof. split; vm_compute; reflexivity. Qed.

Lemma defaults_cover : forallb (fun k => dhas k fp_default_values) fp_default_keys = true.
Proof. vm_compute. reflexivity. Qed.

(* ---- dictionaries ---------------------------------------------------------- *)
Lemma assoc_dset_same k v d : assoc k (dset k v d) = Some v.
Proof.
  induction d as [|[k' v'] t IH]; simpl.
  - rewrite String.eqb_refl. reflexivity.
  - destruct (String.eqb k k') eqn:E; simpl; rewrite ?String.eqb_refl; [reflexivity|].
    rewrite E. exact IH.
Qed.

Lemma assoc_dset_other k k' v d : k' <> k -> assoc k' (dset k v d) = assoc k' d.
Proof.
  intros Hne. induction d as [|[k2 v2] t IH]; simpl.
  - destruct (String.eqb k' k) eqn:E; [apply String.eqb_eq in E; congruence | reflexivity].
  - destruct (String.eqb k k2) eqn:E; simpl.
    + apply String.eqb_eq in E. subst k2.
      destruct (String.eqb k' k) eqn:E2; [apply String.eqb_eq in E2; congruence | reflexivity].
    + destruct (String.eqb k' k2); [reflexivity | exact IH].
Qed.

Lemma dhas_dset k k' v d : dhas k' (dset k v d) = (String.eqb k' k || dhas k' d).
Proof.
  unfold dhas. destruct (String.eqb k' k) eqn:E.
  - apply String.eqb_eq in E. subst. rewrite assoc_dset_same. reflexivity.
  - apply String.eqb_neq in E. rewrite assoc_dset_other by exact E. reflexivity.
Qed.

Lemma assoc_filter (f : string -> bool) k (d : dict) :
  assoc k (filter (fun kv => f (fst kv)) d) = if f k then assoc k d else None.
Proof.
  induction d as [|[k' v'] t IH]; simpl; [destruct (f k); reflexivity|].
  destruct (f k') eqn:Ef; simpl.
  - destruct (String.eqb k k') eqn:E.
    + apply String.eqb_eq in E. subst. rewrite Ef. reflexivity.
    + exact IH.
  - destruct (String.eqb k k') eqn:E.
    + apply String.eqb_eq in E. subst. rewrite Ef in IH. rewrite Ef. exact IH.
    + exact IH.
Qed.

Lemma assoc_reset k d : assoc k (fp_reset d) = if in_default k then assoc k d else None.
Proof. unfold fp_reset. apply assoc_filter. Qed.

Lemma dhas_reset_hash d : dhas "hash" (fp_reset d) = false.
Proof. unfold dhas. rewrite assoc_reset. reflexivity. Qed.

Lemma assoc_dpop k k' d : assoc k' (dpop k d) = if String.eqb k k' then None else assoc k' d.
Proof.
  unfold dpop. rewrite (assoc_filter (fun x => negb (String.eqb k x)) k' d).
  destruct (String.eqb k k'); reflexivity.
Qed.

(* ---- equivalence of settings dictionaries ---------------------------------- *)
(* a stored value may be replaced, without discarding results, only by a
   value that Python compares equal (or, for parameter sets, that has the
   same parameter states); what is stored is a deep copy of it *)
Definition val_equiv (old stored : pyval) : Prop :=
  exists v, stored = deepcopy v /\
    (py_eq old v = true \/
     exists a b, old = VDict a /\ v = VDict b /\ params_changed a b = Ok false).

Definition eq_step (a b : dict) : Prop :=
  exists k old new, assoc k a = Some old /\ val_equiv old new /\ b = dset k new a.

Definition settings_equiv : dict -> dict -> Prop := clos_refl_trans dict eq_step.

Lemma reset_dset_default k v d : in_default k = true ->
  fp_reset (dset k v d) = dset k v (fp_reset d).
Proof.
  intros Hk. unfold fp_reset. induction d as [|[k' v'] t IH]; simpl.
  - rewrite Hk. reflexivity.
  - destruct (String.eqb k k') eqn:E; simpl.
    + apply String.eqb_eq in E. subst k'. rewrite Hk. simpl. rewrite String.eqb_refl. reflexivity.
    + destruct (in_default k') eqn:Ek'; simpl; [rewrite E, IH; reflexivity | exact IH].
Qed.

Lemma reset_dset_nondefault k v d : in_default k = false ->
  fp_reset (dset k v d) = fp_reset d.
Proof.
  intros Hk. unfold fp_reset. induction d as [|[k' v'] t IH]; simpl.
  - rewrite Hk. reflexivity.
  - destruct (String.eqb k k') eqn:E; simpl.
    + apply String.eqb_eq in E. subst k'. rewrite Hk. reflexivity.
    + destruct (in_default k'); simpl; [rewrite IH; reflexivity | exact IH].
Qed.

Lemma reset_idem d : fp_reset (fp_reset d) = fp_reset d.
Proof.
  unfold fp_reset. induction d as [|[k v] t IH]; simpl; [reflexivity|].
  destruct (in_default k) eqn:E; simpl; [rewrite E, IH; reflexivity | exact IH].
Qed.

(* ---- FitProperties.__setitem__ ---------------------------------------------- *)
(* Setting any key other than "hash": the hash is never created; and if it
   survives, the settings changed at most by one equivalent replacement. *)
Lemma fp_changed_no_hash d k v d' :
  fp_changed d k v = Ok d' -> k <> "hash" -> dhas "hash" d' = true -> d' = d.
Proof.
  unfold fp_changed. intros H Hk Hh.
  destruct (String.eqb k "model_key") eqn:Em.
  - inversion H; subst. rewrite dhas_dset, dhas_reset_hash in Hh.
    apply String.eqb_eq in Em. subst k. discriminate.
  - destruct (String.eqb k "range_x" && dhas "optimal_fit_edelta" d
              && truthy (dget "optimal_fit_edelta" d) && dhas "range_x" d) eqn:Er.
    + destruct (item1 (dget "range_x" d)) as [a|]; simpl in H; [|discriminate].
      destruct (item1 v) as [b|]; simpl in H; [|discriminate].
      destruct (py_eq a b).
      * inversion H. reflexivity.
      * inversion H; subst. rewrite dhas_dset, dhas_reset_hash in Hh.
        rewrite orb_false_r in Hh. apply String.eqb_eq in Hh. congruence.
    + inversion H; subst. rewrite dhas_dset, dhas_reset_hash in Hh.
      rewrite orb_false_r in Hh. apply String.eqb_eq in Hh. congruence.
Qed.

Lemma fp_setitem_sound d k v d' :
  fp_setitem d k v = Ok d' -> k <> "hash" -> dhas "hash" d' = true ->
  dhas "hash" d = true /\
  (fp_reset d' = fp_reset d \/ eq_step (fp_reset d) (fp_reset d')).
Proof.
  unfold fp_setitem. intros H Hk Hh.
  set (value := norm_segment k v) in *.
  destruct (in_default k) eqn:Edef.
  - destruct (dhas k d && String.eqb k "params_initial"
              && negb (is_none (dget "params_initial" d)) && negb (is_none value)) eqn:Ebr.
    + (* parameter sets compared by state *)
      apply andb_prop in Ebr. destruct Ebr as [Ebr _]. apply andb_prop in Ebr.
      destruct Ebr as [Ebr _]. apply andb_prop in Ebr. destruct Ebr as [Ehas Ekey].
      apply String.eqb_eq in Ekey. subst k.
      destruct (dget "params_initial" d) as [| | | | | | | | |stored| |] eqn:Es; try discriminate.
      destruct value as [| | | | | | | | |new| |] eqn:Ev; try discriminate.
      destruct (params_changed stored new) as [ch|] eqn:Ech; simpl in H; [|discriminate].
      inversion H; subst d'. clear H. destruct ch.
      * rewrite dhas_dset, dhas_reset_hash in Hh. discriminate.
      * rewrite dhas_dset in Hh. simpl in Hh. split; [exact Hh|]. right.
        rewrite reset_dset_default by exact Edef.
        exists "params_initial", (VDict stored), (deepcopy (VDict new)).
        split; [|split; [|reflexivity]].
        -- rewrite assoc_reset, Edef. unfold dget in Es. unfold dhas in Ehas.
           destruct (assoc "params_initial" d); [congruence | discriminate].
        -- exists (VDict new). split; [reflexivity|]. right. eauto.
    + destruct (assoc k d) as [old|] eqn:Eold.
      * destruct (py_eq old value) eqn:Eeq.
        -- inversion H; subst d'. clear H. rewrite dhas_dset in Hh.
           assert (Hh' : dhas "hash" d = true).
           { destruct (String.eqb "hash" k) eqn:E; [apply String.eqb_eq in E; congruence | exact Hh]. }
           split; [exact Hh'|]. right. rewrite reset_dset_default by exact Edef.
           exists k, old, (deepcopy value). split; [|split; [|reflexivity]].
           ++ rewrite assoc_reset, Edef. exact Eold.
           ++ exists value. split; [reflexivity | left; exact Eeq].
        -- pose proof (fp_changed_no_hash _ _ _ _ H Hk Hh) as ->. split; [exact Hh | left; reflexivity].
      * pose proof (fp_changed_no_hash _ _ _ _ H Hk Hh) as ->. split; [exact Hh | left; reflexivity].
  - destruct (in_results k) eqn:Eres; [|discriminate].
    inversion H; subst d'. clear H. rewrite dhas_dset in Hh.
    assert (Hh' : dhas "hash" d = true).
    { destruct (String.eqb "hash" k) eqn:E; [apply String.eqb_eq in E; congruence | exact Hh]. }
    split; [exact Hh'|]. left. apply reset_dset_nondefault. exact Edef.
Qed.

Lemma fp_setitem_equiv d k v d' :
  fp_setitem d k v = Ok d' -> k <> "hash" -> dhas "hash" d' = true ->
  dhas "hash" d = true /\ settings_equiv (fp_reset d) (fp_reset d').
Proof.
  intros H Hk Hh. destruct (fp_setitem_sound _ _ _ _ H Hk Hh) as [H1 [H2|H2]].
  - split; [exact H1|]. rewrite H2. apply rt_refl.
  - split; [exact H1|]. apply rt_step. exact H2.
Qed.

(* a loop of assignments *)
Lemma set_all_equiv kvs : forall d d' e,
  set_all d kvs = (d', e) -> (forall kv, In kv kvs -> fst kv <> "hash") ->
  dhas "hash" d' = true ->
  dhas "hash" d = true /\ settings_equiv (fp_reset d) (fp_reset d').
Proof.
  induction kvs as [|[k v] t IH]; intros d d' e H Hk Hh; simpl in H.
  - inversion H; subst. split; [exact Hh | apply rt_refl].
  - destruct (fp_setitem d k v) as [d1|ex] eqn:E1.
    + assert (Hk' : forall kv, In kv t -> fst kv <> "hash") by (intros kv Hin; apply Hk; right; exact Hin).
      destruct (IH _ _ _ H Hk' Hh) as [Hh1 Heq1].
      assert (Hkk : k <> "hash") by (apply (Hk (k, v)); left; reflexivity).
      destruct (fp_setitem_equiv _ _ _ _ E1 Hkk Hh1) as [Hh0 Heq0].
      split; [exact Hh0|]. eapply rt_trans; eassumption.
    + inversion H; subst. split; [exact Hh | apply rt_refl].
Qed.
