(* The interval-arithmetic lemmas of C02 (truncated Sneddon series against the
   exact sphere solution), kept apart from Proofs/FormulasP.v: coqchk has no
   virtual machine and re-evaluates the bisection of these proofs with its own
   reduction, which takes it far longer than everything else together. *)
From Coq Require Import Reals Lra.
From Interval Require Import Tactic.
From NV Require Import Base.RealExtra Gen.ModelFuncs Model.Formulas.
Local Open Scope R_scope.

(* ---- the truncated series against the exact sphere solution --------------------- *)
Lemma series_close_hi : forall a, 3 / 100 <= a <= 8336 / 10000 ->
  Rabs (series_unit (sn_delta a) - sn_F a) <= 1 / 10000 * (119 / 100).
Proof.
  intros a H. unfold series_unit, sn_delta, sn_F.
  interval with (i_bisect a, i_taylor a, i_prec 60, i_depth 20).
Qed.

Lemma series_close_lo : forall a, 0 <= a <= 3 / 100 ->
  Rabs (series_unit (sn_delta a) - sn_F a) <= 1 / 10000 * (119 / 100).
Proof.
  intros a H. unfold series_unit, sn_delta, sn_F.
  interval with (i_bisect a, i_prec 60, i_depth 20).
Qed.

Lemma series_close : forall a, 0 <= a <= 8336 / 10000 ->
  Rabs (series_unit (sn_delta a) - sn_F a) <= 1 / 10000 * (119 / 100).
Proof.
  intros a H. destruct (Rle_dec a (3 / 100)).
  - apply series_close_lo. lra.
  - apply series_close_hi. lra.
Qed.

Lemma depth_range : sn_delta (8335 / 10000) <= 1 <= sn_delta (8336 / 10000).
Proof. unfold sn_delta. split; interval. Qed.

Lemma max_force_lower : 119 / 100 <= sn_F (8335 / 10000).
Proof. unfold sn_F. interval. Qed.

