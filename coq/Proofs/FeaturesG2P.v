(* R instance of Model/FeaturesG2.v: independence of the force unit for every filter that
   commutes with positive factors *)
From Coq Require Import List Bool Arith Reals Lra Lia.
From NV Require Import Base.Exn Model.FitCore Model.Steps Model.Poc Model.Features Model.FeaturesG2
                       Proofs.FitCoreP Proofs.StepsP Proofs.PocP Proofs.FeaturesP.

Import ListNotations.
Local Open Scope R_scope.

Notation sc k := (map (fun v => k * v)).

Lemma tsum_scale2 k l : r_tsum (sc k l) = k * r_tsum l.
Proof.
  induction l as [|x l IH]; [unfold r_tsum, tsum; simpl; ring|].
  simpl map. rewrite !r_tsum_cons, IH. ring.
Qed.

Definition r_mean := FeaturesG2.mean R Rplus Rdiv 0 INR.
Definition r_variance := FeaturesG2.variance R Rplus Rminus Rmult Rdiv 0 INR.
Definition r_std := FeaturesG2.std R Rplus Rminus Rmult Rdiv sqrt 0 INR.

Lemma mean_scale k l : r_mean (sc k l) = k * r_mean l.
Proof. unfold r_mean, FeaturesG2.mean. fold r_tsum. rewrite tsum_scale2, map_length. unfold Rdiv. ring. Qed.

Lemma variance_scale k l : r_variance (sc k l) = k * k * r_variance l.
Proof.
  unfold r_variance, FeaturesG2.variance. fold r_mean. rewrite mean_scale.
  rewrite map_map.
  replace (map (fun x => (k * x - k * r_mean l) * (k * x - k * r_mean l)) l)
    with (sc (k * k) (map (fun v => (v - r_mean l) * (v - r_mean l)) l))
    by (rewrite map_map; apply map_ext; intros a; ring).
  apply mean_scale.
Qed.

Lemma std_scale k l : 0 <= k -> r_std (sc k l) = k * r_std l.
Proof.
  intros Hk. unfold r_std, FeaturesG2.std. fold r_variance. rewrite variance_scale.
  rewrite sqrt_mult_alt by (apply Rmult_le_pos; assumption).
  rewrite sqrt_square by exact Hk. reflexivity.
Qed.

Section WithFilter2.
  Variable gauss : nat -> list R -> list R.
  Hypothesis gauss_homogeneous : forall s k l, 0 < k ->
    gauss s (sc k l) = sc k (gauss s l).

  Definition r_spike_parts := spike_parts R Rplus Rminus Rmult Rdiv sqrt r_ltb 0 INR gauss.
  Definition r_spikes_count := spikes_count R Rplus Rminus Rmult Rdiv Rabs sqrt r_ltb 0 INR gauss.
  Definition r_spike_area_core := spike_area_core R Rplus Rminus Rmult Rdiv Rabs sqrt r_ltb 0 INR gauss.
  Definition r_maxima_75_core := maxima_75_core R Rplus Rminus Rdiv Rabs r_ltb 0 gauss.

  Lemma spike_parts_scale k cp x res : 0 < k ->
    r_spike_parts cp x (sc k res) =
    let '(d, d1, d2, s) := r_spike_parts cp x res in (sc k d, sc k d1, sc k d2, k * s).
  Proof.
    intros Hk. unfold r_spike_parts, spike_parts.
    rewrite rows_scale, !gauss_homogeneous, !map2_sub_scale by exact Hk.
    fold r_std. rewrite std_scale by lra. reflexivity.
  Qed.

  Lemma flags_scale k s l : 0 < k ->
    map (fun v => r_ltb (INR 3 * (k * s)) (Rabs v)) (sc k l) = map (fun v => r_ltb (INR 3 * s) (Rabs v)) l.
  Proof.
    intros Hk. rewrite map_map. apply map_ext. intros a.
    rewrite Rabs_mult, (Rabs_pos_eq k) by lra.
    replace (INR 3 * (k * s)) with (k * (INR 3 * s)) by ring.
    unfold r_ltb.
    destruct (Rlt_dec (k * (INR 3 * s)) (k * Rabs a)) as [H|H];
      destruct (Rlt_dec (INR 3 * s) (Rabs a)) as [G|G]; try reflexivity; exfalso.
    - apply G. apply Rmult_lt_reg_l with k; assumption.
    - apply H. apply Rmult_lt_compat_l; assumption.
  Qed.

  Lemma flags1_scale k s l : 0 < k ->
    map (fun v => r_ltb (INR 3 * (k * s)) v) (sc k l) = map (fun v => r_ltb (INR 3 * s) v) l.
  Proof.
    intros Hk. rewrite map_map. apply map_ext. intros a.
    replace (INR 3 * (k * s)) with (k * (INR 3 * s)) by ring.
    unfold r_ltb.
    destruct (Rlt_dec (k * (INR 3 * s)) (k * a)) as [H|H];
      destruct (Rlt_dec (INR 3 * s) a) as [G|G]; try reflexivity; exfalso.
    - apply G. apply Rmult_lt_reg_l with k; assumption.
    - apply H. apply Rmult_lt_compat_l; assumption.
  Qed.

  (* spike count: the 3 sigma band scales with the data, the crossings stay *)
  Lemma spikes_count_scale k cp x res : 0 < k ->
    r_spikes_count cp x (sc k res) = r_spikes_count cp x res.
  Proof.
    intros Hk. unfold r_spikes_count, spikes_count. fold r_spike_parts.
    rewrite spike_parts_scale by exact Hk.
    destruct (r_spike_parts cp x res) as [[[d d1] d2] s].
    rewrite map_length. destruct (Nat.ltb 50 (length d)); [|reflexivity].
    rewrite flags_scale by exact Hk. reflexivity.
  Qed.

  Lemma spike_area_core_scale k cp x y res : 0 < k -> y <> [] -> r_list_max y <> 0 ->
    r_spike_area_core cp x (sc k y) (sc k res) = r_spike_area_core cp x y res.
  Proof.
    intros Hk Hy Hm. unfold r_spike_area_core, spike_area_core. fold r_spike_parts r_tsum r_list_max.
    rewrite spike_parts_scale by exact Hk.
    destruct (r_spike_parts cp x res) as [[[d d1] d2] s].
    rewrite map_length. destruct (Nat.ltb 20 (length d)); [|reflexivity]. f_equal.
    rewrite flags1_scale by exact Hk.
    replace (map Rabs (sc k d2)) with (sc k (map Rabs d2)).
    2:{ rewrite !map_map. apply map_ext. intros a. rewrite Rabs_mult, (Rabs_pos_eq k) by lra. reflexivity. }
    rewrite select_map, tsum_scale2, list_max_scale by assumption.
    field. split; [exact Hm | lra].
  Qed.
  Lemma list_max_scale0 k l : 0 < k -> r_list_max (sc k l) = k * r_list_max l.
  Proof.
    intros Hk. destruct l as [|a l]; [unfold r_list_max, list_max; simpl; ring|].
    apply list_max_scale; [exact Hk | discriminate].
  Qed.

  Lemma abs_sc k l : 0 < k -> map Rabs (sc k l) = sc k (map Rabs l).
  Proof.
    intros Hk. rewrite !map_map. apply map_ext. intros a.
    rewrite Rabs_mult, (Rabs_pos_eq k) by lra. reflexivity.
  Qed.

  Lemma slice_sc2 k a b (l : list R) : slice a b (sc k l) = sc k (slice a b l).
  Proof. unfold slice. rewrite skipn_map, firstn_map. reflexivity. Qed.

  Lemma argmin_scale k l : 0 < k -> r_argmin (sc k l) = r_argmin l.
  Proof. intros Hk. rewrite map_scale_is_aff. apply argmin_aff. exact Hk. Qed.

  Lemma maxima_75_core_scale k cp x y fit : 0 < k -> y <> [] -> r_list_max y <> 0 ->
    r_maxima_75_core cp x (sc k y) (sc k fit) = r_maxima_75_core cp x y fit.
  Proof.
    intros Hk Hy Hm. unfold r_maxima_75_core, maxima_75_core.
    fold r_tsum r_list_max r_argmin.
    destruct (idx75 R Rminus Rabs r_ltb cp x) as [idmin idmax].
    destruct (Nat.eqb idmin idmax); [reflexivity|].
    rewrite map2_sub_scale, gauss_homogeneous, !abs_sc, !slice_sc2, !argmin_scale by exact Hk.
    rewrite !list_max_scale0 by exact Hk.
    set (r := map2 Rminus y fit).
    set (sm := map Rabs (gauss 11 r)).
    set (z1 := (idmin + r_argmin (slice idmin (idmin + (idmax - idmin) / 2) sm))%nat).
    set (z2 := (idmin + (idmax - idmin) / 2
                + r_argmin (slice (idmin + (idmax - idmin) / 2) idmax sm))%nat).
    set (M1 := r_list_max (slice idmin z1 (map Rabs r))).
    set (M2 := r_list_max (slice z1 z2 (map Rabs r))).
    set (M3 := r_list_max (slice z2 idmax (map Rabs r))).
    assert (Hn : r_tsum [] = 0) by (unfold r_tsum, tsum; reflexivity).
    destruct (Nat.eqb idmin z1); destruct (Nat.eqb z1 z2); destruct (Nat.eqb z2 idmax);
      cbn [app]; try reflexivity; f_equal; rewrite !r_tsum_cons, Hn;
      field; (split; [exact Hm | lra]).
  Qed.
End WithFilter2.
