(* Structural laws of the generated model functions (C11, C13). *)
From Coq Require Import Reals Lra.
From NV Require Import Base.RealExtra Gen.ModelFuncs Model.Formulas.
Local Open Scope R_scope.

(* ---- C11: geometrical correction factor ----------------------------------------- *)
Lemma mask_scale k r : 0 < k -> (0 < k * r <-> 0 < r).
Proof.
  intros Hk. split; intros H.
  - destruct (Rlt_dec 0 r); [assumption|]. assert (r <= 0) by lra.
    assert (k * r <= 0) by (rewrite <- (Rmult_0_r k); apply Rmult_le_compat_l; lra). lra.
  - apply Rmult_lt_0_compat; assumption.
Qed.

Lemma Rpower_cancel k p : 0 < k -> Rpower k (- p) * Rpower k p = 1.
Proof. intros Hk. rewrite <- Rpower_plus. replace (- p + p) with 0 by ring. apply Rpower_O. exact Hk. Qed.

Lemma gcf_para E R nu cp bl x k : 0 < k ->
  m_hertz_para (E * Rpower k (- (3 / 2))) R nu (k * cp) bl (k * x) = m_hertz_para E R nu cp bl x.
Proof.
  intros Hk. unfold m_hertz_para. cbv zeta.
  replace (k * cp - k * x) with (k * (cp - x)) by ring.
  destruct (Rlt_dec 0 (k * (cp - x))) as [H|H]; destruct (Rlt_dec 0 (cp - x)) as [H'|H'].
  - rewrite ppow_mult by lra.
    (* however the prefactor is grouped in the source: an identity of the field R in the
       atoms (the inverse of 1 - nu^2, sqrt R, the power of the depth), with
       k^(-3/2) = 1 / k^(3/2) *)
    rewrite Rpower_Ropp.
    assert (Hb : Rpower k (3 / 2) <> 0) by (unfold Rpower; apply Rgt_not_eq, exp_pos).
    set (b := Rpower k (3 / 2)) in *.
    unfold Rdiv. generalize (/ (1 - nu ^ 2)) (sqrt R) (ppow (cp - x) (3 / 2)). intros t s P.
    field. exact Hb.
  - exfalso. apply H'. apply (mask_scale k); assumption.
  - exfalso. apply H. apply (mask_scale k); assumption.
  - ring.
Qed.

Lemma gcf_cone E alpha nu cp bl x k : 0 < k ->
  m_hertz_cone (E / k ^ 2) alpha nu (k * cp) bl (k * x) = m_hertz_cone E alpha nu cp bl x.
Proof.
  intros Hk. unfold m_hertz_cone. cbv zeta.
  replace (k * cp - k * x) with (k * (cp - x)) by ring.
  destruct (Rlt_dec 0 (k * (cp - x))) as [H|H]; destruct (Rlt_dec 0 (cp - x)) as [H'|H'].
  - unfold Rdiv.
    generalize (/ (1 - nu ^ 2)) (tan (alpha * PI * / 180)). intros t T.
    field. split; [apply Rgt_not_eq, PI_RGT_0 | lra] || lra.
  - exfalso. apply H'. apply (mask_scale k); assumption.
  - exfalso. apply H. apply (mask_scale k); assumption.
  - ring.
Qed.

Lemma gcf_pyr E alpha nu cp bl x k : 0 < k ->
  m_hertz_pyr3s (E / k ^ 2) alpha nu (k * cp) bl (k * x) = m_hertz_pyr3s E alpha nu cp bl x.
Proof.
  intros Hk. unfold m_hertz_pyr3s. cbv zeta.
  replace (k * cp - k * x) with (k * (cp - x)) by ring.
  destruct (Rlt_dec 0 (k * (cp - x))) as [H|H]; destruct (Rlt_dec 0 (cp - x)) as [H'|H'].
  - unfold Rdiv.
    generalize (/ (1 - nu ^ 2)) (tan (alpha * PI * / 180)). intros t T.
    field. split; [apply Rgt_not_eq, PI_RGT_0 | lra] || lra.
  - exfalso. apply H'. apply (mask_scale k); assumption.
  - exfalso. apply H. apply (mask_scale k); assumption.
  - ring.
Qed.

Lemma unscale k x : k <> 0 -> k * x / k = x.
Proof. intros H. field. exact H. Qed.

(* ---- C13: translation, baseline, modulus scaling ---------------------------------- *)
Ltac shift cp delta s :=
  cbv zeta; replace (cp + s - (delta + s)) with (cp - delta) by ring; reflexivity.

Lemma translate_para E R nu cp bl delta s :
  m_hertz_para E R nu (cp + s) bl (delta + s) = m_hertz_para E R nu cp bl delta.
Proof. unfold m_hertz_para. shift cp delta s. Qed.
Lemma translate_cone E a nu cp bl delta s :
  m_hertz_cone E a nu (cp + s) bl (delta + s) = m_hertz_cone E a nu cp bl delta.
Proof. unfold m_hertz_cone. shift cp delta s. Qed.
Lemma translate_pyr E a nu cp bl delta s :
  m_hertz_pyr3s E a nu (cp + s) bl (delta + s) = m_hertz_pyr3s E a nu cp bl delta.
Proof. unfold m_hertz_pyr3s. shift cp delta s. Qed.
Lemma translate_sneddon E R nu cp bl delta s :
  m_sneddon_spher_approx E R nu (cp + s) bl (delta + s) = m_sneddon_spher_approx E R nu cp bl delta.
Proof. unfold m_sneddon_spher_approx. shift cp delta s. Qed.
Lemma translate_clifford ES EL R nS nL t cp bl delta s :
  m_power_layer_clifford_2009 ES EL R nS nL t (cp + s) bl (delta + s)
  = m_power_layer_clifford_2009 ES EL R nS nL t cp bl delta.
Proof. unfold m_power_layer_clifford_2009. shift cp delta s. Qed.

Ltac by_cases cp delta := cbv zeta; destruct (Rlt_dec 0 (cp - delta)).

Lemma baseline_para E R nu cp bl delta c :
  m_hertz_para E R nu cp (bl + c) delta = m_hertz_para E R nu cp bl delta + c.
Proof. unfold m_hertz_para. by_cases cp delta; ring. Qed.
Lemma baseline_cone E a nu cp bl delta c :
  m_hertz_cone E a nu cp (bl + c) delta = m_hertz_cone E a nu cp bl delta + c.
Proof. unfold m_hertz_cone. by_cases cp delta; ring. Qed.
Lemma baseline_pyr E a nu cp bl delta c :
  m_hertz_pyr3s E a nu cp (bl + c) delta = m_hertz_pyr3s E a nu cp bl delta + c.
Proof. unfold m_hertz_pyr3s. by_cases cp delta; ring. Qed.
Lemma baseline_sneddon E R nu cp bl delta c :
  m_sneddon_spher_approx E R nu cp (bl + c) delta = m_sneddon_spher_approx E R nu cp bl delta + c.
Proof. unfold m_sneddon_spher_approx. by_cases cp delta; ring. Qed.
Lemma baseline_clifford ES EL R nS nL t cp bl delta c :
  m_power_layer_clifford_2009 ES EL R nS nL t cp (bl + c) delta
  = m_power_layer_clifford_2009 ES EL R nS nL t cp bl delta + c.
Proof. unfold m_power_layer_clifford_2009. by_cases cp delta; ring. Qed.

Lemma modulus_para E R nu cp bl delta l :
  m_hertz_para (l * E) R nu cp bl delta - bl = l * (m_hertz_para E R nu cp bl delta - bl).
Proof. unfold m_hertz_para. by_cases cp delta; unfold Rdiv; ring. Qed.
Lemma modulus_cone E a nu cp bl delta l :
  m_hertz_cone (l * E) a nu cp bl delta - bl = l * (m_hertz_cone E a nu cp bl delta - bl).
Proof. unfold m_hertz_cone. by_cases cp delta; unfold Rdiv; ring. Qed.
Lemma modulus_pyr E a nu cp bl delta l :
  m_hertz_pyr3s (l * E) a nu cp bl delta - bl = l * (m_hertz_pyr3s E a nu cp bl delta - bl).
Proof. unfold m_hertz_pyr3s. by_cases cp delta; unfold Rdiv; ring. Qed.
Lemma modulus_sneddon E R nu cp bl delta l :
  m_sneddon_spher_approx (l * E) R nu cp bl delta - bl
  = l * (m_sneddon_spher_approx E R nu cp bl delta - bl).
Proof. unfold m_sneddon_spher_approx. by_cases cp delta; unfold Rdiv; ring. Qed.
Lemma modulus_clifford ES EL R nS nL t cp bl delta l : l <> 0 -> ES <> 0 ->
  m_power_layer_clifford_2009 (l * ES) (l * EL) R nS nL t cp bl delta - bl
  = l * (m_power_layer_clifford_2009 ES EL R nS nL t cp bl delta - bl).
Proof.
  intros Hl HE. unfold m_power_layer_clifford_2009. cbv zeta.
  replace (l * EL / (l * ES)) with (EL / ES) by (field; split; assumption).
  set (xi := ppow _ (3 / 2)). unfold Rdiv. ring.
Qed.


(* sign of a prefactor built from non-negative atoms, however it is grouped *)
Ltac prefactor_nonneg :=
  unfold Rdiv;
  repeat (apply Rmult_le_pos);
  first [ lra | apply sqrt_pos | assumption
        | left; apply Rinv_0_lt_compat; first [assumption | apply PI_RGT_0 | lra] ].

(* ---- C13: monotone in depth, continuous at contact (power laws) --------------------- *)
Lemma tan_deg_nonneg alpha : 0 <= alpha < 90 -> 0 <= tan (alpha * PI / 180).
Proof.
  intros [H0 H1]. destruct (Req_dec alpha 0) as [->|Hne].
  - replace (0 * PI / 180) with 0 by (unfold Rdiv; ring). rewrite tan_0. lra.
  - left. apply tan_gt_0.
    + assert (0 < PI) by apply PI_RGT_0. unfold Rdiv.
      apply Rmult_lt_0_compat; [apply Rmult_lt_0_compat; lra | lra].
    + assert (0 < PI) by apply PI_RGT_0. unfold Rdiv.
      replace (PI * / 2) with (90 * PI * / 180) by field.
      apply Rmult_lt_compat_r; [lra|]. apply Rmult_lt_compat_r; lra.
Qed.

Lemma sq_mono a b : 0 <= a <= b -> a ^ 2 <= b ^ 2.
Proof. intros [H1 H2]. simpl. rewrite !Rmult_1_r. apply Rmult_le_compat; lra. Qed.

Lemma monotone_para E R nu cp bl d1 d2 :
  0 <= E -> 0 < 1 - nu ^ 2 -> d2 <= d1 ->
  m_hertz_para E R nu cp bl d1 <= m_hertz_para E R nu cp bl d2.
Proof.
  intros HE Hn Hd. unfold m_hertz_para. cbv zeta.
  apply Rplus_le_compat_r. apply Rmult_le_compat_l; [prefactor_nonneg|].
  destruct (Rlt_dec 0 (cp - d1)); destruct (Rlt_dec 0 (cp - d2)); try lra.
  - apply ppow_mono; lra.
  - apply ppow_nonneg.
Qed.

Lemma monotone_cone E alpha nu cp bl d1 d2 :
  0 <= E -> 0 < 1 - nu ^ 2 -> 0 <= alpha < 90 -> d2 <= d1 ->
  m_hertz_cone E alpha nu cp bl d1 <= m_hertz_cone E alpha nu cp bl d2.
Proof.
  intros HE Hn Ha Hd. unfold m_hertz_cone. cbv zeta.
  assert (Ht := tan_deg_nonneg alpha Ha). assert (HP : 0 < PI) by apply PI_RGT_0.
  set (T := tan (alpha * PI / 180)) in *. clearbody T.
  apply Rplus_le_compat_r. apply Rmult_le_compat_l; [prefactor_nonneg|].
  destruct (Rlt_dec 0 (cp - d1)); destruct (Rlt_dec 0 (cp - d2)); try lra.
  - apply sq_mono. lra.
  - apply pow2_ge_0.
Qed.

Lemma monotone_pyr E alpha nu cp bl d1 d2 :
  0 <= E -> 0 < 1 - nu ^ 2 -> 0 <= alpha < 90 -> d2 <= d1 ->
  m_hertz_pyr3s E alpha nu cp bl d1 <= m_hertz_pyr3s E alpha nu cp bl d2.
Proof.
  intros HE Hn Ha Hd. unfold m_hertz_pyr3s. cbv zeta.
  assert (Ht := tan_deg_nonneg alpha Ha).
  set (T := tan (alpha * PI / 180)) in *. clearbody T.
  apply Rplus_le_compat_r. apply Rmult_le_compat_l; [prefactor_nonneg|].
  destruct (Rlt_dec 0 (cp - d1)); destruct (Rlt_dec 0 (cp - d2)); try lra.
  - apply sq_mono. lra.
  - apply pow2_ge_0.
Qed.

(* continuity at contact with an explicit modulus: within depth d <= 1 of the
   contact point the force differs from the baseline by at most |prefactor| * d *)
Lemma ppow32_le r : 0 <= r <= 1 -> ppow r (3 / 2) <= r.
Proof.
  intros [H0 H1]. unfold ppow. destruct (Rle_dec r 0); [lra|].
  rewrite Rpower_3_2 by lra.
  assert (Hs : sqrt r <= 1).
  { rewrite <- sqrt_1. apply sqrt_le_1; lra. }
  assert (0 <= sqrt r) by apply sqrt_pos.
  assert (r * sqrt r <= r * 1) by (apply Rmult_le_compat_l; lra). lra.
Qed.

Lemma contact_para E R nu cp bl delta :
  0 <= cp - delta <= 1 ->
  Rabs (m_hertz_para E R nu cp bl delta - bl)
  <= Rabs (4 / 3 * E / (1 - nu ^ 2) * sqrt R) * (cp - delta).
Proof.
  intros Hd. unfold m_hertz_para. cbv zeta.
  (* the prefactor of the source, however grouped, equals the stated one *)
  destruct (Rlt_dec 0 (cp - delta)).
  - match goal with |- Rabs (?a * ?X + bl - bl) <= Rabs ?b * _ =>
      replace (a * X + bl - bl) with (b * X) by (unfold Rdiv; ring) end.
    rewrite Rabs_mult. apply Rmult_le_compat_l; [apply Rabs_pos|].
    rewrite Rabs_right by (apply Rle_ge; apply ppow_nonneg). apply ppow32_le. lra.
  - match goal with |- Rabs (?a * 0 + bl - bl) <= _ =>
      replace (a * 0 + bl - bl) with 0 by ring end.
    rewrite Rabs_R0. apply Rmult_le_pos; [apply Rabs_pos | lra].
Qed.

Lemma sq_le_self r : 0 <= r <= 1 -> r ^ 2 <= r.
Proof.
  intros [H0 H1]. simpl. rewrite Rmult_1_r.
  assert (r * r <= r * 1) by (apply Rmult_le_compat_l; lra). lra.
Qed.

Lemma contact_cone E alpha nu cp bl delta :
  0 <= cp - delta <= 1 ->
  Rabs (m_hertz_cone E alpha nu cp bl delta - bl)
  <= Rabs (2 * tan (alpha * PI / 180) / PI * E / (1 - nu ^ 2)) * (cp - delta).
Proof.
  intros Hd. unfold m_hertz_cone. cbv zeta.
  (* the prefactor of the source, however grouped, equals the stated one *)
  destruct (Rlt_dec 0 (cp - delta)).
  - match goal with |- Rabs (?a * ?X + bl - bl) <= Rabs ?b * _ =>
      replace (a * X + bl - bl) with (b * X) by (unfold Rdiv; ring) end.
    rewrite Rabs_mult. apply Rmult_le_compat_l; [apply Rabs_pos|].
    rewrite Rabs_right by (apply Rle_ge; apply pow2_ge_0). apply sq_le_self. lra.
  - match goal with |- Rabs (?a * 0 + bl - bl) <= _ =>
      replace (a * 0 + bl - bl) with 0 by ring end.
    rewrite Rabs_R0. apply Rmult_le_pos; [apply Rabs_pos | lra].
Qed.

Lemma contact_pyr E alpha nu cp bl delta :
  0 <= cp - delta <= 1 ->
  Rabs (m_hertz_pyr3s E alpha nu cp bl delta - bl)
  <= Rabs (8887 / 10000 * tan (alpha * PI / 180) * E / (1 - nu ^ 2)) * (cp - delta).
Proof.
  intros Hd. unfold m_hertz_pyr3s. cbv zeta.
  (* the prefactor of the source, however grouped, equals the stated one *)
  destruct (Rlt_dec 0 (cp - delta)).
  - match goal with |- Rabs (?a * ?X + bl - bl) <= Rabs ?b * _ =>
      replace (a * X + bl - bl) with (b * X) by (unfold Rdiv; ring) end.
    rewrite Rabs_mult. apply Rmult_le_compat_l; [apply Rabs_pos|].
    rewrite Rabs_right by (apply Rle_ge; apply pow2_ge_0). apply sq_le_self. lra.
  - match goal with |- Rabs (?a * 0 + bl - bl) <= _ =>
      replace (a * 0 + bl - bl) with 0 by ring end.
    rewrite Rabs_R0. apply Rmult_le_pos; [apply Rabs_pos | lra].
Qed.
