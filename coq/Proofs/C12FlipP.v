(* C12: switching the plateau search on or off changes the pre-image: the flag itself is
   hashed (as "1.0" / "0.0") right after the model key, before any setting whose
   contribution depends on the flag. *)
From Coq Require Import List String ZArith QArith Bool Permutation Lia.
From NV Require Import Base.Exn Base.PyVal Model.HashEnc Proofs.StringP Proofs.HashEncP
     Proofs.C12P Proofs.C12TwiceP Gen.Tables.
Import ListNotations.
Local Close Scope Q_scope.
Local Open Scope string_scope.

Lemma keys_shape : exists more,
  fp_default_keys = "model_key" :: "optimal_fit_edelta" :: more.
Proof. eexists. reflexivity. Qed.

Lemma flag_text_differs (b : bool) (r r' : string) :
  (if b then "1.0" else "0.0") ++ r <> (if negb b then "1.0" else "0.0") ++ r'.
Proof. destruct b; simpl; intros H; discriminate. Qed.

Lemma flip_changes fp fp' x y b s s' :
  agree_except "optimal_fit_edelta" fp fp' ->
  fp_get fp "optimal_fit_edelta" = Ok (VBool b) ->
  fp_get fp' "optimal_fit_edelta" = Ok (VBool (negb b)) ->
  preimage fp_default_keys fp x y = Ok s -> preimage fp_default_keys fp' x y = Ok s' ->
  s <> s'.
Proof.
  intros Hag He He' H H'. destruct keys_shape as [more Hk]. rewrite Hk in H, H'.
  unfold preimage in H, H'.
  destruct (bind_ok _ _ _ H) as [hl [Hhl Henc]]. clear H.
  destruct (bind_ok _ _ _ H') as [hl' [Hhl' Henc']]. clear H'.
  unfold hashlist in Hhl, Hhl'.
  assert (Ep : fp_get fp' "preprocessing" = fp_get fp "preprocessing").
  { unfold fp_get. rewrite (Hag "preprocessing"); [reflexivity | discriminate]. }
  assert (Eo : fp_get fp' "preprocessing_options" = fp_get fp "preprocessing_options").
  { unfold fp_get. rewrite (Hag "preprocessing_options"); [reflexivity | discriminate]. }
  assert (Em : fp_get fp' "model_key" = fp_get fp "model_key").
  { unfold fp_get. rewrite (Hag "model_key"); [reflexivity | discriminate]. }
  rewrite Ep, Eo, He' in Hhl'. rewrite He in Hhl.
  destruct (bind_ok _ _ _ Hhl) as [p [Hp Hhl2]]. clear Hhl.
  destruct (bind_ok _ _ _ Hhl2) as [o [Ho Hhl3]]. clear Hhl2.
  simpl in Hhl3.
  destruct (bind_ok _ _ _ Hhl3) as [rest [Hrest Hhl4]]. clear Hhl3.
  inversion Hhl4; subst hl. clear Hhl4.
  rewrite Hp, Ho in Hhl'. simpl in Hhl'.
  destruct (bind_ok _ _ _ Hhl') as [rest' [Hrest' Hhl4']]. clear Hhl'.
  inversion Hhl4'; subst hl'. clear Hhl4'.
  (* the first two keys of the loop *)
  cbn [hash_keys] in Hrest, Hrest'.
  destruct (bind_ok _ _ _ Hrest) as [c0 [Hc0 Hr1]]. clear Hrest.
  destruct (bind_ok _ _ _ Hr1) as [t1 [Ht1 Hr2]]. clear Hr1. inversion Hr2; subst rest. clear Hr2.
  destruct (bind_ok _ _ _ Ht1) as [ce [Hce Hr3]]. clear Ht1.
  destruct (bind_ok _ _ _ Hr3) as [t2 [Ht2 Hr4]]. clear Hr3. inversion Hr4; subst t1. clear Hr4.
  destruct (bind_ok _ _ _ Hrest') as [c0' [Hc0' Hr1']]. clear Hrest'.
  destruct (bind_ok _ _ _ Hr1') as [t1' [Ht1' Hr2']]. clear Hr1'. inversion Hr2'; subst rest'. clear Hr2'.
  destruct (bind_ok _ _ _ Ht1') as [ce' [Hce' Hr3']]. clear Ht1'.
  destruct (bind_ok _ _ _ Hr3') as [t2' [Ht2' Hr4']]. clear Hr3'. inversion Hr4'; subst t1'. clear Hr4'.
  rewrite contrib_plain in Hc0, Hc0' by discriminate.
  rewrite Em in Hc0'. rewrite Hc0 in Hc0'. inversion Hc0'; subst c0'. clear Hc0'.
  rewrite contrib_plain in Hce, Hce' by discriminate.
  rewrite He in Hce. rewrite He' in Hce'. simpl in Hce, Hce'.
  inversion Hce; subst ce. inversion Hce'; subst ce'. clear Hce Hce'.
  (* encodings *)
  change (p :: o :: x :: y :: (c0 ++ [VBool b] ++ t2)%list)
    with (([p; o; x; y] ++ c0) ++ VBool b :: t2)%list in Henc.
  change (p :: o :: x :: y :: (c0 ++ [VBool (negb b)] ++ t2')%list)
    with (([p; o; x; y] ++ c0) ++ VBool (negb b) :: t2')%list in Henc'.
  apply encode_all_app in Henc, Henc'.
  destruct Henc as [A [B [HA [HB ->]]]]. destruct Henc' as [A' [B' [HA' [HB' ->]]]].
  rewrite HA in HA'. inversion HA'; subst A'. clear HA'.
  apply encode_all_cons in HB, HB'.
  destruct HB as [eb [r [Heb [_ ->]]]]. destruct HB' as [eb' [r' [Heb' [_ ->]]]].
  simpl in Heb, Heb'. inversion Heb; subst eb. inversion Heb'; subst eb'.
  intros E. apply append_inv_head in E. exact (flag_text_differs b r r' E).
Qed.
