(* C11, generic form: every model whose force is  c * E * depth^p + baseline  on
   the indented part (baseline elsewhere) -- for ANY prefactor c and ANY real
   exponent p -- has the same objective under a geometrical correction factor
   k when the modulus is multiplied by k^(-p); and that factor is the only one. *)
From Coq Require Import Reals Lra.
From NV Require Import Base.RealExtra Gen.ModelFuncs Proofs.ScalingP.
Local Open Scope R_scope.

Definition power_law (c p E cp bl x : R) : R :=
  if Rlt_dec 0 (cp - x) then c * E * ppow (cp - x) p + bl else bl.

Lemma power_law_gcf c p E cp bl x k : 0 < k ->
  power_law c p (E * Rpower k (- p)) (k * cp) bl (k * x) = power_law c p E cp bl x.
Proof.
  intros Hk. unfold power_law.
  replace (k * cp - k * x) with (k * (cp - x)) by ring.
  destruct (Rlt_dec 0 (k * (cp - x))) as [H|H]; destruct (Rlt_dec 0 (cp - x)) as [H'|H'].
  - rewrite ppow_mult by lra.
    replace (c * (E * Rpower k (- p)) * (Rpower k p * ppow (cp - x) p))
      with (c * E * ppow (cp - x) p * (Rpower k (- p) * Rpower k p)) by ring.
    rewrite Rpower_cancel by exact Hk. ring.
  - exfalso. apply H'. apply (mask_scale k); assumption.
  - exfalso. apply H. apply (mask_scale k); assumption.
  - reflexivity.
Qed.

(* the factor is forced: a modulus E' that reproduces the k = 1 force at one
   indented point is E * k^(-p) *)
Lemma power_law_gcf_unique c p E E' cp bl x k : 0 < k -> c <> 0 -> 0 < cp - x ->
  power_law c p E' (k * cp) bl (k * x) = power_law c p E cp bl x ->
  E' = E * Rpower k (- p).
Proof.
  intros Hk Hc Hd. unfold power_law.
  replace (k * cp - k * x) with (k * (cp - x)) by ring.
  destruct (Rlt_dec 0 (k * (cp - x))) as [H|H];
    [| exfalso; apply H; apply (mask_scale k); assumption].
  destruct (Rlt_dec 0 (cp - x)) as [H'|H']; [|lra].
  rewrite ppow_mult by lra. rewrite (ppow_pos (cp - x) p Hd).
  intros Heq.
  assert (Hd' : Rpower (cp - x) p <> 0) by (unfold Rpower; apply Rgt_not_eq, exp_pos).
  assert (Hk' : Rpower k p <> 0) by (unfold Rpower; apply Rgt_not_eq, exp_pos).
  assert (E1 : E' * Rpower k p = E).
  { apply (Rmult_eq_reg_l (c * Rpower (cp - x) p)).
    - lra.
    - apply Rmult_integral_contrapositive_currified; assumption. }
  rewrite <- E1. rewrite Rmult_assoc.
  rewrite (Rmult_comm (Rpower k p)). rewrite Rpower_cancel by exact Hk. ring.
Qed.

Ltac prefactor_ring :=
  unfold Rdiv;
  repeat match goal with
         | |- context [/ ?a] => let t := fresh "t" in generalize (/ a); intro t
         | |- context [sqrt ?a] => let t := fresh "t" in generalize (sqrt a); intro t
         | |- context [tan ?a] => let t := fresh "t" in generalize (tan a); intro t
         | |- context [ppow ?a ?b] => let t := fresh "t" in generalize (ppow a b); intro t
         end;
  ring.

(* the three shipped power-law models are instances (whatever the grouping of
   the prefactor in the source) *)
Lemma para_is_power_law E R nu cp bl x :
  m_hertz_para E R nu cp bl x = power_law (4 / 3 * sqrt R / (1 - nu ^ 2)) (3 / 2) E cp bl x.
Proof.
  unfold m_hertz_para, power_law. cbv zeta.
  destruct (Rlt_dec 0 (cp - x)); prefactor_ring.
Qed.

Lemma ppow_2 d : 0 < d -> ppow d 2 = d ^ 2.
Proof.
  intros H. rewrite ppow_pos by exact H.
  assert (E2 : 2 = INR 2) by (simpl; ring).
  rewrite E2. rewrite Rpower_pow by exact H. reflexivity.
Qed.


Lemma cone_is_power_law E alpha nu cp bl x :
  m_hertz_cone E alpha nu cp bl x =
  power_law (2 * tan (alpha * PI / 180) / PI / (1 - nu ^ 2)) 2 E cp bl x.
Proof.
  unfold m_hertz_cone, power_law. cbv zeta.
  destruct (Rlt_dec 0 (cp - x)) as [H|H].
  - first [ prefactor_ring | rewrite (ppow_2 _ H); prefactor_ring ].
  - prefactor_ring.
Qed.

Lemma pyr3s_is_power_law E alpha nu cp bl x :
  m_hertz_pyr3s E alpha nu cp bl x =
  power_law (8887 / 10000 * tan (alpha * PI / 180) / (1 - nu ^ 2)) 2 E cp bl x.
Proof.
  unfold m_hertz_pyr3s, power_law. cbv zeta.
  destruct (Rlt_dec 0 (cp - x)) as [H|H].
  - first [ prefactor_ring | rewrite (ppow_2 _ H); prefactor_ring ].
  - prefactor_ring.
Qed.

(* hence the three statements of C11 follow from the generic one *)
Lemma Rpower_m2 k : 0 < k -> Rpower k (Ropp 2) = / k ^ 2.
Proof.
  intros Hk. rewrite Rpower_Ropp. f_equal.
  assert (E2 : 2 = INR 2) by (simpl; ring).
  rewrite E2. apply Rpower_pow. exact Hk.
Qed.

Lemma cone_from_generic E alpha nu cp bl x k : 0 < k ->
  m_hertz_cone (E / k ^ 2) alpha nu (k * cp) bl (k * x) = m_hertz_cone E alpha nu cp bl x.
Proof.
  intros Hk. rewrite !cone_is_power_law.
  replace (E / k ^ 2) with (E * Rpower k (Ropp 2))
    by (rewrite (Rpower_m2 k Hk); reflexivity).
  apply power_law_gcf. exact Hk.
Qed.
