(* C04: the passes the repaired loop of relative fits performs have the shape
   the correspondence check demands of the recorded ones. *)
From Coq Require Import List Bool Arith Lia.
Import ListNotations.
From NV Require Import Model.FitCore Model.FitOutcome Model.FitRelative.

Section S.
  Variables P T : Type.
  Variable seg : list bool.
  Variable next : P -> pass P T.

  Definition vn (p : pass P T) : nat * nat := (p_varied p, p_points p).

  Lemma one_pass_done (s : fstate P T) (p : pass P T) : enough_points (p_varied p) (p_points p) = true ->
    f_success (one_pass seg s p) = true /\
    f_fitted (one_pass seg s p) = Some (o_params (p_opt p)).
  Proof. intros E. unfold one_pass. rewrite E. split; reflexivity. Qed.

  Lemma one_pass_refused (s : fstate P T) (p : pass P T) : enough_points (p_varied p) (p_points p) = false ->
    f_success (one_pass seg s p) = false.
  Proof. intros E. unfold one_pass. rewrite E. reflexivity. Qed.

  Theorem relative_passes_have_shape (s : fstate P T) (first : pass P T) :
    rel_shape (map vn (first :: rel_passes seg next 3 (one_pass seg s first))) = true.
  Proof.
    set (s1 := one_pass seg s first).
    destruct (enough_points (p_varied first) (p_points first)) eqn:E1.
    2:{ cbn [rel_passes]. subst s1. rewrite (one_pass_refused s first E1).
        unfold rel_shape, enough, vn. cbn -[enough_points]. rewrite E1. reflexivity. }
    destruct (one_pass_done s first E1) as [S1 F1]. fold s1 in S1, F1.
    cbn [rel_passes]. rewrite S1, F1.
    set (p1 := next (o_params (p_opt first))). set (s2 := one_pass seg s1 p1).
    destruct (enough_points (p_varied p1) (p_points p1)) eqn:E2.
    2:{ subst s2. rewrite (one_pass_refused s1 p1 E2).
        unfold rel_shape, enough, vn. cbn -[enough_points]. rewrite E1, E2. reflexivity. }
    destruct (one_pass_done s1 p1 E2) as [S2 F2]. fold s2 in S2, F2. rewrite S2, F2.
    set (p2 := next (o_params (p_opt p1))). set (s3 := one_pass seg s2 p2).
    destruct (enough_points (p_varied p2) (p_points p2)) eqn:E3.
    2:{ subst s3. rewrite (one_pass_refused s2 p2 E3).
        unfold rel_shape, enough, vn. cbn -[enough_points]. rewrite E1, E2, E3. reflexivity. }
    destruct (one_pass_done s2 p2 E3) as [S3 F3]. fold s3 in S3, F3. rewrite S3, F3.
    unfold rel_shape, enough, vn. cbn -[enough_points]. rewrite E1, E2, E3. reflexivity.
  Qed.
End S.
