(* C06, history level: what an executed / skipped / refused request leaves
   behind, whatever the state (hence whatever the history) it arrives in. *)
From Coq Require Import List String ZArith QArith Bool Relations Lia.
From NV Require Import Base.Exn Base.PyVal Gen.Tables Model.Curve Proofs.CurveP
     Proofs.CurveG Proofs.CurveC.
Import ListNotations.
Local Close Scope Q_scope.
Local Open Scope string_scope.

(* an executed request: the curve names exactly that request, shows no fit,
   no rating, and the request ran (the oracle accepted it) *)
Lemma applied_is_request s p q r orc s' out :
  apply_pre_x s p q r orc = (s', out, PApplied) ->
  pre s' = match p with Some v => v | None => pre s end /\
  popts s' = match q with Some v => v | None => popts s end /\
  out = Done /\ rating s' = None /\ cols s' = false /\
  (exists u, o_pre orc = Ok u).
Proof.
  unfold apply_pre_x. intros H.
  set (p' := match p with Some v => v | None => pre s end) in *.
  set (o' := match q with Some v => v | None => popts s end) in *.
  assert (G : forall differs,
    (if differs || (negb (details s) && r) then
      let d0 := fp_reset (fp s) in
      match fp_setitem d0 "preprocessing" p' with
      | Err e => (with_fp s d0, Raised e, PNone)
      | Ok d1 =>
        match fp_setitem d1 "preprocessing_options" o' with
        | Err e => (with_fp s d1, Raised e, PNone)
        | Ok d2 =>
          match o_pre orc with
          | Err e =>
              ({| pre := VList []; popts := VDict []; details := false;
                  fp := dpop "preprocessing_options" (dpop "preprocessing" d2);
                  cols := false; rating := None |}, Raised e, PFailed)
          | Ok _ =>
              let d3 := if dhas "x_axis" d2 && negb (o_xaxis orc) then dpop "x_axis" d2 else d2 in
              let d4 := if dhas "y_axis" d3 && negb (o_yaxis orc) then dpop "y_axis" d3 else d3 in
              ({| pre := p'; popts := o'; details := r && nonempty_seq p';
                  fp := d4; cols := false; rating := None |}, Done, PApplied)
          end
        end
      end
    else
      ({| pre := p'; popts := o'; details := details s; fp := fp s; cols := cols s;
          rating := rating s |}, Done, PSkipped)) = (s', out, PApplied) ->
    pre s' = p' /\ popts s' = o' /\ out = Done /\ rating s' = None /\ cols s' = false /\
    (exists u, o_pre orc = Ok u)).
  { intros differs HG. destruct (differs || (negb (details s) && r)); [|discriminate].
    cbv zeta in HG.
    destruct (fp_setitem (fp_reset (fp s)) "preprocessing" p') as [d1|e]; [|discriminate].
    destruct (fp_setitem d1 "preprocessing_options" o') as [d2|e]; [|discriminate].
    destruct (o_pre orc) as [u|e]; [|discriminate].
    inversion HG; subst. cbn [pre popts rating cols]. repeat split; eauto. }
  destruct (dhas "preprocessing" (fp s)).
  - destruct (assoc "preprocessing_options" (fp s)); [exact (G _ H) | discriminate].
  - exact (G true H).
Qed.

(* a skipped request compares equal (Python ==) to the one remembered in the
   settings, and nothing but the two spellings changes *)
Lemma skipped_means_equal s p q r orc s' out :
  apply_pre_x s p q r orc = (s', out, PSkipped) ->
  exists po, assoc "preprocessing_options" (fp s) = Some po /\
  py_eq (VList [dget "preprocessing" (fp s); po])
        (VList [match p with Some v => v | None => pre s end;
                match q with Some v => v | None => popts s end]) = true /\
  fp s' = fp s /\ cols s' = cols s /\ rating s' = rating s /\ details s' = details s /\
  out = Done.
Proof.
  unfold apply_pre_x. intros H.
  set (p' := match p with Some v => v | None => pre s end) in *.
  set (o' := match q with Some v => v | None => popts s end) in *.
  destruct (dhas "preprocessing" (fp s)).
  - destruct (assoc "preprocessing_options" (fp s)) as [po|]; [|discriminate].
    exists po. split; [reflexivity|].
    destruct (py_eq (VList [dget "preprocessing" (fp s); po]) (VList [p'; o'])) eqn:E.
    + cbn [negb orb] in H.
      destruct (negb (details s) && r).
      * cbv zeta in H.
        destruct (fp_setitem (fp_reset (fp s)) "preprocessing" p') as [d1|e]; [|discriminate].
        destruct (fp_setitem d1 "preprocessing_options" o') as [d2|e]; [|discriminate].
        destruct (o_pre orc); discriminate.
      * inversion H; subst. cbn. repeat split; reflexivity.
    + cbn [negb orb] in H. cbv zeta in H.
      destruct (fp_setitem (fp_reset (fp s)) "preprocessing" p') as [d1|e]; [|discriminate].
      destruct (fp_setitem d1 "preprocessing_options" o') as [d2|e]; [|discriminate].
      destruct (o_pre orc); discriminate.
  - cbn [orb] in H. cbv zeta in H.
    destruct (fp_setitem (fp_reset (fp s)) "preprocessing" p') as [d1|e]; [|discriminate].
    destruct (fp_setitem d1 "preprocessing_options" o') as [d2|e]; [|discriminate].
    destruct (o_pre orc); discriminate.
Qed.

(* history level (ghost run): after ANY history, an explicit request that is
   executed leaves data columns produced by exactly that request; a refused
   one leaves the raw data; both forget every earlier fit *)
Theorem request_decides_data h g0 p o r orc :
  let g := grun g0 h in
  let g' := gstep g (ApplyPre (Some p) (Some o) r) orc in
  forall s' out ps, apply_pre_x (cs g) (Some p) (Some o) r orc = (s', out, ps) ->
  (ps = PApplied -> gdata g' = (p, o) /\ pre (cs g') = p /\ popts (cs g') = o /\ gres g' = None) /\
  (ps = PFailed -> gdata g' = raw_pipe /\ pre (cs g') = VList [] /\ popts (cs g') = VDict [] /\
                   gres g' = None) /\
  (ps = PSkipped -> gdata g' = gdata g /\ gres g' = gres g) /\
  (ps = PNone -> gdata g' = gdata g).
Proof.
  intros g g' s' out ps H. subst g'. unfold gstep. rewrite H.
  cbn [cs gdata gres].
  split; [|split; [|split]]; intros ->; cbn [gdata_after].
  - destruct (applied_is_request _ _ _ _ _ _ _ H) as [Hp [Hq _]].
    rewrite Hp, Hq. repeat split; reflexivity.
  - destruct (failed_forgets _ _ _ _ _ _ _ H) as [_ [_ [Hp [Hq _]]]].
    rewrite Hp, Hq. repeat split; reflexivity.
  - split; reflexivity.
  - reflexivity.
Qed.
