(* R instance of Model/FeaturesG.v: for every filter that commutes with positive factors
   the smoothed-gradient features are independent of the force unit; flatness is a fraction *)
From Coq Require Import List Bool Arith Reals Lra Lia.
From NV Require Import Base.Exn Model.FitCore Model.Steps Model.Poc Model.Features Model.FeaturesG
                       Proofs.FitCoreP Proofs.StepsP Proofs.PocP Proofs.FeaturesP.

Import ListNotations.
Local Open Scope R_scope.

Lemma tsum_scale_g k l : r_tsum (map (fun v => k * v) l) = k * r_tsum l.
Proof.
  induction l as [|x l IH]; [unfold r_tsum, tsum; simpl; ring|].
  simpl map. rewrite !r_tsum_cons, IH. ring.
Qed.

Section WithFilter.
  Variable gauss : nat -> list R -> list R.
  Hypothesis gauss_homogeneous : forall s k l, 0 < k ->
    gauss s (map (fun v => k * v) l) = map (fun v => k * v) (gauss s l).

  Definition r_flatness_counts := flatness_counts R Rminus Rdiv r_ltb 0 2 gauss.
  Definition r_apr_flatness := apr_flatness R Rplus Rminus Rdiv r_ltb 0 2 INR gauss.
  Definition r_idt_monotony_core := idt_monotony_core R Rplus Rminus Rmult Rdiv Rabs r_ltb 0 2 INR gauss.

  Notation sc k := (map (fun v => k * v)).

  Lemma filter_pos_scale k l : 0 < k ->
    filter (fun v => r_ltb 0 v) (sc k l) = sc k (filter (fun v => r_ltb 0 v) l).
  Proof.
    intros Hk. induction l as [|x l IH]; [reflexivity|]. simpl.
    assert (E : r_ltb 0 (k * x) = r_ltb 0 x).
    { unfold r_ltb. destruct (Rlt_dec 0 (k * x)) as [H|H]; destruct (Rlt_dec 0 x) as [G|G];
        try reflexivity; exfalso.
      - apply G. apply Rmult_lt_reg_l with k; [exact Hk|]. rewrite Rmult_0_r. exact H.
      - apply H. apply Rmult_lt_0_compat; assumption. }
    rewrite E. destruct (r_ltb 0 x); simpl; rewrite IH; reflexivity.
  Qed.

  Lemma filter_neg_scale k l : 0 < k ->
    filter (fun v => r_ltb v 0) (sc k l) = sc k (filter (fun v => r_ltb v 0) l).
  Proof.
    intros Hk. induction l as [|x l IH]; [reflexivity|]. simpl.
    assert (E : r_ltb (k * x) 0 = r_ltb x 0).
    { unfold r_ltb. destruct (Rlt_dec (k * x) 0) as [H|H]; destruct (Rlt_dec x 0) as [G|G];
        try reflexivity; exfalso.
      - apply G. apply Rmult_lt_reg_l with k; [exact Hk|]. rewrite Rmult_0_r. exact H.
      - apply H. rewrite <- (Rmult_0_r k). apply Rmult_lt_compat_l; assumption. }
    rewrite E. destruct (r_ltb x 0); simpl; rewrite IH; reflexivity.
  Qed.

  Lemma gradient_scale k y : r_np_gradient (sc k y) = sc k (r_np_gradient y).
  Proof. rewrite map_scale_is_aff. apply np_gradient_aff. Qed.

  (* approach flatness: the counts do not see the force unit; the value is a fraction *)
  Lemma flatness_counts_scale k cp x res : 0 < k ->
    r_flatness_counts cp x (sc k res) = r_flatness_counts cp x res.
  Proof.
    intros Hk. unfold r_flatness_counts, flatness_counts.
    rewrite rows_scale, map_length, gauss_homogeneous, map_length by exact Hk.
    destruct (Nat.ltb 2 _); [|reflexivity].
    fold r_np_gradient. rewrite gradient_scale, filter_pos_scale, filter_neg_scale by exact Hk.
    rewrite !map_length. reflexivity.
  Qed.

  Lemma apr_flatness_scale k cp x res : 0 < k ->
    r_apr_flatness cp x (sc k res) = r_apr_flatness cp x res.
  Proof.
    intros Hk. unfold r_apr_flatness, apr_flatness. fold r_flatness_counts.
    rewrite flatness_counts_scale by exact Hk. reflexivity.
  Qed.

  Lemma apr_flatness_range cp x res p q v : r_flatness_counts cp x res = Some (p, q) ->
    (0 < p + q)%nat -> r_apr_flatness cp x res = Some v -> 0 <= v <= 1.
  Proof.
    intros Hc Hpq. unfold r_apr_flatness, apr_flatness. fold r_flatness_counts. rewrite Hc.
    intros H. assert (E : v = INR p / (INR p + INR q)) by congruence. rewrite E.
    apply count_fraction_range. exact Hpq.
  Qed.

  (* indentation monotony: the ratio of falling to rising gradient sums *)
  Lemma idt_monotony_core_scale k cp x y : 0 < k ->
    (forall g, g = r_np_gradient (gauss 2 (rows R (fun v => r_ltb v cp) x y)) ->
       r_tsum (filter (fun v => r_ltb 0 v) g) <> 0) ->
    r_idt_monotony_core cp x (sc k y) = r_idt_monotony_core cp x y.
  Proof.
    intros Hk Hg. unfold r_idt_monotony_core, idt_monotony_core. fold r_tsum.
    rewrite rows_scale, map_length, gauss_homogeneous, map_length by exact Hk.
    destruct (Nat.ltb 2 _); [|reflexivity]. f_equal.
    fold r_np_gradient. rewrite gradient_scale, filter_pos_scale, filter_neg_scale by exact Hk.
    rewrite !tsum_scale_g.
    rewrite !Rabs_mult, (Rabs_pos_eq k) by lra.
    specialize (Hg _ eq_refl).
    assert (Ha : Rabs (r_tsum (filter (fun v => r_ltb 0 v)
               (r_np_gradient (gauss 2 (rows R (fun v => r_ltb v cp) x y))))) <> 0)
      by (apply Rabs_no_R0; exact Hg).
    field. split; [exact Ha | lra].
  Qed.
End WithFilter.
