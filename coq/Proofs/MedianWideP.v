(* C07: the window-doubling loop of smooth_axis_monotone terminates.  Once the window
   reaches over the whole array from every position (w/2 >= n-1 and w - w/2 >= n), the
   window of position i is  (w/2 - i) copies of the first sample, the array, and copies of
   the last sample; going from i to i+1 replaces one copy of the first sample by one of the
   last, so every order statistic -- the median in particular -- moves weakly in the
   direction from the first to the last sample: the filter output is weakly monotone and
   the exit test of the loop holds. *)
From Coq Require Import Reals List Bool Arith Lia Lra Permutation Sorted.
From NV Require Import Base.Exn Model.Median Proofs.MedianP.
Import ListNotations.
Local Open Scope R_scope.

(* ---- order statistics move with an element ------------------------------------------ *)
Lemma insert_length x l : length (r_insert x l) = S (length l).
Proof. rewrite (Permutation_length (insert_perm x l)). reflexivity. Qed.

Lemma insert_cons_le x s t : x <= s -> r_insert x (s :: t) = x :: s :: t.
Proof. intros H. unfold r_insert. simpl. rewrite (proj2 (r_leb_true x s) H). reflexivity. Qed.

Lemma insert_cons_gt x s t : s < x -> r_insert x (s :: t) = s :: r_insert x t.
Proof. intros H. unfold r_insert. simpl. rewrite (proj2 (r_leb_false x s) H). reflexivity. Qed.

(* inserting above the head of a sorted list: every position moves up weakly *)
Lemma shift_up : forall t s y, StronglySorted Rle (s :: t) -> s <= y ->
  forall k, nth k (s :: t) 0 <= nth k (r_insert y t) 0.
Proof.
  induction t as [|u t IH]; intros s y Hs Hy k.
  - unfold r_insert. simpl. destruct k as [|[|k]]; simpl; lra.
  - destruct (Rle_dec y u) as [Hyu|Hyu].
    + rewrite insert_cons_le by exact Hyu. destruct k as [|k]; simpl; [exact Hy | lra].
    + rewrite insert_cons_gt by lra.
      apply StronglySorted_inv in Hs. destruct Hs as [Hut Hall].
      destruct k as [|k].
      * simpl. inversion Hall; subst. assumption.
      * change (nth (S k) (s :: u :: t) 0) with (nth k (u :: t) 0).
        change (nth (S k) (u :: r_insert y t) 0) with (nth k (r_insert y t) 0).
        apply IH; [exact Hut | lra].
Qed.

Lemma insert_mono : forall L x y, StronglySorted Rle L -> x <= y ->
  forall k, nth k (r_insert x L) 0 <= nth k (r_insert y L) 0.
Proof.
  induction L as [|s L IH]; intros x y HS Hxy k.
  - unfold r_insert. simpl. destruct k as [|[|k]]; simpl; lra.
  - destruct (Rle_dec x s) as [Hxs|Hxs].
    + rewrite (insert_cons_le x s L Hxs).
      destruct (Rle_dec y s) as [Hys|Hys].
      * rewrite (insert_cons_le y s L Hys). destruct k as [|k]; simpl; [exact Hxy | lra].
      * rewrite insert_cons_gt by lra. destruct k as [|k]; [simpl; exact Hxs|].
        change (nth (S k) (x :: s :: L) 0) with (nth k (s :: L) 0).
        change (nth (S k) (s :: r_insert y L) 0) with (nth k (r_insert y L) 0).
        apply shift_up; [exact HS | lra].
    + rewrite insert_cons_gt by lra. rewrite insert_cons_gt by lra.
      destruct k as [|k]; [simpl; lra|].
      change (nth (S k) (s :: r_insert x L) 0) with (nth k (r_insert x L) 0).
      change (nth (S k) (s :: r_insert y L) 0) with (nth k (r_insert y L) 0).
      apply StronglySorted_inv in HS. destruct HS as [HS' _]. apply IH; assumption.
Qed.

(* the sorted form depends on the elements only *)
Lemma isort_of_perm a b : Permutation a b -> r_isort a = r_isort b.
Proof.
  intros P. apply sorted_perm_unique; try apply isort_sorted.
  eapply Permutation_trans; [apply isort_perm|].
  eapply Permutation_trans; [exact P|]. apply Permutation_sym, isort_perm.
Qed.

Lemma order_stat_mono C x y k : x <= y ->
  nth k (r_isort (x :: C)) 0 <= nth k (r_isort (y :: C)) 0.
Proof.
  intros H. change (r_isort (x :: C)) with (r_insert x (r_isort C)).
  change (r_isort (y :: C)) with (r_insert y (r_isort C)).
  apply insert_mono; [apply isort_sorted | exact H].
Qed.

(* ---- the window once it reaches over the whole array --------------------------------- *)
Lemma nth_repeat_lt {A} (a d : A) m j : (j < m)%nat -> nth j (repeat a m) d = a.
Proof.
  revert j. induction m as [|m IH]; intros j H; [lia|].
  destruct j as [|j]; simpl; [reflexivity | apply IH; lia].
Qed.

Definition reaches_over (w n : nat) : Prop := (n - 1 <= w / 2 /\ n <= w - w / 2)%nat.

Lemma window_wide w l i : (i < length l)%nat -> reaches_over w (length l) ->
  r_window w l i =
  repeat (nth 0 l 0) (w / 2 - i) ++ l
  ++ repeat (nth (length l - 1) l 0) (w - length l - (w / 2 - i)).
Proof.
  intros Hi [H1 H2]. set (n := length l) in *. set (h := (w / 2)%nat) in *.
  assert (Hh : (h <= w)%nat) by (unfold h; apply Nat.div_le_upper_bound; lia).
  apply (nth_ext _ _ 0 0).
  - rewrite window_length, !app_length, !repeat_length. fold n. lia.
  - rewrite window_length. intros j Hj. rewrite window_nth by exact Hj. fold n. fold h.
    destruct (lt_dec j (h - i)) as [Ha|Ha].
    + rewrite app_nth1 by (rewrite repeat_length; exact Ha).
      rewrite nth_repeat_lt by exact Ha.
      replace (i + j - h)%nat with 0%nat by lia. rewrite Nat.min_0_l. reflexivity.
    + rewrite app_nth2 by (rewrite repeat_length; lia). rewrite repeat_length.
      destruct (lt_dec (j - (h - i)) n) as [Hb|Hb].
      * rewrite app_nth1 by exact Hb.
        replace (i + j - h)%nat with (j - (h - i))%nat by lia.
        rewrite Nat.min_l by lia. reflexivity.
      * rewrite app_nth2 by (fold n; lia). fold n.
        rewrite nth_repeat_lt by lia.
        rewrite Nat.min_r by lia. reflexivity.
Qed.

Lemma median_step w l i : (S i < length l)%nat -> reaches_over w (length l) ->
  exists C,
    nth i (r_median_filter w l) 0 = nth (w / 2) (r_isort (nth 0 l 0 :: C)) 0 /\
    nth (S i) (r_median_filter w l) 0 = nth (w / 2) (r_isort (nth (length l - 1) l 0 :: C)) 0.
Proof.
  intros Hi Hr. pose proof Hr as [H1 H2].
  set (n := length l) in *. set (h := (w / 2)%nat) in *.
  set (l0 := nth 0 l 0). set (ll := nth (n - 1) l 0).
  set (a' := (h - S i)%nat). set (b := (w - n - (h - i))%nat).
  exists (repeat l0 a' ++ l ++ repeat ll b).
  rewrite !median_filter_nth by lia. fold h.
  rewrite (window_wide w l i) by first [exact Hr | lia].
  rewrite (window_wide w l (S i)) by first [exact Hr | lia].
  fold n. fold h. fold l0. fold ll.
  fold b. replace (w - n - (h - S i))%nat with (S b) by (unfold b; lia).
  fold a'. replace (h - i)%nat with (S a') by (unfold a'; lia).
  split.
  - reflexivity.
  - f_equal. apply isort_of_perm.
    change (repeat ll (S b)) with (ll :: repeat ll b).
    rewrite app_assoc. apply Permutation_sym.
    rewrite (app_assoc (repeat l0 a') l (repeat ll b)).
    apply Permutation_middle.
Qed.

Lemma wide_monotone w l : reaches_over w (length l) ->
  (forall i, (S i < length (r_median_filter w l))%nat ->
     nth i (r_median_filter w l) 0 <= nth (S i) (r_median_filter w l) 0) \/
  (forall i, (S i < length (r_median_filter w l))%nat ->
     nth (S i) (r_median_filter w l) 0 <= nth i (r_median_filter w l) 0).
Proof.
  intros Hr. rewrite median_filter_length.
  destruct (Rle_dec (nth 0 l 0) (nth (length l - 1) l 0)) as [H|H]; [left | right];
    intros i Hi; destruct (median_step w l i Hi Hr) as [C [E1 E2]]; rewrite E1, E2;
    apply order_stat_mono; lra.
Qed.

(* ---- the loop ----------------------------------------------------------------------- *)
Lemma widen_stops_when_wide fuel w data : reaches_over w (length data) ->
  r_widen (S fuel) w data = Ok (w, r_median_filter w data).
Proof.
  intros Hr. unfold r_widen. simpl.
  fold (r_median_filter w data). fold (r_diffs (r_median_filter w data)).
  fold (r_one_sign (r_diffs (r_median_filter w data))).
  rewrite (one_sign_of_monotone _ (wide_monotone w data Hr)). reflexivity.
Qed.

Lemma reaches_over_of_big w n : (2 * n <= w)%nat -> reaches_over w n.
Proof.
  intros H. unfold reaches_over.
  assert (A : (w / 2 * 2 <= w)%nat) by (rewrite Nat.mul_comm; apply Nat.mul_div_le; lia).
  assert (B : (n <= w / 2)%nat) by (apply Nat.div_le_lower_bound; lia).
  lia.
Qed.

(* the first loop returns within `fuel` rounds as soon as the last window it may try,
   2^(fuel-1) (w+1) - 1, is at least twice the array *)
Lemma widen_terminates : forall fuel w data,
  (2 * length data + 1 <= 2 ^ fuel * (w + 1))%nat ->
  exists w' s, r_widen (S fuel) w data = Ok (w', s).
Proof.
  induction fuel as [|f IH]; intros w data H.
  - exists w, (r_median_filter w data). apply widen_stops_when_wide.
    apply reaches_over_of_big. simpl in H. lia.
  - unfold r_widen. cbn [widen].
    fold (r_median_filter w data). fold (r_diffs (r_median_filter w data)).
    fold (r_one_sign (r_diffs (r_median_filter w data))).
    destruct (r_one_sign (r_diffs (r_median_filter w data))).
    + eexists. eexists. reflexivity.
    + fold (r_widen (S f) (2 * w + 1) data). apply IH.
      rewrite Nat.pow_succ_r' in H. lia.
Qed.
