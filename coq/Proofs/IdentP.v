(* C01: the generating parameters are the unique exact fit of a power-law
   contact model  F(x) = a * (cp - x)^p + b  (in contact),  b  (off contact). *)
From Coq Require Import Reals Lra.
From NV Require Import Base.RealExtra.
Local Open Scope R_scope.

Definition plaw (p a cp b x : R) : R :=
  if Rlt_dec 0 (cp - x) then a * Rpower (cp - x) p + b else b.

Lemma Rpower_pos x y : 0 < Rpower x y.
Proof. unfold Rpower. apply exp_pos. Qed.

Lemma Rpower_inj_base p x y : p <> 0 -> 0 < x -> 0 < y -> Rpower x p = Rpower y p -> x = y.
Proof.
  intros Hp Hx Hy H. apply (f_equal (fun z => Rpower z (/ p))) in H.
  rewrite !Rpower_mult in H. rewrite Rinv_r in H by exact Hp.
  rewrite !Rpower_1 in H by assumption. exact H.
Qed.

Lemma root_both p a a' d d' : p <> 0 -> 0 < a -> 0 < a' -> 0 < d -> 0 < d' ->
  a * Rpower d p = a' * Rpower d' p ->
  Rpower a (/ p) * d = Rpower a' (/ p) * d'.
Proof.
  intros Hp Ha Ha' Hd Hd' H. apply (f_equal (fun z => Rpower z (/ p))) in H.
  rewrite <- !Rpower_mult_distr in H by (try assumption; apply Rpower_pos).
  rewrite !Rpower_mult in H. rewrite Rinv_r in H by exact Hp.
  rewrite !Rpower_1 in H by assumption. exact H.
Qed.

Lemma in_contact_value p a cp b x : 0 < a -> 0 < cp - x -> b < plaw p a cp b x.
Proof.
  intros Ha Hd. unfold plaw. destruct (Rlt_dec 0 (cp - x)); [|contradiction].
  assert (0 < a * Rpower (cp - x) p) by (apply Rmult_lt_0_compat; [exact Ha | apply Rpower_pos]).
  lra.
Qed.

Lemma off_contact_value p a cp b x : cp - x <= 0 -> plaw p a cp b x = b.
Proof. intros H. unfold plaw. destruct (Rlt_dec 0 (cp - x)); [lra | reflexivity]. Qed.

(* Two sample abscissae in contact, two distinct ones off contact: any other
   parameter vector (a' > 0) that reproduces the four values is the same. *)
Theorem plaw_identifiable p a cp b a' cp' b' x1 x2 x3 x4 :
  p <> 0 -> 0 < a -> 0 < a' ->
  x1 < cp -> x2 < cp -> x1 <> x2 ->
  cp <= x3 -> cp <= x4 -> x3 <> x4 ->
  plaw p a' cp' b' x1 = plaw p a cp b x1 ->
  plaw p a' cp' b' x2 = plaw p a cp b x2 ->
  plaw p a' cp' b' x3 = plaw p a cp b x3 ->
  plaw p a' cp' b' x4 = plaw p a cp b x4 ->
  a' = a /\ cp' = cp /\ b' = b.
Proof.
  intros Hp Ha Ha' H1 H2 H12 H3 H4 H34 E1 E2 E3 E4.
  rewrite (off_contact_value p a cp b x3) in E3 by lra.
  rewrite (off_contact_value p a cp b x4) in E4 by lra.
  (* the two baseline points are off contact under the other vector too, and b' = b *)
  assert (Hb : b' = b /\ cp' <= x3 /\ cp' <= x4).
  { unfold plaw in E3, E4.
    destruct (Rlt_dec 0 (cp' - x3)) as [C3|C3]; destruct (Rlt_dec 0 (cp' - x4)) as [C4|C4].
    - exfalso. assert (Hq : a' * Rpower (cp' - x3) p = a' * Rpower (cp' - x4) p) by lra.
      apply Rmult_eq_reg_l in Hq; [|lra].
      apply Rpower_inj_base in Hq; try assumption. lra.
    - exfalso. assert (0 < a' * Rpower (cp' - x3) p)
        by (apply Rmult_lt_0_compat; [exact Ha' | apply Rpower_pos]). lra.
    - exfalso. assert (0 < a' * Rpower (cp' - x4) p)
        by (apply Rmult_lt_0_compat; [exact Ha' | apply Rpower_pos]). lra.
    - repeat split; lra. }
  destruct Hb as [-> [Hc3 Hc4]].
  (* the two contact points are in contact under the other vector *)
  assert (D1 : 0 < cp' - x1).
  { destruct (Rlt_dec 0 (cp' - x1)); [assumption|]. exfalso.
    rewrite (off_contact_value p a' cp' b x1) in E1 by lra.
    pose proof (in_contact_value p a cp b x1 Ha). lra. }
  assert (D2 : 0 < cp' - x2).
  { destruct (Rlt_dec 0 (cp' - x2)); [assumption|]. exfalso.
    rewrite (off_contact_value p a' cp' b x2) in E2 by lra.
    pose proof (in_contact_value p a cp b x2 Ha). lra. }
  unfold plaw in E1, E2.
  destruct (Rlt_dec 0 (cp' - x1)); [|contradiction].
  destruct (Rlt_dec 0 (cp' - x2)); [|contradiction].
  destruct (Rlt_dec 0 (cp - x1)); [|lra].
  destruct (Rlt_dec 0 (cp - x2)); [|lra].
  assert (Q1 : a' * Rpower (cp' - x1) p = a * Rpower (cp - x1) p) by lra.
  assert (Q2 : a' * Rpower (cp' - x2) p = a * Rpower (cp - x2) p) by lra.
  apply root_both in Q1; try assumption. apply root_both in Q2; try assumption.
  set (A := Rpower a (/ p)) in *. set (A' := Rpower a' (/ p)) in *.
  assert (HA : 0 < A) by apply Rpower_pos. assert (HA' : 0 < A') by apply Rpower_pos.
  assert (EA : A' = A).
  { assert (A' * (x2 - x1) = A * (x2 - x1)) by lra.
    apply Rmult_eq_reg_r in H; [exact H | lra]. }
  assert (Ecp : cp' = cp).
  { rewrite EA in Q1. assert (A * (cp' - x1 - (cp - x1)) = 0) by lra.
    apply Rmult_integral in H. destruct H; lra. }
  split; [|split; [exact Ecp | reflexivity]].
  unfold A, A' in EA. apply Rpower_inj_base in EA; try assumption.
  apply Rinv_neq_0_compat. exact Hp.
Qed.
