(* C12: the two settings that enter the hash twice (once in front of the data, once in the
   loop over FP_DEFAULT) are still injective in the pre-image: a changed value changes the
   TOTAL length by twice the difference of its encodings' lengths, so equal pre-images
   force equal lengths, and then the front copies are equal. *)
From Coq Require Import List String ZArith QArith Bool Permutation Lia.
From NV Require Import Base.Exn Base.PyVal Model.HashEnc Proofs.StringP Proofs.HashEncP
     Proofs.C12P Gen.Tables.
Import ListNotations.
Local Close Scope Q_scope.
Local Open Scope string_scope.

Lemma encode_all_cons v l s :
  encode_all (v :: l) = Ok s <-> exists a b, encode v = Ok a /\ encode_all l = Ok b /\ s = a ++ b.
Proof.
  change (v :: l) with ([v] ++ l)%list. rewrite encode_all_app. rewrite encode_all_single.
  reflexivity.
Qed.

Lemma twice_diff l0 v v' l1 l2 s s' :
  encode_all (l0 ++ v :: l1 ++ v :: l2) = Ok s ->
  encode_all (l0 ++ v' :: l1 ++ v' :: l2) = Ok s' ->
  (s = s' <-> encode v = encode v').
Proof.
  intros H H'.
  apply encode_all_app in H, H'.
  destruct H as [a0 [b [Ha0 [Hb ->]]]]. destruct H' as [a0' [b' [Ha0' [Hb' ->]]]].
  rewrite Ha0 in Ha0'. inversion Ha0'; subst a0'. clear Ha0'.
  apply encode_all_cons in Hb, Hb'.
  destruct Hb as [ev [c [Hev [Hc ->]]]]. destruct Hb' as [ev' [c' [Hev' [Hc' ->]]]].
  apply encode_all_app in Hc, Hc'.
  destruct Hc as [a1 [d [Ha1 [Hd ->]]]]. destruct Hc' as [a1' [d' [Ha1' [Hd' ->]]]].
  rewrite Ha1 in Ha1'. inversion Ha1'; subst a1'. clear Ha1'.
  apply encode_all_cons in Hd, Hd'.
  destruct Hd as [ev2 [a2 [Hev2 [Ha2 ->]]]]. destruct Hd' as [ev2' [a2' [Hev2' [Ha2' ->]]]].
  rewrite Hev in Hev2. inversion Hev2; subst ev2. clear Hev2.
  rewrite Hev' in Hev2'. inversion Hev2'; subst ev2'. clear Hev2'.
  rewrite Ha2 in Ha2'. inversion Ha2'; subst a2'. clear Ha2'.
  rewrite Hev, Hev'. split.
  - intros E. apply append_inv_head in E.
    assert (L : String.length ev = String.length ev').
    { apply (f_equal String.length) in E. rewrite !length_append in E. lia. }
    destruct (append_eq_length _ _ _ _ L E) as [-> _]. reflexivity.
  - intros E. inversion E. reflexivity.
Qed.

Lemma contrib_plain fp e k : k <> "range_x" -> k <> "optimal_fit_num_samples" ->
  contrib fp e k = (do v <- fp_get fp k ; Ok [v]).
Proof.
  intros H1 H2. unfold contrib.
  apply String.eqb_neq in H1, H2. rewrite H1, H2. reflexivity.
Qed.

(* the generic statement over any duplicate-free key list *)
Lemma twice_key_diff keys fp fp' x y k s s' v v' :
  NoDup keys -> In k keys ->
  (k = "preprocessing" \/ k = "preprocessing_options") ->
  agree_except k fp fp' ->
  fp_get fp k = Ok v -> fp_get fp' k = Ok v' ->
  preimage keys fp x y = Ok s -> preimage keys fp' x y = Ok s' ->
  (s = s' <-> encode v = encode v').
Proof.
  intros Hnd Hin Hk Hag Hv Hv' H H'.
  assert (Hk3 : k <> "optimal_fit_edelta") by (destruct Hk; subst; discriminate).
  assert (Hkr : k <> "range_x") by (destruct Hk; subst; discriminate).
  assert (Hkn : k <> "optimal_fit_num_samples") by (destruct Hk; subst; discriminate).
  unfold preimage in H, H'.
  destruct (bind_ok _ _ _ H) as [hl [Hhl Henc]]. clear H.
  destruct (bind_ok _ _ _ H') as [hl' [Hhl' Henc']]. clear H'.
  unfold hashlist in Hhl, Hhl'.
  assert (Ee : fp_get fp' "optimal_fit_edelta" = fp_get fp "optimal_fit_edelta").
  { unfold fp_get. rewrite (Hag "optimal_fit_edelta"); [reflexivity | congruence]. }
  destruct (bind_ok _ _ _ Hhl) as [p [Hp Hhl2]]. clear Hhl.
  destruct (bind_ok _ _ _ Hhl2) as [o [Ho Hhl3]]. clear Hhl2.
  destruct (bind_ok _ _ _ Hhl3) as [e [He Hhl4]]. clear Hhl3.
  destruct (bind_ok _ _ _ Hhl4) as [rest [Hrest Hhl5]]. clear Hhl4.
  inversion Hhl5; subst hl. clear Hhl5.
  destruct (bind_ok _ _ _ Hhl') as [p' [Hp' Hhl2']]. clear Hhl'.
  destruct (bind_ok _ _ _ Hhl2') as [o' [Ho' Hhl3']]. clear Hhl2'.
  rewrite Ee, He in Hhl3'. simpl in Hhl3'.
  destruct (bind_ok _ _ _ Hhl3') as [rest' [Hrest' Hhl5']]. clear Hhl3'.
  inversion Hhl5'; subst hl'. clear Hhl5'.
  destruct (in_split _ _ Hin) as [k1 [k2 ->]].
  assert (Hn1 : ~ In k k1 /\ ~ In k k2).
  { apply NoDup_remove_2 in Hnd. split; intros Hc; apply Hnd; apply in_or_app; auto. }
  destruct Hn1 as [Hn1 Hn2].
  apply hash_keys_app in Hrest, Hrest'.
  destruct Hrest as [r1 [r2 [H1 [H2 ->]]]]. destruct Hrest' as [r1' [r2' [H1' [H2' ->]]]].
  rewrite <- (hash_keys_agree k fp fp' _ k1 Hag Hn1) in H1'. rewrite H1 in H1'.
  inversion H1'; subst r1'. clear H1'.
  simpl in H2, H2'.
  destruct (bind_ok _ _ _ H2) as [c [Hc H3]]. clear H2.
  destruct (bind_ok _ _ _ H3) as [t2 [Ht2 H4]]. clear H3. inversion H4; subst r2. clear H4.
  destruct (bind_ok _ _ _ H2') as [c' [Hc' H3']]. clear H2'.
  destruct (bind_ok _ _ _ H3') as [t2' [Ht2' H4']]. clear H3'. inversion H4'; subst r2'. clear H4'.
  rewrite <- (hash_keys_agree k fp fp' _ k2 Hag Hn2) in Ht2'. rewrite Ht2 in Ht2'.
  inversion Ht2'; subst t2'. clear Ht2'.
  rewrite (contrib_plain fp _ k Hkr Hkn), Hv in Hc. simpl in Hc. inversion Hc; subst c. clear Hc.
  rewrite (contrib_plain fp' _ k Hkr Hkn), Hv' in Hc'. simpl in Hc'. inversion Hc'; subst c'. clear Hc'.
  destruct Hk as [-> | ->].
  - (* preprocessing: the first entry of the list *)
    rewrite Hv in Hp. inversion Hp; subst p. rewrite Hv' in Hp'. inversion Hp'; subst p'.
    assert (Eo : o' = o).
    { unfold fp_get in Ho, Ho'. rewrite <- (Hag "preprocessing_options") in Ho' by discriminate.
      rewrite Ho in Ho'. inversion Ho'. reflexivity. }
    subst o'.
    apply (twice_diff [] v v' ([o; x; y] ++ r1) t2).
    + exact Henc.
    + exact Henc'.
  - (* preprocessing_options: the second entry *)
    rewrite Hv in Ho. inversion Ho; subst o. rewrite Hv' in Ho'. inversion Ho'; subst o'.
    assert (Ep : p' = p).
    { unfold fp_get in Hp, Hp'. rewrite <- (Hag "preprocessing") in Hp' by discriminate.
      rewrite Hp in Hp'. inversion Hp'. reflexivity. }
    subst p'.
    apply (twice_diff [p] v v' ([x; y] ++ r1) t2).
    + exact Henc.
    + exact Henc'.
Qed.

Lemma sensitive_twice fp fp' x y k s s' v v' :
  In k fp_default_keys -> (k = "preprocessing" \/ k = "preprocessing_options") ->
  agree_except k fp fp' ->
  fp_get fp k = Ok v -> fp_get fp' k = Ok v' ->
  preimage fp_default_keys fp x y = Ok s -> preimage fp_default_keys fp' x y = Ok s' ->
  (s = s' <-> encode v = encode v').
Proof. intros Hin. apply twice_key_diff; [exact keys_nodup | exact Hin]. Qed.
