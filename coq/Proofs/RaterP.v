From Coq Require Import List Reals Bool Lra.
From NV Require Import Model.Rater.
Import ListNotations.
Local Open Scope R_scope.

Lemma wsum_bounds lo hi : forall ws ys,
  length ws = length ys ->
  Forall (fun w => 0 <= w) ws -> Forall (fun y => lo <= y <= hi) ys ->
  lo * total ws <= wsum ws ys <= hi * total ws.
Proof.
  induction ws as [|w wt IH]; intros [|y yt] Hl Hw Hy; simpl in *; try discriminate; try lra.
  inversion Hw; inversion Hy; subst. inversion Hl as [Hl'].
  specialize (IH yt Hl' H2 H6). nra.
Qed.

Lemma wavg_in_range lo hi ws ys :
  length ws = length ys ->
  Forall (fun w => 0 <= w) ws -> Forall (fun y => lo <= y <= hi) ys -> 0 < total ws ->
  lo <= wavg ws ys <= hi.
Proof.
  intros Hl Hw Hy Ht. destruct (wsum_bounds lo hi ws ys Hl Hw Hy) as [H1 H2].
  unfold wavg. split.
  - apply Rmult_le_reg_r with (total ws); [exact Ht|].
    unfold Rdiv. rewrite Rmult_assoc, Rinv_l by lra. lra.
  - apply Rmult_le_reg_r with (total ws); [exact Ht|].
    unfold Rdiv. rewrite Rmult_assoc, Rinv_l by lra. lra.
Qed.

(* an average of averages (forest of trees) stays in range as well *)
Lemma wavg_of_wavg lo hi ws (trees : list (list R * list R)) :
  length ws = length trees ->
  Forall (fun w => 0 <= w) ws -> 0 < total ws ->
  Forall (fun t => length (fst t) = length (snd t) /\ Forall (fun w => 0 <= w) (fst t) /\
                   Forall (fun y => lo <= y <= hi) (snd t) /\ 0 < total (fst t)) trees ->
  lo <= wavg ws (map (fun t => wavg (fst t) (snd t)) trees) <= hi.
Proof.
  intros Hl Hw Ht Htr. apply wavg_in_range; try assumption.
  - rewrite map_length. exact Hl.
  - apply Forall_forall. intros y Hy. apply in_map_iff in Hy. destruct Hy as [t [<- Hin]].
    rewrite Forall_forall in Htr. destruct (Htr t Hin) as [A [B [C D]]].
    apply wavg_in_range; assumption.
Qed.

Section Decision.
  Variable is_zero : R -> bool.
  Variable predict : list R -> R.

  Lemma rate_one_cases bs fs :
    (any_zero is_zero bs = true /\ rate_one is_zero predict bs fs = 0) \/
    (any_zero is_zero bs = false /\ any_nan fs = true /\ rate_one is_zero predict bs fs = -1) \/
    (any_zero is_zero bs = false /\ any_nan fs = false /\
     rate_one is_zero predict bs fs = predict (strip fs)).
  Proof.
    unfold rate_one. destruct (any_zero is_zero bs); [left; auto|].
    destruct (any_nan fs); right; [left | right]; auto.
  Qed.
End Decision.
