(* C07: one pass of the tie-breaking loop resolves the first run of equal neighbours:
   when the run ends inside the array and the data are weakly monotone, every neighbour
   pair of the run (and the pair that leaves it) becomes a strict step in the direction of
   the data, and nothing else moves. *)
From Coq Require Import List Bool Arith Reals Lra Lia.
From NV Require Import Base.Exn Model.FitCore Model.Steps Proofs.FitCoreP Proofs.StepsP Proofs.TieP.
Import ListNotations.
Local Open Scope R_scope.

(* the differences of the run after one pass, as multiples of the step that ends the run *)
Lemma tb_pass_run_diff s p : first_dup s = Some p ->
  (S (p + lead (skipn p s)) < length s)%nat ->
  forall i, (p <= i <= p + lead (skipn p s))%nat ->
  exists c, 0 < c /\
    nth (S i) (r_tb_update s (r_find_equal s 0 false)) 0
    - nth i (r_tb_update s (r_find_equal s 0 false)) 0
    = c * (nth (S (p + lead (skipn p s))) s 0 - nth (p + lead (skipn p s)) s 0).
Proof.
  intros F Hinside i Hi. rewrite find_equal_fresh, F.
  destruct (first_dup_spec s p F) as [Hp Epp].
  pose proof (first_dup_lead s p F) as Hl0.
  destruct (lead (skipn p s)) as [|L] eqn:EL; [congruence|]. clear Hl0.
  assert (Hrun : forall c, (c <= S L)%nat -> nth (p + c) s 0 = nth p s 0).
  { intros c Hc. pose proof (lead_equal (skipn p s) c) as H. rewrite EL in H.
    specialize (H Hc). rewrite !nth_skipn in H. rewrite Nat.add_0_r in H. exact H. }
  change (S (0 + p)) with (S p). set (a := S p).
  rewrite tb_update_seq.
  assert (Hq6 : 6 <= INR (S L + 5)).
  { replace 6 with (INR 6) by (simpl; lra). apply le_INR. lia. }
  set (q := / INR (S L + 5)).
  assert (Hq : 0 < q <= 1 / 6).
  { unfold q. split; [apply Rinv_0_lt_compat; lra|].
    unfold Rdiv. rewrite Rmult_1_l. apply Rinv_le_contravar; lra. }
  assert (HqL : q * INR (S L + 5) = 1) by (unfold q; field; lra).
  assert (EA : Nat.ltb (S (a + L)) (length s) = true) by (apply Nat.ltb_lt; unfold a; lia).
  rewrite EA. apply Nat.ltb_lt in EA.
  assert (HrunA : forall c, (c < S L)%nat -> nth (a + c) s 0 = nth a s 0).
  { intros c Hc. unfold a. replace (S p + c)%nat with (p + S c)%nat by lia.
    rewrite Hrun by lia. replace (S p) with (p + 1)%nat by lia. rewrite Hrun by lia. reflexivity. }
  assert (HlenA : (a + S L < length s)%nat) by lia.
  rewrite !(foldA_nth s a (S L) HrunA HlenA (S L)) by lia.
  set (v := nth a s 0). set (top := nth (a + S L) s 0).
  assert (Ev : nth (a + L) s 0 = v) by (apply HrunA; lia).
  assert (Evp : nth p s 0 = v).
  { unfold v, a. replace (S p) with (p + 1)%nat by lia. rewrite Hrun by lia. reflexivity. }
  assert (HD : nth (S (p + S L)) s 0 - nth (p + S L) s 0 = top - v).
  { unfold top. replace (a + S L)%nat with (S (p + S L)) by (unfold a; lia).
    replace (p + S L)%nat with (a + L)%nat by (unfold a; lia). rewrite Ev. reflexivity. }
  rewrite HD.
  destruct (Nat.eq_dec (S i) a) as [C3|C3].
  { exists q. split; [lra|].
    rewrite (FA_in s a (S L) (S L) (S i)) by lia. rewrite (FA_out s a (S L) (S L) i) by lia.
    assert (E : Nat.eqb (S i) a = true) by (apply Nat.eqb_eq; exact C3). rewrite E.
    replace i with p by (unfold a in C3; lia). fold v top. fold q. rewrite Evp. ring. }
  destruct (Nat.eq_dec (S i) (a + S L)) as [C4|C4].
  { rewrite (FA_out s a (S L) (S L) (S i)) by lia. rewrite (FA_in s a (S L) (S L) i) by (unfold a in *; lia).
    fold v top. fold q. rewrite C4. fold top.
    destruct (Nat.eqb i a) eqn:E.
    - exists (1 - q). split; [lra | ring].
    - apply Nat.eqb_neq in E. replace (S (i - a)) with (S L) by lia.
      exists (1 - (1 - q) * q * INR (S L)). split; [|ring].
      assert (H1 : q * INR (S L) < 1).
      { rewrite plus_INR in HqL. simpl (INR 5) in HqL.
        assert (0 < q * 5) by lra. lra. }
      assert (0 <= INR (S L)) by apply pos_INR.
      assert (0 <= q * INR (S L)) by (apply Rmult_le_pos; lra).
      nra. }
  (* both samples inside the run *)
  rewrite (FA_in s a (S L) (S L) (S i)), (FA_in s a (S L) (S L) i) by (unfold a in *; lia).
  fold v top. fold q.
  assert (E1 : Nat.eqb (S i) a = false) by (apply Nat.eqb_neq; unfold a in *; lia). rewrite E1.
  destruct (Nat.eqb i a) eqn:E.
  + apply Nat.eqb_eq in E. subst i. replace (S (S a - a)) with 2%nat by lia.
    exists (q * (1 - 2 * q)). split; [nra|]. simpl INR. ring.
  + apply Nat.eqb_neq in E. replace (S (S i - a)) with (S (S (i - a))) by (unfold a in *; lia).
    exists ((1 - q) * q). split; [nra|]. rewrite (S_INR (S (i - a))). ring.
Qed.

(* weakly ascending data: the run becomes strictly ascending *)
Theorem tb_pass_resolves_asc s p : asc_adj s -> first_dup s = Some p ->
  (S (p + lead (skipn p s)) < length s)%nat ->
  forall i, (p <= i <= p + lead (skipn p s))%nat ->
  nth i (r_tb_update s (r_find_equal s 0 false)) 0
  < nth (S i) (r_tb_update s (r_find_equal s 0 false)) 0.
Proof.
  intros Hs F Hin i Hi. destruct (tb_pass_run_diff s p F Hin i Hi) as [c [Hc E]].
  set (j := (p + lead (skipn p s))%nat) in *.
  assert (Hne : nth (S j) s 0 <> nth j s 0).
  { pose proof (lead_stop (skipn p s)) as H. rewrite skipn_length in H.
    rewrite !nth_skipn in H. replace (p + S (lead (skipn p s)))%nat with (S j) in H by (unfold j; lia).
    apply H. unfold j in Hin. lia. }
  pose proof (Hs j Hin) as Hle.
  assert (0 < nth (S j) s 0 - nth j s 0) by lra.
  assert (0 < c * (nth (S j) s 0 - nth j s 0)) by (apply Rmult_lt_0_compat; assumption).
  lra.
Qed.

Theorem tb_pass_resolves_desc s p : desc_adj s -> first_dup s = Some p ->
  (S (p + lead (skipn p s)) < length s)%nat ->
  forall i, (p <= i <= p + lead (skipn p s))%nat ->
  nth (S i) (r_tb_update s (r_find_equal s 0 false)) 0
  < nth i (r_tb_update s (r_find_equal s 0 false)) 0.
Proof.
  intros Hs F Hin i Hi. destruct (tb_pass_run_diff s p F Hin i Hi) as [c [Hc E]].
  set (j := (p + lead (skipn p s))%nat) in *.
  assert (Hne : nth (S j) s 0 <> nth j s 0).
  { pose proof (lead_stop (skipn p s)) as H. rewrite skipn_length in H.
    rewrite !nth_skipn in H. replace (p + S (lead (skipn p s)))%nat with (S j) in H by (unfold j; lia).
    apply H. unfold j in Hin. lia. }
  pose proof (Hs j Hin) as Hle.
  assert (0 < nth j s 0 - nth (S j) s 0) by lra.
  assert (0 < c * (nth j s 0 - nth (S j) s 0)) by (apply Rmult_lt_0_compat; assumption).
  lra.
Qed.

(* ... and the samples outside the run keep their values *)
Theorem tb_pass_frame s p : first_dup s = Some p ->
  (S (p + lead (skipn p s)) < length s)%nat ->
  forall i, (i <= p \/ p + lead (skipn p s) < i)%nat ->
  nth i (r_tb_update s (r_find_equal s 0 false)) 0 = nth i s 0.
Proof.
  intros F Hinside i Hi. rewrite find_equal_fresh, F.
  pose proof (first_dup_lead s p F) as Hl0.
  destruct (lead (skipn p s)) as [|L] eqn:EL; [congruence|]. clear Hl0.
  assert (Hrun : forall c, (c <= S L)%nat -> nth (p + c) s 0 = nth p s 0).
  { intros c Hc. pose proof (lead_equal (skipn p s) c) as H. rewrite EL in H.
    specialize (H Hc). rewrite !nth_skipn in H. rewrite Nat.add_0_r in H. exact H. }
  change (S (0 + p)) with (S p). set (a := S p).
  rewrite tb_update_seq.
  assert (EA : Nat.ltb (S (a + L)) (length s) = true) by (apply Nat.ltb_lt; unfold a; lia).
  rewrite EA. apply Nat.ltb_lt in EA.
  assert (HrunA : forall c, (c < S L)%nat -> nth (a + c) s 0 = nth a s 0).
  { intros c Hc. unfold a. replace (S p + c)%nat with (p + S c)%nat by lia.
    rewrite Hrun by lia. replace (S p) with (p + 1)%nat by lia. rewrite Hrun by lia. reflexivity. }
  assert (HlenA : (a + S L < length s)%nat) by lia.
  rewrite (foldA_nth s a (S L) HrunA HlenA (S L)) by lia.
  apply FA_out. unfold a. lia.
Qed.
