From Coq Require Import List Lia.
From NV Require Import Model.Wrapper.
Import ListNotations.

Section WrapP.
  Variable A : Type.
  Variable ltb : A -> A -> bool.
  Hypothesis ltb_asym : forall a b, ltb a b = true -> ltb b a = false.

  Lemma wrap_length f delta out :
    (forall l, length (f l) = length l) ->
    wrap A ltb f delta = Some out -> length out = length delta.
  Proof.
    intros Hf. unfold wrap. destruct delta as [|x t]; [discriminate|].
    destruct (ascending A ltb (x :: t)); intros H; inversion H as [H']; clear H.
    - rewrite rev_length, Hf, app_length, rev_length. simpl. lia.
    - apply Hf.
  Qed.

  Lemma wrap_pointwise g delta : delta <> [] ->
    wrap A ltb (map g) delta = Some (map g delta).
  Proof.
    intros Hne. unfold wrap. destruct delta as [|x t]; [contradiction|].
    destruct (ascending A ltb (x :: t)); [|reflexivity].
    rewrite map_rev, rev_involutive. reflexivity.
  Qed.

  Lemma last_rev_cons (x : A) t d : last (rev (x :: t)) d = x.
  Proof. simpl. rewrite last_last. reflexivity. Qed.

  Lemma hd_rev (l : list A) d : hd d (rev l) = last l d.
  Proof.
    induction l as [|x t IH]; [reflexivity|]. simpl.
    destruct t as [|y t'].
    - reflexivity.
    - simpl in *. destruct (rev t' ++ [y]) eqn:E.
      + destruct (rev t'); discriminate.
      + simpl. simpl in IH. exact IH.
  Qed.

  (* the user's function never sees ascending data *)
  Lemma model_sees_descending delta :
    ascending A ltb (seen_by_model A ltb delta) = false.
  Proof.
    unfold seen_by_model. destruct (ascending A ltb delta) eqn:E; [|exact E].
    destruct delta as [|x t]; [discriminate|]. unfold ascending in *.
    destruct (rev (x :: t)) as [|y r] eqn:Er.
    - reflexivity.
    - assert (Hy : y = last (x :: t) x).
      { pose proof (hd_rev (x :: t) x) as H. rewrite Er in H. simpl in H. exact H. }
      assert (Hl : last (y :: r) y = x).
      { rewrite <- Er. rewrite (last_rev_cons x t). reflexivity. }
      rewrite Hl, Hy. apply ltb_asym. exact E.
  Qed.

  Lemma wrap_calls_on_seen f delta : delta <> [] ->
    wrap A ltb f delta =
    Some (if ascending A ltb delta then rev (f (seen_by_model A ltb delta))
          else f (seen_by_model A ltb delta)).
  Proof.
    intros Hne. unfold wrap, seen_by_model. destruct delta; [contradiction|].
    destruct (ascending A ltb (a :: delta)); reflexivity.
  Qed.
End WrapP.
