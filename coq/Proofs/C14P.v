(* Proofs of the C14 theorems for the generated step table. *)
From Coq Require Import List Arith Bool Lia.
From NV Require Import Base.Exn Base.PyList Gen.Tables Model.Preproc Proofs.PreprocP.
Import ListNotations.

Lemma all_good :
  forallb (autosort_good step_table) (all_selections step_table) = true.
Proof. vm_compute. reflexivity. Qed.

Lemma autosort_all :
  forall l, NoDup l -> (forall x, In x l -> x < length step_table) ->
            autosort_good step_table l = true.
Proof.
  intros l H1 H2. pose proof all_good as H. rewrite forallb_forall in H.
  apply H. apply all_selections_complete; assumption.
Qed.

Lemma available_valid :
  exists s, available step_table = Ok s /\ ordered step_table s = true /\
            check_order step_table s = Ok tt /\ is_perm s (seq 0 (length step_table)) = true.
Proof.
  destruct (available step_table) as [s|e] eqn:E.
  - exists s. split; [reflexivity|]. revert E. vm_compute.
    intros E; inversion E; subst; repeat split; reflexivity.
  - revert E. vm_compute. discriminate.
Qed.

Lemma check_spec_all :
  forallb (fun l => Bool.eqb (is_ok (check_order step_table l)) (ordered step_table l))
          (all_selections step_table) = true.
Proof. vm_compute. reflexivity. Qed.

Lemma check_order_spec :
  forall l, NoDup l -> (forall x, In x l -> x < length step_table) ->
            is_ok (check_order step_table l) = ordered step_table l.
Proof.
  intros l H1 H2. pose proof check_spec_all as H. rewrite forallb_forall in H.
  apply Bool.eqb_prop. apply H. apply all_selections_complete; assumption.
Qed.

(* available() is a permutation of all identifiers: membership = being known *)
Lemma avail_mem : forall s, available step_table = Ok s ->
  forall pid, mem pid s = true <-> pid < length step_table.
Proof.
  intros s E pid. destruct available_valid as [s' [E' [_ [_ Hp]]]].
  rewrite E in E'. inversion E'; subst s'. clear E'.
  unfold is_perm in Hp. apply andb_prop in Hp. destruct Hp as [Hp H2].
  apply andb_prop in Hp. destruct Hp as [_ H1].
  rewrite forallb_forall in H1, H2. rewrite mem_In. split.
  - intros Hin. specialize (H1 pid Hin). apply mem_In in H1. apply in_seq in H1. lia.
  - intros Hlt. assert (Hs : In pid (seq 0 (length step_table))) by (apply in_seq; lia).
    specialize (H2 pid Hs). apply mem_In in H2. exact H2.
Qed.

Lemma apply_iff :
  forall l, apply_check step_table l = Ok tt <->
    (forall i pid, nth_error l i = Some pid ->
       exists m, nth_error step_table pid = Some m /\
                 forall r, In r (fst m) -> In r (firstn i l)).
Proof.
  intros l. unfold apply_check.
  destruct available_valid as [s [E _]]. rewrite E.
  rewrite apply_from_iff. unfold accepted_at. simpl. split.
  - intros H i pid Hi. destruct (H i pid Hi) as [_ Hm]. exact Hm.
  - intros H i pid Hi. destruct (H i pid Hi) as [m [Hm Hr]]. split.
    + apply (avail_mem s E). apply nth_error_Some. congruence.
    + exists m. split; assumption.
Qed.

Lemma apply_unknown :
  forall pre pid post, apply_check step_table pre = Ok tt ->
    length step_table <= pid ->
    apply_check step_table (pre ++ pid :: post) = Err KeyError.
Proof.
  intros pre pid post. unfold apply_check.
  destruct available_valid as [s [E _]]. rewrite E. intros H Hge.
  apply apply_from_unknown; [exact H|].
  destruct (mem pid s) eqn:Em; [|reflexivity].
  apply (avail_mem s E) in Em. lia.
Qed.
