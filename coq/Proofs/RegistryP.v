From Coq Require Import List String Bool Arith Lia.
From NV Require Import Base.Exn Model.Registry.
Import ListNotations.
Local Open Scope string_scope.

Lemma list_eqb_eq a b : list_eqb a b = true <-> a = b.
Proof.
  revert b. induction a as [|x a IH]; intros [|y b]; simpl; split; intros H; try discriminate; try reflexivity.
  - apply andb_prop in H. destruct H as [H1 H2]. apply String.eqb_eq in H1. apply IH in H2. congruence.
  - inversion H; subst. rewrite String.eqb_refl. simpl. apply IH. reflexivity.
Qed.

Lemma nodup_b_spec l : nodup_b l = true <-> NoDup l.
Proof.
  induction l as [|x l IH]; simpl; split; intros H; try constructor; try reflexivity.
  - apply andb_prop in H. destruct H as [H1 _]. apply negb_true_iff in H1. intros Hin.
    assert (existsb (String.eqb x) l = true).
    { apply existsb_exists. exists x. split; [exact Hin | apply String.eqb_refl]. } congruence.
  - apply andb_prop in H. destruct H as [_ H2]. apply IH. exact H2.
  - inversion H; subst. apply andb_true_intro. split.
    + apply negb_true_iff. destruct (existsb (String.eqb x) l) eqn:E; [|reflexivity].
      apply existsb_exists in E. destruct E as [y [Hy Ey]]. apply String.eqb_eq in Ey. subst. contradiction.
    + apply IH. assumption.
Qed.

(* accepted <-> complete and consistent *)
Definition complete (m : pymod) : Prop :=
  forallb (has m) required = true /\
  (has m "compute_ancillaries" = true -> forallb (has m) required_anc = true) /\
  List.length (pkeys m) = List.length (pnames m) /\ List.length (pkeys m) = List.length (punits m) /\
  NoDup (pnames m) /\ pkeys m = pdefaults m.

Lemma check_complete m : module_check m = Ok tt <-> complete m.
Proof.
  unfold module_check, complete. split.
  - intros H.
    destruct (forallb (has m) required) eqn:E1; cbn [negb] in H; [|discriminate].
    destruct (has m "compute_ancillaries" && negb (forallb (has m) required_anc)) eqn:E2;
      [discriminate|].
    destruct (Nat.eqb (List.length (pkeys m)) (List.length (pnames m))) eqn:E3; cbn [negb] in H;
      [|discriminate].
    destruct (Nat.eqb (List.length (pkeys m)) (List.length (punits m))) eqn:E4; cbn [negb] in H;
      [|discriminate].
    destruct (nodup_b (pnames m)) eqn:E5; cbn [negb] in H; [|discriminate].
    destruct (Nat.eqb (List.length (pkeys m)) (List.length (pdefaults m))) eqn:E6; cbn [negb] in H;
      [|discriminate].
    destruct (list_eqb (pkeys m) (pdefaults m)) eqn:E7; cbn [negb] in H; [|discriminate].
    split; [reflexivity|]. split.
    { intros Ha. rewrite Ha in E2. simpl in E2. apply negb_false_iff in E2. exact E2. }
    apply Nat.eqb_eq in E3, E4. apply nodup_b_spec in E5. apply list_eqb_eq in E7. auto.
  - intros [H1 [H2 [H3 [H4 [H5 H6]]]]]. rewrite H1. cbn [negb].
    assert (E2 : has m "compute_ancillaries" && negb (forallb (has m) required_anc) = false).
    { destruct (has m "compute_ancillaries") eqn:Ea; [|reflexivity].
      rewrite (H2 eq_refl). reflexivity. }
    rewrite E2.
    assert (E3 : Nat.eqb (List.length (pkeys m)) (List.length (pnames m)) = true)
      by (apply Nat.eqb_eq; exact H3).
    assert (E4 : Nat.eqb (List.length (pkeys m)) (List.length (punits m)) = true)
      by (apply Nat.eqb_eq; exact H4).
    assert (E5 : nodup_b (pnames m) = true) by (apply nodup_b_spec; exact H5).
    assert (E6 : Nat.eqb (List.length (pkeys m)) (List.length (pdefaults m)) = true)
      by (apply Nat.eqb_eq; rewrite H6; reflexivity).
    assert (E7 : list_eqb (pkeys m) (pdefaults m) = true) by (apply list_eqb_eq; exact H6).
    rewrite E3, E4, E5, E6, E7. reflexivity.
Qed.

(* a rejected module is rejected with a MODEL error *)
Lemma check_error_kind m e : module_check m = Err e ->
  e = ModelIncompleteError \/ e = ModelImplementationError.
Proof.
  unfold module_check.
  repeat match goal with |- context [if ?c then _ else _] => destruct c end;
    intros H; inversion H; auto.
Qed.

Lemma add_has a l : existsb (String.eqb a) (if existsb (String.eqb a) l then l else (l ++ [a])%list) = true.
Proof.
  destruct (existsb (String.eqb a) l) eqn:E; [exact E|].
  rewrite existsb_app. cbn [existsb]. rewrite String.eqb_refl. rewrite orb_true_r. reflexivity.
Qed.

Lemma add_keeps a b l : existsb (String.eqb b) l = true ->
  existsb (String.eqb b) (if existsb (String.eqb a) l then l else (l ++ [a])%list) = true.
Proof.
  intros H. destruct (existsb (String.eqb a) l); [exact H|].
  rewrite existsb_app, H. reflexivity.
Qed.

Lemma autocomplete_defaults m :
  has (autocomplete m) "model" = true /\ has (autocomplete m) "residual" = true.
Proof.
  unfold has, autocomplete. cbn [present]. split.
  - apply add_has.
  - apply add_keeps. apply add_has.
Qed.

(* ---- registry --------------------------------------------------------------------------- *)
Lemma rget_rset_same k v r : rget k (rset k v r) = Some v.
Proof.
  induction r as [|[k' v'] t IH]; simpl.
  - rewrite String.eqb_refl. reflexivity.
  - destruct (String.eqb k k') eqn:E; simpl; [rewrite String.eqb_refl; reflexivity|].
    rewrite E. exact IH.
Qed.

Lemma rget_rset_other k k' v r : k' <> k -> rget k' (rset k v r) = rget k' r.
Proof.
  intros Hne. induction r as [|[k2 v2] t IH]; simpl.
  - destruct (String.eqb k' k) eqn:E; [apply String.eqb_eq in E; congruence | reflexivity].
  - destruct (String.eqb k k2) eqn:E; simpl.
    + apply String.eqb_eq in E. subst.
      destruct (String.eqb k' k2) eqn:E2; [apply String.eqb_eq in E2; congruence | reflexivity].
    + destruct (String.eqb k' k2); [reflexivity | exact IH].
Qed.

Lemma rget_rpop k k' r : rget k' (rpop k r) = if String.eqb k k' then None else rget k' r.
Proof.
  unfold rpop. induction r as [|[k2 v2] t IH]; simpl.
  - destruct (String.eqb k k'); reflexivity.
  - destruct (String.eqb k k2) eqn:E; simpl.
    + apply String.eqb_eq in E. subst k2. rewrite IH.
      destruct (String.eqb k k') eqn:E2; [reflexivity|].
      destruct (String.eqb k' k) eqn:E3; [|reflexivity].
      apply String.eqb_eq in E3. subst. rewrite String.eqb_refl in E2. discriminate.
    + destruct (String.eqb k' k2) eqn:E2.
      * apply String.eqb_eq in E2. subst k2. rewrite E. reflexivity.
      * exact IH.
Qed.

Lemma register_available r m r' : register r m = Ok r' ->
  complete m /\ rget (mkey m) r' = Some (autocomplete m) /\
  forall k, k <> mkey m -> rget k r' = rget k r.
Proof.
  unfold register. destruct (module_check m) as [[]|e] eqn:E; simpl; intros H; inversion H; subst.
  split; [apply check_complete; exact E|]. split; [apply rget_rset_same|].
  intros k Hk. apply rget_rset_other. exact Hk.
Qed.

Lemma deregister_exact r k r' : deregister r k = Ok r' ->
  rget k r' = None /\ forall k', k' <> k -> rget k' r' = rget k' r.
Proof.
  unfold deregister. destruct (rget k r); intros H; inversion H; subst. split.
  - rewrite rget_rpop, String.eqb_refl. reflexivity.
  - intros k' Hne. rewrite rget_rpop.
    destruct (String.eqb k k') eqn:E; [apply String.eqb_eq in E; congruence | reflexivity].
Qed.

(* every operation that raises leaves the registry AND sys.path as they were;
   sys.path is never changed at all *)
Lemma rstep_failure_preserves st o st' e : rstep st o = (st', Some e) -> st' = st.
Proof.
  destruct st as [r p]. destruct o; simpl.
  - destruct (register r m); intros H; inversion H; reflexivity.
  - destruct (deregister r k); intros H; inversion H; reflexivity.
  - unfold load_from_file. destruct imported as [m|].
    + destruct (module_check m); [destruct reg; [destruct (register r m)|]|];
        intros H; inversion H; reflexivity.
    + intros H; inversion H; reflexivity.
Qed.

Lemma rstep_syspath st o : snd (fst (rstep st o)) = snd st.
Proof.
  destruct st as [r p]. destruct o; simpl.
  - destruct (register r m); reflexivity.
  - destruct (deregister r k); reflexivity.
  - unfold load_from_file. destruct imported as [m|]; [|reflexivity].
    destruct (module_check m); [destruct reg; [destruct (register r m)|]|]; reflexivity.
Qed.

Lemma rstep_error_kind st o st' e : rstep st o = (st', Some e) ->
  e = ModelIncompleteError \/ e = ModelImplementationError \/ e = ModelImportError \/ e = KeyError.
Proof.
  destruct st as [r p]. destruct o; simpl.
  - unfold register. destruct (module_check m) as [[]|e'] eqn:E; simpl; intros H; inversion H; subst.
    destruct (check_error_kind _ _ E); auto.
  - unfold deregister. destruct (rget k r); intros H; inversion H; auto.
  - unfold load_from_file. destruct imported as [m|].
    + destruct (module_check m) as [[]|e'] eqn:E.
      * destruct reg; [unfold register; rewrite E; simpl|]; intros H; inversion H.
      * intros H; inversion H; subst. destruct (check_error_kind _ _ E); auto.
    + intros H; inversion H; auto.
Qed.

(* ---- ancillary seeding --------------------------------------------------------------------- *)
Fixpoint aget (k : string) (ps : list (string * nat)) : option nat :=
  match ps with [] => None | (k', v) :: t => if String.eqb k k' then Some v else aget k t end.

Lemma aget_pset_same k v ps : aget k (pset k v ps) = match aget k ps with Some _ => Some v | None => None end.
Proof.
  induction ps as [|[k' v'] t IH]; simpl; [reflexivity|].
  destruct (String.eqb k k') eqn:E; simpl; [rewrite String.eqb_refl; reflexivity | rewrite E; exact IH].
Qed.

Lemma aget_pset_other k k' v ps : k' <> k -> aget k' (pset k v ps) = aget k' ps.
Proof.
  intros Hne. induction ps as [|[k2 v2] t IH]; simpl; [reflexivity|].
  destruct (String.eqb k k2) eqn:E; simpl.
  - apply String.eqb_eq in E. subst.
    destruct (String.eqb k' k2) eqn:E2; [apply String.eqb_eq in E2; congruence | reflexivity].
  - destruct (String.eqb k' k2); [reflexivity | exact IH].
Qed.

(* a parameter that no (non-NaN) ancillary names keeps its value; parameters are
   never created *)
Lemma seed_untouched anc : forall params k,
  (forall v, ~ In (k, Some v) anc) -> aget k (seed params anc) = aget k params.
Proof.
  induction anc as [|[a [v|]] t IH]; intros params k H; simpl; [reflexivity| |].
  - rewrite IH.
    + apply aget_pset_other. intros ->. apply (H v). left. reflexivity.
    + intros v' Hin. apply (H v'). right. exact Hin.
  - apply IH. intros v' Hin. apply (H v'). right. exact Hin.
Qed.

(* an ancillary whose key matches a parameter (key unique among ancillaries,
   value not NaN) seeds that parameter's value *)
Lemma seed_sets anc : forall params k v old,
  NoDup (map fst anc) -> In (k, Some v) anc -> aget k params = Some old ->
  aget k (seed params anc) = Some v.
Proof.
  induction anc as [|[a [w|]] t IH]; intros params k v old Hnd Hin Hold; simpl in *; [contradiction| |].
  - inversion Hnd as [|? ? Ha Ht]; subst. destruct Hin as [Hin|Hin].
    + inversion Hin; subst. rewrite seed_untouched.
      * rewrite aget_pset_same, Hold. reflexivity.
      * intros v' Hc. apply Ha. apply (in_map fst) in Hc. exact Hc.
    + assert (Hne : k <> a).
      { intros ->. apply Ha. apply (in_map fst) in Hin. exact Hin. }
      eapply IH; [exact Ht | exact Hin |]. rewrite aget_pset_other by exact Hne. exact Hold.
  - inversion Hnd; subst. destruct Hin as [Hin|Hin]; [discriminate|].
    eapply IH; eauto.
Qed.
