(* Separation invariant of the reference model: over all histories of copying API
   calls and caller/library edits, no identity is shared between library state and
   caller objects; hence caller edits never change library state, library writes
   never change caller objects, and a stored argument keeps the value it had at the
   time of the call. *)
From Coq Require Import List Bool Arith Lia.
From NV Require Import Model.Heap.
Import ListNotations.

Definition Fresh (w : world) : Prop :=
  forall i, In i (all_ids (lib w)) \/ In i (all_ids (caller w)) -> i < next w.
Definition Sep (w : world) : Prop :=
  forall i, In i (all_ids (lib w)) -> ~ In i (all_ids (caller w)).

Lemma memb_In i l : memb i l = true <-> In i l.
Proof.
  unfold memb. rewrite existsb_exists. split.
  - intros [x [Hx E]]. apply Nat.eqb_eq in E. subst. exact Hx.
  - intros H. exists i. split; [exact H | apply Nat.eqb_refl].
Qed.

Lemma ids_relabel n o : ids (relabel n o) = seq n (length o).
Proof.
  unfold ids, relabel. rewrite map_map. revert n.
  induction o as [|x o IH]; intros n; simpl; [reflexivity|]. f_equal. apply IH.
Qed.

Lemma erase_relabel n o : erase (relabel n o) = erase o.
Proof.
  unfold erase, relabel. rewrite map_map. revert n.
  induction o as [|x o IH]; intros n; simpl; [reflexivity|]. f_equal. apply IH.
Qed.

Lemma relabel_length n o : length (relabel n o) = length o.
Proof. unfold relabel. rewrite map_length, combine_length, seq_length. lia. Qed.

Lemma ids_mutate1 i f o : ids (mutate1 i f o) = ids o.
Proof.
  unfold ids, mutate1. rewrite map_map. apply map_ext. intros n.
  destruct (Nat.eqb (nid n) i); reflexivity.
Qed.

Lemma mutate1_notin i f o : ~ In i (ids o) -> mutate1 i f o = o.
Proof.
  unfold ids, mutate1. induction o as [|n o IH]; intros H; simpl; [reflexivity|].
  destruct (Nat.eqb (nid n) i) eqn:E.
  - apply Nat.eqb_eq in E. exfalso. apply H. simpl. left. exact E.
  - f_equal. apply IH. intros Hin. apply H. simpl. right. exact Hin.
Qed.

Lemma all_ids_app a b : all_ids (a ++ b) = all_ids a ++ all_ids b.
Proof. unfold all_ids. apply flat_map_app. Qed.

Lemma all_ids_mutate i f os : all_ids (map (mutate1 i f) os) = all_ids os.
Proof.
  unfold all_ids. induction os as [|o os IH]; simpl; [reflexivity|].
  rewrite ids_mutate1, IH. reflexivity.
Qed.

Lemma map_mutate_notin i f os : ~ In i (all_ids os) -> map (mutate1 i f) os = os.
Proof.
  unfold all_ids. induction os as [|o os IH]; intros H; simpl; [reflexivity|].
  simpl in H. rewrite in_app_iff in H. f_equal.
  - apply mutate1_notin. tauto.
  - apply IH. tauto.
Qed.

Lemma all_ids_single o : all_ids [o] = ids o.
Proof. unfold all_ids. simpl. apply app_nil_r. Qed.

Lemma nth_error_all_ids (os : list obj) k a i :
  nth_error os k = Some a -> In i (ids a) -> In i (all_ids os).
Proof.
  intros Hn Hi. apply nth_error_In in Hn. unfold all_ids. apply in_flat_map.
  exists a. split; assumption.
Qed.

(* ---- the invariant is preserved by every copying operation and every edit -------- *)
Theorem inv_step w o : good o = true -> Fresh w -> Sep w ->
  Fresh (step w o) /\ Sep (step w o).
Proof.
  intros Hg HF HS. destruct o as [k|j|k|j|i f|i f|o]; simpl in Hg; try discriminate; simpl.
  - (* CallStore *)
    destruct (nth_error (caller w) k) as [a|] eqn:En; [|split; assumption].
    split.
    + intros i. simpl. rewrite all_ids_app, all_ids_single, ids_relabel, in_app_iff, in_seq.
      intros [[H|H]|H]; [specialize (HF i (or_introl H)); lia | lia | specialize (HF i (or_intror H)); lia].
    + intros i. simpl. rewrite all_ids_app, all_ids_single, ids_relabel, in_app_iff, in_seq.
      intros [H|H]; [apply HS; exact H|]. intros Hc. specialize (HF i (or_intror Hc)). lia.
  - (* CallReturn *)
    destruct (nth_error (lib w) j) as [a|] eqn:En; [|split; assumption].
    split.
    + intros i. simpl. rewrite all_ids_app, all_ids_single, ids_relabel, in_app_iff, in_seq.
      intros [H|[H|H]]; [specialize (HF i (or_introl H)); lia | specialize (HF i (or_intror H)); lia | lia].
    + intros i. simpl. rewrite all_ids_app, all_ids_single, ids_relabel, in_app_iff, in_seq.
      intros Hl [H|H]; [exact (HS i Hl H)|]. specialize (HF i (or_introl Hl)). lia.
  - (* Mutate *)
    destruct (memb i (all_ids (caller w))); [|split; assumption].
    split; intros x; simpl; rewrite !all_ids_mutate; [apply HF | apply HS].
  - (* LibWrite *)
    destruct (memb i (all_ids (lib w))); [|split; assumption].
    split; intros x; simpl; rewrite !all_ids_mutate; [apply HF | apply HS].
  - (* CallerNew *)
    split.
    + intros i. simpl. rewrite all_ids_app, all_ids_single, ids_relabel, in_app_iff, in_seq.
      intros [H|[H|H]]; [specialize (HF i (or_introl H)); lia | specialize (HF i (or_intror H)); lia | lia].
    + intros i. simpl. rewrite all_ids_app, all_ids_single, ids_relabel, in_app_iff, in_seq.
      intros Hl [H|H]; [exact (HS i Hl H)|]. specialize (HF i (or_introl Hl)). lia.
Qed.

Lemma inv_empty : Fresh empty /\ Sep empty.
Proof. split; intros i; simpl; tauto. Qed.

Theorem inv_run : forall ops w, forallb good ops = true -> Fresh w -> Sep w ->
  Fresh (run w ops) /\ Sep (run w ops).
Proof.
  induction ops as [|o ops IH]; intros w Hg HF HS; simpl; [split; assumption|].
  simpl in Hg. apply andb_true_iff in Hg. destruct Hg as [Ho Hops].
  destruct (inv_step w o Ho HF HS) as [HF' HS']. apply IH; assumption.
Qed.

Lemma filter_none {A} (f : A -> bool) : forall l, (forall x, In x l -> f x = false) -> filter f l = [].
Proof.
  induction l as [|x l IH]; intros H; simpl; [reflexivity|].
  rewrite (H x) by (left; reflexivity). apply IH. intros y Hy. apply H. right. exact Hy.
Qed.

Lemma sep_shared w : Sep w -> shared w = [].
Proof.
  intros HS. unfold shared. apply filter_none. intros i Hi.
  destruct (memb i (all_ids (caller w))) eqn:E; [|reflexivity].
  apply memb_In in E. exfalso. exact (HS i Hi E).
Qed.

Corollary reachable_separated ops : forallb good ops = true ->
  shared (run empty ops) = [].
Proof.
  intros Hg. apply sep_shared.
  exact (proj2 (inv_run ops empty Hg (proj1 inv_empty) (proj2 inv_empty))).
Qed.

(* ---- consequences ------------------------------------------------------------------ *)
(* an in-place edit by the caller never changes library state *)
Theorem caller_edit_keeps_lib w i f : Sep w -> lib (step w (Mutate i f)) = lib w.
Proof.
  intros HS. simpl. destruct (memb i (all_ids (caller w))) eqn:E; [|reflexivity].
  simpl. apply map_mutate_notin. intros Hl. apply memb_In in E. exact (HS i Hl E).
Qed.

(* no API operation and no library write changes an object the caller holds *)
Theorem lib_never_mutates_caller w o : Sep w ->
  match o with Mutate _ _ => False | CallStoreRef _ | CallReturnRef _ => False | _ => True end ->
  firstn (length (caller w)) (caller (step w o)) = caller w.
Proof.
  intros HS Ho. destruct o as [k|j|k|j|i f|i f|o]; try contradiction; simpl.
  - destruct (nth_error (caller w) k); simpl; apply firstn_all.
  - destruct (nth_error (lib w) j); simpl; [|apply firstn_all].
    rewrite firstn_app, firstn_all, Nat.sub_diag. simpl. apply app_nil_r.
  - destruct (memb i (all_ids (lib w))) eqn:E; simpl; [|apply firstn_all].
    rewrite map_mutate_notin; [apply firstn_all|].
    intros Hc. apply memb_In in E. exact (HS i E Hc).
  - rewrite firstn_app, firstn_all, Nat.sub_diag. simpl. apply app_nil_r.
Qed.

Definition caller_op (o : op) : bool :=
  match o with Mutate _ _ | CallerNew _ => true | _ => false end.

Lemma caller_op_good o : caller_op o = true -> good o = true.
Proof. destruct o; simpl; congruence. Qed.

Lemma caller_ops_keep_lib : forall ops w, forallb caller_op ops = true -> Fresh w -> Sep w ->
  lib (run w ops) = lib w.
Proof.
  induction ops as [|o ops IH]; intros w Hc HF HS; simpl; [reflexivity|].
  simpl in Hc. apply andb_true_iff in Hc. destruct Hc as [Ho Hops].
  destruct (inv_step w o (caller_op_good o Ho) HF HS) as [HF' HS'].
  rewrite IH by assumption.
  destruct o as [k|j|k|j|i f|i f|o]; simpl in Ho; try discriminate.
  - apply caller_edit_keeps_lib. exact HS.
  - reflexivity.
Qed.

(* taken by value: what the library stored is the value the argument had at the time
   of the call, whatever the caller does to the object afterwards *)
Theorem by_value w k a ops : Fresh w -> Sep w -> nth_error (caller w) k = Some a ->
  forallb caller_op ops = true ->
  lib_values (run (step w (CallStore k)) ops) = lib_values w ++ [erase a].
Proof.
  intros HF HS Hn Hc.
  destruct (inv_step w (CallStore k) eq_refl HF HS) as [HF' HS'].
  unfold lib_values. rewrite caller_ops_keep_lib by assumption.
  simpl. rewrite Hn. simpl. rewrite map_app. simpl. rewrite erase_relabel. reflexivity.
Qed.

(* handing out a copy: later edits of the returned object do not reach library state *)
Theorem returned_copy_detached w j ops : Fresh w -> Sep w ->
  forallb caller_op ops = true ->
  lib (run (step w (CallReturn j)) ops) = lib w.
Proof.
  intros HF HS Hc.
  destruct (inv_step w (CallReturn j) eq_refl HF HS) as [HF' HS'].
  rewrite caller_ops_keep_lib by assumption.
  simpl. destruct (nth_error (lib w) j); reflexivity.
Qed.

(* the invariant is needed: keeping the caller's object itself breaks all of this *)
Theorem storing_a_reference_refuted :
  let w := run empty [CallerNew [(0, 7, 0)]; CallStoreRef 0; Mutate 0 (fun _ => 9)] in
  shared w <> [] /\ lib_values w = [[(9, 0)]] /\
  lib_values (run empty [CallerNew [(0, 7, 0)]; CallStore 0; Mutate 0 (fun _ => 9)]) = [[(7, 0)]].
Proof. vm_compute. repeat split; discriminate. Qed.

Theorem returning_a_reference_refuted :
  let w := run empty [CallerNew [(0, 7, 0)]; CallStore 0; CallReturnRef 0; Mutate 1 (fun _ => 9)] in
  shared w <> [] /\ lib_values w = [[(9, 0)]].
Proof. vm_compute. split; [discriminate | reflexivity]. Qed.

(* a shallow copy is a reference to the inner objects *)
Definition shallow (next : nat) (o : obj) : obj :=
  match o with [] => [] | (_, v, d) :: t => (next, v, d) :: t end.
