(* Lemmas about Model/Training.v *)
From Coq Require Import List QArith Qabs Bool Arith Lia Lqa.
From NV Require Import Base.Exn Model.FitCore Model.Training.
Import ListNotations.
Local Open Scope Q_scope.

(* ---- select ---------------------------------------------------------------------- *)
Lemma select_combine {A B} (m : list bool) : forall (a : list A) (b : list B),
  length a = length b ->
  combine (select m a) (select m b) = select m (combine a b).
Proof.
  induction m as [|x m IH]; intros a b Hl.
  - destruct a; destruct b; reflexivity.
  - destruct a as [|u a]; destruct b as [|v b]; simpl in *; try discriminate.
    + destruct x; reflexivity.
    + destruct x; simpl; [f_equal|]; apply IH; lia.
Qed.

Lemma select_Forall2 {A B} (R : A -> B -> Prop) (m : list bool) : forall a b,
  Forall2 R a b -> Forall2 R (select m a) (select m b).
Proof.
  induction m as [|x m IH]; intros a b H.
  - destruct a; destruct b; simpl; constructor.
  - inversion H; subst; simpl.
    + destruct x; constructor.
    + destruct x; [constructor; [assumption | apply IH; assumption] | apply IH; assumption].
Qed.

(* selecting with a mask that implies "not NaN" leaves no NaN *)
Lemma select_no_nan (m : list bool) : forall c,
  Forall2 (fun b x => b = true -> is_nan x = false) m c ->
  existsb is_nan (select m c) = false.
Proof.
  induction m as [|b m IH]; intros c H.
  - destruct c; reflexivity.
  - inversion H; subst. destruct b; simpl.
    + rewrite H2 by reflexivity. apply IH. assumption.
    + apply IH. assumption.
Qed.

(* ---- valid rows ------------------------------------------------------------------------ *)
Lemma map2_andb_l a : forall b, length a = length b ->
  Forall2 (fun m x => m = true -> x = true) (map2 andb a b) a.
Proof.
  induction a as [|x a IH]; intros [|y b] Hl; simpl in *; try discriminate; constructor.
  - intros H. apply andb_prop in H. tauto.
  - apply IH. lia.
Qed.

Lemma map2_andb_r a : forall b, length a = length b ->
  Forall2 (fun m x => m = true -> x = true) (map2 andb a b) b.
Proof.
  induction a as [|x a IH]; intros [|y b] Hl; simpl in *; try discriminate; constructor.
  - intros H. apply andb_prop in H. tauto.
  - apply IH. lia.
Qed.

Lemma map2_length {A B C} (f : A -> B -> C) a : forall b, length a = length b ->
  length (map2 f a b) = length a.
Proof.
  induction a as [|x a IH]; intros [|y b] Hl; simpl in *; try discriminate; try reflexivity.
  f_equal. apply IH. lia.
Qed.

Lemma valid_rows_length n cols :
  Forall (fun c => length c = n) cols -> length (valid_rows n cols) = n.
Proof.
  induction cols as [|c cols IH]; intros H; simpl.
  - apply repeat_length.
  - inversion H; subst. rewrite map2_length; rewrite map_length; [reflexivity|].
    symmetry. apply IH. assumption.
Qed.

Lemma Forall2_imp_trans {A} (a b : list bool) (c : list A) (P : A -> Prop) :
  Forall2 (fun m x => m = true -> x = true) a b ->
  Forall2 (fun x y => x = true -> P y) b c ->
  Forall2 (fun m y => m = true -> P y) a c.
Proof.
  intros H. revert c. induction H; intros c0 H2; inversion H2; subst; constructor; auto.
Qed.

Lemma F2_length {A B} (R : A -> B -> Prop) a b : Forall2 R a b -> length a = length b.
Proof. induction 1; simpl; [reflexivity | f_equal; assumption]. Qed.

Lemma valid_rows_sound n cols :
  Forall (fun c => length c = n) cols ->
  Forall (fun c => Forall2 (fun b x => b = true -> is_nan x = false) (valid_rows n cols) c) cols.
Proof.
  induction cols as [|c cols IH]; intros H; [constructor|].
  inversion H as [|? ? Hc Hcs]; subst. specialize (IH Hcs). simpl.
  assert (Hl : length (map (fun x => negb (is_nan x)) c) = length (valid_rows (length c) cols)).
  { rewrite map_length, valid_rows_length; [reflexivity | assumption]. }
  constructor.
  - eapply Forall2_imp_trans; [apply map2_andb_l; exact Hl|].
    clear. induction c; simpl; constructor; [|assumption].
    intros E. apply negb_true_iff in E. exact E.
  - rewrite Forall_forall in IH |- *. intros c' Hin. specialize (IH c' Hin).
    revert IH. generalize (valid_rows (length c) cols) as v. intros v IH.
    pose proof (map2_andb_r (map (fun x => negb (is_nan x)) c) v) as G.
    assert (Hl' : length (map (fun x => negb (is_nan x)) c) = length v).
    { rewrite map_length. rewrite Forall_forall in Hcs.
      apply F2_length in IH. rewrite IH. symmetry. apply Hcs. exact Hin. }
    specialize (G Hl'). clear - G IH.
    revert c' IH. induction G; intros c' IH; inversion IH; subst; constructor; auto.
Qed.

(* ---- inf replacement --------------------------------------------------------------------- *)
Definition frame (x y : xnum) : Prop := forall q, x = XFin q -> y = XFin q.

Lemma frame_refl l : Forall2 frame l l.
Proof. induction l; constructor; [intros q H; exact H | assumption]. Qed.

Lemma all_fin_of_clean col :
  existsb is_nan col = false -> existsb is_inf col = false -> forallb is_fin col = true.
Proof.
  induction col as [|x col IH]; simpl; intros H1 H2; [reflexivity|].
  apply orb_false_iff in H1, H2. destruct H1, H2. destruct x; simpl in *; try discriminate.
  apply IH; assumption.
Qed.

Lemma qabs_max_some l : (exists q, In (XFin q) l) -> exists m, qabs_max l = Some m.
Proof.
  induction l as [|x l IH]; intros [q Hq]; [destruct Hq|].
  simpl. destruct x; try (destruct Hq as [Hq|Hq]; [discriminate|]; apply IH; eauto).
  destruct (qabs_max l); eauto.
Qed.

Lemma replace_inf_col_frame col col' :
  replace_inf_col col = Ok col' -> Forall2 frame col col'.
Proof.
  unfold replace_inf_col. destruct (existsb is_inf col).
  - destruct (filter (fun x => negb (is_inf x)) col) as [|y l] eqn:Ef; [discriminate|].
    destruct (qabs_max (y :: l)) as [m|]; intros H; inversion H; subst; clear.
    + induction col as [|x col IH]; simpl; constructor; [|exact IH].
      intros q E. subst. reflexivity.
    + induction col as [|x col IH]; simpl; constructor; [|exact IH].
      intros q E. subst. reflexivity.
  - intros H. inversion H. apply frame_refl.
Qed.

Lemma replace_inf_col_clean col col' :
  existsb is_nan col = false -> replace_inf_col col = Ok col' -> forallb is_fin col' = true.
Proof.
  intros Hn. unfold replace_inf_col. destruct (existsb is_inf col) eqn:Ei.
  - destruct (filter (fun x => negb (is_inf x)) col) as [|y l] eqn:Ef; [discriminate|].
    assert (Hy : exists q, In (XFin q) (y :: l)).
    { assert (Hin : In y (filter (fun x => negb (is_inf x)) col)) by (rewrite Ef; left; reflexivity).
      apply filter_In in Hin. destruct Hin as [Hin Hni].
      destruct y; simpl in Hni; try discriminate.
      - exfalso. assert (existsb is_nan col = true).
        { apply existsb_exists. exists XNan. split; [exact Hin | reflexivity]. } congruence.
      - exists q. left. reflexivity. }
    destruct (qabs_max_some _ Hy) as [m Hm]. rewrite Hm. intros H. inversion H; subst. clear - Hn.
    induction col as [|x col IH]; simpl in *; [reflexivity|].
    apply orb_false_iff in Hn. destruct Hn as [H1 H2]. destruct x; simpl in *; try discriminate;
      apply IH; assumption.
  - intros H. inversion H; subst. apply all_fin_of_clean; assumption.
Qed.

Lemma all_ok_Forall2 {A} (l : list (res A)) out :
  all_ok l = Ok out -> Forall2 (fun r a => r = Ok a) l out.
Proof.
  revert out. induction l as [|r l IH]; intros out H; simpl in H.
  - inversion H. constructor.
  - destruct r as [a|e]; [|discriminate].
    destruct (all_ok l) as [o|e]; simpl in H; [|discriminate]. inversion H; subst.
    constructor; [reflexivity | apply IH; reflexivity].
Qed.

(* ---- imputation -------------------------------------------------------------------------- *)
Lemma map2_frame (f : bool -> xnum -> xnum) (m : list bool) : forall col,
  (forall b x q, x = XFin q -> f b x = XFin q) ->
  Forall2 frame col (map2 f m col) \/ length m <> length col.
Proof.
  induction m as [|b m IH]; intros col Hf.
  - destruct col; [left; constructor | right; simpl; lia].
  - destruct col as [|x col]; [right; simpl; lia|]. simpl.
    destruct (IH col Hf) as [H|H]; [left | right; simpl; lia].
    constructor; [|exact H]. intros q E. apply Hf. exact E.
Qed.

Lemma impute_col_frame zero col : length zero = length col ->
  Forall2 frame col (impute_col zero col).
Proof.
  intros Hl. unfold impute_col.
  destruct (existsb _ _ && existsb _ _); [|apply frame_refl].
  set (coloc := map2 (fun (z : bool) (x : xnum) => z && is_nan x) zero col).
  assert (Hc : length coloc = length col).
  { unfold coloc. rewrite map2_length; assumption. }
  set (rv := xmean _).
  (* only NaN entries are replaced *)
  assert (G : forall z c, length z = length c ->
            Forall2 frame c (map2 (fun (b : bool) (x : xnum) => if b then rv else x)
                                  (map2 (fun (z0 : bool) (x : xnum) => z0 && is_nan x) z c) c)).
  { induction z as [|b z IH]; intros [|x c] H; simpl in *; try discriminate; constructor.
    - intros q E. subst. simpl. rewrite andb_false_r. reflexivity.
    - apply IH. lia. }
  apply G. exact Hl.
Qed.

(* ---- sample weights ---------------------------------------------------------------------- *)
Lemma qsum_app a b : qsum (a ++ b) == qsum a + qsum b.
Proof. induction a as [|x a IH]; simpl; [ring | rewrite IH; ring]. Qed.

Lemma raw_weight_nonneg ys y : 0 <= raw_weight ys y.
Proof.
  unfold raw_weight. destruct ((0 <=? y)%Z && (y <=? 10)%Z); [|lra].
  destruct (occur y ys) as [|n]; [lra|].
  unfold Qdiv. rewrite Qmult_1_l. apply Qinv_le_0_compat.
  unfold Qle. simpl. lia.
Qed.

Lemma qsum_nonneg l : Forall (fun w => 0 <= w) l -> 0 <= qsum l.
Proof. induction 1; simpl; [lra | lra]. Qed.

Lemma sample_weight_nonneg ys : Forall (fun w => 0 <= w) (sample_weight ys).
Proof.
  unfold sample_weight. set (raw := map (raw_weight ys) ys).
  assert (Hr : Forall (fun w => 0 <= w) raw).
  { apply Forall_forall. intros w Hw. apply in_map_iff in Hw. destruct Hw as [y [<- _]].
    apply raw_weight_nonneg. }
  pose proof (qsum_nonneg raw Hr) as Hs.
  apply Forall_forall. intros w Hw. apply in_map_iff in Hw. destruct Hw as [r [<- Hin]].
  rewrite Forall_forall in Hr. specialize (Hr r Hin).
  destruct (Qeq_dec (qsum raw) 0) as [E|E].
  - rewrite E. unfold Qdiv. rewrite Qmult_0_r. lra.
  - unfold Qdiv. apply Qmult_le_0_compat; [exact Hr|]. apply Qinv_le_0_compat. exact Hs.
Qed.

Lemma qsum_div l s : ~ s == 0 -> qsum (map (fun w => w / s) l) == qsum l / s.
Proof.
  intros Hs. induction l as [|x l IH]; simpl.
  - unfold Qdiv. ring.
  - rewrite IH. field. exact Hs.
Qed.

Lemma sample_weight_sum ys : ~ qsum (map (raw_weight ys) ys) == 0 ->
  qsum (sample_weight ys) == 1.
Proof.
  intros Hs. unfold sample_weight. rewrite qsum_div by exact Hs. field. exact Hs.
Qed.

(* every class that is present carries the same total raw weight 1 *)
Lemma class_sum_const c a l :
  qsum (map (fun y => if Z.eqb c y then a else 0) l) == inject_Z (Z.of_nat (occur c l)) * a.
Proof.
  unfold occur. induction l as [|y l IH]; simpl; [ring|].
  destruct (Z.eqb c y); simpl length.
  - rewrite IH. rewrite Nat2Z.inj_succ. unfold Z.succ. rewrite inject_Z_plus. ring.
  - rewrite IH. ring.
Qed.

Lemma class_total_raw ys c : (0 <= c <= 10)%Z -> (0 < occur c ys)%nat ->
  qsum (map (fun y => if Z.eqb c y then raw_weight ys y else 0) ys) == 1.
Proof.
  intros Hc Ho.
  assert (E : forall l, qsum (map (fun y => if Z.eqb c y then raw_weight ys y else 0) l)
                        == qsum (map (fun y => if Z.eqb c y then raw_weight ys c else 0) l)).
  { induction l as [|y l IH]; simpl; [reflexivity|].
    destruct (Z.eqb c y) eqn:Ey; [apply Z.eqb_eq in Ey; subst y|]; rewrite IH; reflexivity. }
  rewrite E, class_sum_const. unfold raw_weight.
  assert (Hb : ((0 <=? c)%Z && (c <=? 10)%Z) = true).
  { apply andb_true_intro. split; apply Z.leb_le; lia. }
  rewrite Hb. destruct (occur c ys) as [|n] eqn:En; [lia|].
  field. intros H. unfold Qeq in H. simpl in H. lia.
Qed.

(* ---- lengths ------------------------------------------------------------------------------ *)
Lemma impute_col_length zero col : length zero = length col ->
  length (impute_col zero col) = length col.
Proof.
  intros Hl. unfold impute_col. destruct (existsb _ _ && existsb _ _); [|reflexivity].
  rewrite map2_length; rewrite map2_length; auto.
Qed.

(* ---- the loader with all flags on ------------------------------------------------------------ *)
Lemma all_ok_map_select valid : forall cols1 cols3,
  Forall2 (fun (r : res (list xnum)) (a : list xnum) => r = Ok a)
          (map replace_inf_col (map (select valid) cols1)) cols3 ->
  Forall2 (fun c1 c3 => replace_inf_col (select valid c1) = Ok c3) cols1 cols3.
Proof.
  induction cols1 as [|c cs IH]; intros cols3 E; simpl in E; inversion E; subst; constructor; auto.
Qed.

Lemma load_all_flags cols resp cols3 resp3 :
  Forall (fun c => length c = length resp) cols ->
  load true true true cols resp = Ok (cols3, resp3) ->
  let cols1 := impute (map (fun y => Qeq_bool y 0) resp) cols in
  let valid := valid_rows (length resp) cols1 in
  resp3 = select valid resp /\
  Forall2 (fun c1 c3 => replace_inf_col (select valid c1) = Ok c3) cols1 cols3 /\
  Forall (fun c1 => length c1 = length resp) cols1 /\
  Forall2 (fun c c1 => Forall2 frame c c1) cols cols1.
Proof.
  intros Hlen H. cbv zeta. unfold load, remove_nan in H.
  set (cols1 := impute (map (fun y => Qeq_bool y 0) resp) cols) in *.
  set (valid := valid_rows (length resp) cols1) in *.
  unfold replace_inf in H.
  destruct (all_ok (map replace_inf_col (map (select valid) cols1))) as [c3|e] eqn:E; simpl in H;
    [|discriminate].
  inversion H; subst. clear H. split; [reflexivity|].
  apply all_ok_Forall2 in E. split.
  - apply all_ok_map_select. exact E.
  - split.
    + unfold cols1, impute. apply Forall_forall. intros c1 Hin. apply in_map_iff in Hin.
      destruct Hin as [c [<- Hc]]. rewrite Forall_forall in Hlen.
      rewrite impute_col_length; [apply Hlen; exact Hc|].
      rewrite map_length. symmetry. apply Hlen. exact Hc.
    + unfold cols1, impute. clear - Hlen. induction cols as [|c cs IH]; simpl; constructor.
      * apply impute_col_frame. inversion Hlen; subst. rewrite map_length. symmetry. assumption.
      * apply IH. inversion Hlen; assumption.
Qed.

Lemma clean_cols valid cols1 cols3 :
  Forall2 (fun c1 c3 => replace_inf_col (select valid c1) = Ok c3) cols1 cols3 ->
  Forall (fun c => Forall2 (fun b x => b = true -> is_nan x = false) valid c) cols1 ->
  Forall (fun c => forallb is_fin c = true) cols3.
Proof.
  intros H2. induction H2; intros Hs; constructor.
  - inversion Hs; subst. eapply replace_inf_col_clean; [|eassumption].
    apply select_no_nan. assumption.
  - apply IHForall2. inversion Hs; assumption.
Qed.

Lemma frame_trans a b : Forall2 frame a b -> forall c0, Forall2 frame b c0 -> Forall2 frame a c0.
Proof.
  induction 1 as [|x y la lb Hxy Hab IH]; intros c0 Hb; inversion Hb as [|y' z lb' lc Hyz Hbc]; subst;
    constructor.
  - intros q E. apply Hyz. apply Hxy. exact E.
  - apply IH. exact Hbc.
Qed.

Lemma frame_cols valid cols cols1 cols3 :
  Forall2 (fun c c1 => Forall2 frame c c1) cols cols1 ->
  Forall2 (fun c1 c3 => replace_inf_col (select valid c1) = Ok c3) cols1 cols3 ->
  Forall2 (fun c c3 => Forall2 frame (select valid c) c3) cols cols3.
Proof.
  intros H4. revert cols3. induction H4; intros cols3 H2; inversion H2; subst; constructor.
  - eapply frame_trans; [apply select_Forall2; eassumption|].
    apply replace_inf_col_frame. assumption.
  - apply IHForall2. assumption.
Qed.

Lemma load_clean cols resp cols3 resp3 :
  Forall (fun c => length c = length resp) cols ->
  load true true true cols resp = Ok (cols3, resp3) ->
  Forall (fun c => forallb is_fin c = true) cols3.
Proof.
  intros Hlen H. destruct (load_all_flags _ _ _ _ Hlen H) as [_ [H2 [H3 _]]].
  pose proof (valid_rows_sound _ _ H3) as Hs.
  eapply clean_cols; eassumption.
Qed.

Lemma load_frame cols resp cols3 resp3 :
  Forall (fun c => length c = length resp) cols ->
  load true true true cols resp = Ok (cols3, resp3) ->
  exists valid, resp3 = select valid resp /\
    Forall2 (fun c c3 => Forall2 frame (select valid c) c3) cols cols3.
Proof.
  intros Hlen H. destruct (load_all_flags _ _ _ _ Hlen H) as [H1 [H2 [_ H4]]].
  eexists. split; [exact H1|]. eapply frame_cols; eassumption.
Qed.

Lemma all_inf_column_rejected col : col <> [] -> forallb is_inf col = true ->
  replace_inf_col col = Err ValueError.
Proof.
  intros Hne H. unfold replace_inf_col.
  assert (E1 : existsb is_inf col = true).
  { destruct col as [|x col]; [contradiction|]. simpl in *. apply andb_prop in H. destruct H as [H _].
    rewrite H. reflexivity. }
  rewrite E1.
  assert (E2 : filter (fun x => negb (is_inf x)) col = []).
  { clear - H. induction col as [|x col IH]; [reflexivity|]. simpl in *.
    apply andb_prop in H. destruct H as [H1 H2]. rewrite H1. simpl. apply IH. exact H2. }
  rewrite E2. reflexivity.
Qed.
