(* R instance of Model/Median.v and its theorems. *)
From Coq Require Import List Bool Arith Reals Lra Lia Permutation Sorted PrimFloat.
From NV Require Import Base.Exn Model.FitCore Model.Steps Model.Median Proofs.FitCoreP Proofs.StepsP.

Import ListNotations.
Local Open Scope R_scope.

Definition r_leb (x y : R) : bool := if Rle_dec x y then true else false.
Lemma r_leb_true x y : r_leb x y = true <-> x <= y.
Proof. unfold r_leb. destruct (Rle_dec x y); split; intros; (assumption || congruence || reflexivity). Qed.
Lemma r_leb_false x y : r_leb x y = false <-> y < x.
Proof. unfold r_leb. destruct (Rle_dec x y); split; intros; try congruence; lra. Qed.

Definition r_insert := insert R r_leb.
Definition r_isort := isort R r_leb.
Definition r_window := window R 0.
Definition r_median_filter := median_filter R r_leb 0.
Definition r_diffs := Median.diffs R Rminus.
Definition r_one_sign := one_sign R r_leb 0.
Definition r_widen := widen R Rminus r_leb 0.
Definition r_smooth := smooth_axis_monotone R Rplus Rminus Rmult Rdiv r_leb r_eqb 0 INR.

(* ---- insertion sort: a sorted permutation --------------------------------- *)
Lemma insert_perm x l : Permutation (r_insert x l) (x :: l).
Proof.
  induction l as [|y t IH]; simpl; [reflexivity|].
  destruct (r_leb x y); [reflexivity|].
  rewrite perm_swap. apply perm_skip. exact IH.
Qed.

Lemma isort_perm l : Permutation (r_isort l) l.
Proof.
  induction l as [|x t IH]; simpl; [reflexivity|].
  unfold r_isort in *. simpl. fold (r_insert x (isort R r_leb t)).
  rewrite insert_perm. apply perm_skip. exact IH.
Qed.

Lemma insert_sorted x l : StronglySorted Rle l -> StronglySorted Rle (r_insert x l).
Proof.
  induction 1 as [|y t Hs IH Hf]; simpl; [repeat constructor|].
  destruct (r_leb x y) eqn:E.
  - apply r_leb_true in E. constructor; [constructor; assumption|].
    constructor; [exact E|]. eapply Forall_impl; [|exact Hf]. intros z Hz. simpl in Hz. lra.
  - apply r_leb_false in E. constructor; [exact IH|].
    assert (P : Permutation (r_insert x t) (x :: t)) by apply insert_perm.
    apply Forall_forall. intros z Hz.
    apply (Permutation_in _ P) in Hz. destruct Hz as [<-|Hz]; [lra|].
    rewrite Forall_forall in Hf. apply Hf. exact Hz.
Qed.

Lemma isort_sorted l : StronglySorted Rle (r_isort l).
Proof.
  induction l as [|x t IH]; simpl; [constructor|].
  unfold r_isort. simpl. apply insert_sorted. exact IH.
Qed.

(* a sorted list is determined by its elements *)
Lemma sorted_perm_unique : forall a b,
  StronglySorted Rle a -> StronglySorted Rle b -> Permutation a b -> a = b.
Proof.
  induction a as [|x a IH]; intros b Ha Hb P.
  - apply Permutation_nil in P. symmetry. exact P.
  - destruct b as [|y b]; [apply Permutation_sym, Permutation_nil in P; discriminate|].
    apply StronglySorted_inv in Ha. destruct Ha as [Ha Hxa].
    apply StronglySorted_inv in Hb. destruct Hb as [Hb Hyb].
    rewrite Forall_forall in Hxa, Hyb.
    assert (Exy : x = y).
    { assert (Hy : In y (x :: a)) by (apply (Permutation_in _ (Permutation_sym P)); left; reflexivity).
      assert (Hx : In x (y :: b)) by (apply (Permutation_in _ P); left; reflexivity).
      destruct Hy as [Hy|Hy]; [exact Hy|]. destruct Hx as [Hx|Hx]; [symmetry; exact Hx|].
      apply Hxa in Hy. apply Hyb in Hx. lra. }
    subst y. f_equal. apply IH; try assumption.
    eapply Permutation_cons_inv. exact P.
Qed.

(* ---- index characterisation of sortedness ------------------------------------ *)
Lemma sorted_of_nth : forall l,
  (forall i j, (i < j < length l)%nat -> nth i l 0 <= nth j l 0) -> StronglySorted Rle l.
Proof.
  induction l as [|x t IH]; intros H; [constructor|].
  constructor.
  - apply IH. intros i j Hij. apply (H (S i) (S j)). simpl. lia.
  - apply Forall_forall. intros z Hz. destruct (In_nth _ _ 0 Hz) as [k [Hk <-]].
    apply (H O (S k)). simpl. lia.
Qed.

Lemma map_seq_nth {A} (f : nat -> A) d : forall n s i, (i < n)%nat ->
  nth i (map f (seq s n)) d = f (s + i)%nat.
Proof.
  induction n as [|n IH]; intros s i Hi; [lia|]. destruct i as [|i]; simpl.
  - f_equal. lia.
  - rewrite IH by lia. f_equal. lia.
Qed.

Lemma map_nth_seq_id : forall (l : list R), map (fun i => nth i l 0) (seq 0 (length l)) = l.
Proof.
  intros l. apply (nth_ext _ _ 0 0); [rewrite map_length, seq_length; reflexivity|].
  intros i Hi. rewrite map_length, seq_length in Hi.
  rewrite (map_seq_nth (fun i => nth i l 0) 0) by exact Hi. reflexivity.
Qed.

(* ---- the median filter ------------------------------------------------------- *)
Lemma window_length w l i : length (r_window w l i) = w.
Proof. unfold r_window, window. rewrite map_length, seq_length. reflexivity. Qed.

Lemma window_nth w l i j : (j < w)%nat ->
  nth j (r_window w l i) 0 = nth (Nat.min (i + j - w / 2) (length l - 1)) l 0.
Proof.
  intros Hj. unfold r_window, window.
  rewrite (map_seq_nth (fun j => nth (Nat.min (i + j - w / 2) (length l - 1)) l 0) 0) by exact Hj.
  reflexivity.
Qed.

Lemma median_filter_length w l : length (r_median_filter w l) = length l.
Proof. unfold r_median_filter, median_filter. rewrite map_length, seq_length. reflexivity. Qed.

Lemma median_filter_nth w l i : (i < length l)%nat ->
  nth i (r_median_filter w l) 0 = nth (w / 2) (r_isort (r_window w l i)) 0.
Proof.
  intros Hi. unfold r_median_filter, median_filter.
  rewrite (map_seq_nth (fun i => nth (w / 2) (isort R r_leb (window R 0 w l i)) 0) 0) by exact Hi.
  reflexivity.
Qed.

Lemma half_lt w : (0 < w)%nat -> (w / 2 < w)%nat.
Proof. intros H. apply Nat.div_lt; lia. Qed.

(* every output sample is one of the input samples *)
Lemma median_filter_In w l i : (0 < w)%nat -> (i < length l)%nat ->
  In (nth i (r_median_filter w l) 0) l.
Proof.
  intros Hw Hi. rewrite median_filter_nth by exact Hi.
  assert (Hin : In (nth (w / 2) (r_isort (r_window w l i)) 0) (r_isort (r_window w l i))).
  { apply nth_In. rewrite (Permutation_length (isort_perm _)), window_length. apply half_lt. exact Hw. }
  apply (Permutation_in _ (isort_perm _)) in Hin.
  destruct (In_nth _ _ 0 Hin) as [j [Hj <-]]. rewrite window_length in Hj.
  rewrite window_nth by exact Hj. apply nth_In. lia.
Qed.

(* weakly increasing data pass the filter unchanged, whatever the window *)
Lemma median_filter_asc_id w l : (0 < w)%nat ->
  (forall i j, (i < j < length l)%nat -> nth i l 0 <= nth j l 0) ->
  r_median_filter w l = l.
Proof.
  intros Hw Hasc.
  assert (Hle : forall i j, (i <= j < length l)%nat -> nth i l 0 <= nth j l 0).
  { intros i j Hij. destruct (Nat.eq_dec i j) as [->|N]; [lra | apply Hasc; lia]. }
  apply (nth_ext _ _ 0 0); [apply median_filter_length|].
  intros i Hi. rewrite median_filter_length in Hi. rewrite median_filter_nth by exact Hi.
  assert (Es : r_isort (r_window w l i) = r_window w l i).
  { apply sorted_perm_unique; [apply isort_sorted | | apply isort_perm].
    apply sorted_of_nth. intros a b Hab. rewrite window_length in Hab.
    rewrite !window_nth by lia. apply Hle. lia. }
  rewrite Es, window_nth by (apply half_lt; exact Hw).
  f_equal. lia.
Qed.

(* weakly decreasing data pass a filter of odd window unchanged *)
Lemma median_filter_desc_id h l :
  (forall i j, (i < j < length l)%nat -> nth j l 0 <= nth i l 0) ->
  r_median_filter (2 * h + 1) l = l.
Proof.
  intros Hdesc. set (w := (2 * h + 1)%nat).
  assert (Hh : (w / 2 = h)%nat).
  { unfold w. replace (2 * h + 1)%nat with (1 + h * 2)%nat by lia.
    rewrite Nat.div_add by lia. reflexivity. }
  assert (Hle : forall i j, (i <= j < length l)%nat -> nth j l 0 <= nth i l 0).
  { intros i j Hij. destruct (Nat.eq_dec i j) as [->|N]; [lra | apply Hdesc; lia]. }
  apply (nth_ext _ _ 0 0); [apply median_filter_length|].
  intros i Hi. rewrite median_filter_length in Hi. rewrite median_filter_nth by exact Hi.
  assert (Es : r_isort (r_window w l i) = rev (r_window w l i)).
  { apply sorted_perm_unique; [apply isort_sorted | |].
    - apply sorted_of_nth. intros a b Hab. rewrite rev_length, window_length in Hab.
      rewrite !rev_nth by (rewrite window_length; lia). rewrite window_length.
      rewrite !window_nth by lia. apply Hle. lia.
    - rewrite isort_perm. apply Permutation_rev. }
  rewrite Es, rev_nth by (rewrite window_length; lia).
  rewrite window_length, window_nth by lia. f_equal. lia.
Qed.

(* ---- the window-doubling loop and the whole function ------------------------------- *)
Lemma r_diffs_eq : forall l, r_diffs l = StepsP.diffs l.
Proof.
  unfold r_diffs, Median.diffs. induction l as [|a l IH]; [reflexivity|].
  destruct l as [|b t]; [reflexivity|].
  change (StepsP.diffs (a :: b :: t)) with ((b - a) :: StepsP.diffs (b :: t)).
  rewrite <- IH. reflexivity.
Qed.

Lemma diffs_nonpos_monotone : forall l, (forall d, In d (StepsP.diffs l) -> d <= 0) ->
  forall i, (S i < length l)%nat -> nth (S i) l 0 <= nth i l 0.
Proof.
  induction l as [|a l IH]; intros H i Hi; [simpl in Hi; lia|].
  destruct l as [|b l]; [simpl in Hi; lia|]. destruct i as [|i].
  - simpl. assert (b - a <= 0); [apply H; simpl; left; reflexivity | lra].
  - change (nth (S i) (a :: b :: l) 0) with (nth i (b :: l) 0).
    change (nth (S (S i)) (a :: b :: l) 0) with (nth (S i) (b :: l) 0).
    apply IH; [|simpl in *; lia]. intros d Hd. apply H. simpl. right. exact Hd.
Qed.

Lemma one_sign_monotone s : r_one_sign (r_diffs s) = true ->
  (forall i, (S i < length s)%nat -> nth i s 0 <= nth (S i) s 0) \/
  (forall i, (S i < length s)%nat -> nth (S i) s 0 <= nth i s 0).
Proof.
  unfold r_one_sign, one_sign. rewrite r_diffs_eq, orb_true_iff, !forallb_forall.
  intros [H|H]; [left | right].
  - apply diffs_nonneg_monotone. intros d Hd. apply r_leb_true. apply H. exact Hd.
  - apply diffs_nonpos_monotone. intros d Hd. apply r_leb_true. apply H. exact Hd.
Qed.

Lemma diffs_of_asc : forall l, (forall i, (S i < length l)%nat -> nth i l 0 <= nth (S i) l 0) ->
  forall d, In d (StepsP.diffs l) -> 0 <= d.
Proof.
  induction l as [|a l IH]; intros H d Hd; [destruct Hd|].
  destruct l as [|b t]; [destruct Hd|].
  change (StepsP.diffs (a :: b :: t)) with ((b - a) :: StepsP.diffs (b :: t)) in Hd.
  destruct Hd as [<-|Hd].
  - specialize (H O). simpl in H. assert (a <= b) by (apply H; lia). lra.
  - apply IH; [|exact Hd]. intros i Hi. apply (H (S i)). simpl in *. lia.
Qed.

Lemma diffs_of_desc : forall l, (forall i, (S i < length l)%nat -> nth (S i) l 0 <= nth i l 0) ->
  forall d, In d (StepsP.diffs l) -> d <= 0.
Proof.
  induction l as [|a l IH]; intros H d Hd; [destruct Hd|].
  destruct l as [|b t]; [destruct Hd|].
  change (StepsP.diffs (a :: b :: t)) with ((b - a) :: StepsP.diffs (b :: t)) in Hd.
  destruct Hd as [<-|Hd].
  - specialize (H O). simpl in H. assert (b <= a) by (apply H; lia). lra.
  - apply IH; [|exact Hd]. intros i Hi. apply (H (S i)). simpl in *. lia.
Qed.

Lemma one_sign_of_monotone s :
  (forall i, (S i < length s)%nat -> nth i s 0 <= nth (S i) s 0) \/
  (forall i, (S i < length s)%nat -> nth (S i) s 0 <= nth i s 0) ->
  r_one_sign (r_diffs s) = true.
Proof.
  unfold r_one_sign, one_sign. rewrite r_diffs_eq, orb_true_iff, !forallb_forall.
  intros [H|H]; [left | right]; intros d Hd; apply r_leb_true.
  - eapply diffs_of_asc; eassumption.
  - eapply diffs_of_desc; eassumption.
Qed.

(* what the first loop hands to the second: the filter output for the window it
   stopped at, weakly monotone *)
Lemma widen_spec : forall fuel w data w' s, r_widen fuel w data = Ok (w', s) ->
  s = r_median_filter w' data /\
  ((forall i, (S i < length s)%nat -> nth i s 0 <= nth (S i) s 0) \/
   (forall i, (S i < length s)%nat -> nth (S i) s 0 <= nth i s 0)).
Proof.
  induction fuel as [|f IH]; intros w data w' s H; [discriminate|].
  unfold r_widen in H. simpl in H.
  fold (r_median_filter w data) in H. fold (r_diffs (r_median_filter w data)) in H.
  fold (r_one_sign (r_diffs (r_median_filter w data))) in H.
  destruct (r_one_sign (r_diffs (r_median_filter w data))) eqn:E.
  - inversion H; subst. split; [reflexivity | apply one_sign_monotone; exact E].
  - apply IH in H. exact H.
Qed.

Lemma widen_exhausted w data : r_widen 0 w data = Err ValueError.
Proof. reflexivity. Qed.

Lemma smooth_spec m w data out : r_smooth m w data = Ok out ->
  exists w' s, r_widen m w data = Ok (w', s) /\ r_tiebreak m s = Ok out.
Proof.
  unfold r_smooth, smooth_axis_monotone. fold (r_widen m w data).
  destruct (r_widen m w data) as [[w' s]|e] eqn:E; simpl; [|discriminate].
  intros H. exists w', s. split; [reflexivity | exact H].
Qed.

(* the whole function: same number of samples, pairwise distinct, every sample
   the tie-breaking loop did not move is an input sample *)
Lemma smooth_length_distinct m w data out : r_smooth m w data = Ok out ->
  length out = length data /\ NoDup out.
Proof.
  intros H. destruct (smooth_spec _ _ _ _ H) as [w' [s [Hw Ht]]].
  destruct (widen_spec _ _ _ _ _ Hw) as [Es _]. split.
  - rewrite (tiebreak_length _ _ _ Ht), Es. apply median_filter_length.
  - eapply tiebreak_distinct. exact Ht.
Qed.

(* strictly monotone data are a fixed point: no widening, no tie-breaking *)
Lemma NoDup_of_strict l :
  (forall i j, (i < j < length l)%nat -> nth i l 0 <> nth j l 0) -> NoDup l.
Proof.
  intros H. apply (NoDup_nth l 0). intros i j Hi Hj E.
  destruct (Nat.lt_trichotomy i j) as [L|[L|L]]; [|exact L|].
  - exfalso. apply (H i j); [lia | exact E].
  - exfalso. apply (H j i); [lia | symmetry; exact E].
Qed.

Lemma smooth_fixed m w data :
  r_median_filter w data = data ->
  ((forall i, (S i < length data)%nat -> nth i data 0 <= nth (S i) data 0) \/
   (forall i, (S i < length data)%nat -> nth (S i) data 0 <= nth i data 0)) ->
  NoDup data ->
  r_smooth (S m) w data = Ok data.
Proof.
  intros Hf Hm Hd. unfold r_smooth, smooth_axis_monotone. simpl.
  fold (r_median_filter w data). rewrite Hf.
  fold (r_diffs data). fold (r_one_sign (r_diffs data)).
  rewrite (one_sign_of_monotone _ Hm). simpl.
  fold r_all_distinct. rewrite (proj2 (all_distinct_NoDup data) Hd). reflexivity.
Qed.

Lemma smooth_fixed_asc m w data : (0 < w)%nat ->
  (forall i j, (i < j < length data)%nat -> nth i data 0 < nth j data 0) ->
  r_smooth (S m) w data = Ok data.
Proof.
  intros Hw H. apply smooth_fixed.
  - apply median_filter_asc_id; [exact Hw|]. intros i j Hij. apply Rlt_le. apply H. exact Hij.
  - left. intros i Hi. apply Rlt_le. apply H. lia.
  - apply NoDup_of_strict. intros i j Hij. apply Rlt_not_eq. apply H. exact Hij.
Qed.

Lemma smooth_fixed_desc m h data :
  (forall i j, (i < j < length data)%nat -> nth j data 0 < nth i data 0) ->
  r_smooth (S m) (2 * h + 1) data = Ok data.
Proof.
  intros H. apply smooth_fixed.
  - apply median_filter_desc_id. intros i j Hij. apply Rlt_le. apply H. exact Hij.
  - right. intros i Hi. apply Rlt_le. apply H. lia.
  - apply NoDup_of_strict. intros i j Hij. apply Rgt_not_eq. apply H. exact Hij.
Qed.

(* ---- why the exit test compares signs (repair of D28) ------------------------------- *)
(* the test used before, |sum d| = sum |d|, is equivalent over R (StepsP.sum_abs_eq_one_sign)
   but not in binary64: a contrary step below the rounding of the running sum is
   absorbed on both sides.  numpy adds fewer than eight numbers from left to right. *)
Definition f_sum (l : list PrimFloat.float) : PrimFloat.float :=
  fold_left PrimFloat.add l PrimFloat.zero.
Definition absorbed : list PrimFloat.float := [1; -0x1p-60; 1]%float.
Lemma sum_test_absorbs :
  PrimFloat.eqb (PrimFloat.abs (f_sum absorbed)) (f_sum (map PrimFloat.abs absorbed)) = true /\
  one_sign PrimFloat.float PrimFloat.leb PrimFloat.zero absorbed = false.
Proof. split; vm_compute; reflexivity. Qed.
