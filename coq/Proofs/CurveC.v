(* One-step theorems about preprocessing requests and the rating cache
   (C06, C09) and the no-recompute clause of C03. *)
From Coq Require Import List String ZArith QArith Bool Relations Lia.
From NV Require Import Base.Exn Base.PyVal Gen.Tables Model.Curve Proofs.CurveP Proofs.CurveG.
Import ListNotations.
Local Close Scope Q_scope.
Local Open Scope string_scope.

(* ---- a rejected request is not remembered ------------------------------------ *)
Lemma failed_forgets s p q r orc s' out :
  apply_pre_x s p q r orc = (s', out, PFailed) ->
  dhas "preprocessing" (fp s') = false /\ dhas "preprocessing_options" (fp s') = false /\
  pre s' = VList [] /\ popts s' = VDict [] /\ rating s' = None /\ cols s' = false /\
  exists e, out = Raised e.
Proof.
  unfold apply_pre_x. intros H.
  set (p' := match p with Some v => v | None => pre s end) in *.
  set (o' := match q with Some v => v | None => popts s end) in *.
  assert (G : forall differs,
    (if differs || (negb (details s) && r) then
      let d0 := fp_reset (fp s) in
      match fp_setitem d0 "preprocessing" p' with
      | Err e => (with_fp s d0, Raised e, PNone)
      | Ok d1 =>
        match fp_setitem d1 "preprocessing_options" o' with
        | Err e => (with_fp s d1, Raised e, PNone)
        | Ok d2 =>
          match o_pre orc with
          | Err e =>
              ({| pre := VList []; popts := VDict []; details := false;
                  fp := dpop "preprocessing_options" (dpop "preprocessing" d2);
                  cols := false; rating := None |}, Raised e, PFailed)
          | Ok _ =>
              let d3 := if dhas "x_axis" d2 && negb (o_xaxis orc) then dpop "x_axis" d2 else d2 in
              let d4 := if dhas "y_axis" d3 && negb (o_yaxis orc) then dpop "y_axis" d3 else d3 in
              ({| pre := p'; popts := o'; details := r && nonempty_seq p';
                  fp := d4; cols := false; rating := None |}, Done, PApplied)
          end
        end
      end
    else
      ({| pre := p'; popts := o'; details := details s; fp := fp s; cols := cols s;
          rating := rating s |}, Done, PSkipped)) = (s', out, PFailed) ->
    dhas "preprocessing" (fp s') = false /\ dhas "preprocessing_options" (fp s') = false /\
    pre s' = VList [] /\ popts s' = VDict [] /\ rating s' = None /\ cols s' = false /\
    exists e, out = Raised e).
  { intros differs HG. destruct (differs || (negb (details s) && r)); [|discriminate].
    cbv zeta in HG.
    destruct (fp_setitem (fp_reset (fp s)) "preprocessing" p') as [d1|e]; [|discriminate].
    destruct (fp_setitem d1 "preprocessing_options" o') as [d2|e]; [|discriminate].
    destruct (o_pre orc) as [u|e]; [discriminate|].
    inversion HG; subst. cbn [fp pre popts rating cols].
    rewrite !dhas_dpop. simpl. repeat split; eauto. }
  destruct (dhas "preprocessing" (fp s)).
  - destruct (assoc "preprocessing_options" (fp s)); [exact (G _ H) | discriminate].
  - exact (G true H).
Qed.

(* in a state that does not name a pipeline, no request is ever skipped *)
Lemma unnamed_never_skips s p q r orc :
  dhas "preprocessing" (fp s) = false ->
  snd (apply_pre_x s p q r orc) <> PSkipped.
Proof.
  intros Hn. unfold apply_pre_x. rewrite Hn. simpl.
  destruct (fp_setitem (fp_reset (fp s)) "preprocessing" _) as [d1|e]; simpl; [|discriminate].
  destruct (fp_setitem d1 "preprocessing_options" _) as [d2|e]; simpl; [|discriminate].
  destruct (o_pre orc); simpl; discriminate.
Qed.

(* ---- what a store of one of the two preprocessing keys leaves behind ------------ *)
Definition plain (v : pyval) : Prop := deepcopy v = v.

Lemma fp_setitem_plainkey d k v d' :
  fp_setitem d k v = Ok d' ->
  in_default k = true -> k <> "params_initial" -> k <> "model_key" -> k <> "range_x" ->
  k <> "segment" ->
  assoc k d' = Some (deepcopy v) /\
  (forall k', k' <> k -> in_default k' = true -> assoc k' d' = assoc k' d).
Proof.
  unfold fp_setitem. intros H Hd H1 H2 H3 H4.
  assert (Hn : norm_segment k v = v).
  { unfold norm_segment. destruct (String.eqb k "segment") eqn:E; [apply String.eqb_eq in E; congruence | reflexivity]. }
  rewrite Hn in H. rewrite Hd in H.
  assert (Ek : String.eqb k "params_initial" = false) by (apply String.eqb_neq; exact H1).
  rewrite Ek in H. rewrite andb_false_r in H. simpl in H.
  assert (Ch : forall dd, fp_changed d k v = Ok dd ->
             assoc k dd = Some (deepcopy v) /\
             (forall k', k' <> k -> in_default k' = true -> assoc k' dd = assoc k' d)).
  { intros dd Hc. unfold fp_changed in Hc.
    assert (Em : String.eqb k "model_key" = false) by (apply String.eqb_neq; exact H2).
    assert (Er : String.eqb k "range_x" = false) by (apply String.eqb_neq; exact H3).
    rewrite Em, Er in Hc. simpl in Hc. inversion Hc; subst. split.
    - apply assoc_dset_same.
    - intros k' Hne Hd'. rewrite assoc_dset_other by exact Hne. rewrite assoc_reset, Hd'. reflexivity. }
  destruct (assoc k d) as [old|] eqn:Eo.
  - destruct (py_eq old v).
    + inversion H; subst. split; [apply assoc_dset_same|].
      intros k' Hne _. apply assoc_dset_other. exact Hne.
    + apply Ch. exact H.
  - apply Ch. exact H.
Qed.

(* ---- re-applying the same pipeline changes nothing ------------------------------- *)
Lemma reapply_is_identity s p o r orc s' out :
  apply_pre_x s (Some p) (Some o) r orc = (s', out, PApplied) ->
  plain p -> plain o -> py_eq (VList [p; o]) (VList [p; o]) = true ->
  forall orc2, apply_pre_x s' (Some p) (Some o) false orc2 = (s', Done, PSkipped).
Proof.
  unfold apply_pre_x at 1. intros H Pp Po Hself orc2.
  assert (G : forall differs,
    (if differs || (negb (details s) && r) then
      let d0 := fp_reset (fp s) in
      match fp_setitem d0 "preprocessing" p with
      | Err e => (with_fp s d0, Raised e, PNone)
      | Ok d1 =>
        match fp_setitem d1 "preprocessing_options" o with
        | Err e => (with_fp s d1, Raised e, PNone)
        | Ok d2 =>
          match o_pre orc with
          | Err e =>
              ({| pre := VList []; popts := VDict []; details := false;
                  fp := dpop "preprocessing_options" (dpop "preprocessing" d2);
                  cols := false; rating := None |}, Raised e, PFailed)
          | Ok _ =>
              let d3 := if dhas "x_axis" d2 && negb (o_xaxis orc) then dpop "x_axis" d2 else d2 in
              let d4 := if dhas "y_axis" d3 && negb (o_yaxis orc) then dpop "y_axis" d3 else d3 in
              ({| pre := p; popts := o; details := r && nonempty_seq p;
                  fp := d4; cols := false; rating := None |}, Done, PApplied)
          end
        end
      end
    else
      ({| pre := p; popts := o; details := details s; fp := fp s; cols := cols s;
          rating := rating s |}, Done, PSkipped)) = (s', out, PApplied) ->
    assoc "preprocessing" (fp s') = Some p /\ assoc "preprocessing_options" (fp s') = Some o /\
    pre s' = p /\ popts s' = o).
  { intros differs HG. destruct (differs || (negb (details s) && r)); [|discriminate].
    cbv zeta in HG.
    destruct (fp_setitem (fp_reset (fp s)) "preprocessing" p) as [d1|e] eqn:E1; [|discriminate].
    destruct (fp_setitem d1 "preprocessing_options" o) as [d2|e] eqn:E2; [|discriminate].
    destruct (o_pre orc) as [u|e]; [|discriminate].
    destruct (fp_setitem_plainkey _ _ _ _ E1) as [A1 _];
      try (vm_compute; reflexivity); try discriminate.
    destruct (fp_setitem_plainkey _ _ _ _ E2) as [A2 B2];
      try (vm_compute; reflexivity); try discriminate.
    assert (A1' : assoc "preprocessing" d2 = Some p).
    { rewrite (B2 "preprocessing"); [rewrite A1, Pp; reflexivity | discriminate | vm_compute; reflexivity]. }
    rewrite Po in A2.
    inversion HG; subst. cbn [fp pre popts].
    destruct (dhas "x_axis" d2 && negb (o_xaxis orc));
      destruct (_ && negb (o_yaxis orc)); rewrite ?assoc_dpop; simpl; auto. }
  assert (Hs' : assoc "preprocessing" (fp s') = Some p /\ assoc "preprocessing_options" (fp s') = Some o /\
                pre s' = p /\ popts s' = o).
  { destruct (dhas "preprocessing" (fp s)).
    - destruct (assoc "preprocessing_options" (fp s)); [exact (G _ H) | discriminate].
    - exact (G true H). }
  destruct Hs' as [A1 [A2 [A3 A4]]].
  unfold apply_pre_x, dhas, dget. rewrite A1, A2. rewrite Hself. simpl.
  rewrite andb_false_r. simpl. destruct s'; simpl in *; subst; reflexivity.
Qed.

(* ---- repeating a fit with unchanged settings ---------------------------------------- *)
Lemma no_recompute s orc :
  dhas "hash" (fp s) = true -> dhas "model_key" (fp s) = true ->
  dhas "params_initial" (fp s) = true -> is_none (dget "params_initial" (fp s)) = false ->
  fit_model s [] orc = (s, Done, 0).
Proof.
  intros Hh Hm Hp Hn. unfold fit_model, fit_model_x.
  change (dhas "preprocessing" [] || dhas "preprocessing_options" []) with false. cbv iota.
  unfold fit_tail.
  change (set_all (fp s) (sorted_items [])) with (fp s, @None exn). cbv iota.
  rewrite Hm. cbv iota. rewrite Hp, Hn. cbn [negb orb]. cbv iota. rewrite Hh.
  destruct s; reflexivity.
Qed.

(* ---- the rating cache ------------------------------------------------------------------ *)
Definition curhash (s : cstate) : pyval :=
  if dhas "hash" (fp s) then dget "hash" (fp s) else VStr "none".

Lemma rate_none_regressor s r ts nm ld orc :
  String.eqb (lower r) "none" = true ->
  rate_quality s (VStr r) ts nm ld orc = (s, Value (VInt (-1))).
Proof. intros H. unfold rate_quality. rewrite H. reflexivity. Qed.

(* a cached value is returned only if all five components of the key agree *)
Lemma rate_cache_hit s r ts nm ld orc h rg t n l v :
  String.eqb (lower r) "none" = false ->
  rating s = Some (h, rg, t, n, l, v) ->
  (o_rate orc <> Ok v) ->
  rate_quality s (VStr r) ts nm ld orc = (s, Value v) ->
  py_eq h (curhash s) = true /\ py_eq rg (VStr r) = true /\ same_ts t ts = true /\
  py_eq n nm = true /\ py_eq l ld = true.
Proof.
  intros Hr Hc Ho. unfold rate_quality, curhash. rewrite Hr, Hc.
  destruct (negb (py_eq h (if dhas "hash" (fp s) then dget "hash" (fp s) else VStr "none"))
            || negb (py_eq rg (VStr r)) || negb (same_ts t ts) || negb (py_eq n nm)
            || negb (py_eq l ld)) eqn:E.
  - destruct (o_rate orc) as [rt|e]; intros H; inversion H; subst. congruence.
  - intros _. repeat (apply orb_false_iff in E; destruct E as [E ?]).
    repeat match goal with H : negb _ = false |- _ => apply negb_false_iff in H end. auto.
Qed.

Lemma rate_cache_miss s r ts nm ld orc :
  String.eqb (lower r) "none" = false ->
  (match rating s with
   | None => True
   | Some (h, rg, t, n, l, _) =>
       py_eq h (curhash s) = false \/ py_eq rg (VStr r) = false \/ same_ts t ts = false \/
       py_eq n nm = false \/ py_eq l ld = false
   end) ->
  match o_rate orc with
  | Ok v => exists s', rate_quality s (VStr r) ts nm ld orc = (s', Value v) /\
                       rating s' = Some (curhash s, VStr r, ts, nm, ld, v) /\ fp s' = fp s
  | Err e => rate_quality s (VStr r) ts nm ld orc = (s, Raised e)
  end.
Proof.
  intros Hr Hm. unfold rate_quality, curhash in *. rewrite Hr.
  assert (Miss : match rating s with
     | Some (h, rg, t, nm0, ld0, _) =>
         negb (py_eq h (if dhas "hash" (fp s) then dget "hash" (fp s) else VStr "none"))
         || negb (py_eq rg (VStr r)) || negb (same_ts t ts) || negb (py_eq nm0 nm)
         || negb (py_eq ld0 ld)
     | None => true end = true).
  { destruct (rating s) as [[[[[[h rg] t] n] l] v]|]; [|reflexivity].
    destruct Hm as [H|[H|[H|[H|H]]]]; rewrite H; simpl; rewrite ?orb_true_r; reflexivity. }
  rewrite Miss. destruct (o_rate orc) as [v|e]; [|reflexivity].
  eexists. split; [reflexivity|]. split; reflexivity.
Qed.

(* preprocessing that actually ran forgets the rating *)
Lemma applied_forgets_rating s p q r orc s' out ps :
  apply_pre_x s p q r orc = (s', out, ps) -> ps = PApplied \/ ps = PFailed -> rating s' = None.
Proof.
  unfold apply_pre_x. intros H Hps.
  set (p' := match p with Some v => v | None => pre s end) in *.
  set (o' := match q with Some v => v | None => popts s end) in *.
  assert (G : forall differs X,
    X = (if differs || (negb (details s) && r) then
      let d0 := fp_reset (fp s) in
      match fp_setitem d0 "preprocessing" p' with
      | Err e => (with_fp s d0, Raised e, PNone)
      | Ok d1 =>
        match fp_setitem d1 "preprocessing_options" o' with
        | Err e => (with_fp s d1, Raised e, PNone)
        | Ok d2 =>
          match o_pre orc with
          | Err e =>
              ({| pre := VList []; popts := VDict []; details := false;
                  fp := dpop "preprocessing_options" (dpop "preprocessing" d2);
                  cols := false; rating := None |}, Raised e, PFailed)
          | Ok _ =>
              let d3 := if dhas "x_axis" d2 && negb (o_xaxis orc) then dpop "x_axis" d2 else d2 in
              let d4 := if dhas "y_axis" d3 && negb (o_yaxis orc) then dpop "y_axis" d3 else d3 in
              ({| pre := p'; popts := o'; details := r && nonempty_seq p';
                  fp := d4; cols := false; rating := None |}, Done, PApplied)
          end
        end
      end
    else
      ({| pre := p'; popts := o'; details := details s; fp := fp s; cols := cols s;
          rating := rating s |}, Done, PSkipped)) -> X = (s', out, ps) -> rating s' = None).
  { intros differs X -> HG. destruct (differs || (negb (details s) && r)).
    - cbv zeta in HG.
      destruct (fp_setitem (fp_reset (fp s)) "preprocessing" p') as [d1|e].
      + destruct (fp_setitem d1 "preprocessing_options" o') as [d2|e].
        * destruct (o_pre orc); inversion HG; subst; reflexivity.
        * inversion HG; subst. destruct Hps; discriminate.
      + inversion HG; subst. destruct Hps; discriminate.
    - inversion HG; subst. destruct Hps; discriminate. }
  destruct (dhas "preprocessing" (fp s)).
  - destruct (assoc "preprocessing_options" (fp s)).
    + eapply G; [reflexivity | exact H].
    + inversion H; subst. destruct Hps; discriminate.
  - eapply (G true); [reflexivity | exact H].
Qed.
