(* R instance of Model/Steps.v and its theorems. *)
From Coq Require Import List Bool Arith Reals Lra Lia.
From NV Require Import Base.Exn Model.FitCore Model.Steps Model.Poc Proofs.FitCoreP.
Import ListNotations.
Local Open Scope R_scope.

Definition r_tip_position := tip_position R Rplus Rdiv.
Definition r_shift := shift R Rminus.
Definition r_force_offset := force_offset R Rminus 0.
Definition r_tip_offset := tip_offset R Rminus 0.
Definition r_slope_upto := slope_upto R Rplus Rminus Rmult 0.
Definition r_slope_baseline := slope_baseline R Rplus Rminus Rmult 0.
Definition r_slope_approach := slope_approach R Rplus Rminus Rmult 0.
Definition r_slope_all := slope_all R Rplus Rminus Rmult 0.
Definition r_argmax := argmax R r_ltb.
Definition r_argmin := argmin R r_ltb.
Definition r_turning_point := turning_point R Rplus Rminus Rmult Rdiv r_ltb r_eqb 0.
Definition r_all_distinct := all_distinct R r_eqb.
Definition r_tiebreak := tiebreak R Rplus Rminus Rmult Rdiv r_eqb 0 INR.
Definition r_tb_update := tb_update R Rplus Rminus Rmult Rdiv 0 INR.

Fixpoint rsum (l : list R) : R := match l with [] => 0 | x :: t => x + rsum t end.
Definition mean (l : list R) : R := rsum l / INR (length l).

(* ---- generic list facts ------------------------------------------------------ *)
Lemma map2_length {A B C} (f : A -> B -> C) : forall la lb,
  length la = length lb -> length (map2 f la lb) = length la.
Proof.
  induction la as [|a la IH]; intros [|b lb] H; simpl in *; try discriminate; try reflexivity.
  f_equal. apply IH. congruence.
Qed.

Lemma map2_nth {A B C} (f : A -> B -> C) da db dc : forall la lb i,
  length la = length lb -> (i < length la)%nat ->
  nth i (map2 f la lb) dc = f (nth i la da) (nth i lb db).
Proof.
  induction la as [|a la IH]; intros [|b lb] i H Hi; simpl in *; try discriminate; try lia.
  destruct i as [|i]; [reflexivity|]. apply IH; [congruence | lia].
Qed.

Lemma map_nth_lt {A B} (f : A -> B) da db : forall l i, (i < length l)%nat ->
  nth i (map f l) db = f (nth i l da).
Proof.
  induction l as [|a l IH]; intros i Hi; simpl in *; [lia|].
  destruct i as [|i]; [reflexivity|]. apply IH. lia.
Qed.

Lemma nth_firstn_lt {A} (d : A) : forall n l i, (i < n)%nat -> nth i (firstn n l) d = nth i l d.
Proof.
  induction n as [|n IH]; intros l i Hi; [lia|].
  destruct l as [|x l]; [destruct i; reflexivity|].
  destruct i as [|i]; [reflexivity|]. simpl. apply IH. lia.
Qed.

(* ---- tip position -------------------------------------------------------------- *)
Lemma tip_position_nth k hs fs i : length hs = length fs -> (i < length hs)%nat ->
  nth i (r_tip_position k hs fs) 0 = nth i hs 0 + nth i fs 0 / k.
Proof.
  intros H Hi. unfold r_tip_position, tip_position.
  rewrite (map2_nth _ 0 0 0) by assumption. reflexivity.
Qed.

Lemma tip_position_length k hs fs : length hs = length fs ->
  length (r_tip_position k hs fs) = length hs.
Proof. apply map2_length. Qed.

(* ---- shifts -------------------------------------------------------------------- *)
Lemma shift_nth c xs i : (i < length xs)%nat -> nth i (r_shift c xs) 0 = nth i xs 0 - c.
Proof. intros Hi. unfold r_shift, shift. rewrite (map_nth_lt _ 0 0) by assumption. reflexivity. Qed.

Lemma shift_length c xs : length (r_shift c xs) = length xs.
Proof. unfold r_shift, shift. apply map_length. Qed.

Lemma rsum_shift c : forall l, rsum (r_shift c l) = rsum l - INR (length l) * c.
Proof.
  induction l as [|x l IH]; [simpl; ring|].
  change (r_shift c (x :: l)) with ((x - c) :: r_shift c l).
  change (rsum ((x - c) :: r_shift c l)) with ((x - c) + rsum (r_shift c l)).
  rewrite IH. change (length (x :: l)) with (S (length l)). rewrite S_INR. simpl rsum. ring.
Qed.

Lemma firstn_shift c n l : firstn n (r_shift c l) = r_shift c (firstn n l).
Proof. unfold r_shift, shift. apply firstn_map. Qed.

(* the offset chosen by correct_force_offset *)
Definition offset_of (idp : nat) (avg : R) (fs : list R) : R :=
  match idp with 0%nat => nth 0 fs 0 | _ => avg end.

Lemma force_offset_is_shift idp avg fs :
  r_force_offset idp avg fs = r_shift (offset_of idp avg fs) fs.
Proof. unfold r_force_offset, force_offset, offset_of. destruct idp; reflexivity. Qed.

Lemma force_offset_constant idp avg fs i : (i < length fs)%nat ->
  nth i (r_force_offset idp avg fs) 0 - nth i fs 0 = - offset_of idp avg fs.
Proof. intros Hi. rewrite force_offset_is_shift, shift_nth by assumption. ring. Qed.

Lemma force_offset_mean_zero idp avg fs :
  (0 < idp)%nat -> fs <> [] -> avg = mean (firstn idp fs) ->
  mean (firstn idp (r_force_offset idp avg fs)) = 0.
Proof.
  intros Hp Hne Havg. rewrite force_offset_is_shift.
  assert (E : offset_of idp avg fs = avg) by (destruct idp; [lia | reflexivity]).
  rewrite E, firstn_shift. unfold mean. rewrite rsum_shift, shift_length.
  assert (Hl : (0 < length (firstn idp fs))%nat).
  { rewrite firstn_length. destruct fs; [contradiction | simpl; lia]. }
  assert (Hn : INR (length (firstn idp fs)) <> 0).
  { apply not_0_INR. lia. }
  rewrite Havg. unfold mean. field. exact Hn.
Qed.

Lemma force_offset_first_zero avg fs : fs <> [] ->
  nth 0 (r_force_offset 0 avg fs) 0 = 0.
Proof.
  intros Hne. rewrite force_offset_is_shift, shift_nth.
  - simpl. ring.
  - destruct fs; [contradiction | simpl; lia].
Qed.

Lemma force_offset_length idp avg fs : length (r_force_offset idp avg fs) = length fs.
Proof. rewrite force_offset_is_shift. apply shift_length. Qed.

(* ---- tip offset ---------------------------------------------------------------- *)
Lemma tip_offset_spec cpid tip out : r_tip_offset cpid tip = Ok out ->
  length out = length tip /\ nth cpid out 0 = 0 /\
  forall i, (i < length tip)%nat -> nth i out 0 - nth i tip 0 = - nth cpid tip 0.
Proof.
  unfold r_tip_offset, tip_offset. destruct (Nat.ltb cpid (length tip)) eqn:E; [|discriminate].
  intros H. injection H as <-. apply Nat.ltb_lt in E.
  fold (r_shift (nth cpid tip 0) tip).
  split; [apply shift_length|]. split.
  - rewrite shift_nth by assumption. ring.
  - intros i Hi. rewrite shift_nth by assumption. ring.
Qed.

Lemma tip_offset_rejects cpid tip : (length tip <= cpid)%nat ->
  r_tip_offset cpid tip = Err IndexError.
Proof.
  intros H. unfold r_tip_offset, tip_offset.
  destruct (Nat.ltb cpid (length tip)) eqn:E; [apply Nat.ltb_lt in E; lia | reflexivity].
Qed.

(* ---- slope correction ------------------------------------------------------------ *)
Lemma map2_seq_nth {B C} (f : nat -> B -> C) db dc : forall (l : list B) s i,
  (i < length l)%nat ->
  nth i (map2 f (seq s (length l)) l) dc = f (s + i)%nat (nth i l db).
Proof.
  induction l as [|b l IH]; intros s i Hi; simpl in *; [lia|].
  destruct i as [|i]; [rewrite Nat.add_0_r; reflexivity|].
  rewrite IH by lia. f_equal. lia.
Qed.

Lemma slope_upto_length m c stop anchor xs fs : length xs = length fs ->
  length (r_slope_upto m c stop anchor xs fs) = length fs.
Proof.
  intros H. unfold r_slope_upto, slope_upto. rewrite map2_length.
  - apply seq_length.
  - rewrite seq_length, combine_length. lia.
Qed.

Lemma slope_upto_nth m c stop anchor xs fs i : length xs = length fs -> (i < length fs)%nat ->
  nth i (r_slope_upto m c stop anchor xs fs) 0 =
  if Nat.ltb i stop then nth i fs 0 - m * (nth i xs 0 - nth anchor xs 0) else nth i fs 0.
Proof.
  intros H Hi. unfold r_slope_upto, slope_upto.
  assert (Hc : length (combine xs fs) = length fs) by (rewrite combine_length; lia).
  rewrite <- Hc at 1.
  rewrite (map2_seq_nth _ (0, 0) 0) by lia.
  rewrite combine_nth by assumption. simpl fst. simpl snd. simpl Nat.add.
  destruct (Nat.ltb i stop); [|reflexivity]. unfold line. ring.
Qed.

(* least-squares slope of ys over xs (closed form of the normal equations) *)
Definition sxy (xs ys : list R) : R := rsum (map2 Rmult xs ys).
Definition ls_den (xs : list R) : R := INR (length xs) * sxy xs xs - rsum xs * rsum xs.
Definition ls_slope (xs ys : list R) : R :=
  (INR (length xs) * sxy xs ys - rsum xs * rsum ys) / ls_den xs.

Definition detrend (m xr : R) (xs fs : list R) : list R :=
  map2 (fun x f => f - m * (x - xr)) xs fs.

Lemma detrend_sums m xr : forall xs fs, length xs = length fs ->
  rsum (detrend m xr xs fs) = rsum fs - m * rsum xs + INR (length xs) * m * xr /\
  sxy xs (detrend m xr xs fs) = sxy xs fs - m * sxy xs xs + m * xr * rsum xs.
Proof.
  induction xs as [|x xs IH]; intros [|f fs] H; simpl in H; try discriminate.
  - unfold sxy. simpl. split; ring.
  - destruct (IH fs) as [I1 I2]; [congruence|].
    unfold sxy in *. unfold detrend in *. cbn [map2 rsum length].
    rewrite I1, I2. rewrite S_INR. split; ring.
Qed.

Lemma detrend_removes_trend xs fs xr : length xs = length fs -> ls_den xs <> 0 ->
  ls_slope xs (detrend (ls_slope xs fs) xr xs fs) = 0.
Proof.
  intros H Hd. destruct (detrend_sums (ls_slope xs fs) xr xs fs H) as [I1 I2].
  unfold ls_slope at 1. rewrite I1, I2. unfold ls_slope. unfold ls_den in *. field. exact Hd.
Qed.

Lemma firstn_slope_upto m c n stop anchor xs fs : length xs = length fs ->
  (n <= stop)%nat -> (n <= length fs)%nat ->
  firstn n (r_slope_upto m c stop anchor xs fs) =
  detrend m (nth anchor xs 0) (firstn n xs) (firstn n fs).
Proof.
  intros H Hn Hs. apply (nth_ext _ _ 0 0).
  - rewrite firstn_length, slope_upto_length by assumption. unfold detrend.
    rewrite map2_length; rewrite !firstn_length; lia.
  - intros i Hi. rewrite firstn_length, slope_upto_length in Hi by assumption.
    assert (Hi' : (i < n)%nat) by lia.
    rewrite nth_firstn_lt by exact Hi'.
    assert (E : Nat.ltb i stop = true) by (apply Nat.ltb_lt; lia).
    rewrite slope_upto_nth by (try assumption; lia). rewrite E.
    unfold detrend. rewrite (map2_nth _ 0 0 0); rewrite ?firstn_length; try lia.
    rewrite !nth_firstn_lt by exact Hi'. reflexivity.
Qed.

Lemma slope_removes_trend m c n stop anchor xs fs : length xs = length fs ->
  (n <= stop)%nat -> (n <= length fs)%nat -> ls_den (firstn n xs) <> 0 ->
  m = ls_slope (firstn n xs) (firstn n fs) ->
  ls_slope (firstn n xs) (firstn n (r_slope_upto m c stop anchor xs fs)) = 0.
Proof.
  intros H Hn Hs Hd Hm. rewrite firstn_slope_upto by assumption. rewrite Hm.
  apply detrend_removes_trend; [rewrite !firstn_length; lia | exact Hd].
Qed.

(* ---- argmax / argmin -------------------------------------------------------------- *)
Lemma argbest_max : forall l i besti best,
  let r := argbest R (fun a b => r_ltb b a) l i besti best in
  (r = besti \/ (i <= r < i + length l)%nat).
Proof.
  induction l as [|x l IH]; intros i besti best; simpl; [left; reflexivity|].
  destruct (r_ltb best x).
  - destruct (IH (S i) i x) as [E|E]; right; simpl in *; lia.
  - destruct (IH (S i) besti best) as [E|E]; [left; exact E | right; simpl in *; lia].
Qed.

(* value semantics: the element found is maximal among those seen *)
Lemma argbest_max_val : forall l i besti best (full : list R),
  (forall j, (j < length l)%nat -> nth (i + j) full 0 = nth j l 0) ->
  nth besti full 0 = best ->
  let r := argbest R (fun a b => r_ltb b a) l i besti best in
  best <= nth r full 0 /\ forall j, (j < length l)%nat -> nth j l 0 <= nth r full 0.
Proof.
  induction l as [|x l IH]; intros i besti best full Hf Hb; simpl.
  - split; [rewrite Hb; lra | intros j Hj; lia].
  - assert (Hx : nth i full 0 = x).
    { specialize (Hf 0%nat). simpl in Hf. rewrite Nat.add_0_r in Hf. apply Hf. lia. }
    assert (Hf' : forall j, (j < length l)%nat -> nth (S i + j) full 0 = nth j l 0).
    { intros j Hj. specialize (Hf (S j)). simpl in Hf. rewrite <- Hf by lia. f_equal. lia. }
    destruct (r_ltb best x) eqn:E.
    + apply r_ltb_true in E.
      destruct (IH (S i) i x full Hf' Hx) as [I1 I2]. split; [lra|].
      intros [|j] Hj; [exact I1 | apply I2; simpl in Hj; lia].
    + apply r_ltb_false in E.
      destruct (IH (S i) besti best full Hf' Hb) as [I1 I2]. split; [exact I1|].
      intros [|j] Hj; [lra | apply I2; simpl in Hj; lia].
Qed.

Lemma argmax_spec l : l <> [] ->
  (r_argmax l < length l)%nat /\ forall j, (j < length l)%nat -> nth j l 0 <= nth (r_argmax l) l 0.
Proof.
  destruct l as [|x l]; [contradiction|]. intros _. unfold r_argmax, argmax. split.
  - pose proof (argbest_max l 1 0 x) as H. simpl in *. destruct H as [H|H]; lia.
  - pose proof (argbest_max_val l 1 0 x (x :: l)) as H. simpl in H.
    destruct H as [H1 H2]; [intros j Hj; reflexivity | reflexivity |].
    intros [|j] Hj; [exact H1 | apply H2; simpl in Hj; lia].
Qed.

(* ---- segment discovery ------------------------------------------------------------- *)
Lemma split_length n t : length (split n t) = n.
Proof. unfold split. rewrite map_length. apply seq_length. Qed.

Lemma split_nth n t i : (i < n)%nat -> nth i (split n t) false = Nat.leb t i.
Proof.
  intros Hi. unfold split. rewrite (map_nth_lt _ 0%nat) by (rewrite seq_length; exact Hi).
  rewrite seq_nth by exact Hi. reflexivity.
Qed.

Lemma split_single_switch n t : (0 < t < n)%nat ->
  nth (t - 1) (split n t) false = false /\ nth t (split n t) false = true /\
  forall i, (S i < n)%nat -> nth i (split n t) false <> nth (S i) (split n t) false -> S i = t.
Proof.
  intros Ht. rewrite !split_nth by lia. split; [apply Nat.leb_gt; lia|].
  split; [apply Nat.leb_le; lia|].
  intros i Hi. rewrite !split_nth by lia.
  destruct (Nat.leb t i) eqn:E1; destruct (Nat.leb t (S i)) eqn:E2; intros Hne; try congruence.
  - apply Nat.leb_le in E1. apply Nat.leb_gt in E2. lia.
  - apply Nat.leb_gt in E1. apply Nat.leb_le in E2. lia.
Qed.

(* ---- tie breaking -------------------------------------------------------------------- *)
Lemma r_eqb_true x y : r_eqb x y = true <-> x = y.
Proof. unfold r_eqb. destruct (Req_EM_T x y); split; intros; congruence. Qed.

Lemma mem_In x l : mem R r_eqb x l = true <-> In x l.
Proof.
  induction l as [|y l IH]; simpl; [split; [discriminate | contradiction]|].
  rewrite orb_true_iff, r_eqb_true, IH. split; intros [H|H]; auto.
Qed.

Lemma all_distinct_NoDup l : r_all_distinct l = true <-> NoDup l.
Proof.
  induction l as [|x l IH]; simpl.
  - split; [constructor | reflexivity].
  - unfold r_all_distinct in *. simpl. rewrite andb_true_iff, negb_true_iff, IH. split.
    + intros [H1 H2]. constructor; [|exact H2]. intros Hin. apply mem_In in Hin. congruence.
    + intros H. inversion H as [|? ? Hn Hd]; subst. split; [|exact Hd].
      destruct (mem R r_eqb x l) eqn:E; [apply mem_In in E; contradiction | reflexivity].
Qed.

Lemma tiebreak_distinct : forall fuel s out, r_tiebreak fuel s = Ok out -> NoDup out.
Proof.
  induction fuel as [|f IH]; intros s out H; simpl in H; [discriminate|].
  unfold r_tiebreak in *. simpl in H.
  destruct (all_distinct R r_eqb s) eqn:E.
  - injection H as <-. apply all_distinct_NoDup. exact E.
  - eapply IH. exact H.
Qed.

Lemma upd_length : forall (l : list R) i v, length (upd R l i v) = length l.
Proof. induction l as [|x l IH]; intros [|i] v; simpl; try reflexivity. f_equal. apply IH. Qed.

Lemma tb_update_length s eq : length (r_tb_update s eq) = length s.
Proof.
  unfold r_tb_update, tb_update.
  generalize (combine (seq 0 (length eq)) eq). intros cs. revert s.
  induction cs as [|[cnt idx] cs IH]; intros s; simpl; [reflexivity|].
  rewrite IH. destruct (Nat.ltb (S (last eq 0%nat)) (length s)); apply upd_length.
Qed.

Lemma tiebreak_length : forall fuel s out, r_tiebreak fuel s = Ok out -> length out = length s.
Proof.
  induction fuel as [|f IH]; intros s out H; [discriminate|].
  unfold r_tiebreak in *. simpl in H.
  destruct (all_distinct R r_eqb s).
  - injection H as <-. reflexivity.
  - apply IH in H. rewrite H. apply tb_update_length.
Qed.

(* weakly monotone + pairwise distinct = strictly monotone *)
Lemma strict_of_weak_distinct l :
  (forall i j, (i < j < length l)%nat -> nth i l 0 <= nth j l 0) -> NoDup l ->
  forall i j, (i < j < length l)%nat -> nth i l 0 < nth j l 0.
Proof.
  intros Hw Hd i j Hij. specialize (Hw i j Hij).
  destruct (Req_dec (nth i l 0) (nth j l 0)) as [E|E]; [|lra].
  exfalso. assert (i = j); [|lia].
  apply (proj1 (NoDup_nth l 0) Hd); [lia | lia | exact E].
Qed.

Lemma strict_of_weak_distinct_desc l :
  (forall i j, (i < j < length l)%nat -> nth j l 0 <= nth i l 0) -> NoDup l ->
  forall i j, (i < j < length l)%nat -> nth j l 0 < nth i l 0.
Proof.
  intros Hw Hd i j Hij. specialize (Hw i j Hij).
  destruct (Req_dec (nth i l 0) (nth j l 0)) as [E|E]; [|lra].
  exfalso. assert (i = j); [|lia].
  apply (proj1 (NoDup_nth l 0) Hd); [lia | lia | exact E].
Qed.

(* ---- the exit test of the window-doubling loop ---------------------------------------- *)
(* |sum d| = sum |d|  holds only if all d have one sign: applied to the differences of
   neighbouring values it means the smoothed data are weakly monotone *)
Definition ppart (x : R) : R := Rmax x 0.
Definition npart (x : R) : R := Rmax (- x) 0.

Lemma parts_split x : x = ppart x - npart x /\ Rabs x = ppart x + npart x /\
                      0 <= ppart x /\ 0 <= npart x.
Proof.
  unfold ppart, npart, Rmax. destruct (Rle_dec x 0); destruct (Rle_dec (- x) 0);
    unfold Rabs; destruct (Rcase_abs x); repeat split; lra.
Qed.

Lemma rsum_parts l : rsum l = rsum (map ppart l) - rsum (map npart l) /\
                     rsum (map Rabs l) = rsum (map ppart l) + rsum (map npart l) /\
                     0 <= rsum (map ppart l) /\ 0 <= rsum (map npart l).
Proof.
  induction l as [|x l [I1 [I2 [I3 I4]]]]; simpl; [repeat split; lra|].
  destruct (parts_split x) as [H1 [H2 [H3 H4]]]. repeat split; lra.
Qed.

Lemma rsum_nonneg_zero l : (forall x, In x l -> 0 <= x) -> rsum l = 0 -> forall x, In x l -> x = 0.
Proof.
  induction l as [|y l IH]; intros Hp Hs x Hx; [contradiction|]. simpl in Hs.
  assert (Hy : 0 <= y) by (apply Hp; left; reflexivity).
  assert (Hl : 0 <= rsum l).
  { clear -Hp. induction l as [|z l IH]; simpl; [lra|].
    assert (0 <= z) by (apply Hp; right; left; reflexivity).
    assert (0 <= rsum l); [|lra]. apply IH. intros w [Hw|Hw]; apply Hp; [left | right; right]; assumption. }
  destruct Hx as [<-|Hx]; [lra|]. apply IH; [|lra | exact Hx].
  intros z Hz. apply Hp. right. exact Hz.
Qed.

Theorem sum_abs_eq_one_sign l : Rabs (rsum l) = rsum (map Rabs l) ->
  (forall x, In x l -> 0 <= x) \/ (forall x, In x l -> x <= 0).
Proof.
  intros H. destruct (rsum_parts l) as [H1 [H2 [H3 H4]]]. rewrite H1, H2 in H.
  set (P := rsum (map ppart l)) in *. set (N := rsum (map npart l)) in *.
  assert (HPN : N = 0 \/ P = 0).
  { unfold Rabs in H. destruct (Rcase_abs (P - N)); [right | left]; lra. }
  destruct HPN as [HN|HP].
  - left. intros x Hx.
    assert (Hz : npart x = 0).
    { apply (rsum_nonneg_zero (map npart l)); [|exact HN | apply in_map; exact Hx].
      intros y Hy. apply in_map_iff in Hy. destruct Hy as [z [<- _]]. apply parts_split. }
    destruct (parts_split x) as [E [_ [Hp _]]]. lra.
  - right. intros x Hx.
    assert (Hz : ppart x = 0).
    { apply (rsum_nonneg_zero (map ppart l)); [|exact HP | apply in_map; exact Hx].
      intros y Hy. apply in_map_iff in Hy. destruct Hy as [z [<- _]]. apply parts_split. }
    destruct (parts_split x) as [E [_ [_ Hn]]]. lra.
Qed.

(* differences of neighbouring values, and central differences (np.gradient) *)
Fixpoint diffs (l : list R) : list R :=
  match l with
  | a :: ((b :: _) as t) => (b - a) :: diffs t
  | _ => []
  end.

Lemma diffs_nonneg_monotone : forall l, (forall d, In d (diffs l) -> 0 <= d) ->
  forall i, (S i < length l)%nat -> nth i l 0 <= nth (S i) l 0.
Proof.
  induction l as [|a l IH]; intros H i Hi; [simpl in Hi; lia|].
  destruct l as [|b l]; [simpl in Hi; lia|]. destruct i as [|i].
  - simpl. assert (0 <= b - a); [apply H; simpl; left; reflexivity | lra].
  - change (nth (S i) (a :: b :: l) 0) with (nth i (b :: l) 0).
    change (nth (S (S i)) (a :: b :: l) 0) with (nth (S i) (b :: l) 0).
    apply IH; [|simpl in *; lia]. intros d Hd. apply H. simpl. right. exact Hd.
Qed.

(* the former exit test (np.gradient) accepted zigzagging data: all central
   differences of this list are positive, yet it is not monotone *)
Definition zigzag : list R := [0; 1; 1/2; 3/2; 1; 2].
Lemma zigzag_gradient_positive :
  Forall (fun g => 0 < g) (np_gradient R Rminus Rdiv 2 zigzag) /\
  nth 2 zigzag 0 < nth 1 zigzag 0.
Proof.
  unfold zigzag. simpl. split; [|lra].
  repeat constructor; lra.
Qed.
