(* C07: the tie-breaking loop of smooth_axis_monotone terminates: every pass removes at
   least one pair of equal neighbours, for weakly ascending data that are not constant. *)
From Coq Require Import List Bool Arith Reals Lra Lia.
From NV Require Import Base.Exn Model.FitCore Model.Steps Proofs.FitCoreP Proofs.StepsP Proofs.TieP.
From NV Require Import Proofs.TieStrictP.
Import ListNotations.
Local Open Scope R_scope.

Definition tied (s : list R) (i : nat) : bool := r_eqb (nth (S i) s 0) (nth i s 0).
Definition ties (s : list R) : nat := length (filter (tied s) (seq 0 (length s - 1))).

Lemma filter_length_le {A} (f g : A -> bool) l :
  (forall x, In x l -> g x = true -> f x = true) ->
  (length (filter g l) <= length (filter f l))%nat.
Proof.
  induction l as [|a l IH]; intros H; simpl; [lia|].
  assert (IH' := IH (fun x Hx => H x (or_intror Hx))).
  destruct (g a) eqn:Eg.
  - rewrite (H a (or_introl eq_refl) Eg). simpl. lia.
  - destruct (f a); simpl; lia.
Qed.

Lemma filter_length_lt {A} (f g : A -> bool) l x :
  (forall y, In y l -> g y = true -> f y = true) ->
  In x l -> f x = true -> g x = false ->
  (length (filter g l) < length (filter f l))%nat.
Proof.
  induction l as [|a l IH]; intros H Hin Hf Hg; [destruct Hin|].
  simpl. destruct Hin as [->|Hin].
  - rewrite Hf, Hg. simpl.
    assert (Hle := filter_length_le f g l (fun y Hy => H y (or_intror Hy))). lia.
  - assert (IH' := IH (fun y Hy => H y (or_intror Hy)) Hin Hf Hg).
    destruct (g a) eqn:Eg.
    + rewrite (H a (or_introl eq_refl) Eg). simpl. lia.
    + destruct (f a); simpl; lia.
Qed.

Lemma tied_true s i : tied s i = true <-> nth (S i) s 0 = nth i s 0.
Proof. unfold tied. apply r_eqb_true. Qed.

Lemma tied_false_of_neq s i : nth (S i) s 0 <> nth i s 0 -> tied s i = false.
Proof. intros H. destruct (tied s i) eqn:E; [apply tied_true in E; contradiction | reflexivity]. Qed.

Lemma lead_skipn_bound s p : (S p < length s)%nat -> (p + lead (skipn p s) < length s)%nat.
Proof.
  intros Hp. assert (H : (lead (skipn p s) < length (skipn p s))%nat).
  { apply lead_lt. intros Hc. apply (f_equal (@length R)) in Hc. rewrite skipn_length in Hc.
    simpl in Hc. lia. }
  rewrite skipn_length in H. lia.
Qed.

(* ---- a pass on a run that ends inside the array ------------------------------------- *)
Lemma pass_inside_ties s p : asc_adj s -> first_dup s = Some p ->
  (S (p + lead (skipn p s)) < length s)%nat ->
  (ties (r_tb_update s (r_find_equal s 0 false)) < ties s)%nat.
Proof.
  intros Hs F Hin. set (s' := r_tb_update s (r_find_equal s 0 false)).
  destruct (first_dup_spec s p F) as [Hp Epp].
  unfold ties. unfold s' at 2. rewrite tb_update_length. fold s'.
  apply (filter_length_lt (tied s) (tied s') _ p).
  - intros i Hi Ht. apply in_seq in Hi.
    destruct (le_lt_dec p i) as [H1|H1].
    + destruct (le_lt_dec i (p + lead (skipn p s))) as [H2|H2].
      * exfalso. apply tied_true in Ht.
        pose proof (tb_pass_resolves_asc s p Hs F Hin i (conj H1 H2)) as H. fold s' in H. lra.
      * apply tied_true in Ht. apply tied_true. unfold s' in Ht.
        rewrite !(tb_pass_frame s p F Hin) in Ht by lia. exact Ht.
    + apply tied_true in Ht. apply tied_true. unfold s' in Ht.
      rewrite !(tb_pass_frame s p F Hin) in Ht by lia. exact Ht.
  - apply in_seq. lia.
  - apply tied_true. exact Epp.
  - apply tied_false_of_neq.
    pose proof (tb_pass_resolves_asc s p Hs F Hin p) as H. fold s' in H.
    assert (nth p s' 0 < nth (S p) s' 0) by (apply H; lia). lra.
Qed.

(* ---- a pass on a run that touches the last sample ------------------------------------ *)
Lemma pass_end_form s p : first_dup s = Some p ->
  ~ (S (p + lead (skipn p s)) < length s)%nat ->
  forall i, nth i (r_tb_update s (r_find_equal s 0 false)) 0 =
    if Nat.eqb i (length s - 1)
    then nth i s 0 + INR (lead (skipn p s)) * ((nth 1 s 0 - nth 0 s 0) / INR 10)
    else nth i s 0.
Proof.
  intros F Hend i. rewrite find_equal_fresh, F.
  destruct (first_dup_spec s p F) as [Hp Epp].
  pose proof (first_dup_lead s p F) as Hl0.
  destruct (lead (skipn p s)) as [|L] eqn:EL; [congruence|]. clear Hl0.
  change (S (0 + p)) with (S p). rewrite tb_update_seq.
  assert (EA : Nat.ltb (S (S p + L)) (length s) = false) by (apply Nat.ltb_ge; lia).
  rewrite EA.
  assert (Hb := lead_skipn_bound s p Hp). rewrite EL in Hb.
  assert (Hc : (3 <= length s)%nat \/ nth 1 s 0 = nth 0 s 0).
  { destruct (Nat.lt_ge_cases (length s) 3) as [H3|H3]; [right | left; exact H3].
    assert (p = 0)%nat by lia. subst p. exact Epp. }
  apply (foldB_nth s Hc).
Qed.

Lemma first_dup_min : forall s p, first_dup s = Some p ->
  forall i, (i < p)%nat -> nth (S i) s 0 <> nth i s 0.
Proof.
  induction s as [|a s IH]; intros p H i Hi; [discriminate|].
  destruct s as [|b t]; [discriminate|].
  rewrite first_dup_cons2 in H. destruct (r_eqb b a) eqn:E.
  - injection H as <-. lia.
  - destruct (first_dup (b :: t)) as [q|] eqn:F; [|discriminate]. injection H as <-.
    destruct i as [|i].
    + simpl. intros Hc. assert (r_eqb b a = true) by (apply r_eqb_true; exact Hc). congruence.
    + change (nth (S (S i)) (a :: b :: t) 0) with (nth (S i) (b :: t) 0).
      change (nth (S i) (a :: b :: t) 0) with (nth i (b :: t) 0).
      apply (IH q eq_refl). lia.
Qed.

Lemma pass_end_facts s p : asc_adj s -> first_dup s = Some p ->
  ~ (S (p + lead (skipn p s)) < length s)%nat ->
  nth 0 s 0 < nth (length s - 1) s 0 ->
  (1 <= p)%nat /\ 0 < (nth 1 s 0 - nth 0 s 0) / INR 10 /\ (1 <= lead (skipn p s))%nat /\
  (p + lead (skipn p s) = length s - 1)%nat.
Proof.
  intros Hs F Hend Hnc.
  destruct (first_dup_spec s p F) as [Hp Epp].
  assert (Hb := lead_skipn_bound s p Hp).
  assert (Hl : (1 <= lead (skipn p s))%nat).
  { pose proof (first_dup_lead s p F). lia. }
  assert (Hlast : (p + lead (skipn p s) = length s - 1)%nat) by lia.
  assert (Hp1 : (1 <= p)%nat).
  { destruct p as [|p]; [|lia]. exfalso.
    pose proof (lead_equal (skipn 0 s) (lead (skipn 0 s)) (le_n _)) as H.
    rewrite !nth_skipn in H. simpl in H, Hlast. rewrite Hlast in H. lra. }
  repeat split; try assumption.
  assert (Hne : nth 1 s 0 <> nth 0 s 0) by (apply (first_dup_min s p F 0%nat); lia).
  assert (Hle : nth 0 s 0 <= nth 1 s 0) by (apply Hs; lia).
  apply Rdiv_lt_0_compat; [lra | simpl; lra].
Qed.

Lemma pass_end_ties s p : asc_adj s -> first_dup s = Some p ->
  ~ (S (p + lead (skipn p s)) < length s)%nat ->
  nth 0 s 0 < nth (length s - 1) s 0 ->
  (ties (r_tb_update s (r_find_equal s 0 false)) < ties s)%nat.
Proof.
  intros Hs F Hend Hnc. set (s' := r_tb_update s (r_find_equal s 0 false)).
  destruct (first_dup_spec s p F) as [Hp Epp].
  destruct (pass_end_facts s p Hs F Hend Hnc) as [Hp1 [Hdx [Hl Hlast]]].
  assert (Hform := pass_end_form s p F Hend). fold s' in Hform.
  set (n := length s) in *.
  unfold ties. unfold s' at 2. rewrite tb_update_length. fold s'. fold n.
  (* the last pair is tied before the pass *)
  assert (Htl : nth (n - 1) s 0 = nth (n - 2) s 0).
  { pose proof (lead_equal (skipn p s) (lead (skipn p s)) (le_n _)) as H1.
    pose proof (lead_equal (skipn p s) (lead (skipn p s) - 1)%nat) as H2.
    rewrite !nth_skipn in H1, H2. rewrite Nat.add_0_r in H1, H2.
    replace (p + lead (skipn p s))%nat with (n - 1)%nat in H1 by lia.
    replace (p + (lead (skipn p s) - 1))%nat with (n - 2)%nat in H2 by lia.
    rewrite H1, H2 by lia. reflexivity. }
  apply (filter_length_lt (tied s) (tied s') _ (n - 2)%nat).
  - intros i Hi Ht. apply in_seq in Hi. apply tied_true in Ht. apply tied_true.
    rewrite !Hform in Ht.
    assert (E0 : Nat.eqb i (n - 1) = false) by (apply Nat.eqb_neq; lia). rewrite E0 in Ht.
    destruct (Nat.eqb (S i) (n - 1)) eqn:E1; [|exact Ht].
    apply Nat.eqb_eq in E1. exfalso.
    rewrite E1 in Ht. replace i with (n - 2)%nat in Ht by lia.
    assert (0 < INR (lead (skipn p s)) * ((nth 1 s 0 - nth 0 s 0) / INR 10)).
    { apply Rmult_lt_0_compat; [apply lt_0_INR; lia | exact Hdx]. }
    lra.
  - apply in_seq. lia.
  - apply tied_true. replace (S (n - 2)) with (n - 1)%nat by lia. exact Htl.
  - apply tied_false_of_neq. replace (S (n - 2)) with (n - 1)%nat by lia.
    rewrite !Hform. rewrite Nat.eqb_refl.
    assert (E0 : Nat.eqb (n - 2) (n - 1) = false) by (apply Nat.eqb_neq; lia). rewrite E0.
    assert (0 < INR (lead (skipn p s)) * ((nth 1 s 0 - nth 0 s 0) / INR 10)).
    { apply Rmult_lt_0_compat; [apply lt_0_INR; lia | exact Hdx]. }
    lra.
Qed.

(* ---- exit test and invariant --------------------------------------------------------- *)
Lemma strict_adj_all s : (forall i, (S i < length s)%nat -> nth i s 0 < nth (S i) s 0) ->
  forall i j, (i < j < length s)%nat -> nth i s 0 < nth j s 0.
Proof.
  intros H i j [Hij Hj]. induction j as [|j IH]; [lia|].
  destruct (Nat.eq_dec i j) as [->|N]; [apply H; exact Hj|].
  apply Rlt_trans with (nth j s 0); [apply IH; lia | apply H; exact Hj].
Qed.

Lemma no_dup_exit_asc s : asc_adj s -> first_dup s = None -> r_all_distinct s = true.
Proof.
  intros Hs F. apply all_distinct_NoDup. apply (proj2 (NoDup_nth s 0)).
  assert (Hst : forall i, (S i < length s)%nat -> nth i s 0 < nth (S i) s 0).
  { intros i Hi. pose proof (Hs i Hi). pose proof (first_dup_none_adj s F i Hi). lra. }
  intros i j Hi Hj E.
  destruct (Nat.lt_trichotomy i j) as [H|[H|H]]; [|exact H|].
  - pose proof (strict_adj_all s Hst i j (conj H Hj)). lra.
  - pose proof (strict_adj_all s Hst j i (conj H Hi)). lra.
Qed.

Lemma ties_pos s p : first_dup s = Some p -> (1 <= ties s)%nat.
Proof.
  intros F. destruct (first_dup_spec s p F) as [Hp Epp].
  assert (Hin : In p (filter (tied s) (seq 0 (length s - 1)))).
  { apply filter_In. split; [apply in_seq; lia | apply tied_true; exact Epp]. }
  unfold ties. destruct (filter (tied s) (seq 0 (length s - 1))); [destruct Hin | simpl; lia].
Qed.

Definition live_asc (s : list R) : Prop :=
  asc_adj s /\ nth 0 s 0 < nth (length s - 1) s 0.

Lemma pass_keeps_live s p : live_asc s -> first_dup s = Some p ->
  live_asc (r_tb_update s (r_find_equal s 0 false)) /\
  (ties (r_tb_update s (r_find_equal s 0 false)) < ties s)%nat.
Proof.
  intros [Hs Hnc] F. destruct (first_dup_spec s p F) as [Hp Epp].
  assert (Hb := lead_skipn_bound s p Hp).
  destruct (lt_dec (S (p + lead (skipn p s))) (length s)) as [Hin|Hend].
  - split; [|apply (pass_inside_ties s p Hs F Hin)].
    split; [apply tb_pass_asc; exact Hs|].
    rewrite tb_update_length.
    rewrite !(tb_pass_frame s p F Hin) by lia. exact Hnc.
  - split; [|apply (pass_end_ties s p Hs F Hend Hnc)].
    split; [apply tb_pass_asc; exact Hs|].
    destruct (pass_end_facts s p Hs F Hend Hnc) as [Hp1 [Hdx [Hl Hlast]]].
    rewrite tb_update_length. rewrite !(pass_end_form s p F Hend).
    rewrite Nat.eqb_refl.
    assert (E0 : Nat.eqb 0 (length s - 1) = false) by (apply Nat.eqb_neq; lia). rewrite E0.
    assert (0 < INR (lead (skipn p s)) * ((nth 1 s 0 - nth 0 s 0) / INR 10)).
    { apply Rmult_lt_0_compat; [apply lt_0_INR; lia | exact Hdx]. }
    lra.
Qed.

(* ---- the loop ------------------------------------------------------------------------- *)
Theorem tiebreak_terminates_asc : forall m s, (ties s <= m)%nat -> live_asc s ->
  exists out, r_tiebreak (S m) s = Ok out.
Proof.
  induction m as [|m IH]; intros s Hm Hl; rewrite tiebreak_unfold.
  - destruct (first_dup s) as [p|] eqn:F.
    + pose proof (ties_pos s p F). lia.
    + rewrite (no_dup_exit_asc s (proj1 Hl) F). eexists. reflexivity.
  - destruct (r_all_distinct s) eqn:E; [eexists; reflexivity|].
    destruct (first_dup s) as [p|] eqn:F.
    + destruct (pass_keeps_live s p Hl F) as [Hl' Hlt].
      apply IH; [lia | exact Hl'].
    + rewrite (no_dup_exit_asc s (proj1 Hl) F) in E. discriminate.
Qed.

(* ======================== the same for weakly descending data ========================= *)
Lemma pass_inside_ties_desc s p : desc_adj s -> first_dup s = Some p ->
  (S (p + lead (skipn p s)) < length s)%nat ->
  (ties (r_tb_update s (r_find_equal s 0 false)) < ties s)%nat.
Proof.
  intros Hs F Hin. set (s' := r_tb_update s (r_find_equal s 0 false)).
  destruct (first_dup_spec s p F) as [Hp Epp].
  unfold ties. unfold s' at 2. rewrite tb_update_length. fold s'.
  apply (filter_length_lt (tied s) (tied s') _ p).
  - intros i Hi Ht. apply in_seq in Hi.
    destruct (le_lt_dec p i) as [H1|H1].
    + destruct (le_lt_dec i (p + lead (skipn p s))) as [H2|H2].
      * exfalso. apply tied_true in Ht.
        pose proof (tb_pass_resolves_desc s p Hs F Hin i (conj H1 H2)) as H. fold s' in H. lra.
      * apply tied_true in Ht. apply tied_true. unfold s' in Ht.
        rewrite !(tb_pass_frame s p F Hin) in Ht by lia. exact Ht.
    + apply tied_true in Ht. apply tied_true. unfold s' in Ht.
      rewrite !(tb_pass_frame s p F Hin) in Ht by lia. exact Ht.
  - apply in_seq. lia.
  - apply tied_true. exact Epp.
  - apply tied_false_of_neq.
    pose proof (tb_pass_resolves_desc s p Hs F Hin p) as H. fold s' in H.
    assert (nth (S p) s' 0 < nth p s' 0) by (apply H; lia). lra.
Qed.

Lemma pass_end_facts_desc s p : desc_adj s -> first_dup s = Some p ->
  ~ (S (p + lead (skipn p s)) < length s)%nat ->
  nth (length s - 1) s 0 < nth 0 s 0 ->
  (1 <= p)%nat /\ (nth 1 s 0 - nth 0 s 0) / INR 10 < 0 /\ (1 <= lead (skipn p s))%nat /\
  (p + lead (skipn p s) = length s - 1)%nat.
Proof.
  intros Hs F Hend Hnc.
  destruct (first_dup_spec s p F) as [Hp Epp].
  assert (Hb := lead_skipn_bound s p Hp).
  assert (Hl : (1 <= lead (skipn p s))%nat).
  { pose proof (first_dup_lead s p F). lia. }
  assert (Hlast : (p + lead (skipn p s) = length s - 1)%nat) by lia.
  assert (Hp1 : (1 <= p)%nat).
  { destruct p as [|p]; [|lia]. exfalso.
    pose proof (lead_equal (skipn 0 s) (lead (skipn 0 s)) (le_n _)) as H.
    rewrite !nth_skipn in H. simpl in H, Hlast. rewrite Hlast in H. lra. }
  repeat split; try assumption.
  assert (Hne : nth 1 s 0 <> nth 0 s 0) by (apply (first_dup_min s p F 0%nat); lia).
  assert (Hle : nth 1 s 0 <= nth 0 s 0) by (apply Hs; lia).
  assert (Hi10 : 0 < / INR 10) by (apply Rinv_0_lt_compat; simpl; lra).
  assert (0 < (nth 0 s 0 - nth 1 s 0) * / INR 10) by (apply Rmult_lt_0_compat; lra).
  unfold Rdiv. lra.
Qed.

Lemma pass_end_ties_desc s p : desc_adj s -> first_dup s = Some p ->
  ~ (S (p + lead (skipn p s)) < length s)%nat ->
  nth (length s - 1) s 0 < nth 0 s 0 ->
  (ties (r_tb_update s (r_find_equal s 0 false)) < ties s)%nat.
Proof.
  intros Hs F Hend Hnc. set (s' := r_tb_update s (r_find_equal s 0 false)).
  destruct (first_dup_spec s p F) as [Hp Epp].
  destruct (pass_end_facts_desc s p Hs F Hend Hnc) as [Hp1 [Hdx [Hl Hlast]]].
  assert (Hform := pass_end_form s p F Hend). fold s' in Hform.
  set (n := length s) in *.
  unfold ties. unfold s' at 2. rewrite tb_update_length. fold s'. fold n.
  assert (Htl : nth (n - 1) s 0 = nth (n - 2) s 0).
  { pose proof (lead_equal (skipn p s) (lead (skipn p s)) (le_n _)) as H1.
    pose proof (lead_equal (skipn p s) (lead (skipn p s) - 1)%nat) as H2.
    rewrite !nth_skipn in H1, H2. rewrite Nat.add_0_r in H1, H2.
    replace (p + lead (skipn p s))%nat with (n - 1)%nat in H1 by lia.
    replace (p + (lead (skipn p s) - 1))%nat with (n - 2)%nat in H2 by lia.
    rewrite H1, H2 by lia. reflexivity. }
  assert (Hneg : INR (lead (skipn p s)) * ((nth 1 s 0 - nth 0 s 0) / INR 10) < 0).
  { assert (0 < INR (lead (skipn p s))) by (apply lt_0_INR; lia).
    assert (0 < INR (lead (skipn p s)) * - ((nth 1 s 0 - nth 0 s 0) / INR 10))
      by (apply Rmult_lt_0_compat; lra).
    lra. }
  apply (filter_length_lt (tied s) (tied s') _ (n - 2)%nat).
  - intros i Hi Ht. apply in_seq in Hi. apply tied_true in Ht. apply tied_true.
    rewrite !Hform in Ht.
    assert (E0 : Nat.eqb i (n - 1) = false) by (apply Nat.eqb_neq; lia). rewrite E0 in Ht.
    destruct (Nat.eqb (S i) (n - 1)) eqn:E1; [|exact Ht].
    apply Nat.eqb_eq in E1. exfalso.
    rewrite E1 in Ht. replace i with (n - 2)%nat in Ht by lia. lra.
  - apply in_seq. lia.
  - apply tied_true. replace (S (n - 2)) with (n - 1)%nat by lia. exact Htl.
  - apply tied_false_of_neq. replace (S (n - 2)) with (n - 1)%nat by lia.
    rewrite !Hform. rewrite Nat.eqb_refl.
    assert (E0 : Nat.eqb (n - 2) (n - 1) = false) by (apply Nat.eqb_neq; lia). rewrite E0.
    lra.
Qed.

Lemma strict_adj_all_desc s : (forall i, (S i < length s)%nat -> nth (S i) s 0 < nth i s 0) ->
  forall i j, (i < j < length s)%nat -> nth j s 0 < nth i s 0.
Proof.
  intros H i j [Hij Hj]. induction j as [|j IH]; [lia|].
  destruct (Nat.eq_dec i j) as [->|N]; [apply H; exact Hj|].
  apply Rlt_trans with (nth j s 0); [apply H; exact Hj | apply IH; lia].
Qed.

Lemma no_dup_exit_desc s : desc_adj s -> first_dup s = None -> r_all_distinct s = true.
Proof.
  intros Hs F. apply all_distinct_NoDup. apply (proj2 (NoDup_nth s 0)).
  assert (Hst : forall i, (S i < length s)%nat -> nth (S i) s 0 < nth i s 0).
  { intros i Hi. pose proof (Hs i Hi). pose proof (first_dup_none_adj s F i Hi). lra. }
  intros i j Hi Hj E.
  destruct (Nat.lt_trichotomy i j) as [H|[H|H]]; [|exact H|].
  - pose proof (strict_adj_all_desc s Hst i j (conj H Hj)). lra.
  - pose proof (strict_adj_all_desc s Hst j i (conj H Hi)). lra.
Qed.

Definition live_desc (s : list R) : Prop :=
  desc_adj s /\ nth (length s - 1) s 0 < nth 0 s 0.

Lemma pass_keeps_live_desc s p : live_desc s -> first_dup s = Some p ->
  live_desc (r_tb_update s (r_find_equal s 0 false)) /\
  (ties (r_tb_update s (r_find_equal s 0 false)) < ties s)%nat.
Proof.
  intros [Hs Hnc] F. destruct (first_dup_spec s p F) as [Hp Epp].
  assert (Hb := lead_skipn_bound s p Hp).
  destruct (lt_dec (S (p + lead (skipn p s))) (length s)) as [Hin|Hend].
  - split; [|apply (pass_inside_ties_desc s p Hs F Hin)].
    split; [apply tb_pass_desc; exact Hs|].
    rewrite tb_update_length.
    rewrite !(tb_pass_frame s p F Hin) by lia. exact Hnc.
  - split; [|apply (pass_end_ties_desc s p Hs F Hend Hnc)].
    split; [apply tb_pass_desc; exact Hs|].
    destruct (pass_end_facts_desc s p Hs F Hend Hnc) as [Hp1 [Hdx [Hl Hlast]]].
    rewrite tb_update_length. rewrite !(pass_end_form s p F Hend).
    rewrite Nat.eqb_refl.
    assert (E0 : Nat.eqb 0 (length s - 1) = false) by (apply Nat.eqb_neq; lia). rewrite E0.
    assert (0 < INR (lead (skipn p s))) by (apply lt_0_INR; lia).
    assert (0 < INR (lead (skipn p s)) * - ((nth 1 s 0 - nth 0 s 0) / INR 10))
      by (apply Rmult_lt_0_compat; lra).
    lra.
Qed.

Theorem tiebreak_terminates_desc : forall m s, (ties s <= m)%nat -> live_desc s ->
  exists out, r_tiebreak (S m) s = Ok out.
Proof.
  induction m as [|m IH]; intros s Hm Hl; rewrite tiebreak_unfold.
  - destruct (first_dup s) as [p|] eqn:F.
    + pose proof (ties_pos s p F). lia.
    + rewrite (no_dup_exit_desc s (proj1 Hl) F). eexists. reflexivity.
  - destruct (r_all_distinct s) eqn:E; [eexists; reflexivity|].
    destruct (first_dup s) as [p|] eqn:F.
    + destruct (pass_keeps_live_desc s p Hl F) as [Hl' Hlt].
      apply IH; [lia | exact Hl'].
    + rewrite (no_dup_exit_desc s (proj1 Hl) F) in E. discriminate.
Qed.

(* the number of tied pairs is below the length *)
Lemma ties_le s : (ties s <= length s - 1)%nat.
Proof.
  unfold ties. eapply Nat.le_trans; [apply filter_length_le with (f := fun _ => true); auto|].
  assert (H : forall l : list nat, filter (fun _ => true) l = l).
  { induction l as [|a l IH]; simpl; [reflexivity | rewrite IH; reflexivity]. }
  rewrite H, seq_length. lia.
Qed.

(* ---- constant data: the loop cannot make progress (the hypothesis is necessary) ----- *)
Lemma const_pass_id s : (2 <= length s)%nat ->
  (forall i, (i < length s)%nat -> nth i s 0 = nth 0 s 0) ->
  r_tb_update s (r_find_equal s 0 false) = s /\ r_all_distinct s = false.
Proof.
  intros Hn Hc.
  assert (F : first_dup s = Some 0%nat).
  { destruct s as [|a [|b t]]; try (simpl in Hn; lia).
    rewrite first_dup_cons2.
    assert (E : b = a) by (apply (Hc 1%nat); simpl; lia).
    rewrite (proj2 (r_eqb_true b a) E). reflexivity. }
  split.
  - assert (Hend : ~ (S (0 + lead (skipn 0 s)) < length s)%nat).
    { intros Hin. pose proof (lead_stop (skipn 0 s)) as H. simpl skipn in *.
      apply H; [exact Hin|]. rewrite (Hc (S (lead s))) by exact Hin.
      rewrite (Hc (lead s)) by lia. reflexivity. }
    apply (nth_ext _ _ 0 0); [apply tb_update_length|].
    intros i _. rewrite (pass_end_form s 0 F Hend).
    rewrite (Hc 1%nat) by lia.
    destruct (Nat.eqb i (length s - 1)); [unfold Rdiv; ring | reflexivity].
  - destruct (r_all_distinct s) eqn:E; [|reflexivity]. exfalso.
    apply all_distinct_NoDup in E.
    assert (0 = 1)%nat; [|lia].
    apply (proj1 (NoDup_nth s 0) E); [lia | lia | symmetry; apply Hc; lia].
Qed.

Theorem tiebreak_constant_raises s : (2 <= length s)%nat ->
  (forall i, (i < length s)%nat -> nth i s 0 = nth 0 s 0) ->
  forall fuel, r_tiebreak fuel s = Err ValueError.
Proof.
  intros Hn Hc. destruct (const_pass_id s Hn Hc) as [Eid Ed].
  induction fuel as [|f IH]; [reflexivity|].
  rewrite tiebreak_unfold, Ed, Eid. exact IH.
Qed.
