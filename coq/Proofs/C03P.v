From Coq Require Import List String ZArith QArith Bool Relations.
From NV Require Import Base.Exn Base.PyVal Gen.Tables Model.Curve Proofs.CurveP Proofs.CurveG.
Import ListNotations.
Local Close Scope Q_scope.
Local Open Scope string_scope.

Definition mkparam (n : string) : string * pyval :=
  (n, VParam (VFloat 1%Q "1.0") (VFloatX XPosInf) (VFloatX XNegInf) (VBool true) VNone n VNone).

Definition guess : pyval :=
  VDict (map mkparam ["E"; "R"; "nu"; "contact_point"; "baseline"]).

Definition orc0 : oracle :=
  {| o_pre := Ok tt; o_xaxis := true; o_yaxis := true; o_guess := Ok guess;
     o_cols := None; o_hash := "h1"; o_fit := Ok true; o_rate := Ok (VFloat 5%Q "5.0") |}.

Definition pipeA := VList [VStr "compute_tip_position"].
Definition pipeB := VList [VStr "compute_tip_position"; VStr "correct_force_offset"].

Definition hist_ok : list (op * oracle) :=
  [(ApplyPre (Some pipeA) None false, orc0); (FitModel [], orc0)].

Lemma example_history :
  exists h, Forall (fun oo => allowed (fst oo)) h /\
    let s := cs (grun ginit h) in
    dhas "hash" (fp s) = true /\ dhas "model_key" (fp s) = true /\
    dhas "params_initial" (fp s) = true /\ is_none (dget "params_initial" (fp s)) = false.
Proof.
  exists hist_ok. split.
  - repeat constructor; simpl; try exact I. intros kv [].
  - vm_compute. repeat split; reflexivity.
Qed.

Definition hist_bad : list (op * oracle) :=
  [(ApplyPre (Some pipeA) None false, orc0); (SetFP "preprocessing" pipeB, orc0);
   (FitModel [], orc0)].

Lemma direct_edit_witness :
  exists h, let g := grun ginit h in
    dhas "hash" (fp (cs g)) = true /\
    py_eq (dget "preprocessing" (fp (cs g))) (fst (gdata g)) = false.
Proof. exists hist_bad. vm_compute. split; reflexivity. Qed.
