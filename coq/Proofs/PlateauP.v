(* C05: the index range chosen by the plateau selection is a stretch of the scanned
   samples: both ends exist, are in order, and carry the same sequence label.  Holds for
   every scalar type and every comparison (no arithmetic law is needed). *)
From Coq Require Import List Bool Arith Lia.
From NV Require Import Base.Exn.
From NV Require Import Model.Plateau.
Import ListNotations.

Section PlateauP.
  Variable T : Type.
  Variables add sub mul div : T -> T -> T.
  Variable abs : T -> T.
  Variable ltb : T -> T -> bool.
  Variable of_nat : nat -> T.
  Variable zero : T.

  Lemma first_index_spec k : forall l i j, first_index k l i = Some j ->
    (i <= j < i + length l)%nat /\ nth (j - i) l (S k) = k.
  Proof.
    induction l as [|x t IH]; intros i j H; [discriminate|].
    simpl in H. destruct (Nat.eqb x k) eqn:E.
    - inversion H; subst. apply Nat.eqb_eq in E. split; [simpl; lia|].
      rewrite Nat.sub_diag. exact E.
    - apply IH in H. destruct H as [H1 H2]. split; [simpl; lia|].
      replace (j - i)%nat with (S (j - S i)) by lia. exact H2.
  Qed.

  Lemma last_index_spec k : forall l i acc j, last_index k l i acc = Some j ->
    (acc = Some j /\ forall m, (m < length l)%nat -> nth m l (S k) <> k) \/
    ((i <= j < i + length l)%nat /\ nth (j - i) l (S k) = k).
  Proof.
    induction l as [|x t IH]; intros i acc j H.
    - left. split; [exact H | intros m Hm; simpl in Hm; lia].
    - simpl in H. destruct (IH _ _ _ H) as [[Ha Hn]|[Hr Hv]].
      + destruct (Nat.eqb x k) eqn:E.
        * inversion Ha; subst. right. apply Nat.eqb_eq in E. split; [simpl; lia|].
          rewrite Nat.sub_diag. exact E.
        * left. split; [exact Ha|]. intros m Hm. destruct m as [|m]; simpl.
          -- apply Nat.eqb_neq. exact E.
          -- apply Hn. simpl in Hm. lia.
      + right. split; [simpl; lia|].
        replace (j - i)%nat with (S (j - S i)) by lia. exact Hv.
  Qed.

  Lemma first_le_last k : forall l i j1 j2 acc,
    first_index k l i = Some j1 -> last_index k l i acc = Some j2 ->
    (forall a, acc = Some a -> (a < i)%nat) -> (j1 <= j2)%nat.
  Proof.
    induction l as [|x t IH]; intros i j1 j2 acc H1 H2 Hacc; [discriminate|].
    simpl in H1, H2. destruct (Nat.eqb x k) eqn:E.
    - inversion H1; subst j1. clear H1.
      destruct (last_index_spec k t (S i) (Some i) j2 H2) as [[Ha _]|[Hr _]].
      + inversion Ha. lia.
      + lia.
    - eapply (IH (S i) j1 j2 acc H1 H2). intros a Ha. specialize (Hacc a Ha). lia.
  Qed.

  Lemma label_from_length : forall bins prev idx, length (label_from bins prev idx) = length bins.
  Proof. induction bins as [|b t IH]; intros; simpl; [reflexivity | rewrite IH; reflexivity]. Qed.

  Lemma labels_length bins : length (labels bins) = length bins.
  Proof. destruct bins as [|b t]; simpl; [reflexivity | rewrite label_from_length; reflexivity]. Qed.

  (* what comes out is a stretch of the samples, ends in order, same label at both ends *)
  Theorem plateau_indices smooth i0 i1 :
    plateau T add sub mul div abs ltb of_nat zero smooth = Ok (i0, i1) ->
    (i0 <= i1 < length smooth)%nat /\
    exists labs k, length labs = length smooth /\ nth i0 labs (S k) = k /\ nth i1 labs (S k) = k.
  Proof.
    unfold plateau. destruct smooth as [|s0 rest]; [discriminate|].
    set (smooth := s0 :: rest).
    set (iv := ivals T add sub mul div of_nat _ _).
    set (st := istep T sub div of_nat _ _).
    set (bins := map (bin_of T sub abs ltb iv) smooth).
    set (labs := labels bins).
    destruct (select T ltb zero _ _ labs bins iv st) as [labmax|e]; [|discriminate].
    destruct (first_index labmax labs 0) as [a|] eqn:F; [|discriminate].
    destruct (last_index labmax labs 0 None) as [b|] eqn:L; [|discriminate].
    intros H. inversion H; subst a b. clear H.
    assert (Hlen : length labs = length smooth).
    { unfold labs. rewrite labels_length. unfold bins. apply map_length. }
    destruct (first_index_spec _ _ _ _ F) as [F1 F2].
    destruct (last_index_spec _ _ _ _ _ L) as [[Ha _]|[L1 L2]]; [discriminate|].
    rewrite Nat.sub_0_r in F2, L2.
    assert (Hle : (i0 <= i1)%nat).
    { eapply (first_le_last labmax labs 0 i0 i1 None F L). intros a Ha. discriminate. }
    split; [lia|]. exists labs, labmax. repeat split; assumption.
  Qed.
  (* the sequence that is selected passed the size test (its bin centre exceeds the bin
     size), unless the fallback label 5 was taken *)
  Lemma select_spec : forall fuel counts labs bins iv st k,
    select T ltb zero fuel counts labs bins iv st = Ok k ->
    k = 5%nat \/
    exists labid, first_index k labs 0 = Some labid /\
                  ltb st (nth (nth labid bins 0%nat) iv zero) = true.
  Proof.
    induction fuel as [|f IH]; intros counts labs bins iv st k H; simpl in H.
    - inversion H. left. reflexivity.
    - destruct (first_index (argmax counts) labs 0) as [labid|] eqn:F; [|discriminate].
      destruct (ltb st (nth (nth labid bins 0%nat) iv zero)) eqn:E.
      + inversion H; subst k. right. exists labid. split; assumption.
      + eapply IH. exact H.
  Qed.
End PlateauP.
