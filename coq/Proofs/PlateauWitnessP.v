(* the observation recorded in DESIGN.md, section 5: after a sequence has been dropped from
   `counts`, the next argmax is an index into the shortened list but is used as a label. *)
From Coq Require Import List Bool Arith PrimFloat.
From NV Require Import Base.Exn Model.FitCore Model.FitCoreF Model.Plateau Model.PlateauF.
Import ListNotations.

(* scipy's filtfilt of forty samples at 1, twelve at 500 and twenty at 1000 *)
Definition smooth_example : list float := [(0x1.912de7764d4e3p+0)%float; (0x1.a9fbaec880722p+0)%float; (0x1.c7065179b4611p+0)%float; (0x1.e9072874c749dp+0)%float; (0x1.086b9ba28be19p+1)%float; (0x1.1fba4a8d03463p+1)%float; (0x1.3b046135bee18p+1)%float; (0x1.5af809d6862c0p+1)%float; (0x1.80613032ae1f4p+1)%float; (0x1.ac2e970b0d6d0p+1)%float; (0x1.df77cbec395c3p+1)%float; (0x1.0dc20faa18865p+2)%float; (0x1.30e966d51335ep+2)%float; (0x1.5a12468e3e911p+2)%float; (0x1.8a435eaf700e4p+2)%float; (0x1.c2b040569f952p+2)%float; (0x1.0260846ac713ep+3)%float; (0x1.290dadffa9284p+3)%float; (0x1.5656738ff21d6p+3)%float; (0x1.8b5bd7d9e6a11p+3)%float; (0x1.c9703e3628447p+3)%float; (0x1.090fed1df88b9p+4)%float; (0x1.339d482f4dbbfp+4)%float; (0x1.656fc347398f5p+4)%float; (0x1.9fc55755fbbc3p+4)%float; (0x1.e412509c7910dp+4)%float; (0x1.1a054b5da269dp+5)%float; (0x1.48d6455a40eecp+5)%float; (0x1.7fa6e01de3ce3p+5)%float; (0x1.bfd4f1c456ebdp+5)%float; (0x1.057d0ab01732dp+6)%float; (0x1.317af092426a0p+6)%float; (0x1.64fced97d3894p+6)%float; (0x1.a14bbca28bd66p+6)%float; (0x1.e7e8426763263p+6)%float; (0x1.1d4a92f03f509p+7)%float; (0x1.4db10636f2eedp+7)%float; (0x1.865c60ac69950p+7)%float; (0x1.c8b64e56c99c1p+7)%float; (0x1.0b3322edf31d7p+8)%float; (0x1.3591df642a3c6p+8)%float; (0x1.5e4d6daa02bfdp+8)%float; (0x1.834d97c03c41bp+8)%float; (0x1.a57e825f6bd0cp+8)%float; (0x1.c5ba63e814803p+8)%float; (0x1.e4cef50c6920fp+8)%float; (0x1.01c148e0ff23cp+9)%float; (0x1.114c959b69609p+9)%float; (0x1.216c952c99fa5p+9)%float; (0x1.3288310fc7d5cp+9)%float; (0x1.450c9890e48cfp+9)%float; (0x1.596ff9a1d2954p+9)%float; (0x1.6ea590c7f6bcdp+9)%float; (0x1.8216f5d27b3d7p+9)%float; (0x1.92b15ce5871b3p+9)%float; (0x1.a0debcb00caecp+9)%float; (0x1.acf99062b8bf4p+9)%float; (0x1.b74f1926c5879p+9)%float; (0x1.c0214b2aad512p+9)%float; (0x1.c7a8728f735d2p+9)%float; (0x1.ce149ab4eda92p+9)%float; (0x1.d38ec0da270acp+9)%float; (0x1.d839d9b6c8e27p+9)%float; (0x1.dc33b0931cdcap+9)%float; (0x1.df95a56e77d44p+9)%float; (0x1.e2754ef19e871p+9)%float; (0x1.e4e50436b5900p+9)%float; (0x1.e6f451d61340fp+9)%float; (0x1.e8b05d22fb29ap+9)%float; (0x1.ea2438119bf85p+9)%float; (0x1.eb5927ddc358ep+9)%float; (0x1.ec56e0352fc4dp+9)%float].

Definition ex_lo := list_min float PrimFloat.ltb smooth_example 0%float.
Definition ex_hi := list_max float PrimFloat.ltb smooth_example 0%float.
Definition ex_iv := ivals float PrimFloat.add PrimFloat.sub PrimFloat.mul PrimFloat.div f_of_nat ex_lo ex_hi.
Definition ex_st := istep float PrimFloat.sub PrimFloat.div f_of_nat ex_lo ex_hi.
Definition ex_bins := map (bin_of float PrimFloat.sub PrimFloat.abs PrimFloat.ltb ex_iv) smooth_example.
Definition ex_labs := labels ex_bins.

Lemma plateau_pop_shifts_label :
  bincount ex_labs = [33; 5; 2; 3; 3; 3; 2; 3; 4; 14]%nat /\
  (* the longest sequence (label 0) lies below the bin size and is dropped ... *)
  PrimFloat.ltb ex_st (nth (nth 0 ex_bins 0%nat) ex_iv 0%float) = false /\
  (* ... the longest remaining one is label 9 (fourteen samples, above the bin size) ... *)
  first_index 9 ex_labs 0 = Some 58%nat /\
  PrimFloat.ltb ex_st (nth (nth 58 ex_bins 0%nat) ex_iv 0%float) = true /\
  (* ... but the stretch that is selected is label 8 (four samples) *)
  f_plateau smooth_example = Ok (54, 57)%nat.
Proof. vm_compute. repeat split; reflexivity. Qed.
