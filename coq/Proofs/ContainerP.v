(* Theorems about Model/Container.v: other entries are never touched (also by an
   interrupted save), a container stays loadable after a save interrupted at ANY
   write call, round trip of a new entry, re-save changes user fields only, a
   different fit is refused without touching the analysis part. *)
From Coq Require Import String.
From Coq Require Import List Bool Arith Lia.
From NV Require Import Base.Exn Model.Container.
Import ListNotations.
Local Open Scope string_scope.
Local Open Scope list_scope.

(* ---- association lists ---------------------------------------------------------------- *)
Section AssocP.
  Context {V : Type}.
  Implicit Types l : list (string * V).

  Lemma aget_aset_same k v l : aget k (aset k v l) = Some v.
  Proof.
    induction l as [|[k' v'] l IH]; simpl; [rewrite String.eqb_refl; reflexivity|].
    destruct (String.eqb k k') eqn:E; simpl; [rewrite String.eqb_refl; reflexivity|].
    rewrite E. exact IH.
  Qed.

  Lemma aget_aset_other k k' v l : k' <> k -> aget k' (aset k v l) = aget k' l.
  Proof.
    intros Hne. induction l as [|[k2 v2] l IH]; simpl.
    - destruct (String.eqb k' k) eqn:E; [apply String.eqb_eq in E; contradiction | reflexivity].
    - destruct (String.eqb k k2) eqn:E; simpl.
      + apply String.eqb_eq in E. subst k2.
        destruct (String.eqb k' k) eqn:E2; [apply String.eqb_eq in E2; contradiction | reflexivity].
      + destruct (String.eqb k' k2); [reflexivity | exact IH].
  Qed.

  Lemma aget_adel_same k l : aget k (adel k l) = None.
  Proof.
    induction l as [|[k' v'] l IH]; simpl; [reflexivity|].
    destruct (String.eqb k k') eqn:E; simpl; [exact IH|]. rewrite E. exact IH.
  Qed.

  Lemma aget_adel_other k k' l : k' <> k -> aget k' (adel k l) = aget k' l.
  Proof.
    intros Hne. induction l as [|[k2 v2] l IH]; simpl; [reflexivity|].
    destruct (String.eqb k k2) eqn:E; simpl.
    - apply String.eqb_eq in E. subst k2.
      destruct (String.eqb k' k) eqn:E2; [apply String.eqb_eq in E2; contradiction | exact IH].
    - destruct (String.eqb k' k2); [reflexivity | exact IH].
  Qed.

  Lemma ahas_aset_mono k k' v l : ahas k' l = true -> ahas k' (aset k v l) = true.
  Proof.
    unfold ahas. destruct (string_dec k' k) as [->|Hne].
    - rewrite aget_aset_same. reflexivity.
    - rewrite aget_aset_other by exact Hne. tauto.
  Qed.

  Lemma ahas_aset_same k v l : ahas k (aset k v l) = true.
  Proof. unfold ahas. rewrite aget_aset_same. reflexivity. Qed.

  Lemma Forall_aset (P : string * V -> Prop) k v l :
    Forall P l -> P (k, v) -> Forall P (aset k v l).
  Proof.
    intros Hl Hp. induction l as [|[k' v'] l IH]; simpl; [constructor; [exact Hp | constructor]|].
    inversion Hl as [|? ? H1 H2]; subst.
    destruct (String.eqb k k'); constructor; auto.
  Qed.

  Lemma Forall_adel (P : string * V -> Prop) k l : Forall P l -> Forall P (adel k l).
  Proof.
    intros Hl. unfold adel. rewrite Forall_forall in *. intros x Hx.
    apply filter_In in Hx. apply Hl. tauto.
  Qed.

  Lemma aget_In k v l : aget k l = Some v -> In (k, v) l.
  Proof.
    induction l as [|[k' v'] l IH]; simpl; [discriminate|].
    destruct (String.eqb k k') eqn:E.
    - intros H. injection H as <-. apply String.eqb_eq in E. subst. left. reflexivity.
    - intros H. right. apply IH. exact H.
  Qed.
End AssocP.

(* ---- which entry a write touches ------------------------------------------------------- *)
Definition wtarget (w : write) : option string :=
  match w with
  | WData _ _ | WPath _ _ => None
  | WDelGroup id | WGroup id | WAttr id _ _ | WDset id _ _ => Some id
  end.

Lemma apply_write_other s w id' : wtarget w <> Some id' ->
  aget id' (hana (apply_write s w)) = aget id' (hana s).
Proof.
  intros H. destruct w as [k b|k p|id|id|id k v|id n v]; simpl in *.
  - reflexivity.
  - destruct (aget k (hdata s)) as [[b o]|]; reflexivity.
  - apply aget_adel_other. congruence.
  - apply aget_aset_other. congruence.
  - destruct (aget id (hana s)); [|reflexivity]. simpl. apply aget_aset_other. congruence.
  - destruct (aget id (hana s)); [|reflexivity]. simpl. apply aget_aset_other. congruence.
Qed.

Lemma apply_writes_other : forall ws s id', Forall (fun w => wtarget w <> Some id') ws ->
  aget id' (hana (apply_writes s ws)) = aget id' (hana s).
Proof.
  induction ws as [|w ws IH]; intros s id' H; simpl; [reflexivity|].
  inversion H as [|? ? H1 H2]; subst. unfold apply_writes in *. simpl.
  rewrite IH by exact H2. apply apply_write_other. exact H1.
Qed.

Definition own (id : string) (w : write) : Prop := wtarget w = None \/ wtarget w = Some id.

Lemma own_map_attr id (l : list (string * string)) :
  Forall (own id) (map (fun kv => WAttr id (fst kv) (snd kv)) l).
Proof. rewrite Forall_forall. intros w Hw. apply in_map_iff in Hw. destruct Hw as [kv [<- _]]. right. reflexivity. Qed.

Lemma own_map_dset id (l : list (string * string)) :
  Forall (own id) (map (fun kv => WDset id (fst kv) (snd kv)) l).
Proof. rewrite Forall_forall. intros w Hw. apply in_map_iff in Hw. destruct Hw as [kv [<- _]]. right. reflexivity. Qed.

Lemma own_data_writes s c : Forall (own (cid c)) (data_writes s c).
Proof.
  unfold data_writes. apply Forall_app. split.
  - destruct (ahas (chash c) (hdata s)); constructor; [left; reflexivity | constructor].
  - destruct (aget (chash c) (hdata s)) as [[b [p|]]|]; constructor; try (left; reflexivity); constructor.
Qed.

Lemma own_group_writes c u : Forall (own (cid c)) (group_writes c u).
Proof.
  unfold group_writes. repeat (apply Forall_app; split).
  - constructor; [right; reflexivity | constructor].
  - apply own_map_attr.
  - apply own_map_dset.
  - apply own_map_attr.
  - constructor; [right; reflexivity | constructor].
Qed.

Lemma own_save_writes fm s c u : Forall (own (cid c)) (fst (save_writes fm s c u)).
Proof.
  unfold save_writes. destruct (aget (cid c) (hana s)) as [g|].
  - destruct (complete g).
    + destruct (aget "fit" (gdsets g)) as [old|]; [|apply own_data_writes].
      destruct (fm (cfit c) old); simpl; [|apply own_data_writes].
      apply Forall_app. split; [apply own_data_writes | apply own_map_attr].
    + simpl. apply Forall_app. split; [apply own_data_writes|].
      constructor; [right; reflexivity | apply own_group_writes].
  - simpl. apply Forall_app. split; [apply own_data_writes | apply own_group_writes].
Qed.

Lemma Forall_firstn {A} (P : A -> Prop) : forall n l, Forall P l -> Forall P (firstn n l).
Proof.
  induction n as [|n IH]; intros l H; simpl; [constructor|].
  destruct l as [|x l]; [constructor|]. inversion H; subst. constructor; auto.
Qed.

(* storing (or failing to store) one curve never alters another entry *)
Theorem other_entries_untouched fm s c u n id' : id' <> cid c ->
  aget id' (hana (save_upto n fm s c u)) = aget id' (hana s).
Proof.
  intros Hne. unfold save_upto. apply apply_writes_other.
  apply Forall_firstn. eapply Forall_impl; [|apply own_save_writes].
  intros w [H|H]; rewrite H; congruence.
Qed.

(* ---- data part -------------------------------------------------------------------------- *)
Lemma apply_write_hdata_group s w : wtarget w <> None -> hdata (apply_write s w) = hdata s.
Proof.
  destruct w as [k b|k p|id|id|id k v|id n v]; simpl; intros H; try congruence; try reflexivity.
  - destruct (aget id (hana s)); reflexivity.
  - destruct (aget id (hana s)); reflexivity.
Qed.

Definition data_mono (s s' : h5) : Prop :=
  forall k, data_loadable s k = true -> data_loadable s' k = true.

Lemma data_mono_refl s : data_mono s s.
Proof. intros k H. exact H. Qed.

Lemma data_mono_trans a b c : data_mono a b -> data_mono b c -> data_mono a c.
Proof. intros H1 H2 k H. apply H2, H1, H. Qed.

(* a data write as emitted by save: WData only for an absent key *)
Definition safe_write (s : h5) (w : write) : Prop :=
  match w with WData k _ => ahas k (hdata s) = false | _ => True end.

Lemma apply_write_data_mono s w : safe_write s w -> data_mono s (apply_write s w).
Proof.
  intros Hs k Hk. unfold data_loadable in *.
  destruct w as [k0 b|k0 p|id|id|id k1 v|id n v]; simpl in *; try exact Hk.
  - destruct (string_dec k k0) as [->|Hne].
    + unfold ahas in Hs. destruct (aget k0 (hdata s)); [discriminate | discriminate].
    + rewrite aget_aset_other by exact Hne. exact Hk.
  - destruct (aget k0 (hdata s)) as [[b o]|] eqn:E; [|exact Hk]. simpl.
    destruct (string_dec k k0) as [->|Hne].
    + rewrite aget_aset_same. reflexivity.
    + rewrite aget_aset_other by exact Hne. exact Hk.
  - destruct (aget id (hana s)); exact Hk.
  - destruct (aget id (hana s)); exact Hk.
Qed.

(* ---- loadability -------------------------------------------------------------------------- *)
Definition GOK (s : h5) (idg : string * group) : Prop := exists o, load_group s idg = Ok o.
Definition AllOK (s : h5) : Prop := Forall (GOK s) (hana s).

Lemma load_groups_ok s : forall l, Forall (GOK s) l -> exists rs, load_groups s l = Ok rs.
Proof.
  induction l as [|idg l IH]; intros H; simpl; [eexists; reflexivity|].
  inversion H as [|? ? [o Ho] H2]; subst. rewrite Ho.
  destruct (IH H2) as [rs Hrs]. rewrite Hrs. eexists. reflexivity.
Qed.

Lemma load_groups_ok_inv s : forall l rs, load_groups s l = Ok rs -> Forall (GOK s) l.
Proof.
  induction l as [|idg l IH]; intros rs H; simpl in H; [constructor|].
  destruct (load_group s idg) as [o|e] eqn:E; [|discriminate].
  destruct (load_groups s l) as [rs'|e] eqn:E2; [|discriminate].
  constructor; [exists o; exact E | eapply IH; reflexivity].
Qed.

Theorem loadable_iff s : AllOK s <-> exists rs, load s = Ok rs.
Proof.
  unfold AllOK, load. split; [apply load_groups_ok|]. intros [rs H]. eapply load_groups_ok_inv. exact H.
Qed.

Lemma GOK_incomplete s id g : complete g = false -> GOK s (id, g).
Proof. intros H. exists None. unfold load_group. rewrite H. reflexivity. Qed.

Lemma GOK_mono s s' idg : data_mono s s' -> GOK s idg -> GOK s' idg.
Proof.
  intros Hm [o Ho]. destruct idg as [id g]. unfold GOK, load_group in *.
  destruct (negb (complete g)); [eexists; reflexivity|].
  destruct (aget "data hash" (gattrs g)) as [dh|]; [|discriminate].
  remember (forallb (fun n => ahas n (gdsets g)) required_dsets) as A.
  remember (forallb (fun k => ahas k (gattrs g)) required_attrs) as B.
  destruct (data_loadable s dh) eqn:Ed.
  - rewrite (Hm dh Ed). destruct A, B; cbn [andb] in *; try discriminate. eexists. reflexivity.
  - cbn [andb] in Ho. discriminate.
Qed.

Lemma AllOK_mono_hana s s' : hana s' = hana s -> data_mono s s' -> AllOK s -> AllOK s'.
Proof.
  intros Hh Hm H. unfold AllOK in *. rewrite Hh. eapply Forall_impl; [|exact H].
  intros idg. apply GOK_mono. exact Hm.
Qed.

(* members of a complete, loadable group *)
Definition members_ok (s : h5) (g : group) : Prop :=
  exists dh, aget "data hash" (gattrs g) = Some dh /\ data_loadable s dh = true /\
    forallb (fun n => ahas n (gdsets g)) required_dsets = true /\
    forallb (fun k => ahas k (gattrs g)) required_attrs = true.

Lemma GOK_members s id g : members_ok s g -> GOK s (id, g).
Proof.
  intros [dh [H1 [H2 [H3 H4]]]]. unfold GOK, load_group.
  destruct (negb (complete g)); [eexists; reflexivity|].
  rewrite H1, H2, H3, H4. eexists. reflexivity.
Qed.

Lemma GOK_complete_members s id g : complete g = true -> GOK s (id, g) -> members_ok s g.
Proof.
  intros Hc [o Ho]. unfold load_group in Ho. rewrite Hc in Ho. cbn [negb] in Ho.
  destruct (aget "data hash" (gattrs g)) as [dh|] eqn:Edh; [|discriminate].
  exists dh. split; [exact Edh|].
  remember (forallb (fun n => ahas n (gdsets g)) required_dsets) as A.
  remember (forallb (fun k => ahas k (gattrs g)) required_attrs) as B.
  destruct (data_loadable s dh); [|discriminate]. split; [reflexivity|].
  destruct A, B; cbn [andb] in Ho; try discriminate. split; reflexivity.
Qed.

(* one write keeps the container loadable if the group it touches stays loadable *)
Lemma AllOK_step s w : safe_write s w -> AllOK s ->
  (forall id g, wtarget w = Some id -> aget id (hana (apply_write s w)) = Some g ->
                GOK (apply_write s w) (id, g)) ->
  AllOK (apply_write s w).
Proof.
  intros Hs HA Ht. pose proof (apply_write_data_mono s w Hs) as Hm.
  assert (Hbase : Forall (GOK (apply_write s w)) (hana s)).
  { eapply Forall_impl; [|exact HA]. intros idg. apply GOK_mono. exact Hm. }
  unfold AllOK. destruct w as [k b|k p|id|id|id k v|id n v]; simpl in *.
  - exact Hbase.
  - destruct (aget k (hdata s)) as [[b o]|]; exact Hbase.
  - apply Forall_adel. exact Hbase.
  - apply Forall_aset; [exact Hbase|]. apply (Ht id); [reflexivity|]. apply aget_aset_same.
  - destruct (aget id (hana s)) as [g|] eqn:E; [|exact HA]. simpl in *.
    apply Forall_aset; [exact Hbase|]. apply (Ht id); [reflexivity|]. apply aget_aset_same.
  - destruct (aget id (hana s)) as [g|] eqn:E; [|exact HA]. simpl in *.
    apply Forall_aset; [exact Hbase|]. apply (Ht id); [reflexivity|]. apply aget_aset_same.
Qed.

(* ---- sequences of writes ---------------------------------------------------------------- *)
Lemma apply_writes_app s a b : apply_writes s (a ++ b) = apply_writes (apply_writes s a) b.
Proof. unfold apply_writes. apply fold_left_app. Qed.

Fixpoint safe_seq (s : h5) (ws : list write) : Prop :=
  match ws with
  | [] => True
  | w :: t => safe_write s w /\ safe_seq (apply_write s w) t
  end.

Definition nodata (w : write) : Prop := match w with WData _ _ => False | _ => True end.

Lemma safe_seq_nodata : forall ws s, Forall nodata ws -> safe_seq s ws.
Proof.
  induction ws as [|w ws IH]; intros s H; simpl; [exact I|].
  inversion H as [|? ? H1 H2]; subst. split; [destruct w; simpl in *; tauto | apply IH; exact H2].
Qed.

Lemma safe_seq_app : forall a s b, safe_seq s a -> safe_seq (apply_writes s a) b -> safe_seq s (a ++ b).
Proof.
  induction a as [|w a IH]; intros s b Ha Hb; simpl in *; [exact Hb|].
  destruct Ha as [H1 H2]. split; [exact H1|]. apply IH; assumption.
Qed.

Lemma safe_seq_firstn : forall n ws s, safe_seq s ws -> safe_seq s (firstn n ws).
Proof.
  induction n as [|n IH]; intros ws s H; simpl; [exact I|].
  destruct ws as [|w ws]; [exact I|]. simpl in *. destruct H as [H1 H2]. split; [exact H1 | apply IH; exact H2].
Qed.

Definition incomplete_at (s : h5) (id : string) : Prop :=
  match aget id (hana s) with Some g => complete g = false | None => True end.

(* a write that cannot complete group id *)
Definition benign (id : string) (w : write) : Prop :=
  match w with WDset id' n _ => id' = id -> n <> "fit" | _ => True end.

Lemma keep_incomplete s id w : incomplete_at s id -> benign id w ->
  incomplete_at (apply_write s w) id.
Proof.
  unfold incomplete_at. intros Hi Hb.
  destruct w as [k b|k p|id'|id'|id' k v|id' n v]; simpl in *.
  - exact Hi.
  - destruct (aget k (hdata s)) as [[b o]|]; exact Hi.
  - destruct (string_dec id id') as [->|Hne].
    + rewrite aget_adel_same. exact I.
    + rewrite aget_adel_other by exact Hne. exact Hi.
  - destruct (string_dec id id') as [->|Hne].
    + rewrite aget_aset_same. reflexivity.
    + rewrite aget_aset_other by exact Hne. exact Hi.
  - destruct (aget id' (hana s)) as [g|] eqn:E; [|exact Hi]. simpl.
    destruct (string_dec id id') as [->|Hne].
    + rewrite aget_aset_same. rewrite E in Hi. exact Hi.
    + rewrite aget_aset_other by exact Hne. exact Hi.
  - destruct (aget id' (hana s)) as [g|] eqn:E; [|exact Hi]. simpl.
    destruct (string_dec id id') as [->|Hne].
    + rewrite aget_aset_same. rewrite E in Hi. unfold complete, ahas in *. simpl.
      rewrite aget_aset_other; [exact Hi|]. intros Heq. apply (Hb eq_refl). symmetry. exact Heq.
    + rewrite aget_aset_other by exact Hne. exact Hi.
Qed.

(* while the group being written is incomplete, EVERY prefix leaves a loadable file *)
Lemma prefix_safe id : forall ws s n, AllOK s -> incomplete_at s id ->
  Forall (own id) ws -> Forall (benign id) ws -> safe_seq s ws ->
  AllOK (apply_writes s (firstn n ws)) /\ incomplete_at (apply_writes s (firstn n ws)) id.
Proof.
  induction ws as [|w ws IH]; intros s n HA Hi Ho Hb Hs.
  - rewrite firstn_nil. split; assumption.
  - destruct n as [|n]; [split; assumption|].
    inversion Ho as [|? ? Ho1 Ho2]; subst. inversion Hb as [|? ? Hb1 Hb2]; subst.
    destruct Hs as [Hs1 Hs2]. simpl firstn. unfold apply_writes. simpl fold_left.
    pose proof (keep_incomplete s id w Hi Hb1) as Hi'.
    apply IH; try assumption.
    apply AllOK_step; [exact Hs1 | exact HA |].
    intros id' g Ht Hg. destruct Ho1 as [Hn|Hsome]; [congruence|].
    assert (id' = id) by congruence. subst id'.
    unfold incomplete_at in Hi'. rewrite Hg in Hi'. apply GOK_incomplete. exact Hi'.
Qed.

(* ---- the group being written, as a fold ------------------------------------------------- *)
Definition gstep (g : group) (w : write) : group :=
  match w with
  | WAttr _ k v => {| gattrs := aset k v (gattrs g); gdsets := gdsets g |}
  | WDset _ n v => {| gattrs := gattrs g; gdsets := aset n v (gdsets g) |}
  | _ => g
  end.

Definition member_write (id : string) (w : write) : Prop :=
  match w with WAttr id' _ _ | WDset id' _ _ => id' = id | _ => False end.

Lemma run_group id : forall ws s g, Forall (member_write id) ws -> aget id (hana s) = Some g ->
  aget id (hana (apply_writes s ws)) = Some (fold_left gstep ws g) /\
  hdata (apply_writes s ws) = hdata s.
Proof.
  induction ws as [|w ws IH]; intros s g Hm Hg; simpl; [split; [exact Hg | reflexivity]|].
  inversion Hm as [|? ? H1 H2]; subst. unfold apply_writes. simpl fold_left.
  destruct w as [k b|k p|id'|id'|id' k v|id' n v]; simpl in H1; try contradiction; subst id'.
  - assert (E : aget id (hana (apply_write s (WAttr id k v))) = Some (gstep g (WAttr id k v))).
    { simpl. rewrite Hg. simpl. apply aget_aset_same. }
    destruct (IH _ _ H2 E) as [I1 I2]. split; [exact I1|].
    unfold apply_writes in I2. rewrite I2. simpl. rewrite Hg. reflexivity.
  - assert (E : aget id (hana (apply_write s (WDset id n v))) = Some (gstep g (WDset id n v))).
    { simpl. rewrite Hg. simpl. apply aget_aset_same. }
    destruct (IH _ _ H2 E) as [I1 I2]. split; [exact I1|].
    unfold apply_writes in I2. rewrite I2. simpl. rewrite Hg. reflexivity.
Qed.

Lemma fold_attr_mono k : forall ws g, ahas k (gattrs g) = true ->
  ahas k (gattrs (fold_left gstep ws g)) = true.
Proof.
  induction ws as [|w ws IH]; intros g H; simpl; [exact H|]. apply IH.
  destruct w; simpl; try exact H. apply ahas_aset_mono. exact H.
Qed.

Lemma fold_dset_mono n : forall ws g, ahas n (gdsets g) = true ->
  ahas n (gdsets (fold_left gstep ws g)) = true.
Proof.
  induction ws as [|w ws IH]; intros g H; simpl; [exact H|]. apply IH.
  destruct w; simpl; try exact H. apply ahas_aset_mono. exact H.
Qed.

Lemma fold_attr_written id k v : forall ws g, In (WAttr id k v) ws ->
  ahas k (gattrs (fold_left gstep ws g)) = true.
Proof.
  induction ws as [|w ws IH]; intros g H; simpl in *; [contradiction|].
  destruct H as [->|H]; [|apply IH; exact H].
  apply fold_attr_mono. simpl. apply ahas_aset_same.
Qed.

Lemma fold_dset_written id n v : forall ws g, In (WDset id n v) ws ->
  ahas n (gdsets (fold_left gstep ws g)) = true.
Proof.
  induction ws as [|w ws IH]; intros g H; simpl in *; [contradiction|].
  destruct H as [->|H]; [|apply IH; exact H].
  apply fold_dset_mono. simpl. apply ahas_aset_same.
Qed.

Definition writes_attr (k : string) (w : write) : Prop :=
  match w with WAttr _ k' _ => k' = k | _ => False end.
Definition writes_dset (n : string) (w : write) : Prop :=
  match w with WDset _ n' _ => n' = n | _ => False end.

Lemma fold_attr_untouched k : forall ws g, Forall (fun w => ~ writes_attr k w) ws ->
  aget k (gattrs (fold_left gstep ws g)) = aget k (gattrs g).
Proof.
  induction ws as [|w ws IH]; intros g H; simpl; [reflexivity|].
  inversion H as [|? ? H1 H2]; subst. rewrite IH by exact H2.
  destruct w; simpl; try reflexivity. apply aget_aset_other. intros E. apply H1. simpl. congruence.
Qed.

Lemma fold_dset_untouched n : forall ws g, Forall (fun w => ~ writes_dset n w) ws ->
  aget n (gdsets (fold_left gstep ws g)) = aget n (gdsets g).
Proof.
  induction ws as [|w ws IH]; intros g H; simpl; [reflexivity|].
  inversion H as [|? ? H1 H2]; subst. rewrite IH by exact H2.
  destruct w; simpl; try reflexivity. apply aget_aset_other. intros E. apply H1. simpl. congruence.
Qed.

(* with distinct keys, every written attribute / dataset holds the value written *)
Lemma fold_attr_value id : forall (l : list (string * string)) g k v,
  NoDup (map fst l) -> In (k, v) l ->
  aget k (gattrs (fold_left gstep (map (fun kv => WAttr id (fst kv) (snd kv)) l) g)) = Some v.
Proof.
  induction l as [|[k0 v0] l IH]; intros g k v Hnd Hin; simpl in *; [contradiction|].
  inversion Hnd as [|? ? Hn Hd]; subst. destruct Hin as [E|Hin].
  - injection E as -> ->. rewrite fold_attr_untouched.
    + simpl. apply aget_aset_same.
    + rewrite Forall_forall. intros w Hw. apply in_map_iff in Hw. destruct Hw as [[k1 v1] [<- Hin1]].
      simpl. intros ->. apply Hn. apply in_map_iff. exists (k, v1). split; [reflexivity | exact Hin1].
  - apply IH; assumption.
Qed.

Lemma fold_dset_value id : forall (l : list (string * string)) g n v,
  NoDup (map fst l) -> In (n, v) l ->
  aget n (gdsets (fold_left gstep (map (fun kv => WDset id (fst kv) (snd kv)) l) g)) = Some v.
Proof.
  induction l as [|[k0 v0] l IH]; intros g k v Hnd Hin; simpl in *; [contradiction|].
  inversion Hnd as [|? ? Hn Hd]; subst. destruct Hin as [E|Hin].
  - injection E as -> ->. rewrite fold_dset_untouched.
    + simpl. apply aget_aset_same.
    + rewrite Forall_forall. intros w Hw. apply in_map_iff in Hw. destruct Hw as [[k1 v1] [<- Hin1]].
      simpl. intros ->. apply Hn. apply in_map_iff. exists (k, v1). split; [reflexivity | exact Hin1].
  - apply IH; assumption.
Qed.

(* ---- well-formed input of a save --------------------------------------------------------- *)
Record WFC (c : curve) (u : list (string * string)) : Prop := {
  wf_nofit : ~ In "fit" (map fst (cdsets c));
  wf_dsets : forall n, In n ["fit range"; "force"; "fit residuals"; "tip position"; "segment"] ->
                       In n (map fst (cdsets c));
  wf_nodup_a : NoDup (map fst (cattrs c));
  wf_nodup_d : NoDup (map fst (cdsets c));
  wf_nodup_u : NoDup (map fst u);
  wf_hash : In ("data hash", chash c) (cattrs c);
  wf_enum : In "data enum" (map fst (cattrs c));
  wf_user : forall k, In k ["user name"; "user rate"; "user comment"] -> In k (map fst u);
  wf_disj : forall k, In k (map fst u) -> ~ In k (map fst (cattrs c))
}.

Notation attrW id l := (map (fun kv : string * string => WAttr id (fst kv) (snd kv)) l).
Notation dsetW id l := (map (fun kv : string * string => WDset id (fst kv) (snd kv)) l).

Lemma data_writes_facts s c :
  safe_seq s (data_writes s c) /\
  data_loadable (apply_writes s (data_writes s c)) (chash c) = true /\
  hana (apply_writes s (data_writes s c)) = hana s /\
  data_mono s (apply_writes s (data_writes s c)).
Proof.
  unfold data_writes, ahas, data_loadable.
  destruct (aget (chash c) (hdata s)) as [[b [p|]]|] eqn:E; simpl.
  - rewrite E. repeat split; try reflexivity. apply data_mono_refl.
  - unfold apply_writes. simpl. rewrite E. simpl. rewrite aget_aset_same.
    repeat split; try reflexivity.
    intros k Hk. unfold data_loadable in *. simpl.
    destruct (string_dec k (chash c)) as [->|Hne]; [rewrite aget_aset_same; reflexivity|].
    rewrite aget_aset_other by exact Hne. exact Hk.
  - unfold apply_writes. simpl. rewrite aget_aset_same. simpl. rewrite aget_aset_same.
    repeat split; try reflexivity.
    + unfold ahas. rewrite E. reflexivity.
    + intros k Hk. unfold data_loadable in *. simpl.
      destruct (string_dec k (chash c)) as [->|Hne]; [rewrite aget_aset_same; reflexivity|].
      rewrite !aget_aset_other by exact Hne. exact Hk.
Qed.

Lemma nodata_data_free id (l : list write) : Forall (member_write id) l -> Forall nodata l.
Proof. apply Forall_impl. intros w. destruct w; simpl; tauto. Qed.

Lemma member_attrW id l : Forall (member_write id) (attrW id l).
Proof. rewrite Forall_forall. intros w Hw. apply in_map_iff in Hw. destruct Hw as [kv [<- _]]. reflexivity. Qed.
Lemma member_dsetW id l : Forall (member_write id) (dsetW id l).
Proof. rewrite Forall_forall. intros w Hw. apply in_map_iff in Hw. destruct Hw as [kv [<- _]]. reflexivity. Qed.

Lemma benign_attrW id id' l : Forall (benign id) (attrW id' l).
Proof. rewrite Forall_forall. intros w Hw. apply in_map_iff in Hw. destruct Hw as [kv [<- _]]. exact I. Qed.

Lemma benign_dsetW id id' l : ~ In "fit" (map fst l) -> Forall (benign id) (dsetW id' l).
Proof.
  intros H. rewrite Forall_forall. intros w Hw. apply in_map_iff in Hw. destruct Hw as [kv [<- Hin]].
  simpl. intros _ E. apply H. apply in_map_iff. exists kv. split; [exact E | exact Hin].
Qed.

Lemma benign_data s c id : Forall (benign id) (data_writes s c).
Proof.
  unfold data_writes. apply Forall_app. split.
  - destruct (ahas (chash c) (hdata s)); constructor; [exact I | constructor].
  - destruct (aget (chash c) (hdata s)) as [[b [p|]]|]; constructor; try exact I; constructor.
Qed.

(* the body written for a new (or re-created) group, without the final "fit" *)
Definition body (c : curve) (u : list (string * string)) : list write :=
  attrW (cid c) (cattrs c) ++ dsetW (cid c) (cdsets c) ++ attrW (cid c) u.

Lemma body_member c u : Forall (member_write (cid c)) (body c u).
Proof. unfold body. repeat (apply Forall_app; split); [apply member_attrW | apply member_dsetW | apply member_attrW]. Qed.

Definition final_group (c : curve) (u : list (string * string)) : group :=
  gstep (fold_left gstep (body c u) empty_group) (WDset (cid c) "fit" (cfit c)).

Lemma in_keys {A} (k : string) (l : list (string * A)) : In k (map fst l) -> exists v, In (k, v) l.
Proof. intros H. apply in_map_iff in H. destruct H as [[k' v] [E Hin]]. simpl in E. subst. exists v. exact Hin. Qed.

Lemma fold_body_split c u g :
  fold_left gstep (body c u) g =
  fold_left gstep (attrW (cid c) u)
    (fold_left gstep (dsetW (cid c) (cdsets c)) (fold_left gstep (attrW (cid c) (cattrs c)) g)).
Proof. unfold body. rewrite !fold_left_app. reflexivity. Qed.

Lemma no_attr_in_dsetW k id l : Forall (fun w => ~ writes_attr k w) (dsetW id l).
Proof. rewrite Forall_forall. intros w Hw. apply in_map_iff in Hw. destruct Hw as [kv [<- _]]. simpl. tauto. Qed.
Lemma no_dset_in_attrW n id l : Forall (fun w => ~ writes_dset n w) (attrW id l).
Proof. rewrite Forall_forall. intros w Hw. apply in_map_iff in Hw. destruct Hw as [kv [<- _]]. simpl. tauto. Qed.
Lemma no_attr_k_in_attrW k id l : ~ In k (map fst l) -> Forall (fun w => ~ writes_attr k w) (attrW id l).
Proof.
  intros H. rewrite Forall_forall. intros w Hw. apply in_map_iff in Hw. destruct Hw as [kv [<- Hin]].
  simpl. intros E. apply H. apply in_map_iff. exists kv. split; assumption.
Qed.

(* values held by the group after a complete first save *)
Lemma final_group_values c u : WFC c u ->
  (forall k v, In (k, v) (cattrs c) -> aget k (gattrs (final_group c u)) = Some v) /\
  (forall k v, In (k, v) u -> aget k (gattrs (final_group c u)) = Some v) /\
  (forall n v, In (n, v) (cdsets c) -> aget n (gdsets (final_group c u)) = Some v) /\
  aget "fit" (gdsets (final_group c u)) = Some (cfit c).
Proof.
  intros W. unfold final_group. rewrite fold_body_split. simpl gstep.
  set (gA := fold_left gstep (attrW (cid c) (cattrs c)) empty_group).
  set (gD := fold_left gstep (dsetW (cid c) (cdsets c)) gA).
  split; [|split; [|split]].
  - intros k v Hin. simpl.
    rewrite fold_attr_untouched.
    + unfold gD. rewrite fold_attr_untouched by apply no_attr_in_dsetW.
      unfold gA. apply fold_attr_value; [apply (wf_nodup_a c u W) | exact Hin].
    + apply no_attr_k_in_attrW. intros Hu. apply (wf_disj c u W k Hu).
      apply in_map_iff. exists (k, v). split; [reflexivity | exact Hin].
  - intros k v Hin. simpl. apply fold_attr_value; [apply (wf_nodup_u c u W) | exact Hin].
  - intros n v Hin. simpl.
    assert (Hne : n <> "fit").
    { intros ->. apply (wf_nofit c u W). apply in_map_iff. exists ("fit", v). split; [reflexivity | exact Hin]. }
    rewrite aget_aset_other by exact Hne.
    rewrite fold_dset_untouched by apply no_dset_in_attrW.
    unfold gD. apply fold_dset_value; [apply (wf_nodup_d c u W) | exact Hin].
  - simpl. apply aget_aset_same.
Qed.

Lemma final_group_members s c u : WFC c u -> data_loadable s (chash c) = true ->
  complete (final_group c u) = true /\ members_ok s (final_group c u).
Proof.
  intros W Hd. destruct (final_group_values c u W) as [VA [VU [VD VF]]].
  assert (Hc : complete (final_group c u) = true).
  { unfold complete, ahas. rewrite VF. reflexivity. }
  split; [exact Hc|].
  exists (chash c). split; [apply VA; apply (wf_hash c u W)|]. split; [exact Hd|]. split.
  - apply forallb_forall. intros n Hn. unfold ahas. simpl in Hn.
    destruct Hn as [<-|Hn]; [rewrite VF; reflexivity|].
    destruct (in_keys n _ (wf_dsets c u W n Hn)) as [v Hv]. rewrite (VD n v Hv). reflexivity.
  - apply forallb_forall. intros k Hk. unfold ahas. simpl in Hk.
    destruct Hk as [<-|[<-|Hk]].
    + rewrite (VA _ _ (wf_hash c u W)). reflexivity.
    + destruct (in_keys _ _ (wf_enum c u W)) as [ve Hve]. rewrite (VA _ _ Hve). reflexivity.
    + destruct (in_keys k _ (wf_user c u W k Hk)) as [v Hv]. rewrite (VU k v Hv). reflexivity.
Qed.

(* ---- a new (or re-created) group ----------------------------------------------------------- *)
Lemma data_loadable_hdata a b k : hdata a = hdata b -> data_loadable a k = data_loadable b k.
Proof. unfold data_loadable. intros ->. reflexivity. Qed.

Definition pre_writes (s : h5) (c : curve) (u : list (string * string)) (del : list write) : list write :=
  (data_writes s c ++ del ++ [WGroup (cid c)]) ++ body c u.

Lemma group_writes_split s c u del :
  data_writes s c ++ del ++ group_writes c u =
  pre_writes s c u del ++ [WDset (cid c) "fit" (cfit c)].
Proof. unfold pre_writes, group_writes, body. repeat rewrite <- app_assoc. reflexivity. Qed.

Lemma pre_state s c u del : (del = [] \/ del = [WDelGroup (cid c)]) ->
  let sp := apply_writes s (pre_writes s c u del) in
  aget (cid c) (hana sp) = Some (fold_left gstep (body c u) empty_group) /\
  data_loadable sp (chash c) = true.
Proof.
  intros Hdel sp. unfold sp, pre_writes. rewrite apply_writes_app.
  set (s2 := apply_writes s (data_writes s c ++ del ++ [WGroup (cid c)])).
  destruct (data_writes_facts s c) as [_ [Hl [Hh _]]].
  assert (H2 : aget (cid c) (hana s2) = Some empty_group /\
               hdata s2 = hdata (apply_writes s (data_writes s c))).
  { unfold s2. rewrite apply_writes_app. set (s1 := apply_writes s (data_writes s c)).
    destruct Hdel as [-> | ->]; unfold apply_writes; simpl; rewrite aget_aset_same; split; reflexivity. }
  destruct H2 as [Hg Hd].
  destruct (run_group (cid c) (body c u) s2 empty_group (body_member c u) Hg) as [R1 R2].
  split; [exact R1|].
  rewrite (data_loadable_hdata _ (apply_writes s (data_writes s c))); [exact Hl|].
  rewrite R2. exact Hd.
Qed.

Lemma new_group_result s c u del : (del = [] \/ del = [WDelGroup (cid c)]) ->
  let sf := apply_writes s (data_writes s c ++ del ++ group_writes c u) in
  aget (cid c) (hana sf) = Some (final_group c u) /\ data_loadable sf (chash c) = true.
Proof.
  intros Hdel sf. unfold sf. rewrite group_writes_split, apply_writes_app.
  destruct (pre_state s c u del Hdel) as [P1 P2].
  set (sp := apply_writes s (pre_writes s c u del)) in *.
  unfold apply_writes. simpl. rewrite P1. simpl. rewrite aget_aset_same.
  split; [reflexivity|]. rewrite <- P2. apply data_loadable_hdata. reflexivity.
Qed.

Lemma pre_writes_facts s c u del : WFC c u -> (del = [] \/ del = [WDelGroup (cid c)]) ->
  Forall (own (cid c)) (pre_writes s c u del) /\ Forall (benign (cid c)) (pre_writes s c u del) /\
  safe_seq s (pre_writes s c u del).
Proof.
  intros W Hdel. unfold pre_writes.
  assert (Hdo : Forall (own (cid c)) del) by (destruct Hdel as [-> | ->]; repeat constructor; right; reflexivity).
  assert (Hdb : Forall (benign (cid c)) del) by (destruct Hdel as [-> | ->]; repeat constructor).
  assert (Hdn : Forall nodata del) by (destruct Hdel as [-> | ->]; repeat constructor).
  split; [|split].
  - apply Forall_app; split; [apply Forall_app; split; [apply own_data_writes|
      apply Forall_app; split; [exact Hdo | constructor; [right; reflexivity | constructor]]]|].
    eapply Forall_impl; [|apply body_member]. intros w Hw. right.
    destruct w; simpl in *; try contradiction; congruence.
  - apply Forall_app; split; [apply Forall_app; split; [apply benign_data|
      apply Forall_app; split; [exact Hdb | constructor; [exact I | constructor]]]|].
    unfold body. apply Forall_app; split; [apply benign_attrW|].
    apply Forall_app; split; [apply benign_dsetW; apply (wf_nofit c u W) | apply benign_attrW].
  - rewrite <- app_assoc. apply safe_seq_app; [apply data_writes_facts|].
    apply safe_seq_nodata. apply Forall_app; split; [apply Forall_app; split;
      [exact Hdn | constructor; [exact I | constructor]]|].
    apply (nodata_data_free (cid c)). apply body_member.
Qed.

Lemma new_group_safe s c u del : AllOK s -> WFC c u -> incomplete_at s (cid c) ->
  (del = [] \/ del = [WDelGroup (cid c)]) ->
  forall n, AllOK (apply_writes s (firstn n (data_writes s c ++ del ++ group_writes c u))).
Proof.
  intros HA W Hi Hdel n. rewrite group_writes_split.
  destruct (pre_writes_facts s c u del W Hdel) as [Ho [Hb Hs]].
  set (pre := pre_writes s c u del) in *.
  destruct (Nat.le_gt_cases n (length pre)) as [Hn|Hn].
  - rewrite firstn_app. replace (n - length pre) with 0 by lia. simpl. rewrite app_nil_r.
    apply (prefix_safe (cid c) pre s n HA Hi Ho Hb Hs).
  - rewrite firstn_all2 by (rewrite app_length; simpl; lia).
    rewrite apply_writes_app.
    destruct (prefix_safe (cid c) pre s (length pre) HA Hi Ho Hb Hs) as [HAp _].
    rewrite firstn_all in HAp.
    destruct (pre_state s c u del Hdel) as [P1 P2]. fold pre in P1, P2.
    set (sp := apply_writes s pre) in *.
    change (apply_writes sp [WDset (cid c) "fit" (cfit c)])
      with (apply_write sp (WDset (cid c) "fit" (cfit c))).
    apply AllOK_step; [exact I | exact HAp |].
    intros id g Ht Hg. simpl in Ht. injection Ht as <-.
    simpl in Hg. rewrite P1 in Hg. simpl in Hg. rewrite aget_aset_same in Hg. injection Hg as <-.
    apply GOK_members. fold (final_group c u).
    apply (final_group_members _ c u W).
    rewrite <- P2. apply data_loadable_hdata. simpl. rewrite P1. reflexivity.
Qed.

(* ---- data-only and re-save sequences ---------------------------------------------------------- *)
Lemma data_seq_safe : forall ws s, Forall (fun w => wtarget w = None) ws -> safe_seq s ws ->
  AllOK s -> AllOK (apply_writes s ws).
Proof.
  induction ws as [|w ws IH]; intros s Hn Hs HA; simpl; [exact HA|].
  inversion Hn as [|? ? H1 H2]; subst. destruct Hs as [Hs1 Hs2].
  unfold apply_writes. simpl. apply IH; try assumption.
  apply AllOK_step; [exact Hs1 | exact HA |]. intros id g Ht. congruence.
Qed.

Lemma data_writes_none s c : Forall (fun w => wtarget w = None) (data_writes s c).
Proof.
  unfold data_writes. apply Forall_app. split.
  - destruct (ahas (chash c) (hdata s)); constructor; [reflexivity | constructor].
  - destruct (aget (chash c) (hdata s)) as [[b [p|]]|]; constructor; try reflexivity; constructor.
Qed.

Lemma data_prefix_safe s c n : AllOK s -> AllOK (apply_writes s (firstn n (data_writes s c))).
Proof.
  intros HA. apply data_seq_safe; [| |exact HA].
  - apply Forall_firstn. apply data_writes_none.
  - apply safe_seq_firstn. apply data_writes_facts.
Qed.

Lemma AllOK_lookup s id g : AllOK s -> aget id (hana s) = Some g -> GOK s (id, g).
Proof.
  intros HA Hg. unfold AllOK in HA. rewrite Forall_forall in HA. apply HA. apply aget_In. exact Hg.
Qed.

Lemma attr_seq_safe id : forall (l : list (string * string)) s g,
  ~ In "data hash" (map fst l) -> AllOK s -> aget id (hana s) = Some g -> complete g = true ->
  AllOK (apply_writes s (attrW id l)) /\
  exists g', aget id (hana (apply_writes s (attrW id l))) = Some g' /\ complete g' = true /\
             gdsets g' = gdsets g /\
             (forall k, ~ In k (map fst l) -> aget k (gattrs g') = aget k (gattrs g)).
Proof.
  induction l as [|[k v] l IH]; intros s g Hnd HA Hg Hc; simpl.
  - split; [exact HA|]. exists g. repeat split; auto.
  - unfold apply_writes. simpl fold_left.
    set (g1 := {| gattrs := aset k v (gattrs g); gdsets := gdsets g |}).
    assert (E1 : aget id (hana (apply_write s (WAttr id k v))) = Some g1).
    { simpl. rewrite Hg. simpl. apply aget_aset_same. }
    assert (Hk : k <> "data hash") by (intros ->; apply Hnd; simpl; left; reflexivity).
    assert (HA1 : AllOK (apply_write s (WAttr id k v))).
    { apply AllOK_step; [exact I | exact HA |].
      intros id' g' Ht Hg'. simpl in Ht. injection Ht as <-. rewrite E1 in Hg'. injection Hg' as <-.
      apply GOK_members.
      destruct (GOK_complete_members s id g Hc (AllOK_lookup s id g HA Hg)) as [dh [M1 [M2 [M3 M4]]]].
      exists dh. unfold g1. cbn [gattrs gdsets]. split; [rewrite aget_aset_other by (intros E; apply Hk; symmetry; exact E); exact M1|].
      split; [rewrite <- M2; apply data_loadable_hdata; simpl; rewrite Hg; reflexivity|].
      split; [exact M3|].
      rewrite forallb_forall in *. intros x Hx. apply ahas_aset_mono. apply M4. exact Hx. }
    destruct (IH (apply_write s (WAttr id k v)) g1) as [I1 [g' [I2 [I3 [I4 I5]]]]]; try assumption.
    { intros Hin. apply Hnd. simpl. right. exact Hin. }
    split; [exact I1|]. exists g'. split; [exact I2|]. split; [exact I3|]. split; [exact I4|].
    intros k' Hk'. rewrite I5 by (intros Hin; apply Hk'; simpl; right; exact Hin).
    unfold g1. simpl. apply aget_aset_other. intros ->. apply Hk'. simpl. left. reflexivity.
Qed.

Lemma firstn_map_attrW id n (l : list (string * string)) : firstn n (attrW id l) = attrW id (firstn n l).
Proof. apply firstn_map. Qed.

Lemma keys_firstn {A} n (l : list (string * A)) k : In k (map fst (firstn n l)) -> In k (map fst l).
Proof.
  revert l. induction n as [|n IH]; intros l H; simpl in H; [contradiction|].
  destruct l as [|x l]; [contradiction|]. simpl in *. destruct H as [H|H]; [left; exact H | right; apply IH; exact H].
Qed.

(* ---- the theorems ------------------------------------------------------------------------------ *)
Theorem crash_safe fm s c u : AllOK s -> WFC c u -> forall n, AllOK (save_upto n fm s c u).
Proof.
  intros HA W n. unfold save_upto, save_writes.
  assert (Hdh : ~ In "data hash" (map fst u)).
  { intros Hin. apply (wf_disj c u W _ Hin). apply in_map_iff. exists ("data hash", chash c).
    split; [reflexivity | apply (wf_hash c u W)]. }
  destruct (aget (cid c) (hana s)) as [g|] eqn:Eg.
  - destruct (complete g) eqn:Ec.
    + destruct (aget "fit" (gdsets g)) as [old|]; [|simpl; apply data_prefix_safe; exact HA].
      destruct (fm (cfit c) old); simpl; [|apply data_prefix_safe; exact HA].
      rewrite firstn_app, apply_writes_app.
      set (s1 := apply_writes s (firstn n (data_writes s c))).
      assert (HA1 : AllOK s1) by (apply data_prefix_safe; exact HA).
      assert (Hh : hana s1 = hana s).
      { unfold s1. clear. generalize (data_writes_none s c). generalize (data_writes s c). intros ws Hws.
        revert s ws Hws. induction n as [|n IH]; intros s ws Hws; [reflexivity|].
        destruct ws as [|w ws]; [reflexivity|]. inversion Hws as [|? ? H1 H2]; subst.
        simpl firstn. unfold apply_writes. simpl fold_left.
        fold (apply_writes (apply_write s w) (firstn n ws)). rewrite IH by exact H2.
        destruct w; simpl in *; try discriminate; try reflexivity.
        destruct (aget k (hdata s)) as [[b o]|]; reflexivity. }
      rewrite firstn_map_attrW.
      destruct (attr_seq_safe (cid c) (firstn (n - length (data_writes s c)) u) s1 g) as [R _];
        try assumption.
      * intros Hin. apply Hdh. eapply keys_firstn. exact Hin.
      * rewrite Hh. exact Eg.
    + simpl. apply (new_group_safe s c u [WDelGroup (cid c)] HA W).
      * unfold incomplete_at. rewrite Eg. exact Ec.
      * right. reflexivity.
  - simpl. apply (new_group_safe s c u [] HA W).
    + unfold incomplete_at. rewrite Eg. exact I.
    + left. reflexivity.
Qed.

(* a complete save of a curve that is not in the container stores exactly what was given *)
Theorem save_new fm s c u : WFC c u -> aget (cid c) (hana s) = None ->
  snd (save_writes fm s c u) = None /\
  aget (cid c) (hana (save fm s c u)) = Some (final_group c u).
Proof.
  intros W Hn. unfold save, save_writes. rewrite Hn. simpl. split; [reflexivity|].
  apply (new_group_result s c u []). left. reflexivity.
Qed.

Lemma load_groups_In s : forall l rs id g, load_groups s l = Ok rs -> In (id, g) l -> complete g = true ->
  In {| rid := id; rattrs := gattrs g; rdsets := gdsets g |} rs.
Proof.
  induction l as [|idg l IH]; intros rs id g H Hin Hc; simpl in *; [contradiction|].
  destruct (load_group s idg) as [o|e] eqn:E; [|discriminate].
  destruct (load_groups s l) as [rs'|e] eqn:E2; [|discriminate].
  injection H as <-. destruct Hin as [->|Hin].
  - unfold load_group in E. rewrite Hc in E. cbn [negb] in E.
    destruct (aget "data hash" (gattrs g)); [|discriminate].
    destruct (_ && _ && _); [|discriminate]. injection E as <-. left. reflexivity.
  - specialize (IH rs' id g eq_refl Hin Hc). destruct o; [right; exact IH | exact IH].
Qed.

Theorem load_returns_stored s rs id g : load s = Ok rs -> aget id (hana s) = Some g -> complete g = true ->
  In {| rid := id; rattrs := gattrs g; rdsets := gdsets g |} rs.
Proof. intros H Hg Hc. eapply load_groups_In; [exact H | apply aget_In; exact Hg | exact Hc]. Qed.

(* re-saving the same fit changes user fields only *)
Theorem resave_user_only fm s c u g old : AllOK s -> WFC c u ->
  aget (cid c) (hana s) = Some g -> complete g = true -> aget "fit" (gdsets g) = Some old ->
  fm (cfit c) old = true ->
  snd (save_writes fm s c u) = None /\
  exists g', aget (cid c) (hana (save fm s c u)) = Some g' /\ complete g' = true /\
             gdsets g' = gdsets g /\
             (forall k, ~ In k (map fst u) -> aget k (gattrs g') = aget k (gattrs g)).
Proof.
  intros HA W Hg Hc Hf Hm. unfold save, save_writes. rewrite Hg, Hc, Hf, Hm. simpl.
  split; [reflexivity|]. rewrite apply_writes_app.
  destruct (data_writes_facts s c) as [Hs [_ [Hh _]]].
  set (s1 := apply_writes s (data_writes s c)) in *.
  assert (HA1 : AllOK s1).
  { unfold s1. apply data_seq_safe; [apply data_writes_none | exact Hs | exact HA]. }
  assert (Hdh : ~ In "data hash" (map fst u)).
  { intros Hin. apply (wf_disj c u W _ Hin). apply in_map_iff. exists ("data hash", chash c).
    split; [reflexivity | apply (wf_hash c u W)]. }
  destruct (attr_seq_safe (cid c) u s1 g Hdh HA1) as [_ R]; [rewrite Hh; exact Hg | exact Hc | exact R].
Qed.

(* a different fit for a stored curve is refused; the analysis part is untouched *)
Theorem different_fit_refused fm s c u g old :
  aget (cid c) (hana s) = Some g -> complete g = true -> aget "fit" (gdsets g) = Some old ->
  fm (cfit c) old = false ->
  snd (save_writes fm s c u) = Some ValueError /\ hana (save fm s c u) = hana s /\
  (data_loadable s (chash c) = true -> save fm s c u = s).
Proof.
  intros Hg Hc Hf Hm. unfold save, save_writes. rewrite Hg, Hc, Hf, Hm. simpl.
  split; [reflexivity|]. destruct (data_writes_facts s c) as [_ [_ [Hh _]]]. split; [exact Hh|].
  intros Hd. unfold data_writes, data_loadable, ahas in *.
  destruct (aget (chash c) (hdata s)) as [[b [p|]]|]; try discriminate. reflexivity.
Qed.
