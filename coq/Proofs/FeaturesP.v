(* Theorems about Model/Features.v (R instance). *)
From Coq Require Import String.
From Coq Require Import List Bool Arith Reals Lra Lia.
From NV Require Import Base.Exn Model.FitCore Model.Steps Model.Features
                       Proofs.FitCoreP Proofs.StepsP Proofs.PocP.
Import ListNotations.
Local Open Scope R_scope.

Definition r_tsum := tsum R Rplus 0.
Definition r_apr_size := apr_size R Rminus Rdiv r_ltb INR.
Definition r_bin_cp_position := bin_cp_position R r_ltb 0.
Definition r_apr_sum_core := apr_sum_core R Rplus Rmult Rdiv Rabs r_ltb 0 INR.
Definition r_idt_sum_core := idt_sum_core R Rplus Rminus Rdiv Rabs r_ltb 0 INR.
Definition r_cp_magnitude := cp_magnitude R Rplus Rminus Rdiv Rabs r_ltb 0 INR.

(* ---- guards: no successful fit => NaN, never an error -------------------------------------- *)
Lemma unfitted_nan {A} s (v : option A) : is_fitted s = false -> guard_cp s v = None.
Proof. intros H. unfold guard_cp, has_contact_point. rewrite H. reflexivity. Qed.

Lemma no_cp_param_nan {A} s (v : option A) : has_cp_param s = false -> guard_cp s v = None.
Proof. intros H. unfold guard_cp, has_contact_point. rewrite H, andb_false_r. reflexivity. Qed.

Lemma fitted_value {A} s (v : option A) :
  fp_nonempty s = true -> fp_success s = true -> has_cp_param s = true -> guard_cp s v = v.
Proof. intros H1 H2 H3. unfold guard_cp, has_contact_point, is_fitted, is_valid. rewrite H1, H2, H3. reflexivity. Qed.

Lemma empty_settings_nan {A} s (v : option A) : fp_nonempty s = false ->
  guard_valid s v = None /\ guard_cp s v = None.
Proof.
  intros H. unfold guard_valid, guard_cp, has_contact_point, is_fitted, is_valid. rewrite H. split; reflexivity.
Qed.

(* ---- names ------------------------------------------------------------------------------------ *)
Lemma FOP_filter {A} (R : A -> A -> Prop) (p : A -> bool) l :
  ForallOrdPairs R l -> ForallOrdPairs R (filter p l).
Proof.
  induction 1 as [|a l Ha Hl IH]; simpl; [constructor|].
  destruct (p a); [|exact IH]. constructor; [|exact IH].
  rewrite Forall_forall in *. intros x Hx. apply filter_In in Hx. apply Ha. tauto.
Qed.

Fixpoint fop_b {A} (r : A -> A -> bool) (l : list A) : bool :=
  match l with [] => true | a :: t => forallb (r a) t && fop_b r t end.

Lemma fop_b_sound {A} (r : A -> A -> bool) l : fop_b r l = true ->
  ForallOrdPairs (fun a b => r a b = true) l.
Proof.
  induction l as [|a l IH]; simpl; intros H; [constructor|].
  apply andb_true_iff in H. destruct H as [H1 H2]. constructor; [|apply IH; exact H2].
  rewrite Forall_forall. rewrite forallb_forall in H1. exact H1.
Qed.

(* names come back in the order of the table (which is sorted), each at most once,
   all of the requested type; an unknown name is a ValueError *)
Lemma select_names_spec table which names l :
  ForallOrdPairs (fun a b => String.ltb a b = true) table ->
  select_names table which names = Ok l ->
  ForallOrdPairs (fun a b => String.ltb a b = true) l /\
  (forall f, In f l -> In f (names_of_type table which)) /\
  (forall ns, names = Some ns -> ns <> [] ->
     forall f, In f l <-> In f (names_of_type table which) /\ In f ns).
Proof.
  intros Hs H. unfold select_names in H.
  assert (Hb : ForallOrdPairs (fun a b => String.ltb a b = true) (names_of_type table which)).
  { unfold names_of_type. apply FOP_filter. exact Hs. }
  destruct names as [[|n ns]|].
  - injection H as <-. split; [exact Hb|]. split; [tauto|]. intros ns' E Hne. injection E as <-. contradiction.
  - destruct (forallb _ (n :: ns)) eqn:E; [|discriminate]. injection H as <-.
    split; [apply FOP_filter; exact Hb|]. split.
    + intros f Hf. apply filter_In in Hf. tauto.
    + intros ns' E' _. injection E' as <-. intros f. rewrite filter_In. split.
      * intros [H1 H2]. split; [exact H1|]. apply orb_true_iff in H2. destruct H2 as [H2|H2].
        -- apply String.eqb_eq in H2. left. symmetry. exact H2.
        -- apply existsb_exists in H2. destruct H2 as [x [Hx Hfx]].
           apply String.eqb_eq in Hfx. subst. right. exact Hx.
      * intros [H1 [H2|H2]]; (split; [exact H1|]); apply orb_true_iff.
        -- left. subst. apply String.eqb_refl.
        -- right. apply existsb_exists. exists f. split; [exact H2 | apply String.eqb_refl].
  - injection H as <-. split; [exact Hb|]. split; [tauto|]. intros ns' E. discriminate.
Qed.

Lemma select_names_unknown table which n ns :
  existsb (String.eqb n) table = false -> select_names table which (Some (n :: ns)) = Err ValueError.
Proof. intros H. unfold select_names. simpl forallb. rewrite H. reflexivity. Qed.

(* ---- sums ------------------------------------------------------------------------------------- *)
Lemma tsum_acc : forall l a, fold_left Rplus l a = a + fold_left Rplus l 0.
Proof.
  induction l as [|x l IH]; intros a; simpl; [ring|].
  rewrite IH. rewrite (IH (0 + x)). ring.
Qed.

Lemma r_tsum_cons x l : r_tsum (x :: l) = x + r_tsum l.
Proof. unfold r_tsum, tsum. simpl. rewrite tsum_acc. ring. Qed.

Lemma tsum_abs_nonneg l : 0 <= r_tsum (map Rabs l).
Proof.
  induction l as [|x l IH]; [unfold r_tsum, tsum; simpl; lra|].
  simpl map. rewrite r_tsum_cons. pose proof (Rabs_pos x). lra.
Qed.

Lemma tsum_abs_scale k l : 0 <= k -> r_tsum (map Rabs (map (fun x => k * x) l)) = k * r_tsum (map Rabs l).
Proof.
  intros Hk. induction l as [|x l IH]; [unfold r_tsum, tsum; simpl; ring|].
  simpl map. rewrite !r_tsum_cons, IH, Rabs_mult, (Rabs_pos_eq k) by exact Hk. ring.
Qed.

Lemma select_map {A B} (f : A -> B) : forall m l, select m (map f l) = map f (select m l).
Proof.
  induction m as [|b m IH]; intros [|x l]; simpl; try reflexivity.
  - destruct b; reflexivity.
  - destruct b; simpl; rewrite IH; reflexivity.
Qed.

Lemma rows_scale k p x l : rows R p x (map (fun v => k * v) l) = map (fun v => k * v) (rows R p x l).
Proof. unfold rows. apply select_map. Qed.

Lemma list_max_scale k l : 0 < k -> l <> [] -> r_list_max (map (fun x => k * x) l) = k * r_list_max l.
Proof.
  intros Hk Hl. rewrite map_scale_is_aff. fold r_list_max. rewrite list_max_aff by assumption.
  unfold aff. ring.
Qed.

Lemma list_min_scale k l : 0 < k -> l <> [] -> r_list_min (map (fun x => k * x) l) = k * r_list_min l.
Proof.
  intros Hk Hl. rewrite map_scale_is_aff. rewrite list_min_aff by assumption. unfold aff. ring.
Qed.

(* ---- fraction-type: relative approach size lies in [0, 1] ------------------------------------ *)
Lemma count_le {A} (p : A -> bool) l : (length (filter p l) <= length l)%nat.
Proof. induction l as [|x l IH]; simpl; [lia|]. destruct (p x); simpl; lia. Qed.

Lemma apr_size_range cp x : x <> [] -> 0 <= r_apr_size cp x <= 1.
Proof.
  intros Hx. unfold r_apr_size, apr_size, count.
  set (a := length (filter (fun v => r_ltb cp v) x)). set (n := length x).
  assert (Ha : (a <= n)%nat) by apply count_le.
  assert (Hn : (0 < n)%nat) by (unfold n; destruct x; [contradiction | simpl; lia]).
  assert (Hn' : 0 < INR n) by (apply lt_0_INR; exact Hn).
  assert (Ha' : 0 <= INR a <= INR n) by (split; [apply pos_INR | apply le_INR; exact Ha]).
  assert (Hr : 0 <= INR a / INR n <= 1).
  { split.
    - unfold Rdiv. apply Rmult_le_pos; [lra|]. left. apply Rinv_0_lt_compat. exact Hn'.
    - apply (Rmult_le_reg_r (INR n)); [exact Hn'|].
      unfold Rdiv. rewrite Rmult_assoc, Rinv_l by lra. lra. }
  simpl INR. lra.
Qed.

(* a fraction of counts *)
Lemma count_fraction_range (p q : nat) : (0 < p + q)%nat -> 0 <= INR p / (INR p + INR q) <= 1.
Proof.
  intros H. assert (Hs : 0 < INR p + INR q) by (rewrite <- plus_INR; apply lt_0_INR; exact H).
  pose proof (pos_INR p). pose proof (pos_INR q). split.
  - unfold Rdiv. apply Rmult_le_pos; [lra|]. left. apply Rinv_0_lt_compat. exact Hs.
  - apply (Rmult_le_reg_r (INR p + INR q)); [exact Hs|].
    unfold Rdiv. rewrite Rmult_assoc, Rinv_l by lra. lra.
Qed.

(* ---- magnitude-type: c * log(1 + v) with v >= 0 is non-negative ------------------------------- *)
Definition finish (c v : R) : R := c * ln (1 + v).

Lemma finish_nonneg c v : 0 <= c -> 0 <= v -> 0 <= finish c v.
Proof.
  intros Hc Hv. unfold finish. apply Rmult_le_pos; [exact Hc|].
  rewrite <- ln_1. destruct (Req_dec v 0) as [->|Hne].
  - rewrite Rplus_0_r. lra.
  - left. apply ln_increasing; lra.
Qed.

Lemma apr_sum_core_nonneg cp x y res : x <> [] -> 0 < r_list_max y ->
  0 <= r_apr_sum_core cp x y res.
Proof.
  intros Hx Hy. unfold r_apr_sum_core, apr_sum_core. fold r_tsum. fold r_list_max.
  assert (Hn : 0 < INR (length x)) by (apply lt_0_INR; destruct x; [contradiction | simpl; lia]).
  apply Rmult_le_pos; [|apply pos_INR].
  unfold Rdiv. apply Rmult_le_pos; [apply tsum_abs_nonneg|].
  left. apply Rinv_0_lt_compat. apply Rmult_lt_0_compat; assumption.
Qed.

Lemma idt_sum_core_nonneg cp x y fit v : r_list_max y <> r_list_min y ->
  r_idt_sum_core cp x y fit = Some v -> 0 <= v.
Proof.
  intros Hne. unfold r_idt_sum_core, idt_sum_core. fold r_tsum r_list_max r_list_min.
  destruct (rows R _ x (map2 Rminus y fit)) as [|d0 d] eqn:E; [discriminate|].
  intros H. injection H as <-.
  assert (Hn : 0 < INR (length (d0 :: d))) by (apply lt_0_INR; simpl; lia).
  assert (Hd : 0 < Rabs (r_list_max y - r_list_min y) / INR 2).
  { unfold Rdiv. apply Rmult_lt_0_compat; [apply Rabs_pos_lt; lra|]. apply Rinv_0_lt_compat. simpl. lra. }
  unfold Rdiv at 1. apply Rmult_le_pos; [|left; apply Rinv_0_lt_compat; exact Hd].
  unfold Rdiv. apply Rmult_le_pos; [apply (tsum_abs_nonneg (d0 :: d)) | left; apply Rinv_0_lt_compat; exact Hn].
Qed.

(* ---- independence of the force unit: y, fit and residuals times k > 0 -------------------------- *)
Lemma map2_sub_scale k : forall a b,
  map2 Rminus (map (fun v => k * v) a) (map (fun v => k * v) b) = map (fun v => k * v) (map2 Rminus a b).
Proof.
  induction a as [|x a IH]; intros [|y b]; simpl; try reflexivity. rewrite IH. f_equal. ring.
Qed.

Lemma apr_sum_core_scale k cp x y res : 0 < k -> x <> [] -> y <> [] -> r_list_max y <> 0 ->
  r_apr_sum_core cp x (map (fun v => k * v) y) (map (fun v => k * v) res) = r_apr_sum_core cp x y res.
Proof.
  intros Hk Hx Hy Hm. unfold r_apr_sum_core, apr_sum_core. fold r_tsum. fold r_list_max.
  rewrite rows_scale, tsum_abs_scale by lra. rewrite list_max_scale by assumption.
  assert (Hn : INR (length x) <> 0) by (apply not_0_INR; destruct x; [contradiction | simpl; lia]).
  field. repeat split; try assumption; lra.
Qed.

Lemma idt_sum_core_scale k cp x y fit : 0 < k -> y <> [] -> r_list_max y <> r_list_min y ->
  r_idt_sum_core cp x (map (fun v => k * v) y) (map (fun v => k * v) fit) = r_idt_sum_core cp x y fit.
Proof.
  intros Hk Hy Hne. unfold r_idt_sum_core, idt_sum_core. fold r_tsum r_list_max r_list_min.
  rewrite map2_sub_scale, rows_scale.
  destruct (rows R _ x (map2 Rminus y fit)) as [|d0 d] eqn:E; [reflexivity|].
  cbn [map]. f_equal.
  change (Rabs (k * d0) :: map Rabs (map (fun v => k * v) d))
    with (map Rabs (map (fun v => k * v) (d0 :: d))).
  change (Rabs d0 :: map Rabs d) with (map Rabs (d0 :: d)).
  rewrite tsum_abs_scale by lra.
  change (k * d0 :: map (fun v => k * v) d) with (map (fun v => k * v) (d0 :: d)).
  rewrite map_length.
  rewrite list_max_scale, list_min_scale by assumption.
  replace (k * r_list_max y - k * r_list_min y) with (k * (r_list_max y - r_list_min y)) by ring.
  rewrite Rabs_mult, (Rabs_pos_eq k) by lra.
  assert (Hn : INR (length (d0 :: d)) <> 0) by (apply not_0_INR; simpl; lia).
  assert (Ha : Rabs (r_list_max y - r_list_min y) <> 0) by (apply Rabs_no_R0; lra).
  simpl INR at 2 4. field. repeat split; try assumption; lra.
Qed.
