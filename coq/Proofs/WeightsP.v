(* The generated contact-point weight function and the default residual. *)
From Coq Require Import Reals Lra.
From NV Require Import Base.RealExtra Gen.ModelFuncs.
Local Open Scope R_scope.

Lemma div_le_1 x w : 0 < w -> (x / w <= 1 <-> x <= w).
Proof.
  intros Hw. split; intros H.
  - apply Rmult_le_reg_r with (/ w); [apply Rinv_0_lt_compat; exact Hw|].
    unfold Rdiv in H. rewrite Rinv_r by lra. exact H.
  - unfold Rdiv. apply Rmult_le_reg_r with w; [exact Hw|].
    rewrite Rmult_assoc, Rinv_l by lra. lra.
Qed.

Lemma weight_inside cp wd delta : 0 < wd -> Rabs (delta - cp) <= wd ->
  cp_weight cp wd delta = Rabs (delta - cp) / wd.
Proof.
  intros Hw H. unfold cp_weight. cbv zeta.
  destruct (Rlt_dec 1 (Rabs (delta - cp) / wd)) as [H1|H1]; [|reflexivity].
  exfalso. apply (div_le_1 _ _ Hw) in H. lra.
Qed.

Lemma weight_outside cp wd delta : 0 < wd -> wd < Rabs (delta - cp) ->
  cp_weight cp wd delta = 1.
Proof.
  intros Hw H. unfold cp_weight. cbv zeta.
  destruct (Rlt_dec 1 (Rabs (delta - cp) / wd)) as [H1|H1]; [reflexivity|].
  exfalso. assert (Rabs (delta - cp) / wd <= 1) by lra.
  apply (div_le_1 _ _ Hw) in H0. lra.
Qed.

Lemma weight_at_cp cp wd : 0 < wd -> cp_weight cp wd cp = 0.
Proof.
  intros Hw. rewrite weight_inside; [|exact Hw|].
  - replace (cp - cp) with 0 by ring. rewrite Rabs_R0. unfold Rdiv. ring.
  - replace (cp - cp) with 0 by ring. rewrite Rabs_R0. lra.
Qed.

Lemma weight_range cp wd delta : 0 < wd -> 0 <= cp_weight cp wd delta <= 1.
Proof.
  intros Hw. destruct (Rle_dec (Rabs (delta - cp)) wd) as [H|H].
  - rewrite weight_inside by assumption. split.
    + unfold Rdiv. apply Rmult_le_pos; [apply Rabs_pos | left; apply Rinv_0_lt_compat; exact Hw].
    + apply div_le_1; assumption.
  - rewrite weight_outside by lra. lra.
Qed.

Lemma weight_monotone cp wd d1 d2 : 0 < wd ->
  Rabs (d1 - cp) <= Rabs (d2 - cp) -> cp_weight cp wd d1 <= cp_weight cp wd d2.
Proof.
  intros Hw H.
  destruct (Rle_dec (Rabs (d2 - cp)) wd) as [H2|H2].
  - rewrite !weight_inside by lra. unfold Rdiv.
    apply Rmult_le_compat_r; [left; apply Rinv_0_lt_compat; exact Hw | exact H].
  - rewrite (weight_outside cp wd d2) by lra. apply weight_range. exact Hw.
Qed.

(* nanite.model.residuals.residual, per point: `if weight_cp:` *)
Definition residual_pt (f : real -> real) (cp wd : real) (weighted : bool) (delta y : real) : real :=
  if weighted then (y - f delta) * cp_weight cp wd delta else y - f delta.

Lemma residual_unweighted f cp wd delta y : residual_pt f cp wd false delta y = y - f delta.
Proof. reflexivity. Qed.

Lemma residual_weighted f cp wd delta y :
  residual_pt f cp wd true delta y = (y - f delta) * cp_weight cp wd delta.
Proof. reflexivity. Qed.

(* the generating parameters have zero residual, whatever the weighting *)
Lemma residual_truth f cp wd w delta : residual_pt f cp wd w delta (f delta) = 0.
Proof. unfold residual_pt. destruct w; ring. Qed.
