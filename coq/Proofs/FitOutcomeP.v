(* C04: what a fit leaves behind depends on its last pass only. *)
From Coq Require Import List Bool Arith Lia.
Import ListNotations.
From NV Require Import Model.FitCore Model.FitOutcome.

Section P.
  Variables P T : Type.
  Notation fstate := (fstate P T).
  Notation pass := (pass P T).

  Definition stored (seg : list bool) (p : pass) : fstate :=
    let o := p_opt p in
    mkF (scatter seg (o_cur o)) (scatter seg (o_res o)) true
        (Some (o_params o)) (Some (o_chi o)) (Some (o_xmin o)) (Some (o_xmax o)).

  Definition nothing (seg : list bool) : fstate :=
    mkF (blank seg) (blank seg) false None None None None.

  Lemma run_app seg (s : fstate) ps p :
    run_passes seg s (ps ++ [p]) = one_pass seg (run_passes seg s ps) p.
  Proof. unfold run_passes. rewrite fold_left_app. reflexivity. Qed.

  (* the last pass could be done: exactly its results, whatever came before *)
  Theorem outcome_last_done seg (s : fstate) ps p :
    enough_points (p_varied p) (p_points p) = true ->
    fit_outcome seg s (ps ++ [p]) = stored seg p.
  Proof.
    intros He. unfold fit_outcome. rewrite run_app. unfold one_pass.
    rewrite He. reflexivity.
  Qed.

  (* the last pass could not be done: NaN columns, success False and no result
     of an earlier pass or an earlier fit *)
  Theorem outcome_last_refused seg (s : fstate) ps p :
    enough_points (p_varied p) (p_points p) = false ->
    fit_outcome seg s (ps ++ [p]) = nothing seg.
  Proof.
    intros He. unfold fit_outcome. rewrite run_app. unfold one_pass.
    rewrite He. reflexivity.
  Qed.

  Lemma nonempty_last (ps : list pass) : ps <> [] -> exists qs p, ps = qs ++ [p].
  Proof.
    intros H. destruct (exists_last H) as [qs [p Hp]]. exists qs, p. exact Hp.
  Qed.

  (* no stale numbers: an unsuccessful fit of at least one pass leaves nothing *)
  Theorem unsuccessful_leaves_nothing seg (s : fstate) ps :
    ps <> [] -> f_success (fit_outcome seg s ps) = false ->
    fit_outcome seg s ps = nothing seg.
  Proof.
    intros Hne Hs. destruct (nonempty_last ps Hne) as [qs [p Hp]]. subst ps.
    destruct (enough_points (p_varied p) (p_points p)) eqn:He.
    - rewrite (outcome_last_done seg s qs p He) in Hs. discriminate Hs.
    - apply outcome_last_refused. exact He.
  Qed.

  (* the outcome does not depend on the state before the fit *)
  Theorem outcome_independent_of_history seg (s s' : fstate) ps :
    ps <> [] -> fit_outcome seg s ps = fit_outcome seg s' ps.
  Proof.
    intros Hne. destruct (nonempty_last ps Hne) as [qs [p Hp]]. subst ps.
    destruct (enough_points (p_varied p) (p_points p)) eqn:He.
    - rewrite !outcome_last_done by exact He. reflexivity.
    - rewrite !outcome_last_refused by exact He. reflexivity.
  Qed.

  (* without the final clean-up of fit_model the statement is false: the
     results of an earlier pass survive a refused last pass *)
  Lemma run_passes_keeps_stale seg (s : fstate) p q :
    enough_points (p_varied p) (p_points p) = true ->
    enough_points (p_varied q) (p_points q) = false ->
    f_fitted (run_passes seg s [p; q]) = Some (o_params (p_opt p)).
  Proof.
    intros Hp Hq. unfold run_passes. cbn [fold_left]. unfold one_pass.
    rewrite Hp, Hq. reflexivity.
  Qed.

  (* ---- scatter: values on the segment, NaN elsewhere ------------------------- *)
  Lemma scatter_length seg (v : list T) : length (scatter seg v) = length seg.
  Proof.
    revert v. induction seg as [|b seg IH]; intros v; [reflexivity|].
    destruct b; [destruct v|]; cbn [scatter length]; rewrite IH; reflexivity.
  Qed.

  Lemma blank_length seg : length (@blank T seg) = length seg.
  Proof. unfold blank. apply map_length. Qed.

  Lemma blank_nth seg i : nth i (@blank T seg) None = None.
  Proof.
    unfold blank. revert i. induction seg as [|b seg IH]; intros [|i]; cbn; auto.
  Qed.

  Lemma scatter_outside seg (v : list T) i :
    nth i seg false = false -> nth i (scatter seg v) None = None.
  Proof.
    revert v i. induction seg as [|b seg IH]; intros v i H.
    - destruct i; reflexivity.
    - destruct i as [|i].
      + cbn in H. subst b. reflexivity.
      + cbn [nth] in H. destruct b; [destruct v|]; cbn [scatter nth]; apply IH; exact H.
  Qed.

  (* the i-th point of the segment gets the value with the rank of i among the
     segment's points *)
  Lemma scatter_inside seg (v : list T) i d :
    nth i seg false = true -> length v = count seg ->
    nth i (scatter seg v) None = Some (nth (count (firstn i seg)) v d).
  Proof.
    revert v i. induction seg as [|b seg IH]; intros v i H Hl.
    - destruct i; discriminate H.
    - destruct i as [|i].
      + cbn in H. subst b. destruct v as [|x v]; [cbn in Hl; discriminate Hl|].
        reflexivity.
      + cbn [nth] in H. destruct b.
        * destruct v as [|x v]; [cbn in Hl; discriminate Hl|].
          cbn [scatter nth firstn]. unfold count in *. cbn [filter length] in *.
          rewrite (IH v i H) by lia. reflexivity.
        * cbn [scatter nth firstn]. unfold count in *. cbn [filter] in *.
          apply IH; assumption.
  Qed.
End P.
