(* R instance of the filter-free baseline / contact-point features: independence of the
   force unit and signs *)
From Coq Require Import String.
From Coq Require Import List Bool Arith Reals Lra Lia.
From NV Require Import Base.Exn Model.FitCore Model.Steps Model.Features
                       Proofs.FitCoreP Proofs.StepsP Proofs.PocP Proofs.FeaturesP.
Import ListNotations.
Local Open Scope R_scope.

Definition r_bln_variation_core := bln_variation_core R Rplus Rminus Rmult Rdiv Rabs r_ltb 0 INR.
Definition r_ls_slope := Features.ls_slope R Rplus Rminus Rmult Rdiv 0 INR.
Definition r_bln_slope_core := bln_slope_core R Rplus Rminus Rmult Rdiv r_ltb 0 INR.
Definition r_lin_space := lin_space R Rplus Rminus Rmult Rdiv INR.
Definition r_cp_curvature_core := cp_curvature_core R Rplus Rminus Rmult Rdiv Rabs r_ltb 0 INR.

Notation sc k := (map (fun v => k * v)).

Lemma some_eq {A} (a b : A) : Some a = Some b -> a = b.
Proof. congruence. Qed.

Lemma tsum_scale k l : r_tsum (sc k l) = k * r_tsum l.
Proof.
  induction l as [|x l IH]; [unfold r_tsum, tsum; simpl; ring|].
  simpl map. rewrite !r_tsum_cons, IH. ring.
Qed.

Lemma firstn_sc k n (l : list R) : firstn n (sc k l) = sc k (firstn n l).
Proof. apply firstn_map. Qed.
Lemma skipn_sc k n (l : list R) : skipn n (sc k l) = sc k (skipn n l).
Proof. apply skipn_map. Qed.

(* ---- feat_con_bln_variation ---------------------------------------------------------- *)
Lemma bln_variation_core_scale k cp x y res : 0 < k -> y <> [] -> r_list_max y <> 0 ->
  r_bln_variation_core cp x (sc k y) (sc k res) = r_bln_variation_core cp x y res.
Proof.
  intros Hk Hy Hm. unfold r_bln_variation_core, bln_variation_core. fold r_tsum r_list_max.
  rewrite rows_scale, map_length, firstn_sc, map_length.
  destruct (Nat.ltb 20 _); [|reflexivity]. f_equal.
  rewrite firstn_sc, skipn_sc, !tsum_scale, list_max_scale by assumption.
  set (a := r_tsum (firstn 10 _)). set (b := r_tsum (skipn _ _)).
  replace (k * a / INR 10 - k * b / INR 10) with (k * (a / INR 10 - b / INR 10)) by (unfold Rdiv; ring).
  rewrite Rabs_mult, (Rabs_pos_eq k) by lra.
  field. split; [exact Hm | lra].
Qed.

Lemma bln_variation_core_nonneg cp x y res v : 0 < r_list_max y ->
  r_bln_variation_core cp x y res = Some v -> 0 <= v.
Proof.
  intros Hm. unfold r_bln_variation_core, bln_variation_core. fold r_tsum r_list_max.
  destruct (Nat.ltb 20 _); [|discriminate]. intros H. apply some_eq in H. rewrite <- H.
  apply Rmult_le_pos; [|apply pos_INR].
  apply Rmult_le_pos; [apply Rabs_pos | apply Rlt_le, Rinv_0_lt_compat; exact Hm].
Qed.

(* ---- feat_con_bln_slope ---------------------------------------------------------------- *)
Lemma map2_mul_scale k : forall a b, map2 Rmult a (sc k b) = sc k (map2 Rmult a b).
Proof.
  induction a as [|x a IH]; intros [|y b]; simpl; try reflexivity. rewrite IH. f_equal. ring.
Qed.

Lemma ls_slope_scale k xs ys : r_ls_slope xs (sc k ys) = k * r_ls_slope xs ys.
Proof.
  unfold r_ls_slope, Features.ls_slope. fold r_tsum.
  rewrite map2_mul_scale, !tsum_scale. unfold Rdiv. ring.
Qed.

Lemma bln_slope_core_scale k cp x y res : 0 < k -> y <> [] -> r_list_max y <> 0 ->
  r_bln_slope_core cp x (sc k y) (sc k res) = r_bln_slope_core cp x y res.
Proof.
  intros Hk Hy Hm. unfold r_bln_slope_core, bln_slope_core. fold r_list_max.
  destruct (Nat.ltb 20 _); [|reflexivity]. f_equal.
  rewrite rows_scale. fold (r_ls_slope (rows R (fun v => r_ltb ((r_list_max x + cp) / INR 2) v) x x)
                                       (sc k (rows R (fun v => r_ltb ((r_list_max x + cp) / INR 2) v) x res))).
  rewrite ls_slope_scale, list_max_scale by assumption.
  unfold r_ls_slope. field. split; [exact Hm | lra].
Qed.

(* ---- feat_con_cp_curvature ------------------------------------------------------------- *)
Lemma argbest_max_scale k : 0 < k -> forall l i bi best,
  argbest R (fun a b => r_ltb b a) (sc k l) i bi (k * best) = argbest R (fun a b => r_ltb b a) l i bi best.
Proof.
  intros Hk. induction l as [|x l IH]; intros i bi best; [reflexivity|].
  simpl. assert (E : r_ltb (k * best) (k * x) = r_ltb best x).
  { unfold r_ltb. destruct (Rlt_dec (k * best) (k * x)) as [H|H]; destruct (Rlt_dec best x) as [G|G];
      try reflexivity; exfalso.
    - apply G. apply Rmult_lt_reg_l with k; assumption.
    - apply H. apply Rmult_lt_compat_l; assumption. }
  rewrite E. destruct (r_ltb best x); apply IH.
Qed.

Lemma argmax_scale k l : 0 < k -> r_argmax (sc k l) = r_argmax l.
Proof.
  intros Hk. destruct l as [|x l]; [reflexivity|]. unfold r_argmax, argmax. simpl map.
  apply argbest_max_scale. exact Hk.
Qed.

Lemma slice_sc k a b (l : list R) : slice a b (sc k l) = sc k (slice a b l).
Proof. unfold slice. rewrite skipn_sc, firstn_sc. reflexivity. Qed.

Lemma lin_space_scale k a b n : r_lin_space (k * a) (k * b) n = sc k (r_lin_space a b n).
Proof.
  unfold r_lin_space, lin_space. rewrite map_map. apply map_ext. intros i. unfold Rdiv. ring.
Qed.

Lemma cp_curvature_core_scale k cp x y : 0 < k -> y <> [] -> r_list_max y <> 0 ->
  r_cp_curvature_core cp x (sc k y) = r_cp_curvature_core cp x y.
Proof.
  intros Hk Hy Hm. unfold r_cp_curvature_core, cp_curvature_core.
  fold r_argmax r_tsum r_list_max r_list_min.
  rewrite argmax_scale by exact Hk.
  destruct (Nat.ltb 5 _); [|reflexivity].
  destruct (Nat.ltb _ _); [reflexivity|].
  rewrite slice_sc.
  destruct (slice _ _ y) as [|r0 reg] eqn:E; [reflexivity|].
  change (sc k (r0 :: reg)) with (k * r0 :: sc k reg). cbv iota. f_equal.
  change (k * r0 :: sc k reg) with (sc k (r0 :: reg)).
  assert (Hne : r0 :: reg <> []) by discriminate.
  rewrite list_min_scale, list_max_scale, map_length by assumption.
  fold (r_lin_space (k * r_list_min (r0 :: reg)) (k * r_list_max (r0 :: reg)) (length (r0 :: reg))).
  rewrite lin_space_scale, map2_sub_scale, tsum_scale, list_max_scale by assumption.
  fold (r_lin_space (r_list_min (r0 :: reg)) (r_list_max (r0 :: reg)) (length (r0 :: reg))).
  field. split; [exact Hm | lra].
Qed.
