(* Proofs of the C12 theorems (generated key list / step names). *)
From Coq Require Import List String ZArith QArith Bool Permutation Lia.
From NV Require Import Base.Exn Base.PyVal Model.HashEnc Proofs.StringP Proofs.HashEncP Gen.Tables.
Import ListNotations.
Local Close Scope Q_scope.
Local Open Scope string_scope.

Lemma keys_nodup : NoDup fp_default_keys.
Proof.
  assert (H : forall l : list string,
             (fix nd (l : list string) : bool :=
                match l with [] => true
                | a :: t => negb (existsb (String.eqb a) t) && nd t end) l = true -> NoDup l).
  { induction l as [|a t IH]; intros H; [constructor|].
    apply andb_prop in H. destruct H as [H1 H2]. constructor; [|apply IH; exact H2].
    intros Hin. apply negb_true_iff in H1.
    assert (existsb (String.eqb a) t = true).
    { apply existsb_exists. exists a. split; [exact Hin | apply String.eqb_refl]. }
    congruence. }
  apply H. vm_compute. reflexivity.
Qed.

Definition special (k : string) : bool :=
  String.eqb k "preprocessing" || String.eqb k "preprocessing_options" ||
  String.eqb k "optimal_fit_edelta".

Lemma key_effect fp fp' x y k s s' e :
  In k fp_default_keys -> special k = false ->
  agree_except k fp fp' ->
  fp_get fp "optimal_fit_edelta" = Ok e ->
  preimage fp_default_keys fp x y = Ok s -> preimage fp_default_keys fp' x y = Ok s' ->
  exists c c', contrib fp (truthy e) k = Ok c /\ contrib fp' (truthy e) k = Ok c' /\
               (s = s' <-> encode_all c = encode_all c').
Proof.
  intros Hin Hsp. unfold special in Hsp.
  apply orb_false_iff in Hsp. destruct Hsp as [Hsp H3]. apply orb_false_iff in Hsp.
  destruct Hsp as [H1 H2]. apply String.eqb_neq in H1, H2, H3.
  apply key_diff; auto using keys_nodup.
Qed.

Lemma dontcare_num_samples fp fp' x y s s' e :
  agree_except "optimal_fit_num_samples" fp fp' ->
  fp_get fp "optimal_fit_edelta" = Ok e -> truthy e = false ->
  preimage fp_default_keys fp x y = Ok s -> preimage fp_default_keys fp' x y = Ok s' -> s = s'.
Proof.
  intros Hag He Ht H H'.
  assert (Hin : In "optimal_fit_num_samples" fp_default_keys).
  { destruct (In_dec string_dec "optimal_fit_num_samples" fp_default_keys) as [i|n]; [exact i|].
    (* the key is not hashed at all: the settings then agree on every hashed key *)
    exfalso. revert n. vm_compute. tauto. }
  destruct (key_effect fp fp' x y _ s s' e Hin eq_refl Hag He H H') as [c [c' [Hc [Hc' Hiff]]]].
  rewrite Ht in Hc, Hc'. unfold contrib in Hc, Hc'. simpl in Hc, Hc'.
  inversion Hc; inversion Hc'; subst. apply Hiff. reflexivity.
Qed.

Lemma dontcare_range0 fp fp' x y s s' e r r' :
  agree_except "range_x" fp fp' ->
  fp_get fp "optimal_fit_edelta" = Ok e -> truthy e = true ->
  fp_get fp "range_x" = Ok r -> fp_get fp' "range_x" = Ok r' -> item1 r = item1 r' ->
  In "range_x" fp_default_keys ->
  preimage fp_default_keys fp x y = Ok s -> preimage fp_default_keys fp' x y = Ok s' -> s = s'.
Proof.
  intros Hag He Ht Hr Hr' Hi Hin H H'.
  destruct (key_effect fp fp' x y _ s s' e Hin eq_refl Hag He H H') as [c [c' [Hc [Hc' Hiff]]]].
  rewrite Ht in Hc, Hc'. unfold contrib in Hc, Hc'. simpl in Hc, Hc'.
  rewrite Hr in Hc. rewrite Hr' in Hc'. simpl in Hc, Hc'. rewrite <- Hi in Hc'.
  rewrite Hc in Hc'. inversion Hc'; subst. apply Hiff. reflexivity.
Qed.

Definition ordinary (k : string) : bool :=
  negb (special k) && negb (String.eqb k "range_x") && negb (String.eqb k "optimal_fit_num_samples").

Lemma encode_all_single v : encode_all [v] = encode v.
Proof. simpl. destruct (encode v); simpl; [rewrite append_nil_r|]; reflexivity. Qed.

Lemma sensitive_scalar fp fp' x y k s s' e v v' :
  In k fp_default_keys -> ordinary k = true ->
  agree_except k fp fp' ->
  fp_get fp "optimal_fit_edelta" = Ok e ->
  fp_get fp k = Ok v -> fp_get fp' k = Ok v' ->
  preimage fp_default_keys fp x y = Ok s -> preimage fp_default_keys fp' x y = Ok s' ->
  (s = s' <-> encode v = encode v').
Proof.
  intros Hin Hord Hag He Hv Hv' H H'. unfold ordinary in Hord.
  apply andb_prop in Hord. destruct Hord as [Hord Hn]. apply andb_prop in Hord.
  destruct Hord as [Hsp Hr]. apply negb_true_iff in Hsp, Hr, Hn.
  destruct (key_effect fp fp' x y k s s' e Hin Hsp Hag He H H') as [c [c' [Hc [Hc' Hiff]]]].
  unfold contrib in Hc, Hc'. rewrite Hr, Hn in Hc, Hc'. simpl in Hc, Hc'.
  rewrite Hv in Hc. rewrite Hv' in Hc'. simpl in Hc, Hc'. inversion Hc; inversion Hc'; subst.
  rewrite !encode_all_single in Hiff. exact Hiff.
Qed.

Lemma sensitive_range_full fp fp' x y s s' e v v' :
  In "range_x" fp_default_keys ->
  agree_except "range_x" fp fp' ->
  fp_get fp "optimal_fit_edelta" = Ok e -> truthy e = false ->
  fp_get fp "range_x" = Ok v -> fp_get fp' "range_x" = Ok v' ->
  preimage fp_default_keys fp x y = Ok s -> preimage fp_default_keys fp' x y = Ok s' ->
  (s = s' <-> encode v = encode v').
Proof.
  intros Hin Hag He Ht Hv Hv' H H'.
  destruct (key_effect fp fp' x y _ s s' e Hin eq_refl Hag He H H') as [c [c' [Hc [Hc' Hiff]]]].
  rewrite Ht in Hc, Hc'. unfold contrib in Hc, Hc'. simpl in Hc, Hc'.
  rewrite Hv in Hc. rewrite Hv' in Hc'. simpl in Hc, Hc'. inversion Hc; inversion Hc'; subst.
  rewrite !encode_all_single in Hiff. exact Hiff.
Qed.

(* data: a change in the abscissa or ordinate bytes *)
Lemma sensitive_data fp x x' y y' s s' :
  preimage fp_default_keys fp x y = Ok s -> preimage fp_default_keys fp x' y' = Ok s' ->
  String.length (match encode x with Ok t => t | _ => "" end) =
  String.length (match encode x' with Ok t => t | _ => "" end) ->
  String.length (match encode y with Ok t => t | _ => "" end) =
  String.length (match encode y' with Ok t => t | _ => "" end) ->
  (s = s' <-> encode x = encode x' /\ encode y = encode y').
Proof.
  unfold preimage. intros H H' Lx Ly.
  destruct (bind_ok _ _ _ H) as [hl [Hhl Henc]]. clear H.
  destruct (bind_ok _ _ _ H') as [hl' [Hhl' Henc']]. clear H'.
  unfold hashlist in Hhl, Hhl'.
  destruct (bind_ok _ _ _ Hhl) as [p [Hp Hhl2]]. clear Hhl.
  destruct (bind_ok _ _ _ Hhl2) as [o [Ho Hhl3]]. clear Hhl2.
  destruct (bind_ok _ _ _ Hhl3) as [e [He Hhl4]]. clear Hhl3.
  destruct (bind_ok _ _ _ Hhl4) as [rest [Hrest Hhl5]]. clear Hhl4. inversion Hhl5; subst hl. clear Hhl5.
  rewrite Hp, Ho, He in Hhl'. cbn [bind] in Hhl'. rewrite Hrest in Hhl'. cbn [bind] in Hhl'.
  inversion Hhl'; subst hl'. clear Hhl'.
  simpl in Henc, Henc'.
  destruct (encode p) as [ep|]; simpl in *; [|discriminate].
  destruct (encode o) as [eo|]; simpl in *; [|discriminate].
  destruct (encode x) as [ex|]; simpl in *; [|discriminate].
  destruct (encode x') as [ex'|]; simpl in *; [|discriminate].
  destruct (encode y) as [ey|]; simpl in *; [|discriminate].
  destruct (encode y') as [ey'|]; simpl in *; [|discriminate].
  destruct (encode_all rest) as [er|]; simpl in *; [|discriminate].
  inversion Henc; inversion Henc'; subst. split.
  - intros E. apply append_inv_head in E. apply append_inv_head in E.
    destruct (append_eq_length _ _ _ _ Lx E) as [-> E2].
    destruct (append_eq_length _ _ _ _ Ly E2) as [-> _]. split; reflexivity.
  - intros [E1 E2]. inversion E1; inversion E2; subst. reflexivity.
Qed.

(* step lists *)
Lemma encode_strs l : encode_all (map VStr l) = Ok (concat_all l).
Proof. induction l as [|a t IH]; simpl; [reflexivity | rewrite IH; reflexivity]. Qed.

Lemma steps_injective :
  prefix_free_b step_names = true ->
  forall l1 l2, Forall (fun a => In a step_names) l1 -> Forall (fun a => In a step_names) l2 ->
    encode (VList (map VStr l1)) = encode (VList (map VStr l2)) -> l1 = l2.
Proof.
  intros Hpf l1 l2 F1 F2 H. rewrite !encode_list_eq, !encode_strs in H. inversion H as [H'].
  destruct (prefix_free_b_ok _ Hpf) as [P1 P2].
  eapply prefix_free_decode; eauto.
Qed.

Lemma element_sensitive l1 a b l2 s s' :
  encode (VList (l1 ++ a :: l2)) = Ok s -> encode (VList (l1 ++ b :: l2)) = Ok s' ->
  (s = s' <-> encode a = encode b).
Proof.
  rewrite !encode_list_eq. intros H H'.
  pose proof (block_diff l1 [a] [b] l2 s s' H H') as Hb.
  rewrite !encode_all_single in Hb. exact Hb.
Qed.

Definition f10 := VFloat (1 # 1)%Q "1.0".
Definition f230 := VFloat (23 # 1)%Q "23.0".
Definition f102 := VFloat (51 # 50)%Q "1.02".
Definition f30 := VFloat (3 # 1)%Q "3.0".

Lemma structured_collision :
  py_eq (VList [f10; f230]) (VList [f102; f30]) = false /\
  encode (VList [f10; f230]) = encode (VList [f102; f30]).
Proof. split; vm_compute; reflexivity. Qed.
