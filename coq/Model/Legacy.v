(* Model of nanite.cli.profile.Profile.load_legacy: the old "key = value" profile format.
   Strings are lists of ASCII characters; `float(text)` / `int(text)` are ORACLES that
   say whether a text parses (the parsed number is carried as its text). *)
From Coq Require Import List String Ascii Bool.
From NV Require Import Base.Exn.
Import ListNotations.

Definition str := list ascii.

Definition is_space (c : ascii) : bool :=
  let n := nat_of_ascii c in
  (Nat.leb 9 n && Nat.leb n 13) || (Nat.leb 28 n && Nat.leb n 32).

Fixpoint lstrip (s : str) : str :=
  match s with
  | c :: r => if is_space c then lstrip r else s
  | [] => []
  end.
Definition rstrip (s : str) : str := rev (lstrip (rev s)).
Definition strip (s : str) : str := rstrip (lstrip s).

Definition eq_char : ascii := "="%char.
Definition comma : ascii := ","%char.

(* line.split("=", 1) -- None when there is no "=" (unpacking raises ValueError) *)
Fixpoint split_eq (s : str) : option (str * str) :=
  match s with
  | [] => None
  | c :: r => if Ascii.eqb c eq_char then Some ([], r)
              else match split_eq r with
                   | Some (a, b) => Some (c :: a, b)
                   | None => None
                   end
  end.

(* text.split(",") *)
Fixpoint split_comma (s : str) : list str :=
  match s with
  | [] => [[]]
  | c :: r => if Ascii.eqb c comma then [] :: split_comma r
              else match split_comma r with
                   | h :: t => (c :: h) :: t
                   | [] => [[c]]
                   end
  end.

Fixpoint str_eqb (a b : str) : bool :=
  match a, b with
  | [], [] => true
  | x :: a', y :: b' => Ascii.eqb x y && str_eqb a' b'
  | _, _ => false
  end.

Fixpoint starts_with (p s : str) : bool :=
  match p, s with
  | [], _ => true
  | x :: p', y :: s' => Ascii.eqb x y && starts_with p' s'
  | _ :: _, [] => false
  end.
Definition ends_with (suf s : str) : bool := starts_with (rev suf) (rev s).

Definition lower_char (c : ascii) : ascii :=
  let n := nat_of_ascii c in
  if Nat.leb 65 n && Nat.leb n 90 then ascii_of_nat (n + 32) else c.
Definition lower (s : str) : str := map lower_char s.

Definition Str (x : string) : str := list_ascii_of_string x.

(* the dictionary of pass 1: insertion order, a repeated key keeps its place *)
Fixpoint dset {V} (d : list (str * V)) (k : str) (v : V) : list (str * V) :=
  match d with
  | [] => [(k, v)]
  | (k', v') :: r => if str_eqb k' k then (k', v) :: r else (k', v') :: dset r k v
  end.

Definition pass1_line (acc : res (list (str * str))) (line : str) : res (list (str * str)) :=
  match acc with
  | Err e => Err e
  | Ok d =>
    let line := strip line in
    match line with
    | [] => Ok d
    | _ => match split_eq line with
           | None => Err ValueError
           | Some (var, val) =>
             let var := strip var in
             let val := strip val in
             let val := if str_eqb var (Str "segment")
                        then if str_eqb val (Str "approach") then Str "0"
                             else if str_eqb val (Str "retract") then Str "1" else val
                        else val in
             Ok (dset d var val)
           end
    end
  end.

Definition pass1 (lines : list str) : res (list (str * str)) :=
  fold_left pass1_line lines (Ok []).

(* the type of DEFAULTS[key] decides the conversion *)
Inductive kind := KList | KStr | KInt | KOther.

Inductive lval :=
| LBool (b : bool)
| LFloat (t : str)            (* float(t) *)
| LInt (t : str)              (* int(t) *)
| LStr (s : str)
| LFloats (l : list str)      (* [float(t) for t in l] *)
| LStrs (l : list str).

Section Conv.
  Variable isfloat : str -> bool.        (* float(t) succeeds *)
  Variable isint : str -> bool.          (* int(t) succeeds *)
  Variable kinds : list (str * kind).    (* regenerated from DEFAULTS *)

  Fixpoint klookup (l : list (str * kind)) (k : str) : option kind :=
    match l with
    | [] => None
    | (k', x) :: r => if str_eqb k' k then Some x else klookup r k
    end.

  Definition conv (k v : str) : res lval :=
    if starts_with (Str "fit param") k then
      if ends_with (Str "vary") k then Ok (LBool (str_eqb (lower v) (Str "true")))
      else if isfloat v then Ok (LFloat v) else Err ValueError
    else match klookup kinds k with
         | None => Err KeyError
         | Some KList =>
           let l := split_comma v in
           match l with
           | a :: rest =>
             if isfloat a then
               match rest with
               | b :: _ => if isfloat b
                           then if forallb isfloat l then Ok (LFloats l) else Err ValueError
                           else Ok (LStrs l)
               | [] => Err IndexError
               end
             else Ok (LStrs l)
           | [] => Err IndexError          (* unreachable: split never returns [] *)
           end
         | Some KStr => Ok (LStr v)
         | Some KInt => if isint v then Ok (LInt v) else Err ValueError
         | Some KOther => if isfloat v then Ok (LFloat v) else Err ValueError
         end.

  Fixpoint pass2 (d : list (str * str)) : res (list (str * lval)) :=
    match d with
    | [] => Ok []
    | (k, v) :: r =>
      match conv k v with
      | Err e => Err e
      | Ok x => match pass2 r with
                | Err e => Err e
                | Ok r' => Ok ((k, x) :: r')
                end
      end
    end.

  Definition load_legacy (lines : list str) : res (list (str * lval)) :=
    match pass1 lines with
    | Err e => Err e
    | Ok d => pass2 d
    end.
End Conv.

(* text.splitlines at LF, for the correspondence only *)
Fixpoint split_lf (s : str) : list str :=
  match s with
  | [] => [[]]
  | c :: r => if Ascii.eqb c "010"%char then [] :: split_lf r
              else match split_lf r with
                   | h :: t => (c :: h) :: t
                   | [] => [[c]]
                   end
  end.
