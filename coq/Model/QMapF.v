(* binary64 instance of the progress arithmetic and of the map grid (execution only) *)
From Coq Require Import List PrimFloat Bool Arith.
From NV Require Import Base.Exn Model.FitCoreF Model.QMap.
Import ListNotations.

Definition f_all_progress := gall_progress float PrimFloat.add PrimFloat.div f_of_nat.
Definition floats_same (a b : list float) : bool :=
  Nat.eqb (length a) (length b) && forallb (fun p => f_same (fst p) (snd p)) (combine a b).
Definition ofloat_same (a b : option float) : bool :=
  match a, b with Some x, Some y => f_same x y | None, None => true | _, _ => false end.
Definition row_same (a b : list (option float)) : bool :=
  Nat.eqb (length a) (length b) && forallb (fun p => ofloat_same (fst p) (snd p)) (combine a b).
Definition grid_same (a b : list (list (option float))) : bool :=
  Nat.eqb (length a) (length b) && forallb (fun p => row_same (fst p) (snd p)) (combine a b).
Definition f_map_grid := map_grid float.
Definition f_feat_contact_point := feat_contact_point float PrimFloat.mul 1e9%float.
Definition f_feat_rating := feat_rating float.
Definition f_feat_youngs_modulus := feat_youngs_modulus float.
