From Coq Require Import List PrimFloat.
From NV Require Import Base.Exn Model.FitCore Model.FitCoreF.
From NV Require Import Model.Plateau.
Import ListNotations.
Definition f_plateau := plateau float PrimFloat.add PrimFloat.sub PrimFloat.mul PrimFloat.div
                                PrimFloat.abs PrimFloat.ltb f_of_nat 0%float.
Definition f_opt_depth := opt_depth float PrimFloat.add PrimFloat.div f_of_nat 0%float.
