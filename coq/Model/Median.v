(* nanite.smooth: the median filter (scipy.ndimage.median_filter, mode
   "nearest", origin 0: comparisons and selection only, hence exact in floating
   point), the window-doubling loop of smooth_axis_monotone and the whole
   function, over an abstract scalar type; instantiated at binary64 for
   bit-exact execution against the implementation and at R for the theorems.
   No proofs here. *)
From Coq Require Import List Bool Arith.
From NV Require Import Base.Exn Model.FitCore Model.Steps.
Import ListNotations.

Section Median.
  Variable T : Type.
  Variables add sub mul div : T -> T -> T.
  Variable leb eqb : T -> T -> bool.
  Variable zero : T.
  Variable of_nat : nat -> T.

  Fixpoint insert (x : T) (l : list T) : list T :=
    match l with
    | [] => [x]
    | y :: t => if leb x y then x :: l else y :: insert x t
    end.
  Fixpoint isort (l : list T) : list T :=
    match l with [] => [] | x :: t => insert x (isort t) end.

  (* samples seen by output index i: positions i - w/2 .. i - w/2 + w - 1,
     clamped to the array (mode="nearest"; truncated subtraction clamps at 0) *)
  Definition window (w : nat) (l : list T) (i : nat) : list T :=
    map (fun j => nth (Nat.min (i + j - w / 2) (length l - 1)) l zero) (seq 0 w).

  (* the element of rank w/2 of every window *)
  Definition median_filter (w : nat) (l : list T) : list T :=
    map (fun i => nth (w / 2) (isort (window w l i)) zero) (seq 0 (length l)).

  (* np.diff *)
  Definition diffs (l : list T) : list T :=
    match l with [] => [] | _ :: t => map2 sub t l end.

  (* exit test of the first loop: all differences of one sign *)
  Definition one_sign (g : list T) : bool :=
    forallb (fun d => leb zero d) g || forallb (fun d => leb d zero) g.

  (* for _ in range(max_iter): test, else double the window; else: raise *)
  Fixpoint widen (fuel w : nat) (data : list T) : res (nat * list T) :=
    match fuel with
    | 0 => Err ValueError
    | S f => let s := median_filter w data in
             if one_sign (diffs s) then Ok (w, s) else widen f (2 * w + 1) data
    end.

  Definition smooth_axis_monotone (max_iter w : nat) (data : list T) : res (list T) :=
    do ws <- widen max_iter w data;
    tiebreak T add sub mul div eqb zero of_nat max_iter (snd ws).
End Median.
