(* The six preprocessing steps of nanite.preproc (and the tie-breaking loop of
   nanite.smooth.smooth_axis_monotone), written once over an abstract scalar
   type; instantiated at binary64 (PrimFloat) for bit-exact execution against
   the implementation and at R for the theorems.  Third-party numerics enter
   as explicit arguments: the fitted line (slope m, intercept c) of
   lmfit.models.LinearModel, np.average / np.std values, the median filter.
   No proofs here. *)
From Coq Require Import List Bool Arith.
From NV Require Import Base.Exn Model.FitCore.
Import ListNotations.

Section Steps.
  Variable T : Type.
  Variables add sub mul div : T -> T -> T.
  Variable absf : T -> T.
  Variable ltb eqb : T -> T -> bool.
  Variable zero : T.
  Variable of_nat : nat -> T.

  (* ---- compute_tip_position:  zcant + force / k ------------------------------ *)
  Definition tip_position (k : T) (hs fs : list T) : list T :=
    map2 (fun h f => add h (div f k)) hs fs.

  (* x - c for every sample *)
  Definition shift (c : T) (xs : list T) : list T := map (fun x => sub x c) xs.

  (* ---- correct_force_offset: idp from the estimator; avg = np.average(force[:idp]) *)
  Definition force_offset (idp : nat) (avg : T) (fs : list T) : list T :=
    match idp with
    | 0 => shift (nth 0 fs zero) fs
    | _ => shift avg fs
    end.

  (* ---- correct_tip_offset: tip - tip[cpid] ---------------------------------- *)
  Definition tip_offset (cpid : nat) (tip : list T) : res (list T) :=
    if Nat.ltb cpid (length tip) then Ok (shift (nth cpid tip zero) tip)
    else Err IndexError.

  (* ---- correct_force_slope --------------------------------------------------- *)
  Definition line (m c x : T) : T := add (mul m x) c.

  (* first index of the extreme value (np.argmin / np.argmax) *)
  Fixpoint argbest (better : T -> T -> bool) (l : list T) (i besti : nat) (best : T) : nat :=
    match l with
    | [] => besti
    | x :: t => if better x best then argbest better t (S i) i x
                else argbest better t (S i) besti best
    end.
  Definition argmin (l : list T) : nat :=
    match l with [] => 0 | x :: t => argbest (fun a b => ltb a b) t 1 0 x end.
  Definition argmax (l : list T) : nat :=
    match l with [] => 0 | x :: t => argbest (fun a b => ltb b a) t 1 0 x end.

  (* idp = max(2, np.argmin(np.abs(tip_position))) *)
  Definition contact_idx (tip : list T) : nat := Nat.max 2 (argmin (map absf tip)).

  (* force_edit[:stop] -= line(x[:stop]) - line(x[anchor]) *)
  Definition slope_upto (m c : T) (stop anchor : nat) (xs fs : list T) : list T :=
    let lref := line m c (nth anchor xs zero) in
    map2 (fun i xf => if Nat.ltb i stop
                      then sub (snd xf) (sub (line m c (fst xf)) lref)
                      else snd xf)
         (seq 0 (length fs)) (combine xs fs).

  Definition slope_baseline (m c : T) (idp : nat) (xs fs : list T) :=
    slope_upto m c idp (idp - 1) xs fs.
  Definition slope_approach (m c : T) (idturn : nat) (xs fs : list T) :=
    slope_upto m c idturn (idturn - 1) xs fs.
  Definition slope_all (m c : T) (idp : nat) (xs fs : list T) :=
    slope_upto m c (length fs) idp xs fs.

  (* ---- find_turning_point; avg = np.average(y[:idp]) of the force, std = np.std of
     the normalised baseline -- supplied ------------------------------------------- *)
  Definition list_min (l : list T) : T :=
    match l with [] => zero | x :: t => fold_min T ltb x t end.
  Definition list_max (l : list T) : T :=
    match l with [] => zero | x :: t => fold_max T ltb x t end.

  Definition tp_x (idp : nat) (tip : list T) : list T :=
    let x0 := shift (nth idp tip zero) tip in
    let xmin := list_min x0 in
    let x1 := if eqb xmin zero then x0 else map (fun v => div v xmin) x0 in
    map (fun v => if ltb v zero then zero else v) x1.

  Definition tp_y_norm (avg : T) (force : list T) : list T :=
    let y0 := shift avg force in
    let ymax := list_max y0 in
    map (fun v => div v ymax) y0.

  Definition turning_point (avg std : T) (idp : nat) (tip force : list T) : nat :=
    let x2 := tp_x idp tip in
    let y2 := map (fun v => if ltb v std then zero else v) (tp_y_norm avg force) in
    argmax (map2 (fun a b => add (mul a a) (mul b b)) x2 y2).

  (* ---- correct_split_approach_retract: segment[idturn:] = 1 ------------------ *)
  Definition split (n idturn : nat) : list bool :=
    map (fun i => Nat.leb idturn i) (seq 0 n).

  (* ---- smooth_axis_monotone, second loop (tie breaking) ---------------------- *)
  Fixpoint mem (x : T) (l : list T) : bool :=
    match l with [] => false | y :: t => eqb x y || mem x t end.
  Fixpoint all_distinct (l : list T) : bool :=
    match l with [] => true | x :: t => negb (mem x t) && all_distinct t end.

  (* indices ii+1 of the first run of equal neighbours *)
  Fixpoint find_equal (l : list T) (ii : nat) (started : bool) : list nat :=
    match l with
    | a :: ((b :: _) as t) =>
        if eqb b a then S ii :: find_equal t (S ii) true
        else if started then [] else find_equal t (S ii) false
    | _ => []
    end.

  Fixpoint upd (l : list T) (i : nat) (v : T) : list T :=
    match l, i with
    | [], _ => []
    | _ :: t, 0 => v :: t
    | x :: t, S j => x :: upd t j v
    end.

  Definition tb_update (s : list T) (equal : list nat) : list T :=
    let lst := last equal 0 in
    let fst_ := hd 0 equal in
    let len := of_nat (length equal + 5) in
    fold_left
      (fun s (ci : nat * nat) =>
         let (count, idx) := ci in
         if Nat.ltb (S lst) (length s)
         then upd s idx (add (nth idx s zero)
                             (mul (div (sub (nth (S lst) s zero) (nth fst_ s zero)) len)
                                  (of_nat (S count))))
         else let n1 := length s - 1 in
              upd s n1 (add (nth n1 s zero)
                            (div (sub (nth 1 s zero) (nth 0 s zero)) (of_nat 10))))
      (combine (seq 0 (length equal)) equal) s.

  Fixpoint tiebreak (fuel : nat) (s : list T) : res (list T) :=
    match fuel with
    | 0 => Err ValueError
    | S f => if all_distinct s then Ok s
             else tiebreak f (tb_update s (find_equal s 0 false))
    end.
End Steps.
