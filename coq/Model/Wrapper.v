(* nanite.model.residuals.model_direction_agnostic over lists.  No proofs. *)
From Coq Require Import List.
Import ListNotations.

Section Wrap.
  Variable A : Type.
  Variable ltb : A -> A -> bool.

  Definition ascending (delta : list A) : bool :=
    match delta with
    | [] => false
    | x :: _ => ltb x (last delta x)
    end.

  (* None: delta[0] on an empty array raises IndexError *)
  Definition wrap (f : list A -> list A) (delta : list A) : option (list A) :=
    match delta with
    | [] => None
    | _ => if ascending delta then Some (rev (f (rev delta))) else Some (f delta)
    end.

  (* what the user's function receives *)
  Definition seen_by_model (delta : list A) : list A :=
    if ascending delta then rev delta else delta.
End Wrap.
