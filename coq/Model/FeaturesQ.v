(* exact rational instance of Features (execution only) *)
From Coq Require Import String.
From Coq Require Import List Bool Arith QArith Qabs.
From NV Require Import Base.Exn Model.FitCore Model.Steps Model.Features Model.FeaturesG Model.FeaturesG2.
Import ListNotations.
Local Open Scope Q_scope.

Definition q_ltb (a b : Q) : bool := negb (Qle_bool b a).
(* reduced after every operation: the inputs are dyadic, unreduced sums square the
   denominators *)
Definition qadd (a b : Q) : Q := Qred (a + b).
Definition qsub (a b : Q) : Q := Qred (a - b).
Definition qmul (a b : Q) : Q := Qred (a * b).
Definition qdiv (a b : Q) : Q := Qred (a / b).
Definition q_of_nat (n : nat) : Q := inject_Z (Z.of_nat n).
Definition q_bin_cp_position := bin_cp_position Q q_ltb 0.
Definition q_apr_size := apr_size Q qsub qdiv q_ltb q_of_nat.
Definition q_residuals := residuals Q qsub.
Definition q_apr_sum_core := apr_sum_core Q qadd qmul qdiv Qabs q_ltb 0 q_of_nat.
Definition q_idt_sum_core := idt_sum_core Q qadd qsub qdiv Qabs q_ltb 0 q_of_nat.
Definition q_cp_magnitude := cp_magnitude Q qadd qsub qdiv Qabs q_ltb 0 q_of_nat.
Definition q_idt_sum_75_core := idt_sum_75_core Q qadd qsub qmul qdiv Qabs q_ltb 0 (1000000 # 1).

Definition q_bln_variation_core := bln_variation_core Q qadd qsub qmul qdiv Qabs q_ltb 0 q_of_nat.
Definition q_bln_slope_core := bln_slope_core Q qadd qsub qmul qdiv q_ltb 0 q_of_nat.
Definition q_cp_curvature_core := cp_curvature_core Q qadd qsub qmul qdiv Qabs q_ltb 0 q_of_nat.
Definition q_opt_abs (v : option Q) : option Q := option_map Qabs v.

(* the smoothed-gradient features: the filter output observed in the implementation is
   handed in as the oracle's answer *)
Definition q_flatness_counts (g : list Q) :=
  flatness_counts Q qsub qdiv q_ltb 0 (2 # 1) (fun _ _ => g).
Definition q_flatness_value (g : list Q) (cp : Q) (x res : list Q) : option (option Q) :=
  match q_flatness_counts g cp x res with
  | Some (p, q) => if Nat.eqb (p + q) 0 then Some None
                   else Some (Some (qdiv (q_of_nat p) (qadd (q_of_nat p) (q_of_nat q))))
  | None => None
  end.
Definition q_idt_monotony_core (g : list Q) :=
  idt_monotony_core Q qadd qsub qmul qdiv Qabs q_ltb 0 (2 # 1) q_of_nat (fun _ _ => g).

(* spike count / spike area / residual maxima: the two filter outputs (sigma 11 and 1) and
   the value of np.std observed in the implementation are the oracles' answers; the
   variance itself is exact here and compared with the square of the observed std *)
Definition q_gauss2 (g11 g1 : list Q) (sigma : nat) (_ : list Q) : list Q :=
  if Nat.eqb sigma 11 then g11 else g1.
Definition q_spike_parts (g11 g1 : list Q) (s : Q) :=
  spike_parts Q qadd qsub qmul qdiv (fun _ => s) q_ltb 0 q_of_nat (q_gauss2 g11 g1).
Definition q_spike_variance (g11 g1 : list Q) (cp : Q) (x res : list Q) : Q :=
  let '(_, d1, _, _) := q_spike_parts g11 g1 0 cp x res in
  variance Q qadd qsub qmul qdiv 0 q_of_nat d1.
Definition q_spikes_count (g11 g1 : list Q) (s : Q) :=
  spikes_count Q qadd qsub qmul qdiv Qabs (fun _ => s) q_ltb 0 q_of_nat (q_gauss2 g11 g1).
Definition q_spike_area_core (g11 g1 : list Q) (s : Q) :=
  spike_area_core Q qadd qsub qmul qdiv Qabs (fun _ => s) q_ltb 0 q_of_nat (q_gauss2 g11 g1).
Definition q_maxima_75_core (g11 : list Q) :=
  maxima_75_core Q qadd qsub qdiv Qabs q_ltb 0 (fun _ _ => g11).

(* lo <= v <= hi *)
Definition q_within (lo hi v : Q) : bool := Qle_bool lo v && Qle_bool v hi.
Definition q_opt_within (lo hi : Q) (v : option Q) : bool :=
  match v with Some x => q_within lo hi x | None => false end.
Definition q_eqb (a b : Q) : bool := Qeq_bool a b.
