(* exact rational instance of Features (execution only) *)
From Coq Require Import String.
From Coq Require Import List Bool Arith QArith Qabs.
From NV Require Import Base.Exn Model.FitCore Model.Steps Model.Features.
Import ListNotations.
Local Open Scope Q_scope.

Definition q_ltb (a b : Q) : bool := negb (Qle_bool b a).
Definition q_of_nat (n : nat) : Q := inject_Z (Z.of_nat n).
Definition q_bin_cp_position := bin_cp_position Q q_ltb 0.
Definition q_apr_size := apr_size Q Qminus Qdiv q_ltb q_of_nat.
Definition q_residuals := residuals Q Qminus.
Definition q_apr_sum_core := apr_sum_core Q Qplus Qmult Qdiv Qabs q_ltb 0 q_of_nat.
Definition q_idt_sum_core := idt_sum_core Q Qplus Qminus Qdiv Qabs q_ltb 0 q_of_nat.
Definition q_cp_magnitude := cp_magnitude Q Qplus Qminus Qdiv Qabs q_ltb 0 q_of_nat.
Definition q_idt_sum_75_core := idt_sum_75_core Q Qplus Qminus Qmult Qdiv Qabs q_ltb 0 (1000000 # 1).

(* lo <= v <= hi *)
Definition q_within (lo hi v : Q) : bool := Qle_bool lo v && Qle_bool v hi.
Definition q_opt_within (lo hi : Q) (v : option Q) : bool :=
  match v with Some x => q_within lo hi x | None => false end.
Definition q_eqb (a b : Q) : bool := Qeq_bool a b.
