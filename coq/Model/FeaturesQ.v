(* exact rational instance of Features (execution only) *)
From Coq Require Import String.
From Coq Require Import List Bool Arith QArith Qabs.
From NV Require Import Base.Exn Model.FitCore Model.Steps Model.Features.
Import ListNotations.
Local Open Scope Q_scope.

Definition q_ltb (a b : Q) : bool := negb (Qle_bool b a).
(* reduced after every operation: the inputs are dyadic, unreduced sums square the
   denominators *)
Definition qadd (a b : Q) : Q := Qred (a + b).
Definition qsub (a b : Q) : Q := Qred (a - b).
Definition qmul (a b : Q) : Q := Qred (a * b).
Definition qdiv (a b : Q) : Q := Qred (a / b).
Definition q_of_nat (n : nat) : Q := inject_Z (Z.of_nat n).
Definition q_bin_cp_position := bin_cp_position Q q_ltb 0.
Definition q_apr_size := apr_size Q qsub qdiv q_ltb q_of_nat.
Definition q_residuals := residuals Q qsub.
Definition q_apr_sum_core := apr_sum_core Q qadd qmul qdiv Qabs q_ltb 0 q_of_nat.
Definition q_idt_sum_core := idt_sum_core Q qadd qsub qdiv Qabs q_ltb 0 q_of_nat.
Definition q_cp_magnitude := cp_magnitude Q qadd qsub qdiv Qabs q_ltb 0 q_of_nat.
Definition q_idt_sum_75_core := idt_sum_75_core Q qadd qsub qmul qdiv Qabs q_ltb 0 (1000000 # 1).

Definition q_bln_variation_core := bln_variation_core Q qadd qsub qmul qdiv Qabs q_ltb 0 q_of_nat.
Definition q_bln_slope_core := bln_slope_core Q qadd qsub qmul qdiv q_ltb 0 q_of_nat.
Definition q_cp_curvature_core := cp_curvature_core Q qadd qsub qmul qdiv Qabs q_ltb 0 q_of_nat.
Definition q_opt_abs (v : option Q) : option Q := option_map Qabs v.

(* lo <= v <= hi *)
Definition q_within (lo hi v : Q) : bool := Qle_bool lo v && Qle_bool v hi.
Definition q_opt_within (lo hi : Q) (v : option Q) : bool :=
  match v with Some x => q_within lo hi x | None => false end.
Definition q_eqb (a b : Q) : bool := Qeq_bool a b.
