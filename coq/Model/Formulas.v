(* Published closed forms = specifications (written by hand from the model
   docstrings and the cited literature), as functions of the indentation
   depth d = contact_point - delta > 0.  No proofs in this file. *)
From Coq Require Import Reals.
From NV Require Import Base.RealExtra.
Local Open Scope R_scope.

(* Hertz paraboloid, Sneddon (1965) eq. 6.9 *)
Definition spec_hertz_para (E R nu d : real) : real :=
  4 / 3 * (E / (1 - nu ^ 2)) * sqrt R * Rpower d (3 / 2).

(* Sneddon cone, Sneddon (1965) eq. 6.4; alpha in degrees *)
Definition spec_hertz_cone (E alpha nu d : real) : real :=
  2 * tan (alpha * PI / 180) / PI * (E / (1 - nu ^ 2)) * d ^ 2.

(* three-sided pyramid, Bilodeau (1992): 0.8887 tan(alpha) *)
Definition spec_hertz_pyr3s (E alpha nu d : real) : real :=
  8887 / 10000 * tan (alpha * PI / 180) * (E / (1 - nu ^ 2)) * d ^ 2.

(* truncated Sneddon sphere series (Dobler), five terms *)
Definition series_poly (u : real) : real :=
  1 - u / 10 - u ^ 2 / 840 + 11 * u ^ 3 / 15120 + 1357 * u ^ 4 / 6652800.

Definition spec_sneddon_series (E R nu d : real) : real :=
  4 / 3 * (E / (1 - nu ^ 2)) * sqrt R * Rpower d (3 / 2) * series_poly (d / R).

(* Clifford & Seah (2009) eq. 9-10: layered power law *)
Definition clifford_xi (E_S E_L R nu_S nu_L t d : real) : real :=
  sqrt (R * d) / t * ppow (E_L / E_S) (2 / 3)
  * (1 - 22 / 100 * nu_S ^ 2) / (1 - 192 / 100 * nu_L ^ 2).

Definition clifford_E (E_S E_L xi : real) : real :=
  E_L + (E_S - E_L) * (225 / 100 * ppow xi (3 / 2)) / (1 + 225 / 100 * ppow xi (3 / 2)).

Definition spec_clifford (E_S E_L R nu_S nu_L t d : real) : real :=
  4 / 3 * clifford_E E_S E_L (clifford_xi E_S E_L R nu_S nu_L t d) * sqrt R * Rpower d (3 / 2).

(* force = published form in contact, baseline exactly elsewhere *)
Definition piecewise (spec : real -> real) (cp bl delta : real) : real :=
  if Rlt_dec delta cp then spec (cp - delta) + bl else bl.

(* ---- the exact (implicit) Sneddon sphere, parametrised by the contact
        radius a; units R = 1 and E/(1-nu^2) = 1 ---------------------------------- *)
Definition sn_F (a : real) : real := (1 + a * a) / 2 * ln ((1 + a) / (1 - a)) - a.
Definition sn_delta (a : real) : real := a / 2 * ln ((1 + a) / (1 - a)).

(* the truncated series in the same units, written with d * sqrt d for d^(3/2) *)
Definition series_unit (d : real) : real :=
  4 / 3 * (d * sqrt d) *
  (1 - d / 10 - d * d / 840 + 11 * (d * d * d) / 15120 + 1357 * (d * d * d * d) / 6652800).
