(* binary64 instance of Steps (execution only) *)
From Coq Require Import List PrimFloat Uint63 ZArith.
From NV Require Import Base.Exn Model.FitCore Model.FitCoreF Model.Steps.
Import ListNotations.

Definition f_tip_position := tip_position float PrimFloat.add PrimFloat.div.
Definition f_force_offset := force_offset float PrimFloat.sub 0%float.
Definition f_tip_offset := tip_offset float PrimFloat.sub 0%float.
Definition f_contact_idx := contact_idx float PrimFloat.abs PrimFloat.ltb.
Definition f_slope_baseline := slope_baseline float PrimFloat.add PrimFloat.sub PrimFloat.mul 0%float.
Definition f_slope_approach := slope_approach float PrimFloat.add PrimFloat.sub PrimFloat.mul 0%float.
Definition f_slope_all := slope_all float PrimFloat.add PrimFloat.sub PrimFloat.mul 0%float.
Definition f_turning_point :=
  turning_point float PrimFloat.add PrimFloat.sub PrimFloat.mul PrimFloat.div
                PrimFloat.ltb PrimFloat.eqb 0%float.
Definition f_tiebreak :=
  tiebreak float PrimFloat.add PrimFloat.sub PrimFloat.mul PrimFloat.div PrimFloat.eqb
           0%float f_of_nat.
Definition f_all_distinct := all_distinct float PrimFloat.eqb.
