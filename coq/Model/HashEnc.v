(* Model of nanite.fit.obj2bytes and IndentationFitter._hash (the pre-image
   handed to md5).  No proofs in this file. *)
From Coq Require Import List String ZArith QArith Bool Ascii.
From NV Require Import Base.Exn Base.PyVal.
Import ListNotations.
Local Close Scope Q_scope.
Local Open Scope string_scope.

(* sorted(obj.items()) for string keys: insertion sort by key (keys of a dict
   are distinct, so values are never compared) *)
Fixpoint insert_kv {A} (kv : string * A) (l : list (string * A)) :=
  match l with
  | [] => [kv]
  | h :: t => if String.leb (fst kv) (fst h) then kv :: h :: t else h :: insert_kv kv t
  end.

Fixpoint sort_kvs {A} (l : list (string * A)) :=
  match l with
  | [] => []
  | kv :: t => insert_kv kv (sort_kvs t)
  end.

(* b"".join over the sorted (key, encoded value) items *)
Fixpoint join_items (l : list (string * string)) : string :=
  match l with
  | [] => ""
  | (k, e) :: t => k ++ e ++ join_items t
  end.

Fixpoint encode (v : pyval) : res string :=
  let fix enc_list (l : list pyval) : res string :=
      match l with
      | [] => Ok ""
      | x :: t => do a <- encode x ; do b <- enc_list t ; Ok (a ++ b)
      end in
  let fix enc_items (l : list (string * pyval)) : res (list (string * string)) :=
      match l with
      | [] => Ok []
      | (k, x) :: t => do a <- encode x ; do b <- enc_items t ; Ok ((k, a) :: b)
      end in
  match v with
  | VStr s => Ok s
  | VBool b => Ok (if b then "1.0" else "0.0")
  | VInt z => match int_float_text z with Some t => Ok t | None => Err OtherError end
  | VFloat _ t => Ok t
  | VFloatX k => Ok (xkind_text k)
  | VNone => Ok "none"
  | VBytes b => Ok b
  | VTuple l => enc_list l
  | VList l => enc_list l
  | VDict kvs => do items <- enc_items kvs ; Ok (join_items (sort_kvs items))
  | VParam a b c d e n _ =>
      do ea <- encode a ; do eb <- encode b ; do ec <- encode c ;
      do ed <- encode d ; do ee <- encode e ;
      Ok (ea ++ eb ++ ec ++ ed ++ ee ++ n)
  | VOther _ => Err ValueError
  end.

Fixpoint encode_all (l : list pyval) : res string :=
  match l with
  | [] => Ok ""
  | x :: t => do a <- encode x ; do b <- encode_all t ; Ok (a ++ b)
  end.

(* fp["range_x"][1] *)
Definition item1 (v : pyval) : res pyval :=
  match v with
  | VList (_ :: b :: _) | VTuple (_ :: b :: _) => Ok b
  | VList _ | VTuple _ => Err IndexError
  | _ => Err TypeError
  end.

Definition fp_get (fp : list (string * pyval)) (k : string) : res pyval :=
  match assoc k fp with Some v => Ok v | None => Err KeyError end.

(* what one key of FP_DEFAULT contributes to the hash list *)
Definition contrib (fp : list (string * pyval)) (edelta : bool) (k : string)
  : res (list pyval) :=
  if String.eqb k "range_x" && edelta then
    do r <- fp_get fp "range_x" ; do r1 <- item1 r ; Ok [r1]
  else if String.eqb k "optimal_fit_num_samples" && negb edelta then Ok []
  else do v <- fp_get fp k ; Ok [v].

(* the part of _hash that loops over FP_DEFAULT *)
Fixpoint hash_keys (keys : list string) (fp : list (string * pyval)) (edelta : bool)
  : res (list pyval) :=
  match keys with
  | [] => Ok []
  | k :: more =>
      do c <- contrib fp edelta k ;
      do rest <- hash_keys more fp edelta ;
      Ok (c ++ rest)%list
  end.

Definition hashlist (keys : list string) (fp : list (string * pyval)) (x y : pyval)
  : res (list pyval) :=
  do p <- fp_get fp "preprocessing" ;
  do o <- fp_get fp "preprocessing_options" ;
  do e <- fp_get fp "optimal_fit_edelta" ;
  do rest <- hash_keys keys fp (truthy e) ;
  Ok (p :: o :: x :: y :: rest).

Definition preimage (keys : list string) (fp : list (string * pyval)) (x y : pyval)
  : res string :=
  do hl <- hashlist keys fp x y ; encode_all hl.

