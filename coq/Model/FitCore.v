(* Range masks, weights/residual columns, xmin/xmax, the too-few-points guard,
   the multi-pass anchoring of `relative cp` ranges and the depth grid of the
   plateau search (nanite.fit.IndentationFitter.fit/_fit).  Written once over
   an abstract ordered field of scalars; instantiated at binary64 (PrimFloat)
   for bit-exact execution and at R for the theorems.  No proofs here. *)
From Coq Require Import List Bool Arith.
Import ListNotations.

Section Core.
  Variable T : Type.
  Variable ltb : T -> T -> bool.       (* x < y  (false on NaN) *)
  Variable eqb : T -> T -> bool.       (* x == y *)
  Variables add mul div : T -> T -> T.
  Variable of_nat : nat -> T.

  (* np.min / np.max of a two-element list without NaN *)
  Definition tmin (a b : T) : T := if ltb b a then b else a.
  Definition tmax (a b : T) : T := if ltb a b then b else a.

  (* range_bool[x < rmin] = False; range_bool[x > rmax] = False *)
  Definition in_range (a b x : T) : bool :=
    negb (ltb x (tmin a b)) && negb (ltb (tmax a b) x).

  Fixpoint map2 {A B C} (f : A -> B -> C) (la : list A) (lb : list B) : list C :=
    match la, lb with
    | a :: ta, b :: tb => f a b :: map2 f ta tb
    | _, _ => []
    end.

  (* range_type == "absolute" *)
  Definition range_mask (seg : list bool) (xs : list T) (a b : T) : list bool :=
    if eqb a b then seg
    else map2 (fun s x => s && in_range a b x) seg xs.

  (* values selected by a mask *)
  Fixpoint select {A} (m : list bool) (l : list A) : list A :=
    match m, l with
    | true :: tm, x :: tl => x :: select tm tl
    | false :: tm, _ :: tl => select tm tl
    | _, _ => []
    end.

  Definition count (m : list bool) : nat := length (filter (fun b => b) m).

  (* npvaried < x.shape[0] - 1, with Python's signed arithmetic *)
  Definition enough_points (npvaried npoints : nat) : bool :=
    Nat.ltb (S npvaried) npoints.

  Fixpoint fold_min (x : T) (l : list T) : T :=
    match l with [] => x | y :: t => fold_min (if ltb y x then y else x) t end.
  Fixpoint fold_max (x : T) (l : list T) : T :=
    match l with [] => x | y :: t => fold_max (if ltb x y then y else x) t end.

  (* "xmin": x.min() / gcf_k  with  x = x_axis[fit_range] * gcf_k *)
  Definition reported_min (k : T) (xs : list T) : option T :=
    match map (fun x => mul x k) xs with
    | [] => None
    | y :: t => Some (div (fold_min y t) k)
    end.
  Definition reported_max (k : T) (xs : list T) : option T :=
    match map (fun x => mul x k) xs with
    | [] => None
    | y :: t => Some (div (fold_max y t) k)
    end.

  (* ---- range_type == "relative cp": four passes -------------------------------- *)
  (* FITCP: the contact point (measured units) reported by one optimisation over
     the masked points -- an oracle.  Returns the masks of all four passes. *)
  Section Relative.
    Variable FITCP : list bool -> T.
    Definition relative_passes (seg : list bool) (xs : list T) (a b : T)
      : list (list bool) :=
      let m0 := seg in                                    (* range [0, 0]: whole segment *)
      let cp1 := FITCP m0 in
      let m1 := range_mask seg xs (add a cp1) (add b cp1) in
      let cp2 := FITCP m1 in
      let m2 := range_mask seg xs (add a cp2) (add b cp2) in
      let cp3 := FITCP m2 in
      let m3 := range_mask seg xs (add a cp3) (add b cp3) in
      [m0; m1; m2; m3].
  End Relative.

  (* ---- plateau search: np.linspace(start, stop, n) ------------------------------- *)
  Definition linspace (start stop : T) (sub : T -> T -> T) (n : nat) : list T :=
    match n with
    | 0 => []
    | 1 => [start]
    | S m =>
        let step := div (sub stop start) (of_nat m) in
        map (fun i => add (mul (of_nat i) step) start) (seq 0 m) ++ [stop]
    end.
End Core.

Arguments map2 {A B C} f la lb.
Arguments select {A} m l.
