(* Model of IndentationRater.load_training_set (imputation, NaN-row removal,
   inf replacement), compute_sample_weight and get_feature_names.
   Exact rational arithmetic on extended numbers.  No proofs in this file. *)
From Coq Require Import List String QArith Qabs Bool Arith.
From NV Require Import Base.Exn Model.FitCore.
Import ListNotations.
Local Open Scope Q_scope.

Inductive xnum := XNan | XNeg | XFin (q : Q) | XPos.

Definition is_nan (x : xnum) : bool := match x with XNan => true | _ => false end.
Definition is_inf (x : xnum) : bool := match x with XNeg | XPos => true | _ => false end.
Definition is_fin (x : xnum) : bool := match x with XFin _ => true | _ => false end.

Definition column (rows : list (list xnum)) (j : nat) : list xnum :=
  map (fun r => nth j r XNan) rows.

(* np.mean over non-NaN extended numbers *)
Definition xmean (l : list xnum) : xnum :=
  let pos := existsb (fun x => match x with XPos => true | _ => false end) l in
  let neg := existsb (fun x => match x with XNeg => true | _ => false end) l in
  if pos && neg then XNan
  else if pos then XPos
  else if neg then XNeg
  else
    let s := fold_right (fun x acc => match x with XFin q => q + acc | _ => acc end) 0 l in
    XFin (s / inject_Z (Z.of_nat (List.length l))).

(* ---- step 1: impute NaN features of zero-rated samples ------------------------ *)
Definition impute_col (zero : list bool) (col : list xnum) : list xnum :=
  let coloc := map2 (fun (z : bool) (x : xnum) => z && is_nan x) zero col in
  let ref := map2 (fun (z : bool) (x : xnum) => z && negb (is_nan x)) zero col in
  if existsb (fun b => b) coloc && existsb (fun b => b) ref then
    let refval := xmean (select ref col) in
    map2 (fun (c : bool) (x : xnum) => if c then refval else x) coloc col
  else col.

(* The sample matrix is kept as a list of COLUMNS (one per feature, in the
   order of the sorted feature names); every column has one entry per sample. *)
Definition impute (resp_zero : list bool) (cols : list (list xnum)) : list (list xnum) :=
  map (impute_col resp_zero) cols.

(* ---- step 2: drop samples that still contain NaN, together with their response --- *)
(* valid[i] = no column has NaN in row i *)
Definition valid_rows (n : nat) (cols : list (list xnum)) : list bool :=
  fold_right (fun c acc => map2 andb (map (fun x => negb (is_nan x)) c) acc) (repeat true n) cols.

Definition remove_nan {B} (cols : list (list xnum)) (resp : list B)
  : list (list xnum) * list B :=
  let valid := valid_rows (List.length resp) cols in
  (map (select valid) cols, select valid resp).

(* ---- step 3: replace infinities by +-2 * max |finite| of the column ------------- *)
Definition qabs_max (l : list xnum) : option Q :=
  fold_right (fun x acc =>
    match x with
    | XFin q => match acc with
                | None => Some (Qabs q)
                | Some m => Some (if Qle_bool m (Qabs q) then Qabs q else m)
                end
    | _ => acc
    end) None l.

(* np.nanmax(np.abs(si[~isinf])): ValueError on an empty selection; NaN when the
   selection holds only NaN *)
Definition replace_inf_col (col : list xnum) : res (list xnum) :=
  if existsb is_inf col then
    let noninf := filter (fun x => negb (is_inf x)) col in
    match noninf with
    | [] => Err ValueError
    | _ =>
        match qabs_max noninf with
        | None => Ok (map (fun x => if is_inf x then XNan else x) col)
        | Some m =>
            Ok (map (fun x => match x with
                              | XPos => XFin (2 * m)
                              | XNeg => XFin (- (2 * m))
                              | _ => x end) col)
        end
    end
  else Ok col.

Fixpoint all_ok {A} (l : list (res A)) : res (list A) :=
  match l with
  | [] => Ok []
  | Ok a :: t => do r <- all_ok t ; Ok (a :: r)
  | Err e :: _ => Err e
  end.

Definition replace_inf (cols : list (list xnum)) : res (list (list xnum)) :=
  all_ok (map replace_inf_col cols).

(* ---- the loader ------------------------------------------------------------------ *)
Definition load (replace_inf_flag impute_flag remove_nan_flag : bool)
           (cols : list (list xnum)) (resp : list Q)
  : res (list (list xnum) * list Q) :=
  let cols1 := if impute_flag then impute (map (fun y => Qeq_bool y 0) resp) cols else cols in
  let '(cols2, resp2) := if remove_nan_flag then remove_nan cols1 resp else (cols1, resp) in
  if replace_inf_flag then
    do cols3 <- replace_inf cols2 ; Ok (cols3, resp2)
  else Ok (cols2, resp2).

(* ---- class-balanced sample weights ------------------------------------------------- *)
(* responses as integers; classes 0..10 *)
Definition occur (c : Z) (ys : list Z) : nat := List.length (filter (Z.eqb c) ys).

Definition raw_weight (ys : list Z) (y : Z) : Q :=
  if (0 <=? y)%Z && (y <=? 10)%Z then
    match occur y ys with
    | O => 0
    | n => 1 / inject_Z (Z.of_nat n)
    end
  else 0.

Definition qsum (l : list Q) : Q := fold_right Qplus 0 l.

Definition sample_weight (ys : list Z) : list Q :=
  let raw := map (raw_weight ys) ys in
  let s := qsum raw in
  map (fun w => w / s) raw.

(* ---- feature-name selection ---------------------------------------------------------- *)
Fixpoint insert_str (k : string) (l : list string) : list string :=
  match l with
  | [] => [k]
  | h :: t => if String.leb k h then k :: h :: t else h :: insert_str k t
  end.
Definition sort_strs (l : list string) : list string := fold_right insert_str [] l.

Definition mem_str (k : string) (l : list string) : bool := existsb (String.eqb k) l.

(* get_feature_names(which_type=<concatenation of typed lists>, names=...) *)
Definition select_names (all typed : list string) (names : option (list string))
  : res (list string) :=
  match names with
  | None | Some [] => Ok (sort_strs typed)
  | Some ns =>
      if forallb (fun n => mem_str n all) ns
      then Ok (sort_strs (filter (fun f => mem_str f ns) typed))
      else Err ValueError
  end.
