(* Decision structure of IndentationRater.rate for one curve, and the
   averaging form of tree-ensemble predictions.  No proofs in this file. *)
From Coq Require Import List Reals Bool.
Import ListNotations.
Local Open Scope R_scope.

(* a feature value: None = NaN *)
Definition fval := option R.

Section Rate.
  Variable is_zero : R -> bool.          (* x == 0 *)
  Variable predict : list R -> R.        (* the trained pipeline *)

  Definition any_zero (bs : list fval) : bool :=
    existsb (fun b => match b with Some x => is_zero x | None => false end) bs.

  Definition any_nan (fs : list fval) : bool :=
    existsb (fun f => match f with None => true | Some _ => false end) fs.

  Definition strip (fs : list fval) : list R :=
    map (fun f => match f with Some x => x | None => 0 end) fs.

  (* if not _pre_rate(bsamp): 0 elif isnan(sum(fsamp)): -1 else _rate(fsamp) *)
  Definition rate_one (bs fs : list fval) : R :=
    if any_zero bs then 0
    else if any_nan fs then -1
    else predict (strip fs).
End Rate.

(* weighted average of responses: what a regression-tree leaf, a forest of
   such trees, or any other averaging regressor returns *)
Fixpoint wsum (ws ys : list R) : R :=
  match ws, ys with
  | w :: wt, y :: yt => w * y + wsum wt yt
  | _, _ => 0
  end.

Fixpoint total (ws : list R) : R :=
  match ws with [] => 0 | w :: t => w + total t end.

Definition wavg (ws ys : list R) : R := wsum ws ys / total ws.
