(* M1: control state of one nanite.indent.Indentation object:
   FitProperties.__setitem__/reset, apply_preprocessing, fit_model (with the
   IndentationFitter constructor), rate_quality, compute_emodulus_mindelta,
   get_initial_fit_parameters.  Numerical work (what preprocessing, the
   optimiser, the rater compute) enters through the `oracle` record that
   accompanies each operation.  No proofs in this file. *)
From Coq Require Import List String ZArith QArith Bool Ascii.
From NV Require Import Base.Exn Base.PyVal Gen.Tables.
Import ListNotations.
Local Close Scope Q_scope.
Local Open Scope string_scope.

(* ---- insertion-ordered dictionaries ------------------------------------- *)
Definition dict := list (string * pyval).

Fixpoint dset (k : string) (v : pyval) (d : dict) : dict :=
  match d with
  | [] => [(k, v)]
  | (k', v') :: t => if String.eqb k k' then (k, v) :: t else (k', v') :: dset k v t
  end.

Definition dpop (k : string) (d : dict) : dict :=
  filter (fun kv => negb (String.eqb k (fst kv))) d.

Definition dhas (k : string) (d : dict) : bool :=
  match assoc k d with Some _ => true | None => false end.

Definition dget (k : string) (d : dict) : pyval :=
  match assoc k d with Some v => v | None => VNone end.

(* dict.update(other) *)
Fixpoint dupdate (d other : dict) : dict :=
  match other with
  | [] => d
  | (k, v) :: t => dupdate (dset k v d) t
  end.

Definition mem_str (k : string) (l : list string) : bool := existsb (String.eqb k) l.
Definition in_default (k : string) : bool := mem_str k fp_default_keys.
Definition in_results (k : string) : bool := mem_str k fp_result_keys.

(* sorted(d.keys()) *)
Fixpoint insert_str (k : string) (l : list string) : list string :=
  match l with
  | [] => [k]
  | h :: t => if String.leb k h then k :: h :: t else h :: insert_str k t
  end.
Definition sort_strs (l : list string) : list string := fold_right insert_str [] l.

(* ---- FitProperties -------------------------------------------------------- *)
Definition fp_reset (d : dict) : dict := filter (fun kv => in_default (fst kv)) d.

Definition is_none (v : pyval) : bool := match v with VNone => true | _ => false end.

Definition param_state_eq (a b : pyval) : res bool :=
  match a, b with
  | VParam v1 x1 n1 y1 e1 m1 r1, VParam v2 x2 n2 y2 e2 m2 r2 =>
      Ok (py_eq v1 v2 && py_eq x1 x2 && py_eq n1 n2 && py_eq y1 y2 && py_eq e1 e2
          && String.eqb m1 m2 && py_eq r1 r2)
  | _, _ => Err OtherError
  end.

(* for pp in stored: if stored[pp].state != value[pp].state: reset; break *)
Fixpoint params_changed (stored : dict) (new : dict) : res bool :=
  match stored with
  | [] => Ok false
  | (pp, s1) :: t =>
      match assoc pp new with
      | None => Err KeyError
      | Some s2 =>
          do e <- param_state_eq s1 s2 ;
          if e then params_changed t new else Ok true
      end
  end.

Definition norm_segment (k : string) (v : pyval) : pyval :=
  if String.eqb k "segment" then
    match v with
    | VStr s => if String.eqb s "approach" then VInt 0
                else if String.eqb s "retract" then VInt 1 else v
    | _ => v
    end
  else v.

Definition item1 (v : pyval) : res pyval :=
  match v with
  | VList (_ :: b :: _) | VTuple (_ :: b :: _) => Ok b
  | VList _ | VTuple _ => Err IndexError
  | _ => Err TypeError
  end.

(* copy.deepcopy(value) before storing a setting: only lmfit.Parameters are
   not copied verbatim -- Parameters.__deepcopy__ rebuilds every Parameter
   with value=float(par.value) *)
Definition float_of_num (v : pyval) : pyval :=
  match v with
  | VInt z => match int_float_text z with
              | Some t => VFloat (inject_Z z) t
              | None => v end
  | VBool b => if b then VFloat 1%Q "1.0" else VFloat 0%Q "0.0"
  | _ => v
  end.

Definition deepcopy (v : pyval) : pyval :=
  match v with
  | VDict kvs =>
      VDict (map (fun kv => match snd kv with
                            | VParam a b c d e n x => (fst kv, VParam (float_of_num a) b c d e n x)
                            | w => (fst kv, w) end) kvs)
  | _ => v
  end.

(* self["params_initial"] = None, as executed inside the model_key branch *)
Definition set_params_none (d : dict) : dict :=
  match assoc "params_initial" d with
  | Some old => if py_eq old VNone then dset "params_initial" VNone d
                else dset "params_initial" VNone (fp_reset d)
  | None => dset "params_initial" VNone (fp_reset d)
  end.

Definition fp_changed (d : dict) (key : string) (value : pyval) : res dict :=
  if String.eqb key "model_key" then
    Ok (dset key (deepcopy value) (fp_reset (set_params_none d)))
  else if String.eqb key "range_x"
          && dhas "optimal_fit_edelta" d && truthy (dget "optimal_fit_edelta" d)
          && dhas "range_x" d then
    do a <- item1 (dget "range_x" d) ;
    do b <- item1 value ;
    if py_eq a b then Ok d                       (* early return: nothing stored *)
    else Ok (dset key (deepcopy value) (fp_reset d))
  else Ok (dset key (deepcopy value) (fp_reset d)).

Definition fp_setitem (d : dict) (key : string) (value0 : pyval) : res dict :=
  let value := norm_segment key value0 in
  if in_default key then
    if dhas key d && String.eqb key "params_initial"
       && negb (is_none (dget "params_initial" d)) && negb (is_none value) then
      match dget "params_initial" d, value with
      | VDict stored, VDict new =>
          do ch <- params_changed stored new ;
          Ok (dset key (deepcopy value) (if ch then fp_reset d else d))
      | _, _ => Err OtherError
      end
    else
      match assoc key d with
      | Some old => if py_eq old value then Ok (dset key (deepcopy value) d)
                    else fp_changed d key value
      | None => fp_changed d key value
      end
  else if in_results key then Ok (dset key value d)
  else Err FitKeyError.

(* for arg in keys: fp[arg] = kwargs[arg]; stops at the first exception,
   keeping what was stored before it *)
Fixpoint set_all (d : dict) (kvs : list (string * pyval)) : dict * option exn :=
  match kvs with
  | [] => (d, None)
  | (k, v) :: t =>
      match fp_setitem d k v with
      | Ok d' => set_all d' t
      | Err e => (d, Some e)
      end
  end.

Definition sorted_items (kw : dict) : list (string * pyval) :=
  map (fun k => (k, dget k kw)) (sort_strs (map fst kw)).

(* ---- the curve ------------------------------------------------------------ *)
Record cstate := {
  pre : pyval;                 (* self.preprocessing *)
  popts : pyval;               (* self.preprocessing_options *)
  details : bool;              (* bool(self._preprocessing_details) *)
  fp : dict;                   (* self.fit_properties *)
  cols : bool;                 (* columns fit / fit residuals / fit range exist *)
  rating : option (pyval * pyval * pyval * pyval * pyval * pyval)
}.

Definition init_state : cstate :=
  {| pre := VList []; popts := VDict []; details := false; fp := []; cols := false;
     rating := None |}.

(* what the numerical world answers during one operation *)
Record oracle := {
  o_pre : res unit;            (* preproc.apply: accepted and ran, or raised *)
  o_xaxis : bool;              (* after preprocessing: column fp[x_axis] exists *)
  o_yaxis : bool;
  o_guess : res pyval;         (* guess_initial_parameters(curve, model_key) *)
  o_cols : option exn;         (* fitter constructor: reading the axis columns *)
  o_hash : string;             (* md5 hex digest computed by the fitter *)
  o_fit : res bool;            (* fitter.fit(): raised, or fp["success"] *)
  o_rate : res pyval           (* get_rater(...).rate(curve) *)
}.

Inductive op :=
| ApplyPre (p o : option pyval) (ret_details : bool)
| FitModel (kwargs : dict)
| SetFP (k : string) (v : pyval)
| Rate (regressor ts names lda : pyval)
| EModMinDelta
| GetInit (model_key : option pyval).

Inductive outcome :=
| Done                         (* returned normally *)
| Raised (e : exn)
| Value (v : pyval).

Definition with_fp (s : cstate) (d : dict) : cstate :=
  {| pre := pre s; popts := popts s; details := details s; fp := d; cols := cols s;
     rating := rating s |}.

Definition nonempty_seq (v : pyval) : bool :=
  match v with VList (_ :: _) | VTuple (_ :: _) => true | _ => false end.

(* what happened to the data columns during an operation (ghost information,
   not observable on the object; used by the theorems only) *)
Inductive pstat := PNone | PSkipped | PApplied | PFailed.

(* Indentation.apply_preprocessing *)
Definition apply_pre_x (s : cstate) (p o : option pyval) (ret : bool) (orc : oracle)
  : cstate * outcome * pstat :=
  let p' := match p with Some v => v | None => pre s end in
  let o' := match o with Some v => v | None => popts s end in
  let request := VList [p'; o'] in
  let go (differs : bool) : cstate * outcome * pstat :=
    if differs || (negb (details s) && ret) then
      let d0 := fp_reset (fp s) in
      match fp_setitem d0 "preprocessing" p' with
      | Err e => (with_fp s d0, Raised e, PNone)
      | Ok d1 =>
        match fp_setitem d1 "preprocessing_options" o' with
        | Err e => (with_fp s d1, Raised e, PNone)
        | Ok d2 =>
          match o_pre orc with
          | Err e =>
              ({| pre := VList []; popts := VDict []; details := false;
                  fp := dpop "preprocessing_options" (dpop "preprocessing" d2);
                  cols := false; rating := None |}, Raised e, PFailed)
          | Ok _ =>
              let d3 := if dhas "x_axis" d2 && negb (o_xaxis orc) then dpop "x_axis" d2 else d2 in
              let d4 := if dhas "y_axis" d3 && negb (o_yaxis orc) then dpop "y_axis" d3 else d3 in
              ({| pre := p'; popts := o'; details := ret && nonempty_seq p';
                  fp := d4; cols := false; rating := None |}, Done, PApplied)
          end
        end
      end
    else
      ({| pre := p'; popts := o'; details := details s; fp := fp s; cols := cols s;
          rating := rating s |}, Done, PSkipped) in
  if dhas "preprocessing" (fp s) then
    match assoc "preprocessing_options" (fp s) with
    | None => (s, Raised KeyError, PNone)
    | Some po =>
        go (negb (py_eq (VList [dget "preprocessing" (fp s); po]) request))
    end
  else go true.

Definition apply_pre (s : cstate) (p o : option pyval) (ret : bool) (orc : oracle)
  : cstate * outcome := fst (apply_pre_x s p o ret orc).

(* ---- IndentationFitter.__init__ (called without kwargs) ------------------- *)
Definition is_integral (v : pyval) : bool :=
  match v with VBool _ | VInt _ => true | _ => false end.

Definition is_nan (v : pyval) : res bool :=
  match v with
  | VFloatX XNaN => Ok true
  | VBool _ | VInt _ | VFloat _ _ | VFloatX _ => Ok false
  | _ => Err TypeError
  end.

Definition seq_items (v : pyval) : res (list pyval) :=
  match v with VList l | VTuple l => Ok l | _ => Err TypeError end.

Definition str_of (v : pyval) : option string :=
  match v with VStr s => Some s | _ => None end.

Definition model_params (mk : pyval) : option (list string) :=
  match str_of mk with Some k => assoc k registered_models | None => None end.

Definition gt_num (a b : pyval) : bool :=
  match num_of a, num_of b with
  | Some x, Some y => negb (Qle_bool x y)
  | _, _ =>
      match a, b with
      | VFloatX XPosInf, VFloatX XPosInf => false
      | VFloatX XPosInf, VFloatX XNaN => false
      | VFloatX XPosInf, _ => true
      | _, VFloatX XNegInf => match a with VFloatX XNegInf | VFloatX XNaN => false | _ => true end
      | _, _ => false
      end
  end.

(* the sanity checks, in source order *)
Definition fitter_checks (f : dict) : res unit :=
  let rt := dget "range_type" f in
  if negb (py_eq rt (VStr "absolute") || py_eq rt (VStr "relative cp")) then Err FitKeyError else
  do items <- seq_items (dget "range_x" f) ;
  if negb (Nat.eqb (List.length items) 2) then Err FitKeyError else
  do n0 <- is_nan (nth 0 items VNone) ;
  do n1 <- is_nan (nth 1 items VNone) ;
  if n0 || n1 then Err FitKeyError else
  if negb (is_integral (dget "segment" f)) then Err FitKeyError else
  match model_params (dget "model_key" f) with
  | None => Err FitKeyError
  | Some pnames =>
      let pinit := match dget "params_initial" f with VDict d => d | _ => [] end in
      let edelta_ok : res unit :=
        if truthy (dget "optimal_fit_edelta" f) then
          if negb (dhas "E" pinit) then Err FitKeyError
          else if negb (py_eq rt (VStr "absolute")) then Err FitKeyError
          else Ok tt
        else Ok tt in
      do _ <- edelta_ok ;
      if forallb (fun p => dhas p pinit) pnames then Ok tt else Err FitKeyError
  end.

(* returns the fitter's fp (with "hash") or the exception of the constructor *)
Definition fitter_init (d : dict) (orc : oracle) : res dict :=
  let items := filter (fun kv => in_default (fst kv)) (sorted_items d) in
  match set_all fp_default_values items with
  | (_, Some e) => Err e
  | (f, None) =>
      do f1 <- (if is_none (dget "params_initial" f) then
                  do g <- o_guess orc ; fp_setitem f "params_initial" g
                else Ok f) ;
      match o_cols orc with
      | Some e => Err e
      | None =>
          let f2 := dset "hash" (VStr (o_hash orc)) f1 in
          do _ <- fitter_checks f2 ;
          Ok f2
      end
  end.

Definition result_keys_of (f : dict) (success : bool) : dict :=
  let base := [("success", VBool success)] in
  let ok := if success then [("params_fitted", VOther 0); ("chi_sqr", VOther 0);
                             ("xmin", VOther 0); ("xmax", VOther 0)] else [] in
  let ed := if truthy (dget "optimal_fit_edelta" f)
            then [("optimal_fit_E_array", VOther 0); ("optimal_fit_delta_array", VOther 0);
                  ("optimal_fit_delta", VOther 0)] else [] in
  (base ++ ed ++ ok)%list.

(* Indentation.fit_model after its optional preprocessing stage *)
Definition fit_tail (s1 : cstate) (ps : pstat) (kw : dict) (orc : oracle)
  : cstate * outcome * nat * pstat * bool :=
  match set_all (fp s1) (sorted_items kw) with
  | (d, Some e) => (with_fp s1 d, Raised e, 0, ps, false)
  | (d, None) =>
    let rd2 := if dhas "model_key" d then Ok d
               else fp_setitem d "model_key" (dget "model_key" fp_default_values) in
    match rd2 with
    | Err e => (with_fp s1 d, Raised e, 0, ps, false)
    | Ok d2 =>
      let rd3 :=
        if negb (dhas "params_initial" d2) || is_none (dget "params_initial" d2) then
          match o_guess orc with
          | Err e => Err e
          | Ok g => fp_setitem d2 "params_initial" g
          end
        else Ok d2 in
      match rd3 with
      | Err e => (with_fp s1 d2, Raised e, 0, ps, false)
      | Ok d3 =>
        if dhas "hash" d3 then (with_fp s1 d3, Done, 0, ps, false)
        else
          match fitter_init d3 orc with
          | Err e => (with_fp s1 d3, Raised e, 0, ps, false)
          | Ok f =>
            match o_fit orc with
            | Err e => (with_fp s1 d3, Raised e, 1, ps, false)
            | Ok success =>
                let d4 := dupdate d3 (dupdate f (result_keys_of f success)) in
                ({| pre := pre s1; popts := popts s1; details := details s1; fp := d4;
                    cols := true; rating := rating s1 |}, Done, 1, ps, true)
            end
          end
      end
    end
  end.

(* Indentation.fit_model; the nat counts calls of fitter.fit(); the last two
   components are ghost information (data status, whether a fit was stored) *)
Definition fit_model_x (s : cstate) (kw : dict) (orc : oracle)
  : cstate * outcome * nat * pstat * bool :=
  let stage1 : cstate * outcome * pstat :=
    if dhas "preprocessing" kw || dhas "preprocessing_options" kw then
      apply_pre_x s (Some (if dhas "preprocessing" kw then dget "preprocessing" kw else pre s))
                  (Some (if dhas "preprocessing_options" kw then dget "preprocessing_options" kw
                         else popts s)) false orc
    else (s, Done, PNone) in
  match stage1 with
  | (s1, Raised e, ps) => (s1, Raised e, 0, ps, false)
  | (s1, _, ps) => fit_tail s1 ps kw orc
  end.

Definition fit_model (s : cstate) (kw : dict) (orc : oracle) : cstate * outcome * nat :=
  let '(s', out, n, _, _) := fit_model_x s kw orc in (s', out, n).

(* ---- rating ---------------------------------------------------------------- *)
Definition lower_ascii (c : ascii) : ascii :=
  let n := N_of_ascii c in
  if (65 <=? n)%N && (n <=? 90)%N then ascii_of_N (n + 32) else c.
Fixpoint lower (s : string) : string :=
  match s with EmptyString => EmptyString | String c t => String (lower_ascii c) (lower t) end.

(* training sets: labels/paths compare as strings, in-memory tuples by content *)
Definition same_ts (a b : pyval) : bool :=
  match a, b with
  | VTuple _, VTuple _ => py_eq a b
  | VTuple _, _ | _, VTuple _ => false
  | _, _ => py_eq a b
  end.

Definition rate_quality (s : cstate) (regressor ts names lda : pyval) (orc : oracle)
  : cstate * outcome :=
  let curhash := if dhas "hash" (fp s) then dget "hash" (fp s) else VStr "none" in
  match regressor with
  | VStr r =>
    if String.eqb (lower r) "none" then (s, Value (VInt (-1)))
    else
      let miss :=
        match rating s with
        | None => true
        | Some (h, rg, t, nm, ld, _) =>
            negb (py_eq h curhash) || negb (py_eq rg regressor) || negb (same_ts t ts)
            || negb (py_eq nm names) || negb (py_eq ld lda)
        end in
      if miss then
        match o_rate orc with
        | Err e => (s, Raised e)
        | Ok rt =>
            ({| pre := pre s; popts := popts s; details := details s; fp := fp s;
                cols := cols s; rating := Some (curhash, regressor, ts, names, lda, rt) |},
             Value rt)
        end
      else
        match rating s with
        | Some (_, _, _, _, _, rt) => (s, Value rt)
        | None => (s, Raised OtherError)
        end
  | _ => (s, Raised OtherError)          (* regressor.lower() needs a string *)
  end.

(* ---- remaining operations -------------------------------------------------- *)
Definition emod_mindelta (s : cstate) (orc : oracle) : cstate * outcome * nat :=
  if dhas "optimal_fit_E_array" (fp s) then (s, Done, 0)
  else
    match fitter_init (fp s) orc with
    | Err e => (s, Raised e, 0)
    | Ok _ =>
      match o_fit orc with
      | Err e => (s, Raised e, 1)
      | Ok _ =>
          (with_fp s (dset "optimal_fit_delta_array" (VOther 0)
                       (dset "optimal_fit_E_array" (VOther 0) (fp s))), Done, 1)
      end
    end.

Definition get_init (s : cstate) (mk : option pyval) (orc : oracle) : cstate * outcome :=
  let r := match mk with
           | Some k => fp_setitem (fp s) "model_key" k
           | None => Ok (fp s)
           end in
  match r with
  | Err e => (s, Raised e)
  | Ok d =>
      let s1 := with_fp s d in
      if truthy (dget "params_initial" d) && dhas "params_initial" d
      then (s1, Value (deepcopy (dget "params_initial" d)))
      else match o_guess orc with
           | Err e => (s1, Raised e)
           | Ok g => (s1, Value g)
           end
  end.

Definition step (s : cstate) (o : op) (orc : oracle) : cstate * outcome * nat :=
  match o with
  | ApplyPre p q r => let '(s', out) := apply_pre s p q r orc in (s', out, 0)
  | FitModel kw => fit_model s kw orc
  | SetFP k v =>
      match fp_setitem (fp s) k v with
      | Ok d => (with_fp s d, Done, 0)
      | Err e => (s, Raised e, 0)
      end
  | Rate rg ts nm ld => let '(s', out) := rate_quality s rg ts nm ld orc in (s', out, 0)
  | EModMinDelta => emod_mindelta s orc
  | GetInit mk => let '(s', out) := get_init s mk orc in (s', out, 0)
  end.
