(* The remaining gaussian-filter-based rating features: spike count, spike area and the
   residual maxima of the indentation part.  Oracles: the filter (as in FeaturesG) and the
   square root inside np.std. *)
From Coq Require Import List Bool Arith.
From NV Require Import Base.Exn Model.FitCore Model.Steps Model.Poc Model.Features.
Import ListNotations.

Section FeatG2.
  Variable T : Type.
  Variables add sub mul div : T -> T -> T.
  Variable absf sqrtf : T -> T.
  Variable ltb : T -> T -> bool.
  Variable zero : T.
  Variable of_nat : nat -> T.
  Variable gauss : nat -> list T -> list T.      (* sigma, data *)

  Notation tsum := (tsum T add zero).
  Notation list_max := (list_max T ltb zero).
  Notation argmin := (argmin T ltb).

  (* np.std: sqrt(mean((l - mean l)^2)) *)
  Definition mean (l : list T) : T := div (tsum l) (of_nat (length l)).
  Definition variance (l : list T) : T :=
    let m := mean l in mean (map (fun v => mul (sub v m) (sub v m)) l).
  Definition std (l : list T) : T := sqrtf (variance l).

  (* residuals of the indentation part, their slow part removed (sigma 11), the band
     between the sigma-1 and the sigma-11 smoothing, and the spread of the former *)
  Definition spike_parts (cp : T) (x res : list T) : list T * list T * list T * T :=
    let d := rows T (fun v => ltb v cp) x res in
    let ds := gauss 11 d in
    let d1 := map2 sub d ds in
    let d2 := map2 sub (gauss 1 d) ds in
    (d, d1, d2, std d1).

  (* np.sum(np.diff(flags)) for a boolean array: number of places where neighbours differ *)
  Fixpoint changes (l : list bool) : nat :=
    match l with
    | a :: ((b :: _) as t) => (if Bool.eqb a b then 0 else 1) + changes t
    | _ => 0
    end.

  (* feat_bin_apr_spikes_count: at most five crossings of the 3 sigma band *)
  Definition spikes_count (cp : T) (x res : list T) : option bool :=
    let '(d, d1, d2, s) := spike_parts cp x res in
    if Nat.ltb 50 (length d) then
      Some (Nat.leb (changes (map (fun v => ltb (mul (of_nat 3) s) (absf v)) d2)) 5)
    else None.

  (* feat_con_idt_spike_area, before log(1+.)*20: (std + band where the fast part exceeds
     3 sigma) / max y *)
  Definition spike_area_core (cp : T) (x y res : list T) : option T :=
    let '(d, d1, d2, s) := spike_parts cp x res in
    if Nat.ltb 20 (length d) then
      let peaks := tsum (select (map (fun v => ltb (mul (of_nat 3) s) v) d1) (map absf d2)) in
      Some (div (add s peaks) (list_max y))
    else None.

  (* feat_con_idt_maxima_75perc, before log(1+.)*2: the largest |y - fit| in up to three
     stretches of the indentation between 25 % and 100 %, cut where the smoothed residual is
     closest to zero in either half; / max y *)
  Definition maxima_75_core (cp : T) (x y fit : list T) : option T :=
    let (idmin, idmax) := idx75 T sub absf ltb cp x in
    if Nat.eqb idmin idmax then None
    else
      let r := map2 sub y fit in
      let idcen := idmin + (idmax - idmin) / 2 in
      let sm := map absf (gauss 11 r) in
      let z1 := idmin + argmin (slice idmin idcen sm) in
      let z2 := idcen + argmin (slice idcen idmax sm) in
      let ar := map absf r in
      let part a b := if Nat.eqb a b then [] else [list_max (slice a b ar)] in
      match part idmin z1 ++ part z1 z2 ++ part z2 idmax with
      | [] => None
      | ds => Some (div (tsum ds) (list_max y))
      end.
End FeatG2.
