(* Rating containers (nanite.rate.io): the HDF5 file as two insertion-ordered maps,
   save_hdf5 as the SEQUENCE of primitive write calls it makes (so that a save
   interrupted after k calls is `firstn k`), load_hdf5 and hdf5_rated.  Payloads
   (arrays, attribute values) are opaque strings (digests).  No proofs here. *)
From Coq Require Import String.
From Coq Require Import List Bool Arith.
From NV Require Import Base.Exn.
Import ListNotations.
Local Open Scope string_scope.
Local Open Scope list_scope.

Section Assoc.
  Context {V : Type}.
  Fixpoint aget (k : string) (l : list (string * V)) : option V :=
    match l with
    | [] => None
    | (k', v) :: t => if String.eqb k k' then Some v else aget k t
    end.
  Fixpoint aset (k : string) (v : V) (l : list (string * V)) : list (string * V) :=
    match l with
    | [] => [(k, v)]
    | (k', v') :: t => if String.eqb k k' then (k, v) :: t else (k', v') :: aset k v t
    end.
  Definition adel (k : string) (l : list (string * V)) : list (string * V) :=
    filter (fun kv => negb (String.eqb k (fst kv))) l.
  Definition ahas (k : string) (l : list (string * V)) : bool :=
    match aget k l with Some _ => true | None => false end.
End Assoc.

Record group := { gattrs : list (string * string); gdsets : list (string * string) }.
Record h5 := { hdata : list (string * (string * option string));   (* blob, path attribute *)
               hana : list (string * group) }.

Definition empty_group : group := {| gattrs := []; gdsets := [] |}.
Definition empty_h5 : h5 := {| hdata := []; hana := [] |}.

(* what save_hdf5 reads from the curve *)
Record curve := {
  chash : string;                        (* hash of the measurement file *)
  cid : string;                          (* "<hash>_<enum>" *)
  cblob : string; cpath : string;
  cattrs : list (string * string);       (* data enum, data hash, fit <key> ..., in write order *)
  cdsets : list (string * string);       (* fit range, force, fit residuals, tip position, segment *)
  cfit : string                          (* the fit column *)
}.

Inductive write :=
| WData (k blob : string) | WPath (k p : string)
| WDelGroup (id : string) | WGroup (id : string)
| WAttr (id k v : string) | WDset (id name v : string).

Definition apply_write (s : h5) (w : write) : h5 :=
  match w with
  | WData k b => {| hdata := aset k (b, None) (hdata s); hana := hana s |}
  | WPath k p =>
      match aget k (hdata s) with
      | Some (b, _) => {| hdata := aset k (b, Some p) (hdata s); hana := hana s |}
      | None => s
      end
  | WDelGroup id => {| hdata := hdata s; hana := adel id (hana s) |}
  | WGroup id => {| hdata := hdata s; hana := aset id empty_group (hana s) |}
  | WAttr id k v =>
      match aget id (hana s) with
      | Some g => {| hdata := hdata s;
                     hana := aset id {| gattrs := aset k v (gattrs g); gdsets := gdsets g |} (hana s) |}
      | None => s
      end
  | WDset id n v =>
      match aget id (hana s) with
      | Some g => {| hdata := hdata s;
                     hana := aset id {| gattrs := gattrs g; gdsets := aset n v (gdsets g) |} (hana s) |}
      | None => s
      end
  end.

Definition apply_writes (s : h5) (ws : list write) : h5 := fold_left apply_write ws s.

(* "fit" is written last and marks a complete group *)
Definition complete (g : group) : bool := ahas "fit" (gdsets g).

Definition data_writes (s : h5) (c : curve) : list write :=
  (if ahas (chash c) (hdata s) then [] else [WData (chash c) (cblob c)]) ++
  (match aget (chash c) (hdata s) with
   | Some (_, Some _) => []
   | _ => [WPath (chash c) (cpath c)]
   end).

Definition group_writes (c : curve) (uattrs : list (string * string)) : list write :=
  [WGroup (cid c)] ++
  map (fun kv => WAttr (cid c) (fst kv) (snd kv)) (cattrs c) ++
  map (fun kv => WDset (cid c) (fst kv) (snd kv)) (cdsets c) ++
  map (fun kv => WAttr (cid c) (fst kv) (snd kv)) uattrs ++
  [WDset (cid c) "fit" (cfit c)].

(* fits_match: np.allclose(new fit, stored fit) -- an oracle on the two payloads *)
Definition save_writes (fits_match : string -> string -> bool) (s : h5) (c : curve)
           (uattrs : list (string * string)) : list write * option exn :=
  let dw := data_writes s c in
  match aget (cid c) (hana s) with
  | Some g =>
      if complete g then
        match aget "fit" (gdsets g) with
        | Some old =>
            if fits_match (cfit c) old
            then (dw ++ map (fun kv => WAttr (cid c) (fst kv) (snd kv)) uattrs, None)
            else (dw, Some ValueError)
        | None => (dw, Some KeyError)        (* unreachable: complete g *)
        end
      else (dw ++ [WDelGroup (cid c)] ++ group_writes c uattrs, None)
  | None => (dw ++ group_writes c uattrs, None)
  end.

Definition save fm s c u : h5 := apply_writes s (fst (save_writes fm s c u)).
(* a save that fails after n write calls *)
Definition save_upto (n : nat) fm s c u : h5 := apply_writes s (firstn n (fst (save_writes fm s c u))).

(* ---- load_hdf5 -------------------------------------------------------------------------- *)
Definition required_dsets : list string :=
  ["fit"; "fit range"; "force"; "fit residuals"; "tip position"; "segment"].
Definition required_attrs : list string :=
  ["data hash"; "data enum"; "user name"; "user rate"; "user comment"].

Record rating := { rid : string; rattrs : list (string * string); rdsets : list (string * string) }.

Definition data_loadable (s : h5) (k : string) : bool :=
  match aget k (hdata s) with Some (_, Some _) => true | _ => false end.

Definition load_group (s : h5) (idg : string * group) : res (option rating) :=
  let (id, g) := idg in
  if negb (complete g) then Ok None                 (* "Ignoring incomplete" *)
  else
    match aget "data hash" (gattrs g) with
    | None => Err KeyError
    | Some dh =>
        if data_loadable s dh
           && forallb (fun n => ahas n (gdsets g)) required_dsets
           && forallb (fun k => ahas k (gattrs g)) required_attrs
        then Ok (Some {| rid := id; rattrs := gattrs g; rdsets := gdsets g |})
        else Err KeyError
    end.

Fixpoint load_groups (s : h5) (l : list (string * group)) : res (list rating) :=
  match l with
  | [] => Ok []
  | idg :: t =>
      match load_group s idg with
      | Err e => Err e
      | Ok o =>
          match load_groups s t with
          | Err e => Err e
          | Ok rs => Ok (match o with Some r => r :: rs | None => rs end)
          end
      end
  end.

Definition load (s : h5) : res (list rating) := load_groups s (hana s).

(* hdf5_rated *)
Definition rated (s : h5) (id : string) : option (option string * option string) :=
  match aget id (hana s) with
  | Some g => if complete g then Some (aget "user rate" (gattrs g), aget "user comment" (gattrs g))
              else None
  | None => None
  end.
