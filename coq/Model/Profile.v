(* Command-line profile (nanite.cli.profile): the profile file as a map from keys to
   JSON values (canonical texts), write-through defaults, the key rule for fit
   parameters, get_fit_params / set_fit_params, and the accept/retry rules of the
   interactive prompts.  No proofs here. *)
From Coq Require Import String ZArith.
From Coq Require Import List Bool Arith.
From NV Require Import Base.Exn Model.Container Model.Preproc.
Import ListNotations.
Local Open Scope string_scope.
Local Open Scope list_scope.

Definition store := list (string * string).

Definition ends_with (s suf : string) : bool :=
  let n := String.length s in
  let m := String.length suf in
  if Nat.leb m n then String.eqb (substring (n - m) m s) suf else false.

(* Profile.__setitem__ *)
Definition key_ok (k : string) : bool :=
  if String.prefix "fit param" k then ends_with k "value" || ends_with k "vary" else true.

Definition pset (st : store) (k v : string) : res store :=
  if key_ok k then Ok (aset k v st) else Err ValueError.

(* Profile.__getitem__: DEFAULTS[key] first (KeyError), stored value or default,
   written through *)
Definition pget (defaults st : store) (k : string) : res (string * store) :=
  match aget k defaults with
  | None => Err KeyError
  | Some d =>
      let v := match aget k st with Some v => v | None => d end in
      if key_ok k then Ok (v, aset k v st) else Err ValueError
  end.

(* Profile(path): every default key is read once (and thereby written) *)
Definition pinit (defaults st : store) : store :=
  fold_left (fun st kd => match aget (fst kd) st with
                          | Some _ => st
                          | None => aset (fst kd) (snd kd) st
                          end) defaults st.

(* PSetBad: a write whose value JSON cannot encode (a numpy array / scalar, a set ...) *)
Inductive pop := PSet (k v : string) | PGet (k : string) | PNew | PSetBad (k : string).

(* state, and what the operation returned *)
Definition pstep (defaults : store) (st : store) (o : pop) : store * res (option string) :=
  match o with
  | PSet k v => match pset st k v with Ok st' => (st', Ok None) | Err e => (st, Err e) end
  | PGet k => match pget defaults st k with
              | Ok (v, st') => (st', Ok (Some v))
              | Err e => (st, Err e)
              end
  | PNew => (pinit defaults st, Ok None)
  | PSetBad k => (st, Err (if key_ok k then TypeError else ValueError))
  end.

Definition prun (defaults : store) (st : store) (ops : list pop) : store :=
  fold_left (fun st o => fst (pstep defaults st o)) ops st.

(* what a read of key k yields in state st *)
Definition value_of (defaults st : store) (k : string) : option string :=
  match aget k st with Some v => Some v | None => aget k defaults end.

(* ---- fit parameters ---------------------------------------------------------------------- *)
Definition vkey (p : string) : string := "fit param " ++ p ++ " value".
Definition fkey (p : string) : string := "fit param " ++ p ++ " vary".

(* model defaults: parameter -> (value, vary) *)
Definition get_fit_params (md : list (string * (string * string))) (st : store)
  : list (string * (string * string)) :=
  map (fun pv => (fst pv,
                  (match aget (vkey (fst pv)) st with Some x => x | None => fst (snd pv) end,
                   match aget (fkey (fst pv)) st with Some x => x | None => snd (snd pv) end)))
      md.

Definition set_fit_params (ps : list (string * (string * string))) (st : store) : store :=
  fold_left (fun st pv => aset (fkey (fst pv)) (snd (snd pv))
                               (aset (vkey (fst pv)) (fst (snd pv)) st)) ps st.

(* ---- prompts of setup_profile: None = the prompt is repeated ------------------------------- *)
Definition fitter_range_types : list string := ["absolute"; "relative cp"].

Definition prompt_range_type (cur ans : string) : option string :=
  if String.eqb ans "" then Some cur
  else let rt := if String.eqb ans "relative" then "relative cp" else ans in
       if existsb (String.eqb rt) fitter_range_types then Some rt else None.

Definition menu_item {A} (items : list A) (n : Z) : option A :=
  if (1 <=? n)%Z && (n <=? Z.of_nat (length items))%Z
  then nth_error items (Z.to_nat (n - 1)) else None.

Fixpoint all_some {A} (l : list (option A)) : option (list A) :=
  match l with
  | [] => Some []
  | Some x :: t => match all_some t with Some r => Some (x :: r) | None => None end
  | None :: _ => None
  end.

(* numbers entered for the preprocessing steps -> step indices, accepted only if
   every number is on the menu and preproc.check_order passes *)
Definition prompt_preproc (t : table) (nums : list Z) : option (list nat) :=
  match all_some (map (menu_item (seq 0 (length t))) nums) with
  | Some ids => if is_ok (check_order t ids) then Some ids else None
  | None => None
  end.

(* interval: each bound is replaced iff something was entered for it *)
Definition prompt_interval {T} (cur : T * T) (left right : option T) : T * T :=
  (match left with Some l => l | None => fst cur end,
   match right with Some r => r | None => snd cur end).
