(* The rating features that smooth with scipy.ndimage.gaussian_filter1d before they count or
   sum gradients: approach flatness and indentation monotony.  The filter is a parameter
   (an oracle): the theorems hold for EVERY length-preserving filter that commutes with
   positive factors, which is what a convolution with fixed weights does. *)
From Coq Require Import List Bool Arith.
From NV Require Import Base.Exn Model.FitCore Model.Steps Model.Poc Model.Features.
Import ListNotations.

Section FeatG.
  Variable T : Type.
  Variables add sub mul div : T -> T -> T.
  Variable absf : T -> T.
  Variable ltb : T -> T -> bool.
  Variable zero two : T.
  Variable of_nat : nat -> T.
  Variable gauss : nat -> list T -> list T.      (* sigma, data *)

  Notation tsum := (tsum T add zero).
  Notation np_gradient := (np_gradient T sub div two).

  (* feat_con_apr_flatness: fraction of positive among the non-zero gradients of the
     smoothed baseline residuals; sigma = max(5, (n // 120) // 2 * 2 + 1) *)
  Definition flatness_counts (cp : T) (x res : list T) : option (nat * nat) :=
    let r := rows T (fun v => ltb cp v) x res in
    let sigma := Nat.max 5 (length r / 120 / 2 * 2 + 1) in
    let y := gauss sigma r in
    if Nat.ltb 2 (length y) then
      let g := np_gradient y in
      Some (length (filter (fun v => ltb zero v) g), length (filter (fun v => ltb v zero) g))
    else None.
  Definition apr_flatness (cp : T) (x res : list T) : option T :=
    match flatness_counts cp x res with
    | Some (p, q) => Some (div (of_nat p) (add (of_nat p) (of_nat q)))
    | None => None
    end.

  (* feat_con_idt_monotony, before log(1+.)/10:  n_ind * |sum of falling gradients| /
     |sum of rising gradients| of the smoothed indentation force (sigma = 2) *)
  Definition idt_monotony_core (cp : T) (x y : list T) : option T :=
    let a := rows T (fun v => ltb v cp) x y in
    let s := gauss 2 a in
    if Nat.ltb 2 (length s) then
      let g := np_gradient s in
      let gz := absf (tsum (filter (fun v => ltb zero v) g)) in
      let lz := absf (tsum (filter (fun v => ltb v zero) g)) in
      Some (div (mul (of_nat (length a)) lz) gz)
    else None.
End FeatG.
