(* nanite.fit.guess_initial_parameters: the model's default parameters with the contact
   point taken from the curve (tip position at the estimated contact index) and the
   ancillary parameters (the non-NaN ones that name a model parameter) written over them.
   lmfit clips an assigned value to the parameter's bounds (mirrored).  The contact-point
   estimate and the ancillary values are inputs (C08 / C18).  No proofs here. *)
From Coq Require Import List String QArith Bool.
Import ListNotations.
Local Open Scope string_scope.

Record param := { p_name : string; p_value : Q; p_vary : bool;
                  p_min : option Q; p_max : option Q }.

Definition clip (lo hi : option Q) (v : Q) : Q :=
  let v1 := match hi with Some h => if Qlt_le_dec h v then h else v | None => v end in
  match lo with Some l => if Qlt_le_dec v1 l then l else v1 | None => v1 end.

Definition set_value (k : string) (v : Q) (ps : list param) : list param :=
  map (fun p => if String.eqb (p_name p) k
                then {| p_name := p_name p; p_value := clip (p_min p) (p_max p) v;
                        p_vary := p_vary p; p_min := p_min p; p_max := p_max p |}
                else p) ps.

(* ancillaries: None stands for NaN *)
Definition apply_anc (ps : list param) (anc : list (string * option Q)) : list param :=
  fold_left (fun ps kv => match snd kv with
                          | Some v => set_value (fst kv) v ps
                          | None => ps
                          end) anc ps.

Definition guess (defaults : list param) (cp : option Q) (anc : list (string * option Q))
  : list param :=
  let p1 := match cp with Some c => set_value "contact_point" c defaults | None => defaults end in
  apply_anc p1 anc.

Definition value_of (ps : list param) (k : string) : option Q :=
  match find (fun p => String.eqb (p_name p) k) ps with Some p => Some (p_value p) | None => None end.
