(* What a fit leaves behind (nanite.fit.IndentationFitter.fit/_fit and the end
   of nanite.indent.Indentation.fit_model): a fit is a non-empty sequence of
   passes (one for an absolute range, four for `relative cp`, many for the
   plateau search); every pass first blanks the two columns and either stores
   what the optimiser returned or, when there are too few points, only clears
   `success`; fit_model finally drops the results of earlier passes when the
   last pass could not be done.  The optimiser is an oracle: each pass carries
   what lmfit would return.  No proofs here. *)
From Coq Require Import List Bool Arith.
Import ListNotations.
From NV Require Import Model.FitCore.

Section Outcome.
  Variables P T : Type.

  Record fstate := mkF {
    f_cur : list (option T);       (* "fit" column, None = NaN *)
    f_res : list (option T);       (* "fit residuals" column *)
    f_success : bool;
    f_fitted : option P;           (* fp["params_fitted"] *)
    f_chi : option T;              (* fp["chi_sqr"] *)
    f_xmin : option T;
    f_xmax : option T }.

  Record optres := mkO {
    o_params : P; o_chi : T;
    o_cur : list T;                (* md.model(fit.params, xseg) *)
    o_res : list T;                (* md.residual(fit.params, xseg, yseg, w) *)
    o_xmin : T; o_xmax : T }.

  Record pass := mkP { p_varied : nat; p_points : nat; p_opt : optres }.

  (* arr[segid] = vals  on an array of NaN *)
  Fixpoint scatter (seg : list bool) (vals : list T) : list (option T) :=
    match seg with
    | [] => []
    | true :: s =>
        match vals with
        | v :: t => Some v :: scatter s t
        | [] => None :: scatter s []
        end
    | false :: s => None :: scatter s vals
    end.

  Definition blank (seg : list bool) : list (option T) := map (fun _ => None) seg.

  (* fit(): fp["success"] = False;  _fit(): fit_cur[:] = fit_res[:] = nan; ... *)
  Definition one_pass (seg : list bool) (s : fstate) (p : pass) : fstate :=
    if enough_points (p_varied p) (p_points p) then
      let o := p_opt p in
      mkF (scatter seg (o_cur o)) (scatter seg (o_res o)) true
          (Some (o_params o)) (Some (o_chi o)) (Some (o_xmin o)) (Some (o_xmax o))
    else
      mkF (blank seg) (blank seg) false
          (f_fitted s) (f_chi s) (f_xmin s) (f_xmax s).

  Definition run_passes (seg : list bool) (s : fstate) (ps : list pass) : fstate :=
    fold_left (one_pass seg) ps s.

  (* fit_model: if not fitter.fp["success"]: pop params_fitted, chi_sqr, xmin, xmax *)
  Definition finish (s : fstate) : fstate :=
    if f_success s then s
    else mkF (f_cur s) (f_res s) false None None None None.

  Definition fit_outcome (seg : list bool) (s : fstate) (ps : list pass) : fstate :=
    finish (run_passes seg s ps).
End Outcome.

Arguments mkF {P T}. Arguments mkO {P T}. Arguments mkP {P T}.
Arguments f_cur {P T}. Arguments f_res {P T}. Arguments f_success {P T}.
Arguments f_fitted {P T}. Arguments f_chi {P T}. Arguments f_xmin {P T}.
Arguments f_xmax {P T}.
Arguments scatter {T}. Arguments blank {T}.
Arguments one_pass {P T}. Arguments run_passes {P T}. Arguments finish {P T}.
Arguments fit_outcome {P T}.
Arguments p_varied {P T}. Arguments p_points {P T}. Arguments p_opt {P T}.
Arguments o_params {P T}. Arguments o_chi {P T}. Arguments o_cur {P T}.
Arguments o_res {P T}. Arguments o_xmin {P T}. Arguments o_xmax {P T}.
