(* Contact-point estimation (nanite.poc): the compute_poc wrapper, clipping of the
   approach part, and the estimators.  Written once over abstract scalars; binary64
   instance for execution, R instance for the theorems.  Third-party numerics are
   explicit arguments: scipy's uniform_filter1d (UF), the Nelder-Mead fit of the
   piecewise models (NM), np.average.  No proofs here. *)
From Coq Require Import ZArith String.
From Coq Require Import List Bool Arith.
From NV Require Import Base.Exn Model.FitCore Model.Steps.
Import ListNotations.

Section Poc.
  Variable T : Type.
  Variables add sub mul div : T -> T -> T.
  Variable absf : T -> T.
  Variable ltb leb eqb : T -> T -> bool.
  Variable zero one two hundredth : T.
  Variable of_nat : nat -> T.

  Notation argmax := (argmax T ltb).
  Notation argmin := (argmin T ltb).
  Notation list_min := (list_min T ltb zero).
  Notation list_max := (list_max T ltb zero).

  (* compute_preproc_clip_approach: only the part before the force maximum *)
  Definition clip (f : list T) : list T := firstn (argmax f) f.

  Fixpoint first_true (l : list bool) (i : nat) : option nat :=
    match l with
    | [] => None
    | b :: t => if b then Some i else first_true t (S i)
    end.

  Fixpoint last_true (l : list bool) (i : nat) (acc : option nat) : option nat :=
    match l with
    | [] => acc
    | b :: t => last_true t (S i) (if b then Some i else acc)
    end.

  (* ---- deviation from baseline; avg = np.average(force[:int(n*.1)]) ------------- *)
  Definition baseline_of (f : list T) : list T := firstn (length f / 10) f.

  Definition deviation (avg : T) (f : list T) : option nat :=
    match baseline_of f with
    | [] => None
    | bl =>
        let rng := mul (list_max (map (fun b => absf (sub b avg)) bl)) two in
        first_true (map (fun x => ltb rng (sub x avg)) f) 0
    end.

  (* ---- normalisation to [0, 1] (frechet and the three fit-based estimators) ------ *)
  Definition normalise (f : list T) : list T :=
    let mn := list_min f in
    let pt := sub (list_max f) mn in
    map (fun v => div (sub v mn) pt) f.

  (* ---- Frechet distance to the direct path; sinA = sin(-pi/4), cosA = cos(-pi/4) -- *)
  Variables sinA cosA : T.
  Definition frechet_idx (f : list T) : nat :=
    let x := linspace T add mul div of_nat zero one sub (length f) in
    let y := normalise f in
    argmin (map2 (fun a b => add (mul a sinA) (mul b cosA)) x y).
  (* an empty array (nothing before the force maximum) has no estimate *)
  Definition frechet (f : list T) : option nat :=
    match f with [] => None | _ => Some (frechet_idx f) end.

  (* ---- piecewise fits: NM gets the normalised ordinate and the start index and
     returns int(x0) of a successful fit ------------------------------------------- *)
  (* NM returns the fitted x0 (and int(x0)) of a successful fit; an x0 outside the
     data, too few points or constant data give no estimate *)
  Variable NM : list T -> nat -> option (T * Z).
  Definition fit_based (minsize : nat) (f : list T) : option Z :=
    if Nat.ltb minsize (length f) && ltb zero (sub (list_max f) (list_min f)) then
      match NM (normalise f) (frechet_idx f) with
      | Some (x0, z) =>
          if leb zero x0 && ltb x0 (of_nat (length f)) then Some z else None
      | None => None
      end
    else None.

  (* ---- gradient zero crossing ------------------------------------------------------ *)
  Variable UF : nat -> list T -> list T.     (* uniform_filter1d(., size) *)

  (* np.gradient with unit spacing *)
  Fixpoint grad_inner (prev : T) (l : list T) : list T :=
    match l with
    | cur :: ((nxt :: _) as t) => div (sub nxt prev) two :: grad_inner cur t
    | [lst] => [sub lst prev]
    | [] => []
    end.
  Definition np_gradient (y : list T) : list T :=
    match y with
    | a :: ((b :: _) as t) => sub b a :: grad_inner a t
    | _ => []
    end.

  Definition filtsize (n : nat) : nat := Nat.max 5 (n / 100).

  Definition gzc (f : list T) : option nat :=
    let n := length f in
    let fs := filtsize n in
    let y := UF fs f in
    if Nat.ltb 1 (length y) then
      let cutoff := length y - argmax y + 10 in
      let grad := firstn (length y - cutoff) (np_gradient y) in
      if Nat.ltb 50 (length grad) then
        let gradn := UF fs grad in
        let thresh := mul hundredth (list_max gradn) in
        match last_true (map (fun g => leb g thresh) gradn) 0 None with
        | Some j => Some (Nat.min (length y - (length gradn - 1 - j) - cutoff + fs)
                                  (length y - 1))
        | None => None
        end
      else None
    else None.

  (* ---- compute_poc ----------------------------------------------------------------- *)
  Fixpoint lookup (m : string) (tab : list (string * bool)) : option bool :=
    match tab with
    | [] => None
    | (k, v) :: t => if String.eqb k m then Some v else lookup m t
    end.

  (* est: the estimator selected by name; None = NaN; Err = it raised *)
  Definition compute_poc (tab : list (string * bool))
             (est : string -> list T -> res (option Z)) (meth : string) (f : list T) : res Z :=
    match lookup meth tab with
    | None => Err ValueError
    | Some clipflag =>
        let f' := if clipflag then clip f else f in
        match est meth f' with
        | Err e => Err e
        | Ok (Some cp) => Ok cp
        | Ok None => Ok (Z.of_nat (length f' / 2))
        end
    end.
End Poc.
