(* binary64 instance of Poc (execution only) *)
From Coq Require Import ZArith String.
From Coq Require Import List PrimFloat Uint63.
From NV Require Import Base.Exn Model.FitCore Model.FitCoreF Model.Steps Model.Poc.
Import ListNotations.

Definition f_clip := clip float PrimFloat.ltb.
Definition f_deviation := deviation float PrimFloat.sub PrimFloat.mul PrimFloat.abs PrimFloat.ltb 0%float 2%float.
Definition f_normalise := normalise float PrimFloat.sub PrimFloat.div PrimFloat.ltb 0%float.
Definition f_frechet :=
  frechet float PrimFloat.add PrimFloat.sub PrimFloat.mul PrimFloat.div PrimFloat.ltb
          0%float 1%float f_of_nat.
Definition f_np_gradient := np_gradient float PrimFloat.sub PrimFloat.div 2%float.
Definition f_gzc (hundredth : float) :=
  gzc float PrimFloat.sub PrimFloat.mul PrimFloat.div PrimFloat.ltb PrimFloat.leb
      0%float 2%float hundredth.
Definition f_compute_poc := compute_poc float PrimFloat.ltb.
Definition f_fit_based :=
  fit_based float PrimFloat.add PrimFloat.sub PrimFloat.mul PrimFloat.div PrimFloat.ltb PrimFloat.leb
            0%float 1%float f_of_nat.

Definition floats_same (a b : list float) : bool :=
  Nat.eqb (length a) (length b) && forallb (fun p => f_same (fst p) (snd p)) (combine a b).

(* an oracle given as a finite table of (input, output) pairs *)
Definition table_fun {B} (tab : list (list float * B)) (dflt : B) (x : list float) : B :=
  match find (fun p => floats_same (fst p) x) tab with
  | Some p => snd p
  | None => dflt
  end.
