(* Model of nanite.preproc: autosort, check_order, available, and the
   acceptance logic of apply.  Identifiers are positions in the step table
   (PREPROCESSORS order); a position >= length of the table is an unknown
   identifier.  No proofs in this file. *)
From Coq Require Import List Arith Bool.
From NV Require Import Base.Exn Base.PyList.
Import ListNotations.

(* (steps_required, steps_optional) per step; None in Python = [] here
   (the code treats None and [] alike in every place modelled). *)
Definition table := list (list nat * list nat).

Definition get_func (t : table) (pid : nat) : res (list nat * list nat) :=
  match nth_error t pid with Some m => Ok m | None => Err KeyError end.

(* --- autosort ----------------------------------------------------------- *)

(* for step in steps_precursor: ... *)
Definition move (pid step : nat) (s : list nat) : res (list nat) :=
  match index pid s, index step s with
  | Some cix, Some rix =>
      if Nat.ltb cix rix then Ok (insert_at cix step (remove1 step s)) else Ok s
  | _, _ => Err ValueError       (* list.index raises *)
  end.

Fixpoint moves (pid : nat) (steps : list nat) (s : list nat) : res (list nat) :=
  match steps with
  | [] => Ok s
  | st :: more => do s' <- move pid st s ; moves pid more s'
  end.

Definition precursors (m : list nat * list nat) (identifiers : list nat) : list nat :=
  fst m ++ filter (fun o => mem o identifiers) (snd m).

(* one pass `for pid in previous_identifiers` *)
Fixpoint pass (t : table) (identifiers : list nat) (todo : list nat) (s : list nat)
  : res (list nat) :=
  match todo with
  | [] => Ok s
  | pid :: more =>
      do m <- get_func t pid ;
      do s' <- moves pid (precursors m identifiers) s ;
      pass t identifiers more s'
  end.

(* `for _ in range(len(identifiers)+1)`: repeat until stable *)
Fixpoint passes (fuel : nat) (t : table) (identifiers s : list nat) : res (list nat) :=
  match fuel with
  | 0 => Ok s
  | S f =>
      do s' <- pass t identifiers s s ;
      if list_eqb s' s then Ok s' else passes f t identifiers s'
  end.

(* --- check_order -------------------------------------------------------- *)

Fixpoint indices (l : list nat) (xs : list nat) : res (list nat) :=
  match xs with
  | [] => Ok []
  | x :: more =>
      match index x l with
      | None => Err ValueError
      | Some i => do r <- indices l more ; Ok (i :: r)
      end
  end.

Definition any_gt (ixs : list nat) (cix : nat) : bool :=
  existsb (fun i => Nat.ltb cix i) ixs.

Fixpoint check_from (t : table) (whole : list nat) (cix : nat) (rest : list nat)
  : res unit :=
  match rest with
  | [] => Ok tt
  | pid :: more =>
      do m <- get_func t pid ;
      do rix <- indices whole (fst m) ;
      if any_gt rix cix then Err ValueError else
      do rio <- indices whole (filter (fun o => mem o whole) (snd m)) ;
      if any_gt rio cix then Err ValueError else
      check_from t whole (S cix) more
  end.

Definition check_order (t : table) (l : list nat) : res unit :=
  check_from t l 0 l.

Definition autosort (t : table) (identifiers : list nat) : res (list nat) :=
  do s <- passes (S (length identifiers)) t identifiers identifiers ;
  do _ <- check_order t s ;
  Ok s.

Definition available (t : table) : res (list nat) :=
  autosort t (seq 0 (length t)).

(* --- apply: acceptance -------------------------------------------------- *)
(* for ii, pid in enumerate(identifiers): pid in available() else KeyError;
   set(req) & set(identifiers[:ii]) == set(req) else ValueError *)
Fixpoint apply_from (t : table) (avail : list nat) (before : list nat) (rest : list nat)
  : res unit :=
  match rest with
  | [] => Ok tt
  | pid :: more =>
      if mem pid avail then
        do m <- get_func t pid ;
        if forallb (fun r => mem r before) (fst m)
        then apply_from t avail (before ++ [pid]) more
        else Err ValueError
      else Err KeyError
  end.

Definition apply_check (t : table) (l : list nat) : res unit :=
  match available t with
  | Ok av => apply_from t av [] l
  | Err e => Err e
  end.

(* --- enumeration of ordered selections without repetition --------------- *)
Fixpoint sels (fuel : nat) (avail : list nat) : list (list nat) :=
  match fuel with
  | 0 => [[]]
  | S f => [] :: flat_map (fun x => map (cons x) (sels f (remove1 x avail))) avail
  end.

Definition all_selections (t : table) : list (list nat) :=
  sels (length t) (seq 0 (length t)).

(* declarative order relation, written independently of check_order *)
Definition before_or_absent (l : list nat) (r pid : nat) : bool :=
  match index r l, index pid l with
  | Some i, Some j => Nat.leb i j
  | None, _ => true
  | _, None => true
  end.

Definition ordered (t : table) (l : list nat) : bool :=
  forallb (fun pid =>
    match nth_error t pid with
    | None => false
    | Some (rq, op) =>
        forallb (fun r => mem r l && before_or_absent l r pid) rq &&
        forallb (fun o => before_or_absent l o pid) op
    end) l.

Definition closed (t : table) (l : list nat) : bool :=
  forallb (fun pid =>
    match nth_error t pid with
    | None => false
    | Some (rq, _) => forallb (fun r => mem r l) rq
    end) l.

Definition is_perm (a b : list nat) : bool :=
  Nat.eqb (length a) (length b) && forallb (fun x => mem x b) a && forallb (fun x => mem x a) b.

(* the whole of property C14's first sentence for one selection *)
Definition autosort_good (t : table) (l : list nat) : bool :=
  if closed t l then
    match autosort t l with
    | Ok s =>
        is_perm l s && ordered t s && is_ok (check_order t s) &&
        (match autosort t s with Ok s2 => list_eqb s2 s | _ => false end) &&
        (if ordered t l then list_eqb s l else true)
    | Err _ => false
    end
  else true.
