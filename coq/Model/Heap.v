(* Reference model for "arguments are taken by value" (C10).  A Python object graph
   is flattened in pre-order: one node per (sub)object = (identity, value digest,
   depth).  The same identity occurring in an object held by the library and in an
   object held by the caller IS an alias; an in-place edit by the caller changes the
   node with that identity wherever it occurs.  No proofs here. *)
From Coq Require Import List Bool Arith.
Import ListNotations.

Definition node := (nat * nat * nat)%type.          (* id, value, depth *)
Definition obj := list node.

Definition nid (n : node) : nat := fst (fst n).
Definition ids (o : obj) : list nat := map nid o.
Definition erase (o : obj) : list (nat * nat) := map (fun n => (snd (fst n), snd n)) o.

(* copy.deepcopy: same values and shape, fresh identities next, next+1, ... *)
Definition relabel (next : nat) (o : obj) : obj :=
  map (fun p => (fst p, snd (fst (snd p)), snd (snd p))) (combine (seq next (length o)) o).

(* an in-place edit of the object with identity i *)
Definition mutate1 (i : nat) (f : nat -> nat) (o : obj) : obj :=
  map (fun n => if Nat.eqb (nid n) i then (nid n, f (snd (fst n)), snd n) else n) o.

Record world := { lib : list obj; caller : list obj; next : nat }.

Definition all_ids (os : list obj) : list nat := flat_map ids os.

Inductive op :=
| CallStore (k : nat)            (* the library keeps (a deep copy of) caller object k *)
| CallReturn (j : nat)           (* the library hands (a deep copy of) its object j to the caller *)
| CallStoreRef (k : nat)         (* BAD: keeps the caller's object itself *)
| CallReturnRef (j : nat)        (* BAD: hands out its own object *)
| Mutate (i : nat) (f : nat -> nat)    (* caller edits, in place, an object it can reach *)
| LibWrite (i : nat) (f : nat -> nat)  (* library edits one of its own objects *)
| CallerNew (o : obj).                 (* caller builds a new object (identities made fresh) *)

Definition good (o : op) : bool :=
  match o with CallStoreRef _ | CallReturnRef _ => false | _ => true end.

Definition memb (i : nat) (l : list nat) : bool := existsb (Nat.eqb i) l.

Definition step (w : world) (o : op) : world :=
  match o with
  | CallStore k =>
      match nth_error (caller w) k with
      | Some a => {| lib := lib w ++ [relabel (next w) a]; caller := caller w;
                     next := next w + length a |}
      | None => w
      end
  | CallReturn j =>
      match nth_error (lib w) j with
      | Some a => {| lib := lib w; caller := caller w ++ [relabel (next w) a];
                     next := next w + length a |}
      | None => w
      end
  | CallStoreRef k =>
      match nth_error (caller w) k with
      | Some a => {| lib := lib w ++ [a]; caller := caller w; next := next w |}
      | None => w
      end
  | CallReturnRef j =>
      match nth_error (lib w) j with
      | Some a => {| lib := lib w; caller := caller w ++ [a]; next := next w |}
      | None => w
      end
  | Mutate i f =>
      if memb i (all_ids (caller w)) then
        {| lib := map (mutate1 i f) (lib w); caller := map (mutate1 i f) (caller w);
           next := next w |}
      else w
  | LibWrite i f =>
      if memb i (all_ids (lib w)) then
        {| lib := map (mutate1 i f) (lib w); caller := map (mutate1 i f) (caller w);
           next := next w |}
      else w
  | CallerNew o =>
      {| lib := lib w; caller := caller w ++ [relabel (next w) o];
         next := next w + length o |}
  end.

Definition run (w : world) (ops : list op) : world := fold_left step ops w.

Definition empty : world := {| lib := []; caller := []; next := 0 |}.

(* what the harness observes *)
Definition lib_values (w : world) := map erase (lib w).
Definition caller_values (w : world) := map erase (caller w).
Definition shared (w : world) : list nat :=
  filter (fun i => memb i (all_ids (caller w))) (all_ids (lib w)).
