(* Model of nanite.model.core.NaniteFitModel._module_check, the registry of
   nanite.model.logic and the ancillary seeding of
   nanite.fit.guess_initial_parameters.  No proofs in this file. *)
From Coq Require Import List String Bool Arith.
From NV Require Import Base.Exn.
Import ListNotations.
Local Open Scope string_scope.

(* what the check looks at in a model module *)
Record pymod := {
  mkey : string;
  present : list string;        (* names of the attributes the module defines *)
  pkeys : list string;          (* parameter_keys *)
  pnames : list string;         (* parameter_names *)
  punits : list string;         (* parameter_units *)
  pdefaults : list string;      (* keys of get_parameter_defaults() *)
  pargs : list string           (* argument names of model_func *)
}.

Definition required : list string :=
  ["get_parameter_defaults"; "model_doc"; "model_func"; "model_key"; "model_name";
   "parameter_keys"; "parameter_names"; "parameter_units"; "valid_axes_x"; "valid_axes_y"].
Definition required_anc : list string :=
  ["parameter_anc_keys"; "parameter_anc_names"; "parameter_anc_units"].

Definition has (m : pymod) (a : string) : bool := existsb (String.eqb a) (present m).

Fixpoint nodup_b (l : list string) : bool :=
  match l with
  | [] => true
  | x :: t => negb (existsb (String.eqb x) t) && nodup_b t
  end.

Fixpoint list_eqb (a b : list string) : bool :=
  match a, b with
  | [], [] => true
  | x :: s, y :: t => String.eqb x y && list_eqb s t
  | _, _ => false
  end.

(* source order of the checks *)
Definition module_check (m : pymod) : res unit :=
  if negb (forallb (has m) required) then Err ModelIncompleteError else
  if has m "compute_ancillaries" && negb (forallb (has m) required_anc)
  then Err ModelIncompleteError else
  if negb (Nat.eqb (List.length (pkeys m)) (List.length (pnames m))) then Err ModelImplementationError else
  if negb (Nat.eqb (List.length (pkeys m)) (List.length (punits m))) then Err ModelImplementationError else
  if negb (nodup_b (pnames m)) then Err ModelImplementationError else
  if negb (Nat.eqb (List.length (pkeys m)) (List.length (pdefaults m))) then Err ModelImplementationError else
  if negb (list_eqb (pkeys m) (pdefaults m)) then Err ModelImplementationError else
  Ok tt.

(* _module_autocomplete: default wrappers are attached when missing *)
Definition autocomplete (m : pymod) : pymod :=
  let add a l := if existsb (String.eqb a) l then l else (l ++ [a])%list in
  {| mkey := mkey m; present := add "model" (add "residual" (present m));
     pkeys := pkeys m; pnames := pnames m; punits := punits m;
     pdefaults := pdefaults m; pargs := pargs m |}.

(* ---- registry (an insertion-ordered dict) -------------------------------------------- *)
Definition registry := list (string * pymod).

Fixpoint rset (k : string) (v : pymod) (r : registry) : registry :=
  match r with
  | [] => [(k, v)]
  | (k', v') :: t => if String.eqb k k' then (k, v) :: t else (k', v') :: rset k v t
  end.

Fixpoint rget (k : string) (r : registry) : option pymod :=
  match r with
  | [] => None
  | (k', v) :: t => if String.eqb k k' then Some v else rget k t
  end.

Definition rpop (k : string) (r : registry) : registry :=
  filter (fun kv => negb (String.eqb k (fst kv))) r.

Definition register (r : registry) (m : pymod) : res registry :=
  do _ <- module_check m ; Ok (rset (mkey m) (autocomplete m) r).

Definition deregister (r : registry) (k : string) : res registry :=
  match rget k r with Some _ => Ok (rpop k r) | None => Err KeyError end.

(* load_model_from_file: the import is an oracle (Some module | failed);
   returns the new registry and sys.path *)
Definition load_from_file (r : registry) (syspath : list string) (imported : option pymod)
           (reg : bool) : res registry * list string :=
  match imported with
  | None => (Err ModelImportError, syspath)
  | Some m =>
      match module_check m with
      | Err e => (Err e, syspath)
      | Ok _ => (if reg then register r m else Ok r, syspath)
      end
  end.

Inductive rop :=
| Register (m : pymod)
| Deregister (k : string)
| LoadFile (imported : option pymod) (reg : bool).

Definition rstep (st : registry * list string) (o : rop) : (registry * list string) * option exn :=
  let '(r, p) := st in
  match o with
  | Register m => match register r m with Ok r' => ((r', p), None) | Err e => ((r, p), Some e) end
  | Deregister k => match deregister r k with Ok r' => ((r', p), None) | Err e => ((r, p), Some e) end
  | LoadFile im reg =>
      match load_from_file r p im reg with
      | (Ok r', p') => ((r', p'), None)
      | (Err e, p') => ((r, p'), Some e)
      end
  end.

(* ---- ancillary seeding ------------------------------------------------------------------ *)
(* params: name -> value; ancillaries: name -> Some v | None (= NaN) *)
Fixpoint pset (k : string) (v : nat) (ps : list (string * nat)) : list (string * nat) :=
  match ps with
  | [] => []
  | (k', v') :: t => if String.eqb k k' then (k, v) :: t else (k', v') :: pset k v t
  end.

Fixpoint seed (params : list (string * nat)) (anc : list (string * option nat))
  : list (string * nat) :=
  match anc with
  | [] => params
  | (k, Some v) :: t => seed (pset k v params) t
  | (_, None) :: t => seed params t
  end.
