(* Loading and quantitative maps (nanite.read, nanite.group, nanite.qmap): progress
   callbacks over several files, the spring-constant precondition of a group, the
   pixel placement of map values and the three nanite map features.  Written over
   abstract scalars where arithmetic is involved.  No proofs here. *)
From Coq Require Import List Bool Arith.
From NV Require Import Base.Exn.
Import ListNotations.

(* ---- progress over several files: callback((ii + x) / len(paths)) ---------------------- *)
Section Prog.
  Variable T : Type.
  Variables add div : T -> T -> T.
  Variable of_nat : nat -> T.
  Definition gprogress (n ii : nat) (x : T) : T := div (add (of_nat ii) x) (of_nat n).
  Fixpoint gall_progress (n ii : nat) (files : list (list T)) : list T :=
    match files with
    | [] => []
    | f :: t => map (gprogress n ii) f ++ gall_progress n (S ii) t
    end.
End Prog.

(* ---- IndentationGroup.append --------------------------------------------------------- *)
Record curve_desc := { has_spring_constant : bool; has_tip_position : bool; tag : nat }.

Definition append (g : list curve_desc) (c : curve_desc) : res (list curve_desc) :=
  if negb (has_spring_constant c) && negb (has_tip_position c) then Err OtherError (* MissingMetaDataError *)
  else Ok (g ++ [c]).

(* ---- map grid: map2d[yi, xi] = value_i, everything else NaN (None) -------------------- *)
Section Grid.
  Variable V : Type.
  Definition grid := list (list (option V)).       (* rows (y), columns (x) *)

  Definition blank (xn yn : nat) : grid := repeat (repeat None xn) yn.

  Fixpoint set_nth {A} (l : list A) (i : nat) (v : A) : list A :=
    match l, i with
    | [], _ => []
    | _ :: t, 0 => v :: t
    | x :: t, S j => x :: set_nth t j v
    end.

  Definition put (g : grid) (xi yi : nat) (v : option V) : grid :=
    match nth_error g yi with
    | Some row => set_nth g yi (set_nth row xi v)
    | None => g
    end.

  (* in group order; a later curve on the same pixel overwrites *)
  Definition map_grid (xn yn : nat) (coords : list (nat * nat)) (vals : list (option V)) : grid :=
    fold_left (fun g cv => put g (fst (fst cv)) (snd (fst cv)) (snd cv)) (combine coords vals)
              (blank xn yn).

  Definition pixel (g : grid) (xi yi : nat) : option V :=
    match nth_error g yi with
    | Some row => match nth_error row xi with Some v => v | None => None end
    | None => None
    end.
End Grid.

(* ---- map features over the state of one curve ------------------------------------------ *)
Section Feat.
  Variable T : Type.
  Variable mul : T -> T -> T.
  Variable nano : T.                       (* 1e9 *)

  Record cstate := {
    success : bool;                        (* fit_properties.get("success", False) *)
    fitted_E : option T;                   (* params_fitted["E"], if the model has one *)
    fitted_cp : T;
    cur_hash : nat;                        (* hash of the current fit (0 = "none") *)
    rating : option (nat * T)              (* cached (hash, value) *)
  }.

  Definition feat_contact_point (s : cstate) : option T :=
    if success s then Some (mul (fitted_cp s) nano) else None.

  Definition feat_youngs_modulus (s : cstate) : res (option T) :=
    if success s then match fitted_E s with Some e => Ok (Some e) | None => Err KeyError end
    else Ok None.

  Definition feat_rating (s : cstate) : option T :=
    match rating s with
    | Some (h, v) => if Nat.eqb h (cur_hash s) then Some v else None
    | None => None
    end.
End Feat.
