(* Structural (not Python) equality on values and states: used by the
   correspondence files to compare the model's result with the observed one. *)
From Coq Require Import List String ZArith QArith Bool.
From NV Require Import Base.Exn Base.PyVal Model.Curve.
Import ListNotations.
Local Close Scope Q_scope.
Local Open Scope string_scope.

Definition q_same (a b : Q) : bool :=
  Z.eqb (Qnum a) (Qnum b) && Pos.eqb (Qden a) (Qden b) || Qeq_bool a b.

Definition xk_same (a b : xkind) : bool :=
  match a, b with
  | XNaN, XNaN | XPosInf, XPosInf | XNegInf, XNegInf => true
  | _, _ => false
  end.

Fixpoint pyval_eqb (a b : pyval) {struct a} : bool :=
  let fix eq_list (la lb : list pyval) {struct la} : bool :=
      match la, lb with
      | [], [] => true
      | x :: ta, y :: tb => pyval_eqb x y && eq_list ta tb
      | _, _ => false
      end in
  let fix eq_items (da db : list (string * pyval)) {struct da} : bool :=
      match da, db with
      | [], [] => true
      | (k, v) :: ta, (k', w) :: tb => String.eqb k k' && pyval_eqb v w && eq_items ta tb
      | _, _ => false
      end in
  match a, b with
  | VNone, VNone => true
  | VBool x, VBool y => Bool.eqb x y
  | VInt x, VInt y => Z.eqb x y
  | VFloat q t, VFloat q' t' => q_same q q' && String.eqb t t'
  | VFloatX k, VFloatX k' => xk_same k k'
  | VStr s, VStr s' => String.eqb s s'
  | VBytes s, VBytes s' => String.eqb s s'
  | VList la, VList lb => eq_list la lb
  | VTuple la, VTuple lb => eq_list la lb
  | VDict da, VDict db => eq_items da db
  | VParam a1 a2 a3 a4 a5 n a6, VParam b1 b2 b3 b4 b5 m b6 =>
      pyval_eqb a1 b1 && pyval_eqb a2 b2 && pyval_eqb a3 b3 && pyval_eqb a4 b4
      && pyval_eqb a5 b5 && String.eqb n m && pyval_eqb a6 b6
  | VOther t, VOther t' => Nat.eqb t t'
  | _, _ => false
  end.

(* dictionaries as maps *)
Definition dict_sub (a b : dict) : bool :=
  forallb (fun kv => match assoc (fst kv) b with
                     | Some w => pyval_eqb (snd kv) w
                     | None => false end) a.
Definition dict_eqb (a b : dict) : bool :=
  Nat.eqb (List.length a) (List.length b) && dict_sub a b && dict_sub b a.

Definition rating_eqb (a b : option (pyval * pyval * pyval * pyval * pyval * pyval)) : bool :=
  match a, b with
  | None, None => true
  | Some (a1, a2, a3, a4, a5, a6), Some (b1, b2, b3, b4, b5, b6) =>
      pyval_eqb a1 b1 && pyval_eqb a2 b2 && pyval_eqb a3 b3 && pyval_eqb a4 b4
      && pyval_eqb a5 b5 && pyval_eqb a6 b6
  | _, _ => false
  end.

Definition cstate_eqb (a b : cstate) : bool :=
  pyval_eqb (pre a) (pre b) && pyval_eqb (popts a) (popts b)
  && Bool.eqb (details a) (details b) && dict_eqb (fp a) (fp b)
  && Bool.eqb (cols a) (cols b) && rating_eqb (rating a) (rating b).

Definition outcome_eqb (a b : outcome) : bool :=
  match a, b with
  | Done, Done => true
  | Raised e, Raised f => exn_eqb e f
  | Value v, Value w => pyval_eqb v w
  | _, _ => false
  end.
