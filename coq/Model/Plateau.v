(* nanite.fit.IndentationFitter.compute_opt_mindelta after the Butterworth filter (the
   filtered moduli are the model's input: scipy's filtfilt is an oracle): binning into ten
   regions, labelling of the sequences, the selection loop (with its `counts.pop`), the
   fallback label 5, and the index range whose mean is the optimal depth.  Generic scalar
   type; executed at binary64.  No proofs here. *)
From Coq Require Import List Bool Arith.
From NV Require Import Base.Exn.
Import ListNotations.

Section Plateau.
  Variable T : Type.
  Variables add sub mul div : T -> T -> T.
  Variable abs : T -> T.
  Variable ltb : T -> T -> bool.
  Variable of_nat : nat -> T.
  Variable zero : T.

  Definition ni : nat := 10.

  Fixpoint list_min (l : list T) (d : T) : T :=
    match l with [] => d | x :: t => let m := list_min t x in if ltb x m then x else m end.
  Fixpoint list_max (l : list T) (d : T) : T :=
    match l with [] => d | x :: t => let m := list_max t x in if ltb m x then x else m end.

  (* np.linspace(lo, hi, 10, endpoint=False, retstep=True); ivals += istep/2 *)
  Definition istep (lo hi : T) : T := div (sub hi lo) (of_nat ni).
  Definition ivals (lo hi : T) : list T :=
    let st := istep lo hi in
    map (fun i => add (add (mul (of_nat i) st) lo) (div st (of_nat 2))) (seq 0 ni).

  (* np.argmin(np.abs(ivals - s)): first index of the smallest distance *)
  Fixpoint argmin_from (l : list T) (i best : nat) (bv : T) : nat :=
    match l with
    | [] => best
    | x :: t => if ltb x bv then argmin_from t (S i) i x else argmin_from t (S i) best bv
    end.
  Definition bin_of (iv : list T) (s : T) : nat :=
    match map (fun v => abs (sub v s)) iv with
    | [] => 0
    | d :: t => argmin_from t 1 0 d
    end.

  (* labels of the sequences of equal bins, and the bin of every sample *)
  Fixpoint label_from (bins : list nat) (prev idx : nat) : list nat :=
    match bins with
    | [] => []
    | b :: t => let idx' := if Nat.eqb b prev then idx else S idx in idx' :: label_from t b idx'
    end.
  Definition labels (bins : list nat) : list nat :=
    match bins with [] => [] | b :: t => 0 :: label_from t b 0 end.

  Definition bincount (labs : list nat) : list nat :=
    map (fun k => length (filter (Nat.eqb k) labs)) (seq 0 (S (fold_right Nat.max 0 labs))).

  Fixpoint argmax_from (l : list nat) (i best bv : nat) : nat :=
    match l with
    | [] => best
    | x :: t => if Nat.ltb bv x then argmax_from t (S i) i x else argmax_from t (S i) best bv
    end.
  Definition argmax (l : list nat) : nat :=
    match l with [] => 0 | x :: t => argmax_from t 1 0 x end.

  Fixpoint first_index (k : nat) (l : list nat) (i : nat) : option nat :=
    match l with [] => None | x :: t => if Nat.eqb x k then Some i else first_index k t (S i) end.
  Fixpoint last_index (k : nat) (l : list nat) (i : nat) (acc : option nat) : option nat :=
    match l with [] => acc | x :: t => last_index k t (S i) (if Nat.eqb x k then Some i else acc) end.

  Fixpoint remove_nth {A} (n : nat) (l : list A) : list A :=
    match n, l with
    | _, [] => []
    | 0, _ :: t => t
    | S m, x :: t => x :: remove_nth m t
    end.

  (* for ii in range(len(counts)): ... counts.pop(labmax); else: labmax = 5
     (the label found is an index into the CURRENT, possibly shortened, list) *)
  Fixpoint select (fuel : nat) (counts labs bins : list nat) (iv : list T) (st : T)
    : res nat :=
    match fuel with
    | 0 => Ok 5
    | S f =>
        let labmax := argmax counts in
        match first_index labmax labs 0 with
        | None => Err IndexError
        | Some labid =>
            let valmax := nth (nth labid bins 0) iv zero in
            if ltb st valmax then Ok labmax
            else select f (remove_nth labmax counts) labs bins iv st
        end
    end.

  (* (first, last) index of the chosen sequence; the optimal depth is the sample at
     `first` when they coincide and the mean of indentations[first:last] otherwise *)
  Definition plateau (smooth : list T) : res (nat * nat) :=
    match smooth with
    | [] => Err ValueError
    | s0 :: _ =>
        let lo := list_min smooth s0 in
        let hi := list_max smooth s0 in
        let iv := ivals lo hi in
        let st := istep lo hi in
        let bins := map (bin_of iv) smooth in
        let labs := labels bins in
        let counts := bincount labs in
        match select (length counts) counts labs bins iv st with
        | Err e => Err e
        | Ok labmax =>
            match first_index labmax labs 0, last_index labmax labs 0 None with
            | Some i0, Some i1 => Ok (i0, i1)
            | _, _ => Err IndexError
            end
        end
    end.

  Fixpoint sum_list (l : list T) : T :=
    match l with [] => zero | x :: t => add x (sum_list t) end.
  Definition opt_depth (ind : list T) (r : nat * nat) : T :=
    let (i0, i1) := r in
    if Nat.eqb i0 i1 then nth i0 ind zero
    else div (fold_left add (firstn (i1 - i0) (skipn i0 ind)) zero) (of_nat (i1 - i0)).
End Plateau.
