(* Rating features (nanite.rate.features): validity guards, selection and ordering of
   feature names, and the arithmetic of the features that do not go through scipy
   filters, written once over abstract scalars (Q for exact execution against the
   implementation, R for the theorems).  The finishing maps c*log(1+v) and the
   filter-based features are oracles.  No proofs here. *)
From Coq Require Import String.
From Coq Require Import List Bool Arith.
From NV Require Import Base.Exn Model.FitCore Model.Steps.
Import ListNotations.

(* ---- which curve states give a value at all (None = NaN) --------------------------------- *)
Record fstate := {
  fp_nonempty : bool;          (* bool(fit_properties) *)
  fp_success : bool;           (* fit_properties.get("success", False) *)
  has_cp_param : bool          (* "contact_point" in params_fitted *)
}.
Definition is_valid (s : fstate) : bool := fp_nonempty s.
Definition is_fitted (s : fstate) : bool := is_valid s && fp_success s.
Definition has_contact_point (s : fstate) : bool := is_fitted s && has_cp_param s.

Definition guard_cp {A} (s : fstate) (v : option A) : option A :=
  if has_contact_point s then v else None.
Definition guard_valid {A} (s : fstate) (v : option A) : option A :=
  if is_valid s then v else None.

(* ---- names: get_feature_names(which_type, names) over the (sorted) table ----------------- *)
Definition starts_with (p s : string) : bool := String.prefix p s.

Definition names_of_type (table : list string) (which : string) : list string :=
  filter (starts_with (if String.eqb which "binary" then "feat_bin_"
                       else if String.eqb which "continuous" then "feat_con_"
                       else "feat_")%string) table.

Definition select_names (table : list string) (which : string) (names : option (list string))
  : res (list string) :=
  let base := names_of_type table which in
  match names with
  | None | Some [] => Ok base
  | Some ns =>
      if forallb (fun n => existsb (String.eqb n) table) ns
      then Ok (filter (fun f => existsb (String.eqb f) ns) base)
      else Err ValueError
  end.

Section Feat.
  Variable T : Type.
  Variables add sub mul div : T -> T -> T.
  Variable absf : T -> T.
  Variable ltb : T -> T -> bool.
  Variable zero : T.
  Variable of_nat : nat -> T.

  Notation list_min := (list_min T ltb zero).
  Notation list_max := (list_max T ltb zero).
  Notation argmin := (argmin T ltb).
  Notation argmax := (argmax T ltb).

  Definition tsum (l : list T) : T := fold_left add l zero.
  Definition count (p : T -> bool) (l : list T) : nat := length (filter p l).

  (* feat_bin_size: at least 600 points in the approach part *)
  Definition bin_size (n_apr : nat) : bool := negb (Nat.ltb n_apr 600).

  (* feat_bin_cp_position: contact point inside the approach abscissa range *)
  Definition bin_cp_position (cp : T) (x : list T) : bool :=
    negb (ltb cp (list_min x) || ltb (list_max x) cp).

  (* feat_con_apr_size: 1 - #(x > cp) / n *)
  Definition apr_size (cp : T) (x : list T) : T :=
    sub (of_nat 1) (div (of_nat (count (fun v => ltb cp v) x)) (of_nat (length x))).

  (* residuals fit - y on the approach part; None = NaN entries are dropped by the code
     where it says so: here residuals are finite on the rows selected *)
  Definition residuals (fit y : list T) : list T := map2 sub fit y.

  (* rows of l whose abscissa satisfies p *)
  Definition rows (p : T -> bool) (x l : list T) : list T :=
    select (map p x) l.

  (* feat_con_apr_sum, before log(1+.):  sum |res[x>cp]| / (n * max y) * 100 *)
  Definition apr_sum_core (cp : T) (x y res : list T) : T :=
    mul (div (tsum (map absf (rows (fun v => ltb cp v) x res)))
             (mul (of_nat (length x)) (list_max y)))
        (of_nat 100).

  (* feat_con_idt_sum, before log(1+.)*5:  (sum |(y-fit)[x<cp]| / size) / (|ymax - ymin| / 2) *)
  Definition idt_sum_core (cp : T) (x y fit : list T) : option T :=
    let d := rows (fun v => ltb v cp) x (map2 sub y fit) in
    match d with
    | [] => None
    | _ => Some (div (div (tsum (map absf d)) (of_nat (length d)))
                     (div (absf (sub (list_max y) (list_min y))) (of_nat 2)))
    end.

  (* feat_con_cp_magnitude (no log):  sum |res[cpidx-r : cpidx+r]| / max y / 100 *)
  Definition slice {A} (a b : nat) (l : list A) : list A := firstn (b - a) (skipn a l).
  Definition cp_magnitude (cp : T) (x y res : list T) : option T :=
    let r := count (fun v => ltb v cp) x / 10 in
    let cpidx := argmin (map (fun v => absf (sub v cp)) x) in
    (* a negative start index wraps around in Python: cpidx < r is kept apart *)
    if Nat.ltb cpidx r then None
    else match slice (cpidx - r) (cpidx + r) res with
         | [] => None
         | w => Some (div (div (tsum (map absf w)) (list_max y)) (of_nat 100))
         end.

  (* feat_con_idt_sum_75perc, before log(1+.)/8 *)
  Definition idx75 (cp : T) (x : list T) : nat * nat :=
    let id100 := argmin x in
    let id000 := argmin (map (fun v => absf (sub v cp)) x) in
    (* int(id000 + .25 * (id100 - id000)), truncation towards zero *)
    let id025 := if Nat.leb id000 id100 then id000 + (id100 - id000) / 4
                 else id000 - ((id000 - id100) + 3) / 4 in
    (Nat.min id025 id100, Nat.max id025 id100).

  Definition idt_sum_75_core (million : T) (cp : T) (x y fit : list T) : T :=
    let (idmin, idmax) := idx75 cp x in
    let yd := tsum (slice idmin idmax (map absf (map2 sub y fit))) in
    let xn := absf (sub (nth idmin x zero) (nth idmax x zero)) in
    mul (div (mul yd xn) (list_max y)) million.

  (* feat_con_bln_variation, before log(1+.)/5: the baseline residuals without their
     last tenth; |mean of the first ten - mean of the last ten| / max y * 1000 *)
  Definition bln_variation_core (cp : T) (x y res : list T) : option T :=
    let r := rows (fun v => ltb cp v) x res in
    let r' := firstn (length r - length r / 10) r in
    if Nat.ltb 20 (length r') then
      let a1 := div (tsum (firstn 10 r')) (of_nat 10) in
      let a2 := div (tsum (skipn (length r' - 10) r')) (of_nat 10) in
      Some (mul (div (absf (sub a1 a2)) (list_max y)) (of_nat 1000))
    else None.

  (* feat_con_bln_slope, before log(1+|.|)/10: least-squares slope of the residuals
     over the outer half of the baseline, / max y *)
  Definition ls_slope (xs ys : list T) : T :=
    let n := of_nat (length xs) in
    div (sub (mul n (tsum (map2 mul xs ys))) (mul (tsum xs) (tsum ys)))
        (sub (mul n (tsum (map2 mul xs xs))) (mul (tsum xs) (tsum xs))).
  Definition bln_slope_core (cp : T) (x y res : list T) : option T :=
    let breakp := div (add (list_max x) cp) (of_nat 2) in
    let xs := rows (fun v => ltb breakp v) x x in
    let ys := rows (fun v => ltb breakp v) x res in
    if Nat.ltb 20 (length xs) then Some (div (ls_slope xs ys) (list_max y)) else None.

  (* feat_con_cp_curvature, before log(1+|.|)*sign/4: the force around the contact point
     minus the straight line from its minimum to its maximum, summed, / max y * 10 *)
  Definition lin_space (a b : T) (n : nat) : list T :=
    map (fun i => add a (mul (of_nat i) (div (sub b a) (of_nat (n - 1))))) (seq 0 n).
  Definition cp_curvature_core (cp : T) (x y : list T) : option T :=
    let cpid := argmin (map (fun v => absf (sub v cp)) x) in
    let maxid := argmax y in
    let incl := (if Nat.leb cpid maxid then maxid - cpid else cpid - maxid) / 10 in
    if Nat.ltb 5 incl then
      (* a negative start index wraps around in Python: kept apart *)
      if Nat.ltb cpid incl then None
      else match slice (cpid - incl) (cpid + incl) y with
           | [] => None
           | reg => Some (mul (div (tsum (map2 sub reg
                                            (lin_space (list_min reg) (list_max reg) (length reg))))
                                   (list_max y)) (of_nat 10))
           end
    else None.
End Feat.
