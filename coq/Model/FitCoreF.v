(* binary64 instance of FitCore (execution only) *)
From Coq Require Import List PrimFloat Uint63 ZArith.
From NV Require Import Model.FitCore.
Import ListNotations.

Definition f_of_nat (n : nat) : float := PrimFloat.of_uint63 (Uint63.of_Z (Z.of_nat n)).
Definition f_range_mask := range_mask float PrimFloat.ltb PrimFloat.eqb.
Definition f_reported_min := reported_min float PrimFloat.ltb PrimFloat.mul PrimFloat.div.
Definition f_reported_max := reported_max float PrimFloat.ltb PrimFloat.mul PrimFloat.div.
Definition f_relative_passes := relative_passes float PrimFloat.ltb PrimFloat.eqb PrimFloat.add.
Definition f_linspace (a b : float) (n : nat) :=
  linspace float PrimFloat.add PrimFloat.mul PrimFloat.div f_of_nat a b PrimFloat.sub n.

(* bitwise comparison of floats: NaN = NaN, -0 <> +0 *)
Definition f_same (a b : float) : bool :=
  match PrimFloat.classify a, PrimFloat.classify b with
  | FloatClass.NaN, FloatClass.NaN => true
  | FloatClass.PZero, FloatClass.PZero => true
  | FloatClass.NZero, FloatClass.NZero => true
  | FloatClass.PZero, _ | FloatClass.NZero, _ | _, FloatClass.PZero | _, FloatClass.NZero => false
  | FloatClass.NaN, _ | _, FloatClass.NaN => false
  | _, _ => PrimFloat.eqb a b
  end.
