(* The pass schedule of a contact-point-relative fit
   (nanite.fit.IndentationFitter.fit, branch "relative cp", after fix 5a6a0b1):
   a first pass over the whole segment, then up to three passes whose interval
   is anchored at the contact point fitted by the pass before; a refused pass
   ends the loop.  Reading the fitted contact point of a state that has none
   is the KeyError of the unrepaired code: it is modelled as `None`.
   No proofs here. *)
From Coq Require Import List Bool Arith.
Import ListNotations.
From NV Require Import Model.FitCore Model.FitOutcome.

Section Relative.
  Variables P T : Type.
  Variable seg : list bool.
  (* the pass anchored at a fitted parameter set (mask, counts and what the
     optimiser would return for it): an oracle *)
  Variable next : P -> pass P T.

  (* repaired loop: `if not self.fp["success"]: break` before the anchor is read *)
  Fixpoint rel_loop (fuel : nat) (s : fstate P T) : option (fstate P T) :=
    match fuel with
    | 0 => Some s
    | S n =>
        if f_success s then
          match f_fitted s with
          | Some p => rel_loop n (one_pass seg s (next p))
          | None => None                      (* KeyError: 'params_fitted' *)
          end
        else Some s
    end.

  (* the loop as it was: the anchor is read whatever the pass before did *)
  Fixpoint rel_loop_old (fuel : nat) (s : fstate P T) : option (fstate P T) :=
    match fuel with
    | 0 => Some s
    | S n =>
        match f_fitted s with
        | Some p => rel_loop_old n (one_pass seg s (next p))
        | None => None
        end
    end.

  Definition relative_fit (s : fstate P T) (first : pass P T) : option (fstate P T) :=
    option_map finish (rel_loop 3 (one_pass seg s first)).
  Definition relative_fit_old (s : fstate P T) (first : pass P T) : option (fstate P T) :=
    option_map finish (rel_loop_old 3 (one_pass seg s first)).

  (* the passes the repaired loop performs, as a list (for the outcome model) *)
  Fixpoint rel_passes (fuel : nat) (s : fstate P T) : list (pass P T) :=
    match fuel with
    | 0 => []
    | S n =>
        if f_success s then
          match f_fitted s with
          | Some p => next p :: rel_passes n (one_pass seg s (next p))
          | None => []
          end
        else []
    end.
End Relative.

(* shape of the recorded passes of one relative fit: at most four, every pass
   but the last could be done, and fewer than four only if the last was refused *)
Definition enough (vn : nat * nat) : bool := enough_points (fst vn) (snd vn).
Definition rel_shape (l : list (nat * nat)) : bool :=
  match rev l with
  | [] => false
  | last :: before =>
      Nat.leb (length l) 4 && forallb enough before
      && (Nat.eqb (length l) 4 || negb (enough last))
  end.

Arguments rel_loop {P T}. Arguments rel_loop_old {P T}.
Arguments relative_fit {P T}. Arguments relative_fit_old {P T}.
Arguments rel_passes {P T}.
