(* binary64 instance of Median (execution only) *)
From Coq Require Import List PrimFloat.
From NV Require Import Base.Exn Model.FitCore Model.FitCoreF Model.Steps Model.StepsF Model.Median.
Import ListNotations.

Definition f_median_filter := median_filter float PrimFloat.leb 0%float.
Definition f_widen := widen float PrimFloat.sub PrimFloat.leb 0%float.
Definition f_smooth :=
  smooth_axis_monotone float PrimFloat.add PrimFloat.sub PrimFloat.mul PrimFloat.div
                       PrimFloat.leb PrimFloat.eqb 0%float f_of_nat.
