"""Writes /verif/MANIFEST.json from the table below (kept next to the code so
that the manifest never lists a check that does not exist)."""
import json
import pathlib

VERIF = pathlib.Path(__file__).resolve().parents[1]

TB = ("Trusted: Coq 8.16.1 kernel and vm_compute; the axioms printed by "
      "Print Assumptions per theorem (recorded in the evidence file); "
      "tools/nv/gen_tables.py (introspection printer); the correspondence "
      "harness (canonicalisation, error-kind mapping). ")

CLAIMS = {
 "C03": dict(
  technique="Coq proof: invariant by induction over all operation histories of a state-machine model with universally quantified oracles; stepwise refinement check against the real object",
  text="coq/Model/Curve.v models FitProperties.__setitem__/reset, apply_preprocessing, fit_model with the IndentationFitter constructor, rate_quality, compute_emodulus_mindelta and "
       "get_initial_fit_parameters as a total step function; preprocessing, optimiser, hash and rater are oracle answers quantified universally. C03_valid proves for EVERY history "
       "(induction) that visible results were computed from the pipeline the data hold now and from settings equivalent (Python ==, parameter state) to the stored ones; C03_setitem_sound, "
       "C03_no_recompute; C03_direct_edit_refuted is a kernel-checked witness for the known finding. Tie: every step of random histories and an exhaustive key x value sweep of "
       "__setitem__ is executed on the real object and on the model (abstraction function, comparison inside Coq); the fresh-curve comparison (bit-identical) searches for failing histories.",
  note=TB + "Oracles (not verified): determinism of preprocessing/optimiser/hash as functions of (data, settings); the rater is a stub in histories. "
       "Alphabet restriction of the theorem: result keys are not written by hand, the two preprocessing keys are not edited directly (known finding).",
  ref="6/C03"),
 "C06": dict(
  technique="Coq proof of one-step theorems over the curve model (all states, all oracle answers); stepwise refinement check; exhaustive ordered pairs of a request catalogue against fresh curves",
  text="Theorems over coq/Model/Curve.v for ALL states and oracle answers: a rejected request (any reason) is not remembered and is executed again when repeated; re-applying the applied "
       "pipeline is the identity; a request is either skipped with settings/columns untouched or executed with results, columns and rating dropped. Tie as for C03. Search: every ordered "
       "pair (A then B) of valid/invalid requests, also via fit_model(preprocessing=...), compared byte for byte with B on a fresh curve; raw data compared before/after.",
  note=TB + "What each step computes is an oracle here (C07). The history-level purity invariant (memo always describes the data) is proved only through C03_valid's provenance part; "
       "afmformats' raw-data separation is observed, not modelled.",
  ref="6/C06"),
 "C09": dict(
  technique="Coq proof of the cache decision and rater decision structure + real-analysis lemma for averaging regressors; stepwise refinement check; comparison with the standalone rater",
  text="Theorems: 'none' regressor gives -1 and leaves the cache alone; a cached value is returned ONLY if hash, regressor, training set, names and LDA flag all compare equal; any "
       "difference recomputes and re-keys; executed/rejected preprocessing forgets the rating; the rater's decision order (exclusion -> 0, NaN -> -1, else prediction); a (nested) weighted "
       "average of training responses lies in their range, hence [0,10] for the shipped set (range checked at run time). Tie: stepwise correspondence of rate_quality histories (stub "
       "rater) and real raters on nine reachable curve states compared with the standalone rater, repeated calls, fresh objects, another process.",
  note=TB + "scikit-learn regressors are oracles: that tree ensembles predict weighted means of training responses is the hypothesis of C09_avg_in_range. Reals axioms "
       "(sig_forall_dec, functional_extensionality_dep) under the two real-valued theorems.",
  ref="6/C09"),
 "C12": dict(
  technique="Coq proof over a byte-level model of the hash pre-image (induction, cancellation, prefix-free codes); byte-exact correspondence with the wrapped hashlib.md5 argument",
  text="Theorems in coq/Props/C12.v about the md5 pre-image computed by a model of obj2bytes/_hash over the FP_DEFAULT key order regenerated on every run: "
       "tuple/list, bool/int/float and dict-insertion-order invariance (for all values), the two documented don't-cares, and for EVERY other key that a change of "
       "that key changes the pre-image exactly when its contribution encodes differently (keys_covered + sensitivity, by prefix/suffix cancellation); data sensitivity; "
       "injectivity on step lists (prefix-free identifiers). The full sensitivity statement for structured values is REFUTED by a kernel-checked witness (known finding "
       "C12/list-join-collision) and replaced by the proved single-element statement. Model tied to the code byte for byte on random complete settings.",
  note=TB + "Outside the theorems: md5 collision freedom; CPython's str(float) (carried as text); numpy tobytes; cross-process determinism is exercised by subprocess runs only. "
       "Not proved in Coq (correspondence + API search only): sensitivity for the two keys hashed twice (preprocessing, preprocessing_options) and for flipping optimal_fit_edelta.",
  ref="6/C12"),
 "C14": dict(
  technique="Coq proof: exhaustive vm_compute over a proved-complete enumeration + unbounded induction; exhaustive model/code correspondence",
  text="Theorems in coq/Props/C14.v over the step table regenerated from nanite.preproc on every run: "
       "autosort is correct on EVERY ordered selection without repetition (forallb by vm_compute over an enumeration proved complete and sound), "
       "available() is valid, check_order equals the declarative order relation, and apply accepts a list of ANY length iff every step is known and "
       "its required steps occur earlier (induction). The hand-written model is tied to the code by running both on all 1957 selections plus random lists "
       "with repetitions and unknown identifiers and comparing inside Coq.",
  note=TB + "Modelled, not verified: CPython list.index/remove/insert semantics mirrored in coq/Base/PyList.v; "
       "the numerical bodies of the steps are stubbed while the real preproc.apply acceptance logic runs.",
  ref="6/C14"),
}

ALL = ["C%02d" % i for i in range(1, 21)]


def main():
    checks = []
    for pid in ALL:
        if pid not in CLAIMS:
            continue
        c = CLAIMS[pid]
        checks.append({
            "property_id": pid,
            "quick_cmd": f"./check {pid} --tier quick",
            "thorough_cmd": f"./check {pid} --tier thorough",
            "evidence_file": f"/verif/evidence/{pid}.json",
            "replay_cmd_template": f"./check {pid} --replay {{path}}",
            "engine": "coq-nv",
            "level_claimed": {"category": "proof", "text": c["text"],
                              "design_ref": "DESIGN.md section " + c["ref"]},
            "level_note": c["note"],
            "technique": c["technique"],
        })
    na = [{"property_id": pid,
           "reason": "check not built yet in this round (see DESIGN.md section 6 for the planned model and theorems)"}
          for pid in ALL if pid not in CLAIMS]
    man = {
        "version": 1,
        "setup_cmd": "./setup.sh",
        "hooks": {
            "guard": "NANITE_VERIF",
            "enable": "no source hooks: the harness wraps third-party entry points (lmfit.minimize, hashlib.md5, h5py, builtins.input) from its own process; ./check exports NANITE_VERIF=1 for uniformity",
            "baseline_off_cmd": "cd /repo && /venv/bin/python -m pytest -ra -q -p no:cacheprovider --timeout=900 --continue-on-collection-errors",
            "source_commits": [],
            "add_only": True,
        },
        "engines": [{
            "name": "coq-nv", "path": "/verif/coq",
            "serves_properties": [c["property_id"] for c in checks],
            "kind_free_text": "Coq 8.16.1 development (models, proofs, property theorems) + Python harness that regenerates tables/formulas from /repo, builds the theorems, runs model-vs-code correspondence inside Coq (vm_compute) and a direct-oracle search for failing inputs",
        }],
        "checks": checks,
        "not_applicable": na,
        "notes": "Single entry point ./check <ID> --tier quick|thorough [--replay FILE]. known_findings.json lists recorded/fixed defects. See DESIGN.md.",
    }
    (VERIF / "MANIFEST.json").write_text(json.dumps(man, indent=1) + "\n")


if __name__ == "__main__":
    main()
