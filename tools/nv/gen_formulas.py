"""Fail-closed AST translator (mechanism T of DESIGN.md 2.3):
the `model_func` bodies of the shipped models and
`compute_contact_point_weights` -> per-element functions over R (and, for
the weights, over PrimFloat) in coq/Gen/ModelFuncs.v.

Every name is either a scalar expression or a per-element expression;
`x[mask] = e` becomes `if mask then e else x_old`.  Anything outside the
supported idiom raises TranslationError.  The intermediate representation
is validated on every run by executing it in Python against the original
function (see `self_check`)."""
import ast
import inspect
import math
import random
from fractions import Fraction

from . import common


class TranslationError(Exception):
    pass


# IR: tuples
#  ("num", Fraction) ("var", name) ("pi",)
#  ("add"|"sub"|"mul"|"div"|"pow", a, b) ("neg", a)
#  ("sqrt"|"tan"|"abs", a)
#  ("gt"|"lt"|"ge"|"le", a, b)           -- masks
#  ("ite", mask, a, b)
class Translator:
    def __init__(self, func, array_args):
        self.func = func
        src = inspect.getsource(func)
        src = inspect.cleandoc("\n" + src) if src.startswith(" ") else src
        self.tree = ast.parse(src).body[0]
        if not isinstance(self.tree, ast.FunctionDef):
            raise TranslationError("not a function")
        self.args = [a.arg for a in self.tree.args.args]
        if self.tree.args.vararg or self.tree.args.kwarg \
                or self.tree.args.kwonlyargs:
            raise TranslationError("unsupported signature")
        self.array_args = array_args
        self.env = {a: ("var", a) for a in self.args}
        self.is_array = {a: (a in array_args) for a in self.args}
        self.order = []          # names in definition order (let-bindings)
        self.defs = {}
        self.result = None

    # ---- expressions --------------------------------------------------------
    def expr(self, node, masked_by=None):
        """returns (ir, is_array)"""
        if isinstance(node, ast.Constant):
            if isinstance(node.value, bool) or not isinstance(
                    node.value, (int, float)):
                raise TranslationError(f"constant {node.value!r}")
            return ("num", Fraction(str(node.value))
                    if isinstance(node.value, float)
                    else Fraction(node.value)), False
        if isinstance(node, ast.Name):
            if node.id == "pi":
                return ("pi",), False
            if node.id not in self.env:
                raise TranslationError(f"unknown name {node.id}")
            return ("ref", node.id), self.is_array[node.id]
        if isinstance(node, ast.Attribute):
            if (isinstance(node.value, ast.Name) and node.value.id == "np"
                    and node.attr == "pi"):
                return ("pi",), False
            raise TranslationError("attribute " + ast.dump(node))
        if isinstance(node, ast.UnaryOp):
            a, arr = self.expr(node.operand, masked_by)
            if isinstance(node.op, ast.USub):
                return ("neg", a), arr
            if isinstance(node.op, ast.UAdd):
                return a, arr
            raise TranslationError("unary op")
        if isinstance(node, ast.BinOp):
            a, aa = self.expr(node.left, masked_by)
            b, ba = self.expr(node.right, masked_by)
            ops = {ast.Add: "add", ast.Sub: "sub", ast.Mult: "mul",
                   ast.Div: "div", ast.Pow: "pow"}
            if type(node.op) not in ops:
                raise TranslationError("binary op " + ast.dump(node.op))
            return (ops[type(node.op)], a, b), (aa or ba)
        if isinstance(node, ast.Compare):
            if len(node.ops) != 1:
                raise TranslationError("chained comparison")
            a, aa = self.expr(node.left, masked_by)
            b, ba = self.expr(node.comparators[0], masked_by)
            ops = {ast.Gt: "gt", ast.Lt: "lt", ast.GtE: "ge", ast.LtE: "le"}
            if type(node.ops[0]) not in ops:
                raise TranslationError("comparison op")
            return (ops[type(node.ops[0])], a, b), (aa or ba)
        if isinstance(node, ast.Call):
            f = node.func
            if (isinstance(f, ast.Attribute) and isinstance(f.value, ast.Name)
                    and f.value.id == "np" and not node.keywords
                    and len(node.args) == 1):
                if f.attr in ("sqrt", "tan", "abs"):
                    a, arr = self.expr(node.args[0], masked_by)
                    return (f.attr, a), arr
                if f.attr == "zeros_like":
                    a, arr = self.expr(node.args[0], masked_by)
                    if not arr:
                        raise TranslationError("zeros_like of a scalar")
                    return ("num", Fraction(0)), True
            # other spellings of operators the IR already has
            if (isinstance(f, ast.Attribute) and isinstance(f.value, ast.Name)
                    and f.value.id == "np" and not node.keywords):
                if f.attr == "power" and len(node.args) == 2:
                    a, aa = self.expr(node.args[0], masked_by)
                    b, ba = self.expr(node.args[1], masked_by)
                    return ("pow", a, b), (aa or ba)
                if f.attr == "square" and len(node.args) == 1:
                    a, arr = self.expr(node.args[0], masked_by)
                    return ("pow", a, ("num", Fraction(2))), arr
                if f.attr in ("absolute", "fabs") and len(node.args) == 1:
                    a, arr = self.expr(node.args[0], masked_by)
                    return ("abs", a), arr
            raise TranslationError("call " + ast.dump(node.func))
        if isinstance(node, ast.Subscript):
            # array[mask] inside a masked assignment with the same mask
            if masked_by is None:
                raise TranslationError("subscript outside masked assignment")
            m = self.mask_of(node.slice)
            if m != masked_by:
                raise TranslationError("subscript with a different mask")
            a, arr = self.expr(node.value, None)
            if not arr:
                raise TranslationError("subscript of a scalar")
            return a, True
        raise TranslationError("expression " + ast.dump(node))

    def mask_of(self, node):
        """a mask is a name bound to a comparison, or an inline comparison"""
        if isinstance(node, ast.Name):
            if node.id not in self.env:
                raise TranslationError("unknown mask " + node.id)
            d = self.defs.get(node.id)
            if d is None or d[0] not in ("gt", "lt", "ge", "le"):
                raise TranslationError(node.id + " is not a mask")
            return ("ref", node.id)
        ir, arr = self.expr(node, None)
        if ir[0] not in ("gt", "lt", "ge", "le") or not arr:
            raise TranslationError("not a mask")
        return ir

    # ---- statements ---------------------------------------------------------
    def bind(self, name, ir, arr):
        # SSA: a re-assignment creates a new version
        version = name
        n = 1
        while version in self.defs or version in self.args:
            n += 1
            version = f"{name}_{n}"
        self.defs[version] = ir
        self.order.append(version)
        self.env[name] = ("var", version)
        self.is_array[name] = arr
        self.is_array[version] = arr
        self.current = getattr(self, "current", {})
        self.current[name] = version

    def resolve(self, ir):
        """replace ("ref", name) by the current version"""
        if ir[0] == "ref":
            cur = getattr(self, "current", {}).get(ir[1], ir[1])
            return ("var", cur)
        if ir[0] in ("num", "var", "pi"):
            return ir
        return (ir[0],) + tuple(self.resolve(x) if isinstance(x, tuple) else x
                                for x in ir[1:])

    def run(self):
        body = self.tree.body
        if body and isinstance(body[0], ast.Expr) and isinstance(
                body[0].value, ast.Constant) and isinstance(
                    body[0].value.value, str):
            body = body[1:]
        for st in body:
            if self.result is not None:
                raise TranslationError("statement after return")
            if isinstance(st, ast.Assign):
                if len(st.targets) != 1:
                    raise TranslationError("multiple targets")
                tg = st.targets[0]
                if isinstance(tg, ast.Name):
                    ir, arr = self.expr(st.value)
                    self.bind(tg.id, self.resolve(ir), arr)
                elif isinstance(tg, ast.Subscript) and isinstance(
                        tg.value, ast.Name):
                    name = tg.value.id
                    if name not in self.env or not self.is_array[name]:
                        raise TranslationError("masked store to non-array")
                    mask = self.mask_of(tg.slice)
                    ir, arr = self.expr(st.value, masked_by=mask)
                    old = self.resolve(("ref", name))
                    new = ("ite", self.resolve(mask), self.resolve(ir), old)
                    self.bind(name, new, True)
                else:
                    raise TranslationError("assignment target")
            elif isinstance(st, ast.AugAssign):
                if not isinstance(st.target, ast.Name):
                    raise TranslationError("augmented target")
                ops = {ast.Add: "add", ast.Sub: "sub", ast.Mult: "mul",
                       ast.Div: "div"}
                if type(st.op) not in ops:
                    raise TranslationError("augmented op")
                name = st.target.id
                b, ba = self.expr(st.value)
                old = self.resolve(("ref", name))
                self.bind(name, (ops[type(st.op)], old, self.resolve(b)),
                          self.is_array[name] or ba)
            elif isinstance(st, ast.Return):
                ir, arr = self.expr(st.value)
                self.result = self.resolve(ir)
            else:
                raise TranslationError("statement " + type(st).__name__)
        if self.result is None:
            raise TranslationError("no return")
        return self


# ---------------------------------------------------------------------------
# IR evaluation in Python (self check)
# ---------------------------------------------------------------------------
def ev(ir, env):
    t = ir[0]
    if t == "num":
        return float(ir[1])
    if t == "var":
        return env[ir[1]]
    if t == "pi":
        return math.pi
    if t == "neg":
        return -ev(ir[1], env)
    if t in ("add", "sub", "mul", "div", "pow"):
        a, b = ev(ir[1], env), ev(ir[2], env)
        if t == "add":
            return a + b
        if t == "sub":
            return a - b
        if t == "mul":
            return a * b
        if t == "div":
            return a / b
        return a ** b
    if t == "sqrt":
        return math.sqrt(ev(ir[1], env))
    if t == "tan":
        return math.tan(ev(ir[1], env))
    if t == "abs":
        return abs(ev(ir[1], env))
    if t in ("gt", "lt", "ge", "le"):
        a, b = ev(ir[1], env), ev(ir[2], env)
        return {"gt": a > b, "lt": a < b, "ge": a >= b, "le": a <= b}[t]
    if t == "ite":
        # lazily: the source evaluates the masked expression only where
        # the mask holds
        return ev(ir[2], env) if ev(ir[1], env) else ev(ir[3], env)
    raise TranslationError("ev " + t)


def eval_ir(tr, scalars, x):
    env = dict(scalars)
    env[tr.array_args[0]] = x
    for name in tr.order:
        env[name] = ev(tr.defs[name], env)
    return ev(tr.result, env)


def ulps(a, b):
    if a == b:
        return 0
    if math.isnan(a) or math.isnan(b) or math.isinf(a) or math.isinf(b):
        return float("inf")
    return abs(a - b) / max(math.ulp(a), math.ulp(b))


# ---------------------------------------------------------------------------
# printing
# ---------------------------------------------------------------------------
def rnum(fr):
    if fr.denominator == 1:
        return f"{fr.numerator}" if fr.numerator >= 0 else f"({fr.numerator})"
    return f"({fr.numerator} / {fr.denominator})"


def int_exponent(ir):
    return ir[0] == "num" and ir[1].denominator == 1 and ir[1] >= 0


def to_R(ir):
    t = ir[0]
    if t == "num":
        return rnum(ir[1])
    if t == "var":
        return ir[1]
    if t == "pi":
        return "PI"
    if t == "neg":
        return f"(- {to_R(ir[1])})"
    if t in ("add", "sub", "mul", "div"):
        op = {"add": "+", "sub": "-", "mul": "*", "div": "/"}[t]
        return f"({to_R(ir[1])} {op} {to_R(ir[2])})"
    if t == "pow":
        if int_exponent(ir[2]):
            return f"({to_R(ir[1])} ^ {ir[2][1].numerator})"
        return f"(ppow {to_R(ir[1])} {to_R(ir[2])})"
    if t == "sqrt":
        return f"(sqrt {to_R(ir[1])})"
    if t == "tan":
        return f"(tan {to_R(ir[1])})"
    if t == "abs":
        return f"(Rabs {to_R(ir[1])})"
    if t == "gt":
        return f"(Rlt_dec {to_R(ir[2])} {to_R(ir[1])})"
    if t == "lt":
        return f"(Rlt_dec {to_R(ir[1])} {to_R(ir[2])})"
    if t == "ge":
        return f"(Rle_dec {to_R(ir[2])} {to_R(ir[1])})"
    if t == "le":
        return f"(Rle_dec {to_R(ir[1])} {to_R(ir[2])})"
    if t == "ite":
        return (f"(if {to_R(ir[1])} then {to_R(ir[2])} "
                f"else {to_R(ir[3])})")
    raise TranslationError("to_R " + t)


def is_mask(ir):
    return ir[0] in ("gt", "lt", "ge", "le")


def to_F(ir):
    """PrimFloat printer (only for bodies using + - * / abs sqrt and
    comparisons with numerals that are exactly representable)"""
    t = ir[0]
    if t == "num":
        v = float(ir[1])
        if Fraction(v) != ir[1]:
            raise TranslationError("numeral not representable")
        return common.coq_float(v)
    if t == "var":
        return ir[1]
    if t == "neg":
        return f"(- {to_F(ir[1])})%float"
    if t in ("add", "sub", "mul", "div"):
        op = {"add": "+", "sub": "-", "mul": "*", "div": "/"}[t]
        return f"({to_F(ir[1])} {op} {to_F(ir[2])})%float"
    if t == "sqrt":
        return f"(PrimFloat.sqrt {to_F(ir[1])})"
    if t == "abs":
        return f"(PrimFloat.abs {to_F(ir[1])})"
    if t == "gt":
        return f"(PrimFloat.ltb {to_F(ir[2])} {to_F(ir[1])})"
    if t == "lt":
        return f"(PrimFloat.ltb {to_F(ir[1])} {to_F(ir[2])})"
    if t == "ge":
        return f"(PrimFloat.leb {to_F(ir[2])} {to_F(ir[1])})"
    if t == "le":
        return f"(PrimFloat.leb {to_F(ir[1])} {to_F(ir[2])})"
    if t == "ite":
        return (f"(if {to_F(ir[1])} then {to_F(ir[2])} "
                f"else {to_F(ir[3])})")
    raise TranslationError("to_F " + t)


def print_def(name, tr, arg_order, printer, ty):
    lets = []
    for v in tr.order:
        d = tr.defs[v]
        if is_mask(d):
            continue        # masks are inlined at their use
        lets.append(f"  let {v} := {printer(inline_masks(d, tr))} in")
    body = printer(inline_masks(tr.result, tr))
    args = " ".join(arg_order)
    return (f"Definition {name} ({args} : {ty}) : {ty} :=\n"
            + "\n".join(lets) + ("\n" if lets else "") + f"  {body}.")


def inline_masks(ir, tr):
    if ir[0] == "var" and ir[1] in tr.defs and is_mask(tr.defs[ir[1]]):
        return inline_masks(tr.defs[ir[1]], tr)
    if ir[0] in ("num", "var", "pi"):
        return ir
    return (ir[0],) + tuple(inline_masks(x, tr) if isinstance(x, tuple) else x
                            for x in ir[1:])


# ---------------------------------------------------------------------------
SHIPPED = [
    ("hertz_para", "model_hertz_paraboloidal"),
    ("hertz_cone", "model_conical_indenter"),
    ("hertz_pyr3s", "model_hertz_three_sided_pyramid"),
    ("sneddon_spher_approx", "model_sneddon_spherical_approximation"),
    ("power_layer_clifford_2009", "model_power_layer_clifford_2009"),
]


def translate_all():
    import importlib
    out = {}
    for key, modname in SHIPPED:
        mod = importlib.import_module("nanite.model." + modname)
        tr = Translator(mod.model_func, ["delta"]).run()
        out[key] = (tr, mod)
    from nanite.model import residuals
    trw = Translator(residuals.compute_contact_point_weights,
                     ["delta"]).run()
    return out, trw


def self_check(models, trw, n=300, seed=1):
    """IR executed per element must reproduce the real functions"""
    import numpy as np
    rng = random.Random(seed)
    worst = {}
    for key, (tr, mod) in models.items():
        defaults = mod.get_parameter_defaults()
        w = 0.0
        for _ in range(n):
            sc = {}
            for pname, p in defaults.items():
                if pname == "contact_point":
                    sc[pname] = rng.uniform(-2e-6, 2e-6)
                elif pname == "baseline":
                    sc[pname] = rng.uniform(-1e-9, 1e-9)
                else:
                    lo = p.min if math.isfinite(p.min) else p.value / 10
                    hi = p.max if math.isfinite(p.max) else p.value * 10
                    lo = max(lo, hi * 1e-4) if lo == 0 else lo
                    sc[pname] = rng.uniform(lo, hi * 0.98)
            xs = np.array([sc["contact_point"] + rng.uniform(-3e-6, 2e-6)
                           for _ in range(7)]
                          + [sc["contact_point"]])
            real = mod.model_func(xs.copy(), **sc)
            scale = max(float(np.max(np.abs(real))), 1e-300)
            for xv, rv in zip(xs, real):
                mine = eval_ir(tr, sc, float(xv))
                # vectorised and scalar pow differ in the last bits, and the
                # layered model cancels (E_S - E_L): relative to the largest
                # force of the sample, in units of 2^-52
                w = max(w, abs(float(rv) - mine) / scale / 2.220446049250313e-16)
        worst[key] = w
    import numpy as np
    from nanite.model import residuals
    w = 0.0
    for _ in range(n):
        cp = rng.uniform(-1e-6, 1e-6)
        wd = rng.choice([5e-7, 1e-6, 2e-6, 1e-9])
        xs = np.array([cp + rng.uniform(-3e-6, 3e-6) for _ in range(7)]
                      + [cp, cp + wd, cp - wd])
        real = residuals.compute_contact_point_weights(cp, xs.copy(), wd)
        for xv, rv in zip(xs, real):
            mine = eval_ir(trw, {"cp": cp, "weight_dist": wd}, float(xv))
            w = max(w, ulps(float(rv), mine))
    worst["contact_point_weights"] = w
    return worst


def generate():
    models, trw = translate_all()
    parts = [
        "(* GENERATED by tools/nv/gen_formulas.py from the model_func bodies",
        "   of the current working tree -- do not edit. *)",
        "From Coq Require Import Reals.",
        "From NV Require Import Base.RealExtra.",
        "Local Open Scope R_scope.",
        "",
    ]
    for key, (tr, mod) in models.items():
        order = [a for a in tr.args if a != "delta"] + ["delta"]
        parts.append(print_def("m_" + key, tr, order, to_R, "real"))
        parts.append("")
    parts.append(print_def("cp_weight", trw, ["cp", "weight_dist", "delta"],
                           to_R, "real"))
    text = "\n".join(parts) + "\n"
    common.write_if_changed(common.COQ / "Gen" / "ModelFuncs.v", text)
    ftext = "\n".join([
        "(* GENERATED by tools/nv/gen_formulas.py -- binary64 instance of",
        "   compute_contact_point_weights (bit-exact execution). *)",
        "From Coq Require Import PrimFloat.",
        "",
        print_def("cp_weight_f", trw, ["cp", "weight_dist", "delta"], to_F,
                  "float"), ""])
    common.write_if_changed(common.COQ / "Gen" / "WeightsF.v", ftext)
    return models, trw


if __name__ == "__main__":
    m, w = generate()
    print(self_check(m, w))
    print((common.COQ / "Gen" / "ModelFuncs.v").read_text())
