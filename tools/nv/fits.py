"""Helpers for the fit-level checks (C01, C04, C05, C11): synthetic curves
from the implementation's own model functions, capture of lmfit.minimize,
bit-exact correspondence of masks / weights / residual columns with the
binary64 instance of coq/Model/FitCore.v."""
import copy
import re

import numpy as np

from . import common, curves
from .common import coq_float

POWER = {"hertz_para": 1.5, "hertz_cone": 2.0, "hertz_pyr3s": 2.0}


def model_curve(model_key, params, n_app=200, n_ret=100, z0=6e-6, z1=-2e-6,
                noise=0.0, rng=None, jitter=False, spring=0.05):
    """columns of a curve that follows `model_key` exactly on BOTH segments
    (tip position given; height chosen so that tip = height + force/k)"""
    from nanite import model
    md = model.models_available[model_key]
    ta = np.linspace(z0, z1, n_app)
    tr = np.linspace(z1, z0, n_ret + 1)[1:]
    if jitter and rng is not None:
        ta = np.sort(ta + rng.uniform(-0.3, 0.3, ta.size) * (z0 - z1)
                     / n_app)[::-1]
        tr = np.sort(tr + rng.uniform(-0.3, 0.3, tr.size) * (z0 - z1) / n_ret)
    tip = np.concatenate([ta, tr])
    force = md.module.model_func(tip.copy(), **params)
    if noise and rng is not None:
        force = force + noise * rng.standard_normal(force.size)
    height = tip - force / spring
    seg = np.concatenate([np.zeros(ta.size, dtype=np.uint8),
                          np.ones(tr.size, dtype=np.uint8)])
    return {"force": force, "height (measured)": height,
            "height (piezo)": height.copy(), "segment": seg,
            "time": np.arange(tip.size) * 1e-3, "tip position": tip}


def default_params(model_key, **over):
    from nanite import model
    p = model.models_available[model_key].get_parameter_defaults()
    d = {k: float(v.value) for k, v in p.items()}
    d.update(over)
    return d


class MinimizeCapture:
    """records every lmfit.minimize call made by nanite.fit"""

    def __init__(self):
        import nanite.fit as nfit
        self.nfit = nfit
        self.calls = []

    def __enter__(self):
        self.orig = self.nfit.lmfit.minimize
        cap = self

        def w(fcn=None, params=None, method="leastsq", args=(), **kw):
            if len(args) != 3 or "contact_point" not in params:
                # not a nanite.fit call (e.g. a contact-point estimator)
                return cap.orig(fcn, params, method=method, args=args, **kw)
            rec = {"x": np.array(args[0], copy=True),
                   "y": np.array(args[1], copy=True),
                   "weight_cp": args[2],
                   "cp_in": float(params["contact_point"].value),
                   "method": method}
            out = cap.orig(fcn=fcn, params=params, method=method, args=args,
                           **kw)
            rec["cp_out"] = float(out.params["contact_point"].value)
            rec["chisqr"] = float(out.chisqr)
            rec["params_out"] = {k: float(v.value)
                                 for k, v in out.params.items()}
            cap.calls.append(rec)
            return out
        self.nfit.lmfit.minimize = w
        return self

    def __exit__(self, *a):
        self.nfit.lmfit.minimize = self.orig


def flist(arr):
    return "[" + "; ".join(coq_float(v) for v in np.asarray(arr, float)) + "]"


def blist(arr):
    return "[" + "; ".join("true" if v else "false" for v in arr) + "]"


CASE_HEAD = """From Coq Require Import List Bool PrimFloat.
From NV Require Import Model.FitCore Model.FitCoreF Gen.WeightsF.
Import ListNotations.
Definition bools_eqb (a b : list bool) : bool :=
  Nat.eqb (length a) (length b) && forallb (fun p => Bool.eqb (fst p) (snd p)) (combine a b).
Definition floats_same (a b : list float) : bool :=
  Nat.eqb (length a) (length b) && forallb (fun p => f_same (fst p) (snd p)) (combine a b).
Definition opt_same (a : option float) (b : float) : bool :=
  match a with Some x => f_same x b | None => false end.
(* residual column on the segment: (y - fit) * weight(cp, wd, x*k), or y - fit *)
Definition resid (weighted : bool) (cp wd k : float) (x y fit : float) : float :=
  if weighted then ((y - fit) * cp_weight_f cp wd (x * k))%float else (y - fit)%float.
Definition resid_col (weighted : bool) (cp wd k : float) (xs ys fits : list float) : list float :=
  map (fun t => resid weighted cp wd k (fst (fst t)) (snd (fst t)) (snd t))
      (combine (combine xs ys) fits).
"""


def coq_indices(out, n_expected, run, name):
    m = re.search(r"=\s*\((\d+)(?:%nat)?,\s*\[(.*?)\]\)", out, flags=re.S)
    if not m or int(m.group(1)) != n_expected:
        run.obligation(f"correspondence:{name}", False, out[-2500:])
        return None
    return [int(v) for v in re.findall(r"\d+", m.group(2))]


def eval_bool_cases(run, name, exprs, descr, head=None, chunk=40):
    """exprs: list of Coq boolean expressions; reports the false ones"""
    from concurrent.futures import ThreadPoolExecutor
    head = CASE_HEAD if head is None else head
    jobs = []
    for c0 in range(0, len(exprs), chunk):
        body = ";\n".join(exprs[c0:c0 + chunk])
        text = (head + "Definition cases : list bool := [\n" + body
                + "].\nFixpoint bad (i : nat) (l : list bool) : list nat :="
                " match l with [] => [] | b :: t => if b then bad (S i) t "
                "else i :: bad (S i) t end.\n"
                "Eval vm_compute in (List.length cases, bad 0 cases).\n")
        jobs.append((c0, len(exprs[c0:c0 + chunk]), f"{name}_{c0 // chunk}",
                     text))
    with ThreadPoolExecutor(max_workers=common.NPROC) as ex:
        res = list(ex.map(lambda j: common.coq_run(j[2], j[3], timeout=900),
                          jobs))
    allbad = []
    for (c0, n, nm, _), (ok, out) in zip(jobs, res):
        if not ok:
            run.obligation(f"correspondence:{nm}", False, out[-2500:])
            continue
        bad = coq_indices(out, n, run, nm)
        if bad is None:
            continue
        run.obligation(f"correspondence:{nm}", not bad,
                       f"{len(bad)} of {n} cases disagree with the model: "
                       + "; ".join(descr[c0 + i][:400] for i in bad[:3]))
        allbad += [c0 + i for i in bad]
    return allbad


def fit_record(idnt, cap_call_last=None):
    """everything needed to re-derive the columns of the last fit"""
    fp = idnt.fit_properties
    rec = {
        "x": np.array(idnt[fp["x_axis"]], copy=True),
        "y": np.array(idnt[fp["y_axis"]], copy=True),
        "seg": np.array(idnt["segment"] == fp["segment"]),
        "fit": np.array(idnt["fit"], copy=True),
        "res": np.array(idnt["fit residuals"], copy=True),
        "range": np.array(idnt["fit range"], dtype=bool),
        "k": float(fp["gcf_k"]),
        "wd": fp["weight_cp"],
        "range_x": list(fp["range_x"]),
        "success": bool(fp.get("success")),
        "xmin": fp.get("xmin"), "xmax": fp.get("xmax"),
        "chi": fp.get("chi_sqr"),
    }
    return rec


def coq_exprs_for_fit(rec, cp_scaled, single_pass_absolute=True):
    """Coq boolean expressions tying one successful fit to FitCoreF"""
    ex = []
    x, y, seg = rec["x"], rec["y"], rec["seg"]
    k = rec["k"]
    if single_pass_absolute:
        a, b = rec["range_x"]
        ex.append(f"bools_eqb (f_range_mask {blist(seg)} {flist(x)} "
                  f"{coq_float(a)} {coq_float(b)}) {blist(rec['range'])}")
    sel = x[rec["range"]]
    if rec["success"] and sel.size:
        ex.append(f"opt_same (f_reported_min {coq_float(k)} {flist(sel)}) "
                  f"{coq_float(rec['xmin'])}")
        ex.append(f"opt_same (f_reported_max {coq_float(k)} {flist(sel)}) "
                  f"{coq_float(rec['xmax'])}")
        weighted = bool(rec["wd"])
        wd = float(rec["wd"]) if weighted else 0.0
        xs, ys, fs, rs = x[seg], y[seg], rec["fit"][seg], rec["res"][seg]
        ex.append(f"floats_same (resid_col {'true' if weighted else 'false'} "
                  f"{coq_float(cp_scaled)} {coq_float(wd)} {coq_float(k)} "
                  f"{flist(xs)} {flist(ys)} {flist(fs)}) {flist(rs)}")
    return ex
