"""Stepwise correspondence between the real nanite.Indentation and the Coq
model M1 (coq/Model/Curve.v): abstraction function, oracle capture,
operation generator, cases-file writer.  Shared by C03, C06, C09, C10."""
import copy
import json
import re

import numpy as np

from . import common, curves, pyval
from .pyval import to_coq, hexs, canon

EXN = ["KeyError", "ValueError", "IndexError", "TypeError", "AssertionError",
       "FitKeyError", "FitDataError", "ModelIncompleteError",
       "ModelImplementationError", "ModelImportError", "UnboundLocalError"]


def exn_coq(name):
    return name if name in EXN else "OtherError"


# ---------------------------------------------------------------------------
# abstraction function  real object -> Coq cstate
# ---------------------------------------------------------------------------
def fp_value_coq(k, v):
    from nanite.fit import FP_DEFAULT
    if k in FP_DEFAULT:
        return to_coq(v)
    if k == "hash":
        return to_coq(str(v))
    if k == "success":
        return to_coq(bool(v))
    return "(VOther 0)"


def alpha(idnt):
    fp = idnt.fit_properties
    fpc = "[" + "; ".join(f"({hexs(k)}, {fp_value_coq(k, v)})"
                          for k, v in fp.items()) + "]"
    if idnt._rating is None:
        rt = "None"
    else:
        r = idnt._rating
        rt = "(Some (" + ", ".join(to_coq(x) for x in
                                   [r[0], r[1], r[2], r[3], r[4]]) \
            + ", " + to_coq(float(r[5])) + "))"
    return ("{| pre := " + to_coq(idnt.preprocessing) + "; popts := "
            + to_coq(idnt.preprocessing_options) + "; details := "
            + ("true" if idnt._preprocessing_details else "false")
            + "; fp := " + fpc + "; cols := "
            + ("true" if "fit" in idnt else "false")
            + "; rating := " + rt + " |}")


def alpha_json(idnt):
    fp = idnt.fit_properties
    return {"pre": canon(idnt.preprocessing),
            "popts": canon(idnt.preprocessing_options),
            "details": bool(idnt._preprocessing_details),
            "fp_keys": sorted(fp.keys()),
            "hash": fp.get("hash"), "cols": "fit" in idnt,
            "rated": idnt._rating is not None}


# ---------------------------------------------------------------------------
# oracle capture
# ---------------------------------------------------------------------------
class FakeRater:
    """stands in for the (slow) trained rater in control-state histories"""
    counter = [0]
    fail_next = [False]

    def rate(self, datasets=None, samples=None):
        if FakeRater.fail_next[0]:
            FakeRater.fail_next[0] = False
            raise ValueError("injected rater failure")
        FakeRater.counter[0] += 1
        return np.array([float(FakeRater.counter[0] % 11)])


class Capture:
    """wraps the third-party / numerical entry points during one step"""

    def __init__(self, fake_rater=True):
        import nanite.indent as nind
        import nanite.fit as nfit
        import nanite.preproc as npre
        self.nind, self.nfit, self.npre = nind, nfit, npre
        self.fake_rater = fake_rater
        self.reset()

    def reset(self):
        self.pre = None
        self.axes = (True, True)
        self.guess = None
        self.hash = ""
        self.fit = None
        self.nfit_calls = 0
        self.rate = None
        self.rater_calls = 0
        self._depth = 0
        self.minimize_calls = 0

    def __enter__(self):
        c = self
        nind, nfit, npre = self.nind, self.nfit, self.npre
        self.saved = (npre.apply, nfit.guess_initial_parameters,
                      nind.guess_initial_parameters,
                      nfit.IndentationFitter._hash,
                      nfit.IndentationFitter.fit, nind.get_rater,
                      nfit.lmfit.minimize,
                      nfit.IndentationFitter.compute_emodulus_vs_mindelta)
        (o_apply, o_guess, _, o_hash, o_fit, o_get_rater, o_min,
         o_emod) = self.saved

        def w_emod(fitter, *a, **k):
            # the E(delta) scan counts as one top-level fitting operation
            c._depth += 1
            top = c._depth == 1
            if top:
                c.nfit_calls += 1
            try:
                r = o_emod(fitter, *a, **k)
            except BaseException as e:
                if top:
                    c.fit = ("exn", type(e).__name__)
                raise
            finally:
                c._depth -= 1
            if top:
                c.fit = ("ok", True)
            return r

        def w_apply(apret, *a, **k):
            try:
                r = o_apply(apret, *a, **k)
            except BaseException as e:
                c.pre = type(e).__name__
                raise
            c.pre = "ok"
            fp = apret.fit_properties
            c.axes = (("x_axis" not in fp) or (fp["x_axis"] in apret),
                      ("y_axis" not in fp) or (fp["y_axis"] in apret))
            return r

        def w_guess(*a, **k):
            try:
                r = o_guess(*a, **k)
            except BaseException as e:
                c.guess = ("exn", type(e).__name__)
                raise
            c.guess = ("ok", to_coq(r))
            return r

        def w_hash(fitter):
            h = o_hash(fitter)
            c.hash = h
            return h

        def w_fit(fitter):
            c._depth += 1
            top = c._depth == 1
            if top:
                c.nfit_calls += 1
            try:
                o_fit(fitter)
            except BaseException as e:
                if top:
                    c.fit = ("exn", type(e).__name__)
                raise
            finally:
                c._depth -= 1
            if top:
                c.fit = ("ok", bool(fitter.fp["success"]))

        def w_get_rater(*a, **k):
            c.rater_calls += 1
            if c.fake_rater:
                rater = FakeRater()
            else:
                try:
                    rater = o_get_rater(*a, **k)
                except BaseException as e:
                    c.rate = ("exn", type(e).__name__)
                    raise
            orig_rate = rater.rate

            def rate(*ra, **rk):
                try:
                    r = orig_rate(*ra, **rk)
                except BaseException as e:
                    c.rate = ("exn", type(e).__name__)
                    raise
                c.rate = ("ok", float(r[0]))
                return r
            rater.rate = rate
            return rater

        def w_min(*a, **k):
            c.minimize_calls += 1
            return o_min(*a, **k)

        npre.apply = w_apply
        nfit.guess_initial_parameters = w_guess
        nind.guess_initial_parameters = w_guess
        nfit.IndentationFitter._hash = w_hash
        nfit.IndentationFitter.fit = w_fit
        nind.get_rater = w_get_rater
        nfit.lmfit.minimize = w_min
        nfit.IndentationFitter.compute_emodulus_vs_mindelta = w_emod
        return self

    def __exit__(self, *a):
        nind, nfit, npre = self.nind, self.nfit, self.npre
        (npre.apply, nfit.guess_initial_parameters,
         nind.guess_initial_parameters, nfit.IndentationFitter._hash,
         nfit.IndentationFitter.fit, nind.get_rater,
         nfit.lmfit.minimize,
         nfit.IndentationFitter.compute_emodulus_vs_mindelta) = self.saved

    def oracle_coq(self, idnt):
        fp = idnt.fit_properties
        from nanite.fit import FP_DEFAULT
        xa = fp.get("x_axis", FP_DEFAULT["x_axis"])
        ya = fp.get("y_axis", FP_DEFAULT["y_axis"])
        try:
            cols_ok = (xa in idnt) and (ya in idnt)
        except BaseException:
            cols_ok = False
        o_pre = "(Ok tt)" if self.pre in (None, "ok") \
            else f"(Err {exn_coq(self.pre)})"
        if self.guess is None:
            o_guess = "(Err OtherError)"
        elif self.guess[0] == "ok":
            o_guess = f"(Ok {self.guess[1]})"
        else:
            o_guess = f"(Err {exn_coq(self.guess[1])})"
        if self.fit is None:
            o_fit = "(Err OtherError)"
        elif self.fit[0] == "ok":
            o_fit = "(Ok true)" if self.fit[1] else "(Ok false)"
        else:
            o_fit = f"(Err {exn_coq(self.fit[1])})"
        if self.rate is None:
            o_rate = "(Err OtherError)"
        elif self.rate[0] == "ok":
            o_rate = f"(Ok {to_coq(self.rate[1])})"
        else:
            o_rate = f"(Err {exn_coq(self.rate[1])})"
        return ("{| o_pre := " + o_pre
                + "; o_xaxis := " + ("true" if self.axes[0] else "false")
                + "; o_yaxis := " + ("true" if self.axes[1] else "false")
                + "; o_guess := " + o_guess
                + "; o_cols := " + ("None" if cols_ok else "(Some KeyError)")
                + "; o_hash := " + hexs(self.hash or "")
                + "; o_fit := " + o_fit + "; o_rate := " + o_rate + " |}")


# ---------------------------------------------------------------------------
# operations
# ---------------------------------------------------------------------------
def opt_coq(v, present):
    return f"(Some {to_coq(v)})" if present else "None"


def op_coq(op):
    k = op[0]
    if k == "ApplyPre":
        _, p, o, ret = op
        return (f"(ApplyPre {opt_coq(p, p is not None)} "
                f"{opt_coq(o, o is not None)} "
                f"{'true' if ret else 'false'})")
    if k == "FitModel":
        kw = op[1]
        return ("(FitModel [" + "; ".join(f"({hexs(a)}, {to_coq(b)})"
                                          for a, b in kw.items()) + "])")
    if k == "SetFP":
        return f"(SetFP {hexs(op[1])} {to_coq(op[2])})"
    if k == "Rate":
        return "(Rate " + " ".join(to_coq(x) for x in op[1:5]) + ")"
    if k == "EModMinDelta":
        return "EModMinDelta"
    if k == "GetInit":
        return f"(GetInit {opt_coq(op[1], op[1] is not None)})"
    raise ValueError(k)


def op_json(op):
    return [op[0]] + [canon(x) for x in op[1:]]


def run_op(idnt, op):
    """execute on the real object; returns (outcome, value)"""
    k = op[0]
    try:
        if k == "ApplyPre":
            _, p, o, ret = op
            idnt.apply_preprocessing(preprocessing=copy.deepcopy(p),
                                     options=copy.deepcopy(o),
                                     ret_details=ret)
            return ("Done", None)
        if k == "FitModel":
            idnt.fit_model(**copy.deepcopy(op[1]))
            return ("Done", None)
        if k == "SetFP":
            idnt.fit_properties[op[1]] = copy.deepcopy(op[2])
            return ("Done", None)
        if k == "Rate":
            r = idnt.rate_quality(regressor=op[1], training_set=op[2],
                                  names=copy.deepcopy(op[3]), lda=op[4])
            return ("Value", r)
        if k == "EModMinDelta":
            idnt.compute_emodulus_mindelta()
            return ("Done", None)
        if k == "GetInit":
            r = idnt.get_initial_fit_parameters(model_key=op[1])
            return ("Value", r)
    except BaseException as e:
        if isinstance(e, (KeyboardInterrupt, SystemExit, MemoryError)):
            raise
        return ("Raised", type(e).__name__)
    raise ValueError(k)


def outcome_coq(out):
    if out[0] == "Done":
        return "Done"
    if out[0] == "Raised":
        return f"(Raised {exn_coq(out[1])})"
    v = out[1]
    if isinstance(v, (int, np.integer)) and not isinstance(v, bool):
        return f"(Value {to_coq(int(v))})"
    if isinstance(v, (float, np.floating)):
        return f"(Value {to_coq(float(v))})"
    return f"(Value {to_coq(v)})"


# ---- generator --------------------------------------------------------------
VALID_PIPES = [
    [],
    ["compute_tip_position"],
    ["compute_tip_position", "correct_force_offset"],
    ["compute_tip_position", "correct_force_offset", "correct_tip_offset"],
    ["compute_tip_position", "correct_tip_offset", "correct_force_offset"],
    ["compute_tip_position", "correct_tip_offset", "correct_force_slope",
     "correct_force_offset"],
    ["compute_tip_position", "correct_force_offset", "correct_tip_offset",
     "correct_split_approach_retract"],
    ["correct_force_offset"],
    ["smooth_height", "compute_tip_position", "correct_tip_offset"],
]
INVALID_PIPES = [
    ["correct_tip_offset"],
    ["compute_tip_position", "correct_force_slope"],
    ["bogus_step"],
    ["compute_tip_position", "nonexistent", "correct_tip_offset"],
    ["correct_split_approach_retract", "compute_tip_position"],
]
VALID_OPTS = [
    {}, {},
    {"correct_tip_offset": {"method": "deviation_from_baseline"}},
    {"correct_tip_offset": {"method": "frechet_direct_path"}},
    {"correct_tip_offset": {"method": "gradient_zero_crossing"}},
    {"correct_force_slope": {"region": "baseline", "strategy": "shift"}},
    {"correct_force_slope": {"region": "all", "strategy": "drift"},
     "correct_tip_offset": {"method": "frechet_direct_path"}},
]
INVALID_OPTS = [
    {"correct_tip_offset": {"method": "no_such_method"}},
    {"correct_force_slope": {"region": "nowhere"}},
    {"correct_force_slope": {"strategy": "guess"}},
    {"correct_tip_offset": {"bogus_option": 1}},
]


def rnd_pipe(rng, p_invalid=0.25):
    if rng.random() < p_invalid:
        p = copy.deepcopy(rng.choice(INVALID_PIPES))
    else:
        p = copy.deepcopy(rng.choice(VALID_PIPES))
    if rng.random() < 0.1:
        p = tuple(p)
    return p


def rnd_opts(rng, p_invalid=0.2):
    if rng.random() < p_invalid:
        return copy.deepcopy(rng.choice(INVALID_OPTS))
    return copy.deepcopy(rng.choice(VALID_OPTS))


def rnd_setting(rng, idnt=None):
    """one (key, value) of the fit settings"""
    key = rng.choice(["model_key", "range_x", "range_type", "segment",
                      "weight_cp", "gcf_k", "method", "x_axis", "y_axis",
                      "optimal_fit_edelta", "optimal_fit_num_samples",
                      "params_initial", "method_kws", "range_x", "model_key",
                      "weight_cp", "params_initial"])
    dom = {
        "model_key": ["hertz_para", "hertz_para", "hertz_cone",
                      "sneddon_spher_approx", "hertz_pyr3s", "no_such_model"],
        "range_x": [[0, 0], (0, 0), [0.0, 0.0], [-2e-6, 1e-6], [-1e-6, 1e-6],
                    (-2e-6, 1e-6), [1e-6, -2e-6], [-5e-7, 0], [0, 0, 0],
                    [float("nan"), 0], [-2e-6, 2e-6]],
        "range_type": ["absolute", "absolute", "relative cp", "relative"],
        "segment": [0, 0, 1, "approach", "retract", True, 0.0, "up"],
        "weight_cp": [1e-6, 5e-7, 0, False, 2e-6, 1e-6],
        "gcf_k": [1.0, 1, 0.5, 2.0],
        "method": ["leastsq", "leastsq", "nelder", "least_squares"],
        "x_axis": ["tip position", "tip position", "height (measured)",
                   "no column"],
        "y_axis": ["force", "force", "height (piezo)"],
        "optimal_fit_edelta": [False, False, False, True, 0, 1],
        "optimal_fit_num_samples": [7, 8, 8.0, 5],
        "method_kws": [{}, {}, {"ftol": 1e-9}, {"xtol": 1e-9, "ftol": 1e-9}],
    }
    if idnt is not None and rng.random() < 0.15:
        # near-equal perturbation of a stored numeric setting: a change of a
        # few nanometres / 1e-9 relative is still a change
        k2 = rng.choice(["range_x", "range_x", "weight_cp", "gcf_k"])
        cur = idnt.fit_properties.get(k2)
        try:
            if k2 == "range_x" and len(cur) == 2 and \
                    all(np.isfinite(float(c)) for c in cur):
                return k2, [float(cur[0]) - 3e-9,
                            float(cur[1]) + rng.choice([0.0, 4e-9])]
            if k2 != "range_x" and not isinstance(cur, bool) and cur:
                return k2, float(cur) * (1 + 1e-9)
        except (TypeError, ValueError):
            pass
    if key == "params_initial":
        r = rng.random()
        if r < 0.2 or idnt is None:
            return key, None
        try:
            p = idnt.get_initial_fit_parameters()
        except BaseException:
            return key, None
        if r < 0.45:
            return key, p                      # unchanged copy
        name = rng.choice(list(p.keys()))
        r2 = rng.random()
        if r2 < 0.1:
            p[name].set(value=float(p[name].value) * (1 + 1e-9) + 1e-18)
        elif r2 < 0.4:
            p[name].set(value=float(p[name].value) * 1.5 + 1e-7)
        elif r2 < 0.6:
            p[name].set(vary=not p[name].vary)
        elif r2 < 0.8:
            p[name].set(min=-1.0)
        else:
            p[name].set(max=1e12)
        return key, p
    return key, copy.deepcopy(rng.choice(dom[key]))


TS_MEM = None


def mem_training_set():
    global TS_MEM
    if TS_MEM is None:
        X = np.linspace(0, 1, 24).reshape(6, 4)
        y = np.array([0., 1., 5., 5., 9., 10.])
        TS_MEM = (X, y)
    return (TS_MEM[0].copy(), TS_MEM[1].copy())


def rnd_op(rng, idnt, weights=None):
    w = weights or {"ApplyPre": 3, "FitModel": 5, "SetFP": 3, "Rate": 2,
                    "EModMinDelta": 0.3, "GetInit": 1}
    kinds = list(w)
    k = rng.choices(kinds, [w[x] for x in kinds])[0]
    if k == "ApplyPre":
        if idnt is not None and rng.random() < 0.25:
            # the pipeline that is already applied, requested again (with or
            # without details): nothing may change, stale or missing results
            # included
            try:
                return ("ApplyPre", copy.deepcopy(idnt.preprocessing),
                        copy.deepcopy(idnt.preprocessing_options),
                        rng.random() < 0.6)
            except BaseException:
                pass
        p = rnd_pipe(rng) if rng.random() < 0.9 else None
        o = rnd_opts(rng) if rng.random() < 0.6 else None
        return ("ApplyPre", p, o, rng.random() < 0.2)
    if k == "FitModel":
        if rng.random() < 0.07:
            # one request that changes the pipeline AND carries a setting the
            # fitter rejects: whatever is left must be one consistent state
            bad = rng.choice([("range_type", "relative"),
                              ("range_x", [float("nan"), 0]),
                              ("x_axis", "no column"),
                              ("model_key", "no_such_model")])
            return ("FitModel", {"preprocessing": rnd_pipe(rng, 0.0),
                                 bad[0]: bad[1]})
        kw = {}
        for _ in range(rng.choice([0, 0, 1, 1, 2, 3])):
            a, b = rnd_setting(rng, idnt)
            kw[a] = b
        r = rng.random()
        if r < 0.15:
            kw["preprocessing"] = rnd_pipe(rng)
        if 0.1 < r < 0.22:
            kw["preprocessing_options"] = rnd_opts(rng)
        if rng.random() < 0.04:
            kw["bogus_key"] = 1
        if kw.get("optimal_fit_edelta"):
            kw.setdefault("optimal_fit_num_samples", 7)
        return ("FitModel", kw)
    if k == "SetFP":
        if rng.random() < 0.08:
            return ("SetFP", "unknown_key", 1)
        a, b = rnd_setting(rng, idnt)
        return ("SetFP", a, b)
    if k == "Rate":
        reg = rng.choice(["Extra Trees", "Extra Trees", "none", "NONE",
                          "Random Forest"])
        ts = rng.choice(["zef18", "zef18", "mem"])
        if ts == "mem":
            ts = mem_training_set()
        names = rng.choice([None, None, ["feat_con_apr_sum",
                                         "feat_con_idt_sum",
                                         "feat_bin_size",
                                         "feat_con_apr_size"]])
        if isinstance(ts, tuple):
            names = ["feat_con_apr_sum", "feat_con_idt_sum",
                     "feat_con_apr_size", "feat_con_bln_slope"]
        lda = rng.choice([None, None, False])
        return ("Rate", reg, ts, names, lda)
    if k == "EModMinDelta":
        return ("EModMinDelta",)
    if k == "GetInit":
        return ("GetInit", rng.choice([None, None, "hertz_cone", "hertz_para",
                                       "no_such_model"]))
    raise ValueError(k)


def small_curve(seed=0, n_app=60, n_ret=30):
    rng = np.random.default_rng(seed)
    cols = curves.make_arrays(n_app=n_app, n_ret=n_ret, noise=2e-11, rng=rng,
                              tilt=1e-5)
    return cols


# ---------------------------------------------------------------------------
# cases file
# ---------------------------------------------------------------------------
CASE_HEAD = """From Coq Require Import List String ZArith QArith Bool.
From NV Require Import Base.Exn Base.PyVal Gen.Tables Model.Curve Model.CurveEq.
Import ListNotations.
Local Close Scope Q_scope.
Local Open Scope string_scope.
Definition agree (c : cstate * op * oracle * cstate * outcome * nat) : bool :=
  let '(s, o, orc, s', out, n) := c in
  let '(m, mout, mn) := step s o orc in
  cstate_eqb m s' && outcome_eqb mout out && Nat.eqb mn n.
Fixpoint bad (i : nat) (cs : list (cstate * op * oracle * cstate * outcome * nat)) : list nat :=
  match cs with [] => [] | c :: t => if agree c then bad (S i) t else i :: bad (S i) t end.
"""


class Recorder:
    """collects stepwise cases and evaluates them in Coq"""

    def __init__(self, run, prefix):
        self.run = run
        self.prefix = prefix
        self.rows = []
        self.meta = []

    def step(self, idnt, op, cap):
        """run one operation on the real object under capture `cap`;
        returns (outcome, nfit)"""
        pre = alpha(idnt)
        prej = alpha_json(idnt)
        cap.reset()
        out = run_op(idnt, op)
        post = alpha(idnt)
        orc = cap.oracle_coq(idnt)
        n = cap.nfit_calls
        self.rows.append(f"({pre}, {op_coq(op)}, {orc}, {post}, "
                         f"{outcome_coq(out)}, {min(n, 1)})")
        self.meta.append({"pre": prej, "op": op_json(op),
                          "outcome": [out[0], out[1] if out[0] == "Raised"
                                      else None],
                          "post": alpha_json(idnt), "nfit": n})
        return out, n

    def flush(self, chunk=60):
        """evaluate all recorded cases (chunks in parallel); returns the
        metas of disagreeing steps"""
        from concurrent.futures import ThreadPoolExecutor
        jobs = []
        for c0 in range(0, len(self.rows), chunk):
            rows = self.rows[c0:c0 + chunk]
            name = f"{self.prefix}_{c0 // chunk}"
            text = (CASE_HEAD + "Definition cases : list (cstate * op * oracle"
                    " * cstate * outcome * nat) := [\n" + ";\n".join(rows)
                    + "].\nEval vm_compute in (List.length cases, "
                    "bad 0 cases).\n")
            jobs.append((c0, len(rows), name, text))
        with ThreadPoolExecutor(max_workers=common.NPROC) as ex:
            results = list(ex.map(
                lambda j: common.coq_run(j[2], j[3], timeout=900), jobs))
        badmeta = []
        for (c0, nrows, name, _), (ok, out) in zip(jobs, results):
            m = re.search(r"=\s*\((\d+),\s*\[(.*?)\]\)", out, flags=re.S)
            if not ok or not m or int(m.group(1)) != nrows:
                self.run.obligation(f"correspondence:{name}", False,
                                    out[-3000:])
                continue
            badix = [int(v) for v in re.findall(r"\d+", m.group(2))]
            bm = [self.meta[c0 + i] for i in badix]
            badmeta += bm
            self.run.obligation(
                f"correspondence:{name}", not badix,
                f"{len(badix)} of {nrows} steps disagree with the model, "
                "e.g. " + "; ".join(json.dumps(x)[:900] for x in bm[:3]))
        return badmeta
