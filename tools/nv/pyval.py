"""Python value -> Coq term of type NV.Base.PyVal.pyval (and random values)."""
from fractions import Fraction
import math

import numpy as np

_other_tags = {}


def hexs(s):
    if isinstance(s, str):
        s = s.encode("utf-8")
    return '(of_hex "' + s.hex() + '")'


def to_coq(o):
    import lmfit
    if o is None:
        return "VNone"
    if isinstance(o, (bool, np.bool_)):
        return "(VBool true)" if o else "(VBool false)"
    if isinstance(o, np.integer):
        # numpy integers are not `int`: obj2bytes has no rule for them
        tag = _other_tags.setdefault(type(o).__name__, len(_other_tags))
        return f"(VOther {tag})"
    if isinstance(o, int):
        return f"(VInt ({int(o)})%Z)"
    if isinstance(o, (float, np.floating)):
        o = float(o)
        if math.isnan(o):
            return "(VFloatX XNaN)"
        if math.isinf(o):
            return "(VFloatX XPosInf)" if o > 0 else "(VFloatX XNegInf)"
        fr = Fraction(o)
        return (f"(VFloat ({fr.numerator} # {fr.denominator})%Q "
                f"{hexs(str(o))})")
    if isinstance(o, str):
        return f"(VStr {hexs(o)})"
    if isinstance(o, np.ndarray):
        return f"(VBytes {hexs(o.tobytes())})"
    if isinstance(o, list):
        return "(VList [" + "; ".join(to_coq(x) for x in o) + "])"
    if isinstance(o, tuple):
        return "(VTuple [" + "; ".join(to_coq(x) for x in o) + "])"
    if isinstance(o, lmfit.Parameter):
        extra = (o.brute_step, o.stderr, o.correl, o.init_value, o.user_data)
        return ("(VParam " + " ".join(to_coq(x) for x in
                                      [o.value, o.max, o.min, o.vary, o.expr])
                + " " + hexs(o.name) + " " + to_coq(extra) + ")")
    if isinstance(o, dict):
        if not all(isinstance(k, str) for k in o):
            raise ValueError("only string keys are modelled")
        return ("(VDict [" + "; ".join(f"({hexs(k)}, {to_coq(v)})"
                                       for k, v in o.items()) + "])")
    tag = _other_tags.setdefault(type(o).__name__, len(_other_tags))
    return f"(VOther {tag})"


def canon(o):
    """JSON-able canonical form (for evidence samples / distinct counting)"""
    import lmfit
    if isinstance(o, np.ndarray):
        return {"ndarray": o.tobytes().hex()[:32], "n": int(o.size)}
    if isinstance(o, (np.bool_,)):
        return bool(o)
    if isinstance(o, (np.integer,)):
        return int(o)
    if isinstance(o, (float, np.floating)):
        return repr(float(o))
    if isinstance(o, lmfit.Parameter):
        return {"P": [canon(x) for x in
                      [o.name, o.value, o.min, o.max, o.vary, o.expr]]}
    if isinstance(o, dict):
        return {"dict": [[k, canon(v)] for k, v in o.items()]}
    if isinstance(o, tuple):
        return {"tuple": [canon(x) for x in o]}
    if isinstance(o, list):
        return [canon(x) for x in o]
    if o is None or isinstance(o, (bool, int, str)):
        return o
    return {"object": type(o).__name__}


COQ_HEAD = """From Coq Require Import List String ZArith QArith Bool.
From NV Require Import Base.Exn Base.PyVal Model.HashEnc Gen.Tables.
Import ListNotations.
Local Close Scope Q_scope.
Local Open Scope string_scope.
"""
