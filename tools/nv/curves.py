"""Synthetic force-distance curves as real nanite.Indentation objects."""
import pathlib

import numpy as np


def hertz_force(tip, E=3000.0, R=10e-6, nu=0.5, cp=0.0, bl=0.0):
    root = cp - tip
    out = np.zeros_like(tip)
    pos = root > 0
    out[pos] = 4 / 3 * E / (1 - nu ** 2) * np.sqrt(R) * root[pos] ** 1.5
    return out + bl


def make_arrays(n_app=200, n_ret=100, E=3000.0, cp=2e-6, bl=0.0, noise=0.0,
                rng=None, z0=8e-6, z1=-1.5e-6, k=0.05, tilt=0.0):
    """approach from z0 down to z1 (tip position), then retract; returns
    dict of columns.  'height (measured)' is chosen so that tip position =
    height + force/k reproduces the given tip positions exactly-ish."""
    tip_a = np.linspace(z0, z1, n_app)
    tip_r = np.linspace(z1, z0, n_ret + 1)[1:]
    tip = np.concatenate([tip_a, tip_r])
    force = hertz_force(tip, E=E, cp=cp, bl=bl)
    force = force + tilt * (tip - z0)
    if noise and rng is not None:
        force = force + noise * rng.standard_normal(force.size)
    height = tip - force / k
    seg = np.concatenate([np.zeros(n_app, dtype=np.uint8),
                          np.ones(n_ret, dtype=np.uint8)])
    time = np.arange(tip.size) * 1e-3
    return {"force": force, "height (measured)": height,
            "height (piezo)": height.copy(), "segment": seg, "time": time}


def make_indentation(cols=None, k=0.05, path="synthetic.jpk-force", enum=0,
                     with_tip=False, metadata=None, **kw):
    from nanite import Indentation
    if cols is None:
        cols = make_arrays(k=k, **kw)
    cols = {c: np.array(v, copy=True) for c, v in cols.items()}
    if with_tip and "tip position" not in cols:
        cols["tip position"] = cols["height (measured)"] + cols["force"] / k
    md = {"path": pathlib.Path(path), "enum": enum, "spring constant": k,
          "point count": int(cols["force"].size),
          "imaging mode": "force-distance"}
    if metadata:
        md.update(metadata)
    if k is None:
        md.pop("spring constant")
    return Indentation(data=cols, metadata=md)


def tiny_indentation(n=12, seed=0):
    """A very small curve, enough for hashing and settings state machines."""
    rng = np.random.default_rng(seed)
    na = n - n // 3
    cols = make_arrays(n_app=na, n_ret=n - na, noise=1e-11, rng=rng)
    return make_indentation(cols)
