"""Shared machinery: run context, evidence writer, known-findings matcher,
replay files, Coq runner.  See DESIGN.md section 2."""
import atexit
import fcntl
import hashlib
import json
import os
import pathlib
import random
import re
import shutil
import subprocess
import sys
import tempfile
import time

VERIF = pathlib.Path(__file__).resolve().parents[2]
REPO = pathlib.Path(os.environ.get("NANITE_REPO", "/repo")).resolve()
COQ = VERIF / "coq"
CASES = COQ / "Cases"
NPROC = max(1, min(16, os.cpu_count() or 1))

# Axioms that may appear under a property theorem (all declared by the Coq
# standard library or by libraries shipped in the image, none by us).
AXIOM_ALLOW = [
    r"ClassicalDedekindReals\.sig_forall_dec",
    r"ClassicalDedekindReals\.sig_not_dec",
    r"FunctionalExtensionality\.functional_extensionality_dep",
    r"functional_extensionality_dep",
    r"Classical_Prop\.classic",
    r"classic",
    r"sig_forall_dec", r"sig_not_dec",
    # primitive integers / floats (opaque to the kernel, listed as axioms)
    r"Uint63\.\w+", r"PrimInt63\.\w+", r"Uint63Axioms\.\w+",
    r"PrimFloat\.\w+", r"FloatAxioms\.\w+", r"FloatOps\.\w+",
    r"Sint63\.\w+", r"PrimString\.\w+",
    r"\w+_spec", r"Prim2SF_\w+", r"SF2Prim_\w+", r"of_int63_spec",
]


def sha(obj):
    return hashlib.sha256(
        json.dumps(obj, sort_keys=True, default=str).encode()).hexdigest()


_scratch = None


def scratch():
    """Per-process scratch directory outside /repo and /verif."""
    global _scratch
    if _scratch is None:
        base = os.environ.get("TMPDIR", "/tmp")
        _scratch = pathlib.Path(tempfile.mkdtemp(prefix="nanite-verif-",
                                                 dir=base))
        atexit.register(lambda: shutil.rmtree(_scratch, ignore_errors=True))
    return _scratch


def source_digests(relpaths):
    out = {}
    for rp in relpaths:
        p = REPO / rp
        try:
            out[rp] = hashlib.sha256(p.read_bytes()).hexdigest()[:16]
        except OSError:
            out[rp] = "missing"
    return out


# --------------------------------------------------------------------------
# known findings
# --------------------------------------------------------------------------
def load_known():
    p = VERIF / "known_findings.json"
    if not p.exists():
        return []
    return json.loads(p.read_text())["findings"]


class Run:
    """One run of one property's check."""

    def __init__(self, pid, tier, seed, design_ref=""):
        self.pid = pid
        self.tier = tier
        self.seed = seed
        self.rng = random.Random(seed)
        self.t0 = time.time()
        self.obl = []            # (name, ok, detail)
        self.evaluations = 0
        self._distinct = set()
        self.samples = []
        self.rule = ""
        self.exhaustive = False
        self.assumptions = []
        self.trusted = []
        self.axioms = {}
        self.violations = []
        self.known_printed = []
        self.extra = {}
        self.dist = {}
        self.checker_cmd = ""
        self.sources = {}
        self.known = [k for k in load_known() if k["property"] == pid]
        self._failed_obligations = []

    # ---- counting -------------------------------------------------------
    def case(self, canonical, nontrivial=True, kind=None):
        self.evaluations += 1
        if nontrivial:
            self._distinct.add(sha(canonical))
        if kind is not None:
            self.dist[kind] = self.dist.get(kind, 0) + 1
        if len(self.samples) < 6 and nontrivial:
            s = json.loads(json.dumps(canonical, default=str))
            if len(json.dumps(s)) < 1500 and s not in self.samples:
                self.samples.append(s)

    def count(self, kind, n=1):
        self.dist[kind] = self.dist.get(kind, 0) + n

    # ---- obligations ----------------------------------------------------
    def obligation(self, name, ok, detail=""):
        self.obl.append((name, bool(ok), detail))
        if not ok:
            self._failed_obligations.append(name)
            print(f"[{self.pid}] obligation FAILED: {name}: {detail[:2000]}")
        return ok

    @property
    def failed_obligations(self):
        return list(self._failed_obligations)

    # ---- findings -------------------------------------------------------
    def _match_known(self, site, key):
        for k in self.known:
            if k.get("status") != "open":
                continue
            m = k["match"]
            if m.get("site") != site:
                continue
            keys = m.get("keys")
            if keys is not None and key in keys:
                return k
            if m.get("key") is not None and m.get("key") == key:
                return k
        return None

    def failing(self, site, key, what, payload=None, expected=None,
                observed=None, theorem=None):
        """Report an input on which the property fails on the real code.

        site: call site / API; key: canonical identification of the input
        (string).  If an open known-finding matches (site, key) a
        KNOWN-FINDING line is printed, otherwise a VIOLATION."""
        k = self._match_known(site, key)
        if k is not None:
            if k["id"] not in self.known_printed:
                self.known_printed.append(k["id"])
                print(f"KNOWN-FINDING: property={self.pid} {k['what']} "
                      f"[{k['id']}]")
            return False
        self._violation("input", site, key, what, payload, expected,
                        observed, theorem)
        return True

    def _violation(self, kind, site, key, what, payload, expected, observed,
                   theorem, suffix=""):
        # one VIOLATION line per (site, what) is enough; keep all in replay
        n = len(self.violations)
        rp = VERIF / "replays" / f"{self.pid}-{self.seed}-{n}.json"
        rp.parent.mkdir(exist_ok=True)
        rec = {"property": self.pid, "kind": kind, "site": site, "key": key,
               "what": what, "payload": payload, "expected": expected,
               "observed": observed, "seed": self.seed, "tier": self.tier,
               "theorem_or_batch": theorem,
               "how_to_run": f"./check {self.pid} --replay {rp}"}
        if n < 25:
            rp.write_text(json.dumps(rec, indent=1, default=str))
            print(f"[{self.pid}] {what}")
            print(f"VIOLATION property={self.pid} replay={rp}{suffix}")
        self.violations.append(rec)

    def fixed_must_pass(self, fid, ok, detail=""):
        """A `fixed` known-finding entry was replayed; it must pass."""
        if not ok:
            self._violation("input", "regression:" + fid, fid,
                            f"fixed finding {fid} fails again: {detail}",
                            None, None, detail, None)

    def unexplained_obligations(self):
        """Called at the end: obligations that failed although the search
        found no failing input."""
        if self._failed_obligations and not self.violations:
            for name in self._failed_obligations:
                self._violation(
                    "obligation", "coq", name,
                    f"theorem/correspondence '{name}' no longer checks and "
                    "the search found no failing input", None, None,
                    [d for (n, o, d) in self.obl if n == name][0][:4000],
                    name, suffix=" no-failing-input-found")

    # ---- evidence -------------------------------------------------------
    def finish(self):
        self.unexplained_obligations()
        nobl = len(self.obl)
        ndis = sum(1 for o in self.obl if o[1])
        cov = {
            "obligations": nobl,
            "discharged": ndis,
            "obligation_names": [o[0] for o in self.obl],
            "failed_obligations": self._failed_obligations,
            "checker_cmd": self.checker_cmd or
            "make -C coq Props/%s.vo (coqc 8.16.1, full .vo build)" % self.pid,
            "trusted_base": self.trusted,
            "axioms_per_theorem": self.axioms,
            "evaluations": self.evaluations,
            "distinct_nontrivial": len(self._distinct),
            "rule": self.rule,
            "samples": self.samples or [{"note": "no samples recorded"}],
            "exhaustive": self.exhaustive,
            "input_distribution": self.dist,
            "sources_sha256": self.sources,
            "known_findings_printed": self.known_printed,
        }
        cov.update(self.extra)
        ev = {"property_id": self.pid, "tier": self.tier, "seed": self.seed,
              "level": "proof", "coverage": cov,
              "assumptions": self.assumptions,
              "wall_s": round(time.time() - self.t0, 2),
              "violations": len(self.violations)}
        p = VERIF / "evidence" / f"{self.pid}.json"
        p.parent.mkdir(exist_ok=True)
        p.write_text(json.dumps(ev, indent=1, default=str) + "\n")
        print(f"[{self.pid}] tier={self.tier} seed={self.seed} "
              f"obligations={ndis}/{nobl} evaluations={self.evaluations} "
              f"distinct={len(self._distinct)} known={len(self.known_printed)}"
              f" violations={len(self.violations)} "
              f"wall={ev['wall_s']}s")
        return 1 if self.violations else 0


class ReplayRun(Run):
    """a run that records failing inputs instead of reporting them"""

    def __init__(self, pid, tier, seed):
        super().__init__(pid, tier, seed)
        self.hits = []
        self.known = []

    def failing(self, site, key, what, payload=None, expected=None,
                observed=None, theorem=None):
        self.hits.append((site, key, what))
        return True

    def obligation(self, name, ok, detail=""):
        self.obl.append((name, bool(ok), detail))
        if not ok:
            self._failed_obligations.append(name)
        return ok

    def fixed_must_pass(self, fid, ok, detail=""):
        if not ok:
            self.hits.append(("regression:" + fid, fid, detail))


def replay_by_rerun(mod, rec):
    """generic replay: re-execute the property's check with the seed (and
    tier) of the replay file and report whether the recorded failing input
    (same site and key), or the recorded obligation, fails again.  Returns
    True iff the property holds on it now."""
    tier = rec.get("tier") or "quick"
    run = ReplayRun(rec["property"], tier, int(rec.get("seed", 20260926)))
    os.environ["NV_SKIP_COQCHK"] = "1"
    try:
        mod.check(run)
    except BaseException as e:
        if isinstance(e, KeyboardInterrupt):
            raise
        run.obligation("harness-completed", False, repr(e))
    if rec.get("kind") == "obligation":
        return rec.get("key") not in run.failed_obligations
    for site, key, what in run.hits:
        if site == rec.get("site") and key == rec.get("key"):
            print("replay: fails again:", what[:500])
            return False
    return True


# --------------------------------------------------------------------------
# Coq
# --------------------------------------------------------------------------
class CoqLock:
    def __enter__(self):
        self.f = open(COQ / ".lock", "w")
        fcntl.flock(self.f, fcntl.LOCK_EX)
        return self

    def __exit__(self, *a):
        fcntl.flock(self.f, fcntl.LOCK_UN)
        self.f.close()


def write_if_changed(path, text):
    path = pathlib.Path(path)
    if path.exists() and path.read_text() == text:
        return False
    path.parent.mkdir(parents=True, exist_ok=True)
    path.write_text(text)
    return True


PROJECT_HEAD = """-Q . NV
-arg -w -arg -notation-overridden,-deprecated-hint-without-locality,-deprecated-syntactic-definition,-ambiguous-paths,-deprecated-instance-without-locality,-non-reversible-notation
"""


def ensure_makefile():
    """(Re)generate _CoqProject (static header + every .v under Base, Gen,
    Model, Proofs, Props) and the Makefile when the file list changed."""
    files = []
    for d in ["Base", "Gen", "Model", "Proofs", "Props"]:
        files += sorted(str(p.relative_to(COQ)) for p in (COQ / d).glob("*.v"))
    text = PROJECT_HEAD + "\n".join(files) + "\n"
    changed = write_if_changed(COQ / "_CoqProject", text)
    mk = COQ / "Makefile"
    if changed or not mk.exists():
        subprocess.run(["coq_makefile", "-f", "_CoqProject", "-o", "Makefile"],
                       cwd=COQ, check=True, capture_output=True)


def grep_forbidden():
    """No Admitted/admit/Axiom/Parameter/... anywhere in the development."""
    pat = re.compile(
        r"\b(Admitted|admit|Axiom|Axioms|Parameter|Parameters|Conjecture|"
        r"Admit Obligations|bypass_check|Unset Guard Checking|"
        r"Unset Positivity Checking|Unset Universe Checking|type-in-type|"
        r"impredicative-set)\b")
    bad = []
    for p in sorted(COQ.rglob("*.v")):
        if "Cases" in p.parts:
            continue
        txt = p.read_text()
        # strip comments (non-nested is enough for our files)
        txt2 = re.sub(r"\(\*.*?\*\)", "", txt, flags=re.S)
        for i, line in enumerate(txt2.splitlines(), 1):
            if pat.search(line):
                bad.append(f"{p.relative_to(COQ)}:{i}: {line.strip()}")
    proj = (COQ / "_CoqProject").read_text()
    if re.search(r"type-in-type|impredicative-set|-vos|-vok", proj):
        bad.append("_CoqProject: forbidden flag")
    return bad


def coq_make(targets, timeout=1500):
    """Full .vo build of the given targets (relative to coq/)."""
    with CoqLock():
        ensure_makefile()
        # dependencies are recomputed by coq_makefile's own .Makefile.d rule
        cmd = ["timeout", str(timeout), "make", "-j", str(NPROC)] + targets
        r = subprocess.run(cmd, cwd=COQ, capture_output=True, text=True)
    return r.returncode == 0, (r.stdout[-6000:] + r.stderr[-6000:])


def coq_run(name, text, timeout=600):
    """Compile a scratch file Cases/<name>.v and return (ok, stdout+stderr).
    Runs outside the make lock (reads .vo only)."""
    CASES.mkdir(exist_ok=True)
    f = CASES / f"{name}.v"
    f.write_text(text)
    cmd = ["timeout", str(timeout), "coqc", "-q", "-Q", ".", "NV",
           f"Cases/{name}.v"]
    r = subprocess.run(cmd, cwd=COQ, capture_output=True, text=True)
    # the compiled artefacts of a case file are not needed again (the source
    # is kept when the file did not compile, for diagnosis)
    for suf in (".vo", ".vos", ".vok", ".glob") + (
            (".v",) if r.returncode == 0 else ()):
        try:
            (CASES / f"{name}{suf}").unlink()
        except OSError:
            pass
    try:
        (CASES / f".{name}.aux").unlink()
    except OSError:
        pass
    return r.returncode == 0, r.stdout + r.stderr


def theorem_names(props_file):
    txt = (COQ / props_file).read_text()
    txt = re.sub(r"\(\*.*?\*\)", "", txt, flags=re.S)
    return re.findall(r"^\s*Theorem\s+(\w+)", txt, flags=re.M)


def parse_assumptions(out, names):
    """Split the output of consecutive `Print Assumptions` commands."""
    blocks = re.split(r"^@@ (\w+)$", out, flags=re.M)
    res = {}
    for i in range(1, len(blocks), 2):
        nm, body = blocks[i], blocks[i + 1]
        if "Closed under the global context" in body:
            res[nm] = []
        else:
            ax = re.findall(r"^([A-Za-z_][\w\.']*)\s*:", body, flags=re.M)
            res[nm] = [a for a in ax if a not in ("Axioms",)]
    return res


def prove(run, props_mod, extra_targets=(), timeout=1500):
    """Build Props/<mod>.vo and record one obligation per theorem in it;
    check `Print Assumptions` of each against the allow-list."""
    bad = grep_forbidden()
    run.obligation("no-admits-no-axioms-grep", not bad, "\n".join(bad))
    ok, log = coq_make([f"Props/{props_mod}.vo"] + list(extra_targets),
                       timeout=timeout)
    names = theorem_names(f"Props/{props_mod}.v")
    if not ok:
        # find which theorem failed, if the failure is in the Props file
        run.obligation(f"build:Props/{props_mod}.vo", False, log)
        for nm in names:
            run.obligation(f"theorem:{nm}", False, "build failed")
        return False
    run.obligation(f"build:Props/{props_mod}.vo", True)
    body = [f"Require Import NV.Props.{props_mod}."]
    for nm in names:
        body.append(f'Goal True. idtac "@@ {nm}". exact I. Qed.')
        body.append(f"Print Assumptions {nm}.")
    ok2, out = coq_run(f"assum_{props_mod}", "\n".join(body) + "\n")
    parsed = parse_assumptions(out, names) if ok2 else {}
    allow = re.compile("^(" + "|".join(AXIOM_ALLOW) + ")$")
    for nm in names:
        if nm not in parsed:
            run.obligation(f"theorem:{nm}", False,
                           "Print Assumptions failed: " + out[-1500:])
            continue
        axs = parsed[nm]
        badax = [a for a in axs if not allow.match(a.split(".")[-1])
                 and not allow.match(a)]
        run.axioms[nm] = axs if axs else ["Closed under the global context"]
        run.obligation(f"theorem:{nm}", not badax,
                       "axioms outside the allow-list: " + ", ".join(badax))
    if run.tier == "thorough" and os.environ.get("NV_SKIP_COQCHK") != "1":
        coqchk(run, props_mod)
    return all(o[1] for o in run.obl)


COQCHK_ADMIT = ["NV.Proofs.SeriesIntervalP"]


def coqchk(run, props_mod, timeout=1500):
    """independent re-check of the compiled property file and everything it
    depends on; records the axioms coqchk reports"""
    cmd = ["timeout", str(timeout), "coqchk", "-silent", "-o", "-Q", ".",
           "NV"]
    full = os.environ.get("NV_COQCHK_FULL") == "1"
    if not full:
        # coqchk has no VM: re-evaluating the bisections of the two
        # interval-arithmetic lemmas takes it more than 40 minutes; they
        # (and the Interval library behind them) are re-checked only with
        # NV_COQCHK_FULL=1 and are otherwise trusted to coqc's kernel
        for m in COQCHK_ADMIT:
            cmd += ["-admit", m]
    run.extra["coqchk_admitted"] = [] if full else list(COQCHK_ADMIT)
    cmd.append(f"NV.Props.{props_mod}")
    r = subprocess.run(cmd, cwd=COQ, capture_output=True, text=True)
    out = r.stdout + r.stderr
    summary = out[out.find("CONTEXT SUMMARY"):] if "CONTEXT SUMMARY" in out \
        else out[-1500:]
    bad = []
    for label in ["relying on type-in-type", "relying on unsafe (co)fixpoints",
                  "whose positivity is assumed"]:
        m = re.search(re.escape(label) + r":\s*(.*)", summary)
        if not m or "<none>" not in m.group(1):
            bad.append(label)
    m = re.search(r"\* Axioms:(.*?)\n\s*\n\* Constants", summary, flags=re.S)
    axioms = []
    if m and "<none>" not in m.group(1):
        axioms = [a.strip() for a in m.group(1).split("\n") if a.strip()]
    allow = re.compile("^(" + "|".join(AXIOM_ALLOW) + ")$")
    ours = [a for a in axioms if a.startswith("NV.")]
    run.extra["coqchk_axioms"] = axioms if axioms else ["<none>"]
    run.obligation(f"coqchk:Props/{props_mod}",
                   r.returncode == 0 and not bad and not ours,
                   summary[-1500:])


_FLT_SPECIAL = {"nan": "nan", "inf": "infinity", "-inf": "neg_infinity"}


def coq_float(x):
    """Exact PrimFloat literal for a Python float."""
    x = float(x)
    if x != x:
        return "nan"
    if x == float("inf"):
        return "infinity"
    if x == float("-inf"):
        return "neg_infinity"
    if x == 0.0:
        return "(-0)%float" if str(x).startswith("-") else "0%float"
    h = x.hex()
    return f"({h})%float"


def coq_string(s):
    return '"' + s.replace('"', '""') + '"'


def coq_list(items):
    return "[" + "; ".join(items) + "]"
