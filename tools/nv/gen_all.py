"""Regenerate every generated Coq file from /repo's working tree."""
from . import gen_tables


def generate_all():
    gen_tables.generate()
    try:
        from . import gen_formulas
    except ImportError:
        return
    gen_formulas.generate()
