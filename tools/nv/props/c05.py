"""C05 -- exactly the requested points are fitted."""
import math
import warnings

import sys

import numpy as np

from .. import common, gen_all, curves, fits, m1
from ..common import coq_float
from ..fits import flist

SITE = "nanite.fit.IndentationFitter.fit"
SITE_OPT = "nanite.fit.IndentationFitter.compute_opt_mindelta"


def base_curve(seed=0, n_app=90, n_ret=45, cp=2e-7):
    rng = np.random.default_rng(seed)
    true = fits.default_params("hertz_para", contact_point=cp, E=4000.0)
    return fits.model_curve("hertz_para", true, n_app=n_app, n_ret=n_ret,
                            noise=2e-11, rng=rng)


def mask_cases(rng, x, n):
    xs = sorted(x)
    out = []
    specials = [(0, 0), (1.5, 1.5), (float("-inf"), 0.0), (0.0, float("inf")),
                (float("-inf"), float("inf")), (1e-6, -1e-6),
                (xs[3], xs[-4]), (xs[10], xs[10]), (xs[-1], xs[0]),
                (xs[5], np.nextafter(xs[5], 1)), (9e-6, 9.5e-6),
                (np.nextafter(xs[7], -1), xs[20]), (-0.0, 0.0)]
    out += specials
    while len(out) < n:
        r = rng.random()
        if r < 0.4:
            a, b = rng.choice(xs), rng.choice(xs)
        elif r < 0.8:
            a, b = rng.uniform(-3e-6, 7e-6), rng.uniform(-3e-6, 7e-6)
        else:
            a = rng.choice(xs)
            b = a + rng.choice([-1, 1]) * 10 ** rng.uniform(-9, -6)
        out.append((float(a), float(b)))
    return out


def numpy_mask(seg, x, a, b):
    if a != b:
        return seg & (x >= min(a, b)) & (x <= max(a, b))
    return seg.copy()


def check_masks(run):
    cols = base_curve()
    n = 150 if run.tier == "quick" else 3000
    exprs, descr = [], []
    tip = cols["tip position"]
    for i, (a, b) in enumerate(mask_cases(run.rng, tip, n)):
        segment = run.rng.choice([0, 0, 1])
        k = run.rng.choice([1.0, 1.0, 0.5, 2.0])
        idnt = curves.make_indentation(cols)
        cfg = {"range_x": [a, b], "segment": segment, "gcf_k": k}
        try:
            with warnings.catch_warnings():
                warnings.simplefilter("ignore")
                idnt.fit_model(model_key="hertz_para", range_x=[a, b],
                               segment=segment, gcf_k=k, weight_cp=0)
        except BaseException as e:
            run.failing(SITE, f"mask:{a!r}:{b!r}:{segment}",
                        f"fit with range {a!r}, {b!r} raised "
                        f"{type(e).__name__}: {e}",
                        payload={"kind": "mask", "cfg": cfg})
            continue
        rec = fits.fit_record(idnt)
        want = numpy_mask(rec["seg"], rec["x"], a, b)
        nsel = int(rec["range"].sum())
        run.case(cfg, nontrivial=0 < nsel < int(rec["seg"].sum()),
                 kind="mask-" + ("empty" if nsel == 0 else "whole"
                                 if nsel == rec["seg"].sum() else "partial"))
        if not np.array_equal(rec["range"], want):
            diff = np.nonzero(rec["range"] != want)[0][:5]
            run.failing(SITE, f"mask:{a!r}:{b!r}:{segment}",
                        f"range [{a!r}, {b!r}], segment {segment}: fitted "
                        f"points differ from the requested ones at indices "
                        f"{diff.tolist()}",
                        payload={"kind": "mask", "cfg": cfg},
                        theorem="C05_mask_exact")
        if rec["success"]:
            sel = rec["x"][rec["range"]]
            if not (math.isclose(rec["xmin"], sel.min(), rel_tol=4e-16)
                    and math.isclose(rec["xmax"], sel.max(), rel_tol=4e-16)):
                run.failing(SITE, f"xminmax:{a!r}:{b!r}:{segment}:{k}",
                            f"xmin/xmax {rec['xmin']!r},{rec['xmax']!r} are "
                            f"not the extreme abscissae {sel.min()!r},"
                            f"{sel.max()!r}",
                            payload={"kind": "mask", "cfg": cfg},
                            theorem="C05_xmin_xmax")
        ex = fits.coq_exprs_for_fit(rec, 0.0)[:3]
        exprs += ex
        descr += [str(cfg)] * len(ex)
    fits.eval_bool_cases(run, "c05_mask", exprs, descr)


def check_relative(run):
    n = 12 if run.tier == "quick" else 150
    exprs, descr = [], []
    for i in range(n):
        cols = base_curve(seed=100 + i, cp=-2e-7 if i % 4 == 3 else 2e-7)
        a = run.rng.choice([-2e-6, -1e-6, -5e-7, -1.5e-6])
        b = run.rng.choice([1e-6, 5e-7, 2e-6, 0.0])
        # one-sided intervals stay one-sided when anchored at the contact
        # point
        if i % 4 == 1:
            a = float("-inf")
        elif i % 4 == 3:
            b = float("inf")
        if i == 2:
            # an interval that holds too few points once it is anchored: the
            # fit must end unsuccessful, nothing of the first pass is shown
            a, b = -1e-7, 1e-7
        k = run.rng.choice([1.0, 1.0, 0.5])
        segment = run.rng.choice([0, 0, 1])
        cfg = {"range_x": [a, b], "gcf_k": k, "segment": segment,
               "seed": 100 + i}
        if i == 6:
            # recorded without baseline (the tip already inside the sample):
            # the fitted contact point lies outside the abscissa range and
            # still anchors the interval
            true_nb = fits.default_params("hertz_para", contact_point=2e-7,
                                          E=4000.0)
            cols = fits.model_curve("hertz_para", true_nb, n_app=90, n_ret=45,
                                    z0=5e-8, z1=-2e-6, noise=2e-11,
                                    rng=np.random.default_rng(100 + i))
            a, b, k, segment = -1.2e-6, 5e-7, 1.0, 0
            cfg = {"range_x": [a, b], "gcf_k": k, "segment": segment,
                   "seed": 100 + i, "no-baseline": True}
        idnt = curves.make_indentation(cols)
        with fits.MinimizeCapture() as cap:
            idnt.fit_model(model_key="hertz_para", range_type="relative cp",
                           range_x=[a, b], gcf_k=k, segment=segment)
        rec = fits.fit_record(idnt)
        calls = cap.calls
        run.case(cfg, kind="relative-cp")
        key = f"relative:{a!r}:{b!r}:{k}:{segment}:{100 + i}"
        x, seg = rec["x"], rec["seg"]
        if len(calls) != 4:
            # fewer optimisations are legitimate only when the interval
            # anchored at the last fitted contact point holds too few points
            # (the too-few-points guard): then the fit must be unsuccessful
            pin = idnt.fit_properties["params_initial"]
            nvar = sum(1 for p in pin.values() if p.vary)
            legit = False
            if 0 < len(calls) < 4 and not rec["success"]:
                cpl = calls[-1]["cp_out"] / k
                m = numpy_mask(seg, x, float(a + cpl), float(b + cpl))
                legit = int(m.sum()) <= nvar + 1
            stale = [kk for kk in ("params_fitted", "xmin", "xmax")
                     if kk in idnt.fit_properties]
            if legit and stale:
                run.failing(SITE, key + "|stale", "a pass had too few points "
                            f"but the curve still reports {stale}",
                            payload={"kind": "relative", "cfg": cfg},
                            theorem="C05_relative_anchor")
            if not legit:
                run.failing(SITE, key, f"{len(calls)} optimisations instead "
                            "of 1 + 3 passes (and no pass had too few "
                            "points)", payload={"kind": "relative",
                                                "cfg": cfg},
                            theorem="C05_relative_anchor")
            else:
                run.count("relative-cp-too-few-points")
            continue
        cps = [c["cp_out"] / k for c in calls]
        # predicted masks per pass
        masks = [seg.copy()]
        for j in range(3):
            lo, hi = np.array([a, b]) + cps[j]
            masks.append(numpy_mask(seg, x, float(lo), float(hi)))
        for j, (m, c) in enumerate(zip(masks, calls)):
            if not np.array_equal(x[m] * k, c["x"]):
                run.failing(SITE, key, f"pass {j} optimised other points "
                            "than the interval anchored at the previous "
                            "pass's contact point",
                            payload={"kind": "relative", "cfg": cfg},
                            theorem="C05_relative_anchor")
                break
        if not np.array_equal(rec["range"], masks[3]):
            run.failing(SITE, key, "fit range column is not the last pass's "
                        "mask", payload={"kind": "relative", "cfg": cfg},
                        theorem="C05_relative_anchor")
        # Coq: the four masks from the captured contact points
        table = "[" + "; ".join(
            f"({fits.blist(masks[j])}, {coq_float(cps[j])})"
            for j in range(3)) + "]"
        ex = (f"let tab := {table} in let fitcp := fun m => match find (fun p"
              f" => bools_eqb (fst p) m) tab with Some p => snd p | None => "
              f"nan end in let ps := f_relative_passes fitcp "
              f"{fits.blist(seg)} {fits.flist(x)} {coq_float(a)} "
              f"{coq_float(b)} in bools_eqb (nth 3 ps []) "
              f"{fits.blist(rec['range'])} && bools_eqb (nth 1 ps []) "
              f"{fits.blist(masks[1])}")
        exprs.append(ex)
        descr.append(str(cfg))
    fits.eval_bool_cases(run, "c05_rel", exprs, descr)


def check_plateau(run):
    n = 4 if run.tier == "quick" else 30
    exprs, descr = [], []
    for i in range(n + 3):
        cols = base_curve(seed=200 + i, n_app=140, n_ret=50)
        ns = run.rng.choice([8, 10, 13, 20])
        rmax = run.rng.choice([1e-6, 2e-6, float("inf")])
        # the lower bound is a don't-care of the plateau search; inverted
        # intervals (upper bound first) are legitimate (FitWarning only)
        rlow = [0, -2e-6, 0, -5e-7][i % 4]
        rx = [rmax, rlow] if (i % 2 and math.isfinite(rmax)) else [rlow, rmax]
        if i == 3:
            # an upper limit inside the indentation (negative, deeper than
            # the shallowest scanned depth): still the requested number of
            # samples
            rx = [-4e-6, -6e-7]
        if i >= n:
            # an upper limit deep inside the indentation: the plateau depth
            # found may lie ABOVE it; the final fit then uses the few points
            # between the two (not the whole segment)
            xmin_ = float(np.min(cols["tip position"]))
            rx = [[float("-inf"), 0.6 * xmin_], [0.85 * xmin_, -1.0],
                  [float("-inf"), 0.75 * xmin_]][i - n]
        cfg = {"num_samples": ns, "range_x": rx, "seed": 200 + i}
        idnt = curves.make_indentation(cols)
        key = f"plateau:{ns}:{rx}:{200 + i}"
        try:
            with warnings.catch_warnings():
                warnings.simplefilter("ignore")
                idnt.fit_model(model_key="hertz_para", optimal_fit_edelta=True,
                               optimal_fit_num_samples=ns, range_x=rx)
        except BaseException as e:
            run.failing(SITE, key, f"plateau search raised "
                        f"{type(e).__name__}: {e}",
                        payload={"kind": "plateau", "cfg": cfg})
            continue
        fp = idnt.fit_properties
        grid = np.asarray(fp["optimal_fit_delta_array"])
        earr = np.asarray(fp["optimal_fit_E_array"])
        dopt = float(fp["optimal_fit_delta"])
        rec = fits.fit_record(idnt)
        run.case(cfg, kind="plateau")
        why = None
        if grid.size != ns or earr.size != ns:
            why = f"scan arrays have {grid.size}/{earr.size} samples, not {ns}"
        elif not (np.all(np.diff(grid) > 0) or np.all(np.diff(grid) < 0)):
            why = "depth grid is not strictly monotone"
        elif not (grid.min() <= dopt <= grid.max()):
            why = f"optimal depth {dopt} outside the scanned depths"
        else:
            want2 = numpy_mask(rec["seg"], rec["x"], dopt,
                               float(np.max(rx)))
            if not np.array_equal(rec["range"], want2):
                why = "final fit range is not [optimal depth, max range]"
        if why:
            run.failing(SITE, key, f"{cfg}: {why}",
                        payload={"kind": "plateau", "cfg": cfg},
                        theorem="C05_plateau_grid")
        xs = rec["x"][rec["seg"]]
        exprs.append(f"floats_same (f_linspace {coq_float(xs.min())} "
                     f"{coq_float(xs.min() * .05)} {ns}) {fits.flist(grid)}")
        descr.append(str(cfg))
    fits.eval_bool_cases(run, "c05_grid", exprs, descr)


def known_plateau_findings(run):
    """degenerate inputs of the plateau selection (recorded findings)"""
    from nanite.fit import IndentationFitter
    ind = np.linspace(-2e-6, -1e-7, 100)
    run.case({"scenario": "all-equal-moduli"}, kind="plateau-degenerate")
    try:
        with warnings.catch_warnings():
            warnings.simplefilter("ignore")
            d = IndentationFitter.compute_opt_mindelta(np.zeros(100), ind)
        ok = ind.min() <= d <= ind.max()
    except BaseException as e:
        ok = False
        d = f"{type(e).__name__}: {e}"
    if not ok:
        run.failing(SITE_OPT, "all-equal-moduli",
                    "plateau selection on a constant E(delta) scan: " + str(d),
                    payload={"kind": "opt", "name": "all-equal-moduli"},
                    theorem="C05_optimal_depth_in_grid")
    cols = base_curve(seed=300, n_app=140, n_ret=50)
    for ns in (5, 6):
        idnt = curves.make_indentation(cols)
        run.case({"scenario": "few-samples", "n": ns},
                 kind="plateau-degenerate")
        try:
            with warnings.catch_warnings():
                warnings.simplefilter("ignore")
                idnt.fit_model(model_key="hertz_para", optimal_fit_edelta=True,
                               optimal_fit_num_samples=ns, range_x=[0, 1e-6])
            ok = np.asarray(idnt.fit_properties[
                "optimal_fit_delta_array"]).size == ns
            d = "wrong sample count"
        except BaseException as e:
            ok = False
            d = f"{type(e).__name__}: {e}"
        if not ok:
            run.failing(SITE_OPT, f"num-samples:{ns}",
                        f"plateau search with {ns} samples: {d}",
                        payload={"kind": "opt", "name": f"num-samples:{ns}"},
                        theorem="C05_plateau_grid")


def scan_history_cases(run):
    """E(delta) scans requested through compute_emodulus_mindelta /
    estimate_optimal_mindelta before and after the number of samples is
    changed (plateau search off and on): the arrays returned and stored must
    have the number of samples that is requested at that moment, on a
    monotonic depth grid holding the optimal indentation"""
    n = 3 if run.tier == "quick" else 20
    for i in range(n):
        cols = base_curve(seed=400 + i, n_app=140, n_ret=50)
        idnt = curves.make_indentation(cols)
        n1 = [8, 10, 13][i % 3]
        n2 = [12, 7, 9][i % 3]
        edelta = bool(i % 2)
        cfg = {"scan-history": i, "samples": [n1, n2], "edelta": edelta}
        key = f"scan-history:{n1}:{n2}:{edelta}:{400 + i}"
        payload = {"kind": "rerun"}
        run.case(cfg, kind="scan-history")
        try:
            with warnings.catch_warnings():
                warnings.simplefilter("ignore")
                idnt.fit_model(model_key="hertz_para",
                               optimal_fit_edelta=edelta,
                               optimal_fit_num_samples=n1, range_x=[0, 2e-6])
                e1, d1 = idnt.compute_emodulus_mindelta()
                sizes = [(np.asarray(e1).size, np.asarray(d1).size, n1)]
                idnt.fit_model(optimal_fit_num_samples=n2)
                e2, d2 = idnt.compute_emodulus_mindelta()
                sizes.append((np.asarray(e2).size, np.asarray(d2).size, n2))
                dopt = float(idnt.estimate_optimal_mindelta())
                fp = idnt.fit_properties
                sizes.append((np.asarray(fp["optimal_fit_E_array"]).size,
                              np.asarray(fp["optimal_fit_delta_array"]).size,
                              n2))
        except BaseException as e:
            run.failing(SITE, key, f"{cfg}: raised {type(e).__name__}: {e}",
                        payload=payload, theorem="C05_plateau_grid")
            continue
        why = None
        for a, b, want in sizes:
            if a != want or b != want:
                why = (f"scan arrays have {a}/{b} samples while {want} are "
                       f"requested (history of sizes: {sizes})")
                break
        g = np.asarray(d2)
        if why is None and not (np.all(np.diff(g) > 0)
                                or np.all(np.diff(g) < 0)):
            why = "depth grid is not strictly monotone"
        if why is None and not (g.min() <= dopt <= g.max()):
            why = f"optimal depth {dopt} outside the scanned depths"
        if why:
            run.failing(SITE, key, f"{cfg}: {why}", payload=payload,
                        theorem="C05_plateau_grid")


PLATEAU_HEAD = """From Coq Require Import List Bool PrimFloat.
From NV Require Import Base.Exn Model.FitCore Model.FitCoreF Model.Plateau Model.PlateauF.
Import ListNotations.
Definition f_close (a b : float) : bool :=
  PrimFloat.leb (PrimFloat.abs (PrimFloat.sub a b))
                (PrimFloat.mul 0x1p-40%float (PrimFloat.add (PrimFloat.abs a) (PrimFloat.abs b))).
Definition agrees (s ind : list float) (r : res float) : bool :=
  match f_plateau s, r with
  | Ok p, Ok d => f_close (f_opt_depth ind p) d
  | Err e, Err f => exn_eqb e f
  | _, _ => false
  end.
"""


def emodulus_curves(rng, n):
    """E(delta) shapes: plateau after a ramp, a long plateau below the bin
    size with higher ones behind it, noise around a level, constants of
    either sign, staircases, values around zero, steps into the negative,
    a decay with a dip"""
    out = []
    for i in range(n):
        m = int(rng.integers(8, 70))
        kind = i % 8
        if kind == 0:
            k = int(rng.integers(2, m - 2))
            e = np.concatenate([np.linspace(5000, 1000, k),
                                np.full(m - k, 1000.0)])
        elif kind == 1:
            a = int(rng.integers(3, m // 2 + 1))
            b = int(rng.integers(1, max(2, (m - a) // 2)))
            e = np.concatenate([np.full(a, 1.0), np.full(b, 500.0),
                                np.full(m - a - b, 1000.0)])
        elif kind == 2:
            e = 3000 + rng.normal(0, 300, m)
        elif kind == 3:
            e = np.full(m, float(rng.uniform(10, 1e4))
                        * (1 if rng.random() < 0.5 else -1))
        elif kind == 4:
            e = np.repeat(rng.uniform(100, 5000, int(rng.integers(2, 7))),
                          int(rng.integers(2, 9)))[:m]
        elif kind == 6:
            e = rng.uniform(-1, 0.05, m) * float(rng.uniform(1, 100))
        elif kind == 7:
            e = np.repeat(np.linspace(3, -8, int(rng.integers(3, 12))),
                          int(rng.integers(1, 7)))[:m]
        else:
            e = 4000 * np.exp(-np.linspace(0, 3, m))
            e[rng.integers(0, m)] = 1e-3
        if kind not in (3, 7):
            e = e + rng.normal(0, 1e-6, e.size)
        out.append((kind, np.asarray(e, float)))
    return out


def plateau_selection_cases(run):
    """compute_opt_mindelta called directly on generated E(delta) curves: the
    binning, the labelling of sequences, the selection loop and the index
    range whose mean is returned are recomputed by the Coq model from the
    filtered moduli (scipy's filtfilt observed); the depth lies inside the
    scanned depths"""
    import nanite.fit as nfit
    rng = np.random.default_rng((run.seed + 77) % (2 ** 32))
    n = 80 if run.tier == "quick" else 1200
    exprs, descr = [], []
    orig = nfit.spsig.filtfilt
    for kind, e in emodulus_curves(rng, n):
        if e.size <= 6:
            continue
        ind = np.linspace(-2e-6, -1e-7, e.size) + rng.normal(0, 1e-9, e.size)
        cap = {}

        def ff(b, a, x, *k, **kw):
            r = orig(b, a, x, *k, **kw)
            cap["s"] = np.array(r, float, copy=True)
            return r
        nfit.spsig.filtfilt = ff
        try:
            with warnings.catch_warnings():
                warnings.simplefilter("ignore")
                d = float(nfit.IndentationFitter.compute_opt_mindelta(e, ind))
            out = f"Ok {coq_float(d)}"
        except BaseException as ex:
            if isinstance(ex, (KeyboardInterrupt, SystemExit)):
                raise
            d, out = None, "Err " + m1.exn_coq(type(ex).__name__)
        finally:
            nfit.spsig.filtfilt = orig
        run.case({"plateau-selection": kind, "n": int(e.size),
                  "outcome": out[:3]}, kind=f"plateau-selection:{out[:3]}")
        if "s" not in cap:
            continue
        exprs.append(f"agrees {flist(cap['s'])} {flist(ind)} ({out})")
        descr.append(f"shape {kind}, {e.size} samples -> {out[:40]}")
        if d is not None and not (ind.min() <= d <= ind.max()):
            run.failing(SITE, "plateau-selection:" + common.sha(
                [kind, e.tolist()])[:12], f"E(delta) shape {kind} with "
                f"{e.size} samples: optimal depth {d!r} outside the scanned "
                f"depths [{ind.min()!r}, {ind.max()!r}]",
                payload={"kind": "rerun"}, theorem="C05_plateau_indices")
    fits.eval_bool_cases(run, "c05_plateau_sel", exprs, descr,
                         head=PLATEAU_HEAD, chunk=40)


def plateau_then_plain_cases(run):
    """a plateau search followed by a plain fit that does not restate the
    interval: the plain fit uses the interval the caller gave (the stored
    request is not rewritten by the search), exactly as on a fresh curve"""
    n = 4 if run.tier == "quick" else 16
    for i in range(n):
        cols = base_curve(seed=450 + i, n_app=160, n_ret=50)
        rx = [[-3e-6, 1e-6], [0, 0], [-2e-6, 1.5e-6], [0, 1e-6]][i % 4]
        cfg = {"plateau-then-plain": i, "range_x": rx}
        key = f"plateau-then-plain:{rx}:{450 + i}"
        run.case(cfg, kind="plateau-then-plain")
        try:
            with warnings.catch_warnings():
                warnings.simplefilter("ignore")
                a = curves.make_indentation(cols)
                a.fit_model(model_key="hertz_para", optimal_fit_edelta=True,
                            optimal_fit_num_samples=9, range_x=list(rx))
                stored = [float(v) for v in a.fit_properties["range_x"]]
                a.fit_model(optimal_fit_edelta=False)
                b = curves.make_indentation(cols)
                b.fit_model(model_key="hertz_para", optimal_fit_edelta=False,
                            optimal_fit_num_samples=9, range_x=list(rx))
            why = None
            if stored != [float(v) for v in rx]:
                why = (f"after the plateau search the stored interval is "
                       f"{stored}, the caller gave {rx}")
            else:
                ma = np.asarray(a["fit range"]).astype(bool)
                mb = np.asarray(b["fit range"]).astype(bool)
                if not np.array_equal(ma, mb):
                    why = (f"the plain fit after a plateau search used "
                           f"{int(ma.sum())} points, a fresh curve with the "
                           f"same request {int(mb.sum())}")
                elif a.fit_properties["xmin"] != b.fit_properties["xmin"] or \
                        a.fit_properties["xmax"] != b.fit_properties["xmax"]:
                    why = "xmin / xmax differ from a fresh curve's"
        except BaseException as e:
            why = f"raised {type(e).__name__}: {e}"
        if why:
            run.failing(SITE, key, f"{cfg}: {why}", payload={"kind": "rerun"},
                        theorem="C05_mask_exact")


def plateau_then_new_interval_cases(run):
    """a plateau search followed by ONE call that switches the search off and
    moves the lower bound (upper bound kept), the keywords given in either
    order: the fit uses the interval of that call, as on a fresh curve"""
    n = 3 if run.tier == "quick" else 12
    for i in range(n):
        cols = base_curve(seed=470 + i, n_app=160, n_ret=50)
        rx = [[-3e-6, 1e-6], [-2e-6, 1.5e-6], [0, 1e-6]][i % 3]
        rx2 = [rx[0] + [1.2e-6, 0.7e-6, -0.8e-6][i % 3], rx[1]]
        for order in ("range-first", "flag-first"):
            cfg = {"plateau-then-new-interval": i, "range_x": rx,
                   "then": rx2, "order": order}
            key = f"plateau-then-new-interval:{rx}:{rx2}:{order}"
            run.case(cfg, kind="plateau-then-new-interval-" + order)
            try:
                with warnings.catch_warnings():
                    warnings.simplefilter("ignore")
                    a = curves.make_indentation(cols)
                    a.fit_model(model_key="hertz_para",
                                optimal_fit_edelta=True,
                                optimal_fit_num_samples=9, range_x=list(rx))
                    if order == "range-first":
                        a.fit_model(range_x=list(rx2),
                                    optimal_fit_edelta=False)
                    else:
                        a.fit_model(optimal_fit_edelta=False,
                                    range_x=list(rx2))
                    b = curves.make_indentation(cols)
                    b.fit_model(model_key="hertz_para",
                                optimal_fit_edelta=False,
                                optimal_fit_num_samples=9, range_x=list(rx2))
                why = None
                stored = [float(v) for v in a.fit_properties["range_x"]]
                ma = np.asarray(a["fit range"]).astype(bool)
                mb = np.asarray(b["fit range"]).astype(bool)
                if stored != [float(v) for v in rx2]:
                    why = (f"the stored interval is {stored}, the call gave "
                           f"{rx2}")
                elif not np.array_equal(ma, mb):
                    why = (f"the fit used {int(ma.sum())} points, a fresh "
                           f"curve with the same request {int(mb.sum())}")
                elif a.fit_properties["xmin"] != b.fit_properties["xmin"] or \
                        a.fit_properties["xmax"] != b.fit_properties["xmax"]:
                    why = "xmin / xmax differ from a fresh curve's"
            except BaseException as e:
                why = f"raised {type(e).__name__}: {e}"
            if why:
                run.failing(SITE, key, f"{cfg}: {why}",
                            payload={"kind": "rerun"},
                            theorem="C05_mask_exact")


def check(run):
    run.sources = common.source_digests(["src/nanite/fit.py"])
    gen_all.generate_all()
    common.prove(run, "C05", extra_targets=["Model/FitCoreF.vo",
                                            "Gen/WeightsF.vo"])
    run.trusted = [
        "Coq 8.16.1 kernel + vm_compute with primitive floats; Reals axioms",
        "coq/Model/FitCore.v (one definition, R and binary64 instances) tied "
        "by bit-exact comparison of masks, xmin/xmax, per-pass masks and the "
        "depth grid of real fits (lmfit.minimize wrapped from the harness)",
    ]
    run.assumptions = [
        "abscissae contain no NaN (a NaN abscissa is kept by the code; stated,"
        " not explored)",
        "scipy's Butterworth filter (filtfilt) is an oracle: its output is "
        "observed and handed to the model of the binning, sequence "
        "labelling, selection loop and final index range "
        "(coq/Model/Plateau.v)",
        "numpy.linspace computes arange(n-1)*step+start with the last sample "
        "set to stop (mirrored; checked bit-exactly)",
    ]
    check_masks(run)
    check_relative(run)
    check_plateau(run)
    scan_history_cases(run)
    plateau_then_plain_cases(run)
    plateau_then_new_interval_cases(run)
    plateau_selection_cases(run)
    known_plateau_findings(run)
    run.rule = ("intervals with boundaries on sample abscissae, one ulp "
                "beside them, inverted, one-sided, zero-width, empty x segment"
                " x correction factor: mask compared with numpy and bit-"
                "exactly with the Coq model; relative-cp fits with all four "
                "optimisations captured; plateau scans; non-trivial = mask "
                "neither empty nor the whole segment; distinct by config")


def replay(rec):
    return common.replay_by_rerun(sys.modules[__name__], rec)
