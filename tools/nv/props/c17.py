"""C17 -- rating features are well-defined, bounded and independent of force
units."""
import copy
import math
import warnings
from fractions import Fraction

import sys

import numpy as np

from .. import common, gen_all, curves, fits
from ..common import coq_string
from . import c07

SITE = "nanite.rate.features"
PIPE = ["compute_tip_position", "correct_force_offset", "correct_tip_offset"]
FRACTION = ["feat_con_apr_flatness", "feat_con_apr_size"]
SIGNED = ["feat_con_cp_curvature"]

HEAD = """From Coq Require Import String.
From Coq Require Import List Bool Arith QArith Qabs.
From NV Require Import Base.Exn Gen.Tables Model.FitCore Model.Steps Model.Features Model.FeaturesQ.
Import ListNotations.
Local Open Scope Q_scope.
Definition strs_eqb (a b : list string) : bool :=
  Nat.eqb (length a) (length b) && forallb (fun p => String.eqb (fst p) (snd p)) (combine a b).
Definition names_agree (which : string) (names : option (list string)) (obs : option (list string)) : bool :=
  match select_names feature_names_all which names, obs with
  | Ok l, Some o => strs_eqb l o
  | Err ValueError, None => true
  | _, _ => false
  end.
Definition guard_agree (s : fstate) (cp_nan valid_nan : bool) : bool :=
  Bool.eqb (negb (has_contact_point s)) cp_nan && Bool.eqb (negb (is_valid s)) valid_nan.
"""


def qlit(x):
    fr = Fraction(float(x))
    return f"({fr.numerator} # {fr.denominator})"


def qlist(a):
    return "[" + "; ".join(qlit(v) for v in a) + "]"


def all_names():
    from nanite.rate.features import IndentationFeatures as IF
    return IF.get_feature_names()


def feats(idnt, **kw):
    from nanite.rate.features import IndentationFeatures as IF
    with warnings.catch_warnings():
        warnings.simplefilter("ignore")
        return IF.compute_features(idnt, **kw)


# --------------------------------------------------------------------------
# curves and states
# --------------------------------------------------------------------------
def synthetic(seed, n_app, n_ret, noise=2e-11, spikes=0, mk="hertz_para"):
    cols, k = c07.synthetic(mk, seed, n_app=n_app, n_ret=n_ret, noise=noise)
    rng = np.random.default_rng(seed + 999)
    f = cols["force"]
    if spikes < 0:
        # a few isolated one-sample spikes deep in the indentation part: the
        # spike-count criterion fails (feature value 0)
        for j, i in enumerate(np.linspace(0.78 * n_app, 0.975 * n_app,
                                          -spikes).astype(int)):
            f[i] += 4e-10 * (-1) ** j
    for _ in range(max(spikes, 0)):
        i = int(rng.integers(n_app // 2, n_app - 2))
        f[i:i + 2] += 5e-10 * rng.choice([-1, 1])
    cols["height (measured)"] = cols["height (measured)"]
    return cols, k


def fitted(cols, k, **kw):
    idnt = curves.make_indentation(cols, k=k)
    with warnings.catch_warnings():
        warnings.simplefilter("ignore")
        idnt.apply_preprocessing(list(PIPE))
        idnt.fit_model(**({"model_key": "hertz_para"} | kw))
    return idnt


def catalogue(tier):
    from nanite import model
    out = []
    specs = [(1, 700, 200, 2e-11, 0, "hertz_para"),
             (2, 320, 640, 5e-11, 3, "hertz_cone"),
             (3, 90, 40, 1e-11, 0, "hertz_para"),
             (4, 650, 300, 0.0, 0, "sneddon_spher_approx"),
             (5, 400, 100, 1e-10, 6, "hertz_pyr3s"),
             (10, 1600, 200, 2e-11, -5, "hertz_para")]
    if tier != "quick":
        specs += [(6, 1500, 700, 3e-11, 2, "power_layer_clifford_2009"),
                  (7, 30, 20, 1e-11, 0, "hertz_para"),
                  (8, 610, 10, 2e-11, 1, "hertz_cone"),
                  (9, 250, 250, 3e-10, 10, "hertz_para")]
    for seed, na, nr, noise, sp, mk in specs:
        if mk not in model.models_available:
            continue
        cols, k = synthetic(seed, na, nr, noise, sp, mk)
        out.append((f"synthetic:{mk}:{seed}:{na}:{nr}", cols, k,
                    {"model_key": mk if mk != "power_layer_clifford_2009"
                     else "hertz_para"}))
    recs = ["fmt-jpk-fd_spot3-0192.jpk-force",
            "fmt-jpk-fd_single_bad_2017-01-16_1.jpk-force"]
    if tier != "quick":
        recs += ["fmt-jpk-fd_single_bad_2017-01-16_3.jpk-force",
                 "fmt-jpk-fd_single_bad_GWAT_2017-10-17.jpk-force",
                 "fmt-jpk-fd_single_tilted-baseline-drift-"
                 "mitotic_2021-01-29.jpk-force"]
    from nanite import IndentationGroup
    for fn in recs:
        try:
            raw = IndentationGroup(common.REPO / "tests" / "data" / fn)[0]
            cols = {c: np.array(raw[c], copy=True) for c in raw.columns}
            out.append((f"recorded:{fn}", cols,
                        float(raw.metadata["spring constant"]), {}))
        except BaseException as e:  # pragma: no cover
            print("[C17] cannot load", fn, e)
    return out


def snapshot(idnt):
    return ({c: np.array(idnt[c], copy=True).tobytes() for c in idnt.columns},
            copy.deepcopy({k: (v if not hasattr(v, "dumps") else v.dumps())
                           for k, v in idnt.fit_properties.items()
                           if not isinstance(v, np.ndarray)}))


def twin(idnt, scale=1.0, retract=None, gcf=None):
    """a curve with the same approach rows, fit and settings; force and fit
    scaled; retract rows perturbed ('noise') or truncated ('cut')"""
    seg = np.asarray(idnt["segment"]).astype(bool)
    cols = {c: np.array(idnt[c], copy=True) for c in idnt.columns}
    if retract == "none":
        # the retract part was not recorded at all
        keep = ~seg
        cols = {c: v[keep] for c, v in cols.items()}
        seg = seg[keep]
    if retract == "cut":
        keep = ~seg
        keep[np.nonzero(seg)[0][:max(3, int(seg.sum()) // 3)]] = True
        cols = {c: v[keep] for c, v in cols.items()}
        seg = seg[keep]
    for c in ("force", "fit", "fit residuals"):
        if c in cols:
            cols[c] = cols[c] * scale
    if retract == "noise":
        rng = np.random.default_rng(1)
        for c in ("force", "fit", "tip position", "height (measured)"):
            if c in cols:
                v = cols[c]
                v[seg] = v[seg] * 1.5 + rng.standard_normal(int(seg.sum())) \
                    * (np.ptp(v) * 0.05)
    t = curves.make_indentation(
        {c: v for c, v in cols.items()
         if c in ("force", "height (measured)", "height (piezo)", "segment",
                  "time")}, k=float(idnt.metadata["spring constant"]))
    for c, v in cols.items():
        t[c] = v
    t.fit_properties.update(copy.deepcopy(dict(idnt.fit_properties)))
    if gcf is not None:
        # (same columns, same fitted parameters; only the recorded
        # correction factor differs)
        dict.__setitem__(t.fit_properties, "gcf_k", gcf)
    return t


# --------------------------------------------------------------------------
# direct statements
# --------------------------------------------------------------------------
def same_vec(a, b, tol=0.0):
    a, b = np.asarray(a, float), np.asarray(b, float)
    if a.shape != b.shape:
        return False
    na, nb = np.isnan(a), np.isnan(b)
    if not np.array_equal(na, nb):
        return False
    if tol == 0.0:
        return np.array_equal(a[~na], b[~nb])
    return np.allclose(a[~na], b[~nb], rtol=tol, atol=tol)


def oracle(run, name, idnt, fit_state):
    names = all_names()
    key = f"{name}|{fit_state}"
    payload = {"kind": "curve", "name": name, "state": fit_state}

    def fail(k2, what, thm):
        run.failing(SITE, f"{key}|{k2}", f"{name} [{fit_state}]: {what}",
                    payload=payload, theorem=thm)
    run.case({"curve": name, "state": fit_state}, kind="curve:" + fit_state)
    before = snapshot(idnt)
    try:
        vals, rnames = feats(idnt, ret_names=True)
    except BaseException as e:
        fail("raised", f"compute_features raised {type(e).__name__}: {e}",
             "C17_unfitted_nan")
        return None
    if snapshot(idnt) != before:
        fail("curve-changed", "computing the features changed the curve",
             "C17 (curve unchanged)")
    if list(rnames) != sorted(names) or len(vals) != len(names):
        fail("order", f"names returned {rnames}", "C17_order")
    v = dict(zip(rnames, [float(x) for x in vals]))
    yaxis = idnt.fit_properties.get("y_axis", "force")
    fmax = float(np.max(np.asarray(idnt[yaxis])[np.asarray(
        idnt["segment"]) == 0])) if np.any(np.asarray(
            idnt["segment"]) == 0) else float("nan")
    for n, x in v.items():
        if math.isinf(x):
            fail("inf:" + n, f"{n} = {x}: neither NaN nor finite",
                 "C17 (NaN or finite)")
        if math.isnan(x):
            continue
        if n.startswith("feat_bin_") and x not in (0.0, 1.0):
            fail("binary:" + n, f"binary feature {n} = {x}", "C17_binary")
        if n in FRACTION and not (0 <= x <= 1):
            fail("fraction:" + n, f"fraction-type {n} = {x}", "C17_fraction")
        if n.startswith("feat_con_") and n not in FRACTION + SIGNED \
                and fmax > 0 and x < 0:
            fail("magnitude:" + n, f"magnitude-type {n} = {x} < 0 although "
                 f"the approach force reaches {fmax}", "C17_magnitude")
    ok_fit = bool(idnt.fit_properties.get("success", False)) and \
        "contact_point" in (idnt.fit_properties.get("params_fitted") or {})
    if not ok_fit:
        bad = [n for n, x in v.items() if n != "feat_bin_size"
               and not math.isnan(x)]
        if bad:
            fail("unfitted", f"no successful fit but {bad} are not NaN",
                 "C17_unfitted_nan")
        return v
    # the contact-point criterion is a statement about the approach data and
    # the fitted contact point alone (not about the interval that was fitted)
    xax_ = idnt.fit_properties.get("x_axis", "tip position")
    if xax_ in idnt.columns and not math.isnan(v["feat_bin_cp_position"]):
        xa_ = np.asarray(idnt[xax_])[np.asarray(idnt["segment"]) == 0]
        cp_ = float(idnt.fit_properties["params_fitted"][
            "contact_point"].value)
        want_ = float(np.min(xa_) <= cp_ <= np.max(xa_))
        if v["feat_bin_cp_position"] != want_:
            fail("cp_position", f"feat_bin_cp_position = "
                 f"{v['feat_bin_cp_position']} with the contact point "
                 f"{cp_!r} and approach data in [{float(np.min(xa_))!r}, "
                 f"{float(np.max(xa_))!r}] (fitted interval "
                 f"[{idnt.fit_properties.get('xmin')!r}, "
                 f"{idnt.fit_properties.get('xmax')!r}])", "C17_guards")
    # single names / subsets pair with their names
    rng = run.rng
    sub = sorted(rng.sample(names, 5))
    for which, nm in [("all", None), ("binary", None), ("continuous", None),
                      ("all", sub), ("continuous", sub), ("all", sub[::-1]),
                      (["continuous", "binary"], None),
                      (("continuous", "binary"), sub),
                      (["binary", "continuous"], sub)]:
        try:
            vv, nn = feats(idnt, which_type=which, names=nm, ret_names=True)
        except BaseException as e:
            fail("subset-raised", f"compute_features({which}, {nm}) raised "
                 f"{type(e).__name__}: {e}", "C17_order")
            continue
        if not same_vec(vv, [v[n] for n in nn]):
            fail("pairing", f"values for ({which}, {nm}) do not pair with the "
                 f"returned names {nn}", "C17_order")
        if list(nn) != sorted(nn):
            run.failing(SITE, f"order:which_type={which}:explicit-unsorted-"
                        "names", f"{name}: compute_features(which_type="
                        f"{which!r}, names={nm}) returns the features in the "
                        f"order {list(nn)}, not sorted",
                        payload={"kind": "order", "which": which},
                        theorem="C17_order")
    # the geometrical correction factor of the fit is not an input of the
    # features (approach rows, fit column and fitted contact point are)
    if idnt.fit_properties.get("gcf_k", 1.0) != 1.0:
        try:
            w = feats(twin(idnt, gcf=1.0))
            if not same_vec(w, vals):
                d = [n for n, a, b in zip(rnames, w, vals)
                     if not same_vec([a], [b])]
                fail("gcf", f"features {d} change when only the recorded "
                     "correction factor of the fit is set to 1 (columns and "
                     "fitted parameters unchanged)", "C17 (approach only)")
        except BaseException as e:
            fail("gcf-raised", f"twin with gcf_k = 1 raised "
                 f"{type(e).__name__}: {e}", "C17 (approach only)")
    # force unit
    for c, tol in [(2.0 ** 10, 0.0), (2.0 ** -7, 0.0), (3.7, 1e-9),
                   (2.0 ** 30, 0.0), (1e6, 1e-9), (2.0 ** -20, 0.0)]:
        try:
            w = feats(twin(idnt, scale=c))
        except BaseException as e:
            fail(f"scale-raised:{c}", f"scaled twin raised "
                 f"{type(e).__name__}: {e}", "C17_scale_invariant_*")
            continue
        if not same_vec(w, vals, tol):
            d = [n for n, a, b in zip(rnames, w, vals)
                 if not same_vec([a], [b], tol)]
            fail(f"scale:{c}", f"features {d} change when force and fit are "
                 f"multiplied by {c}", "C17_scale_invariant_*")
    # approach only
    for how in ("noise", "cut", "none"):
        try:
            w = feats(twin(idnt, retract=how))
        except BaseException as e:
            fail(f"retract-raised:{how}", f"retract twin raised "
                 f"{type(e).__name__}: {e}", "C17 (approach only)")
            continue
        if not same_vec(w, vals):
            d = [n for n, a, b in zip(rnames, w, vals)
                 if not same_vec([a], [b])]
            fail(f"retract:{how}", f"features {d} depend on the retract "
                 f"segment ({how})", "C17 (approach only)")
    return v


# --------------------------------------------------------------------------
# correspondence with the Coq model (exact rationals)
# --------------------------------------------------------------------------
def preimage(v, c, rel=1e-9):
    """interval of cores with c*log(1+core) = v up to rel"""
    eps = rel * (1 + abs(v))
    lo, hi = math.expm1((v - eps) / c), math.expm1((v + eps) / c)
    return qlit(lo), qlit(hi)


def coq_curve_case(idnt, v):
    from nanite.rate.features import IndentationFeatures as IF
    s = idnt.fit_properties
    if not (s.get("success", False)
            and "contact_point" in (s.get("params_fitted") or {})):
        return None     # every fit-dependent feature is NaN: guards case
    inst = IF(idnt)
    x, y, fit = inst.datax_apr, inst.datay_apr, inst.datafit_apr
    cp = inst.contact_point
    if x.size > 800 or np.isnan(fit).any():
        return None
    parts = [f"Bool.eqb (q_bin_cp_position cp x) "
             f"{'true' if v['feat_bin_cp_position'] == 1.0 else 'false'}",
             f"Bool.eqb (bin_size {x.size}) "
             f"{'true' if v['feat_bin_size'] == 1.0 else 'false'}"]
    a = v["feat_con_apr_size"]
    parts.append(f"q_within {qlit(a - 1e-12)} {qlit(a + 1e-12)} "
                 "(q_apr_size cp x)")
    lo, hi = preimage(v["feat_con_apr_sum"], 1.0)
    parts.append(f"q_within {lo} {hi} (q_apr_sum_core cp x y res)")
    if not math.isnan(v["feat_con_idt_sum"]):
        lo, hi = preimage(v["feat_con_idt_sum"], 5.0)
        parts.append(f"q_opt_within {lo} {hi} (q_idt_sum_core cp x y fit)")
    m = v["feat_con_cp_magnitude"]
    if not math.isnan(m):
        e = 1e-9 * (1 + abs(m))
        parts.append(f"q_opt_within {qlit(m - e)} {qlit(m + e)} "
                     "(q_cp_magnitude cp x y res)")
    else:
        parts.append("match q_cp_magnitude cp x y res with None => true "
                     "| Some _ => false end")
    lo, hi = preimage(v["feat_con_idt_sum_75perc"], 1 / 8)
    parts.append(f"q_within {lo} {hi} (q_idt_sum_75_core cp x y fit)")
    # the filter-free baseline / contact-point features
    none = "match {} with None => true | Some _ => false end"
    b = v["feat_con_bln_variation"]
    call = "q_bln_variation_core cp x y res"
    if math.isnan(b):
        parts.append(none.format(call))
    else:
        lo, hi = preimage(b, 1 / 5)
        parts.append(f"q_opt_within {lo} {hi} ({call})")
    b = v["feat_con_bln_slope"]
    call = "q_opt_abs (q_bln_slope_core cp x y res)"
    if math.isnan(b):
        parts.append(none.format(call))
    else:
        lo, hi = preimage(b, 1 / 10, rel=1e-6)
        parts.append(f"q_opt_within {lo} {hi} ({call})")
    b = v["feat_con_cp_curvature"]
    call = "q_cp_curvature_core cp x y"
    if math.isnan(b):
        parts.append(none.format(call))
    else:
        lo, hi = preimage(abs(b), 1 / 4)
        sign = ("Qle_bool 0 c" if b > 0 else "Qle_bool c 0" if b < 0
                else "true")
        parts.append(f"match {call} with Some c => q_within {lo} {hi} "
                     f"(Qabs c) && {sign} | None => false end")
    # the smoothed-gradient features: the filter is an oracle (its output is
    # observed here), everything around it is the model's
    import scipy.ndimage as ndi
    seen = []
    o_g = ndi.gaussian_filter1d

    def g1d(a, *ar, **kw):
        out = o_g(a, *ar, **kw)
        seen.append((np.array(a, copy=True), np.array(out, copy=True),
                     kw.get("sigma", ar[0] if ar else None)))
        return out
    extra = []
    try:
        ndi.gaussian_filter1d = g1d
        for fname, mk in [("feat_con_apr_flatness", "flat"),
                          ("feat_con_idt_monotony", "mono")]:
            del seen[:]
            val = float(getattr(IF(idnt), fname)())
            if len(seen) != 1:
                continue
            a_in, g_out, sigma = seen[0]
            GAUSS_SEEN.append((a_in, sigma))
            if mk == "flat":
                call = f"q_flatness_value {qlist(g_out)} cp x res"
                if math.isnan(val):
                    extra.append(f"match {call} with Some None => true | None "
                                 "=> true | _ => false end")
                else:
                    e = 1e-12
                    extra.append(
                        f"match {call} with Some (Some v) => q_within "
                        f"{qlit(val - e)} {qlit(val + e)} v | _ => false end")
            elif not math.isinf(val) and not math.isnan(val):
                lo, hi = preimage(val, 1 / 10)
                extra.append(f"q_opt_within {lo} {hi} (q_idt_monotony_core "
                             f"{qlist(g_out)} cp x y)")
        # spike count / spike area / residual maxima: two filter outputs and
        # the value of np.std are the oracles' answers
        o_std = np.std
        stds = []

        def std(a, *ar, **kw):
            r = o_std(a, *ar, **kw)
            stds.append(float(r))
            return r
        np.std = std
        try:
            for fname in ("feat_bin_apr_spikes_count",
                          "feat_con_idt_spike_area",
                          "feat_con_idt_maxima_75perc"):
                del seen[:]
                del stds[:]
                val = float(getattr(IF(idnt), fname)())
                for a_in, _g, sg in seen:
                    GAUSS_SEEN.append((a_in, sg))
                none = "match {} with None => true | Some _ => false end"
                if fname == "feat_con_idt_maxima_75perc":
                    if len(seen) > 1:
                        continue
                    g11 = qlist(seen[0][1]) if seen else "[]"
                    call = f"q_maxima_75_core {g11} cp x y fit"
                    if math.isnan(val):
                        extra.append(none.format(call))
                    else:
                        lo, hi = preimage(val, 2.0)
                        extra.append(f"q_opt_within {lo} {hi} ({call})")
                    continue
                if len(seen) not in (0, 2) or len(stds) != (1 if seen else 0):
                    continue
                if not seen:
                    args = "[] [] 0"
                else:
                    (d_in, g11a, _s1), (_d2, g1a, _s2) = seen
                    sd = stds[0]
                    d1 = d_in - g11a
                    d2 = g1a - g11a
                    probe = np.abs(d2) if fname.startswith("feat_bin") else d1
                    if sd == 0 or np.min(np.abs(probe - 3 * sd)) \
                            < 1e-9 * 3 * sd:
                        continue      # a comparison too close to call exactly
                    args = f"{qlist(g11a)} {qlist(g1a)} {qlit(sd)}"
                    extra.append(
                        f"q_within {qlit(sd * sd * (1 - 1e-9))} "
                        f"{qlit(sd * sd * (1 + 1e-9))} (q_spike_variance "
                        f"{qlist(g11a)} {qlist(g1a)} cp x res)")
                if fname.startswith("feat_bin"):
                    call = f"q_spikes_count {args} cp x res"
                    if math.isnan(val):
                        extra.append(none.format(call))
                    else:
                        extra.append(
                            f"match {call} with Some b => Bool.eqb b "
                            f"{'true' if val == 1.0 else 'false'} | None => "
                            "false end")
                else:
                    call = f"q_spike_area_core {args} cp x y res"
                    if math.isnan(val):
                        extra.append(none.format(call))
                    else:
                        lo, hi = preimage(val, 20.0)
                        extra.append(f"q_opt_within {lo} {hi} ({call})")
        finally:
            np.std = o_std
    finally:
        ndi.gaussian_filter1d = o_g
    parts += extra
    return (f"let x := {qlist(x)} in let y := {qlist(y)} in let fit := "
            f"{qlist(fit)} in let cp := {qlit(cp)} in let res := "
            "q_residuals fit y in " + " && ".join(parts))


GAUSS_SEEN = []


def gauss_assumption(run):
    """hypothesis of the filter-oracle theorems: the gaussian filter commutes
    with positive factors (checked bit for bit with powers of two on the
    arrays the features handed to it)"""
    import scipy.ndimage as ndi
    bad = 0
    for a, sigma in GAUSS_SEEN[:40]:
        for c in (2.0 ** 10, 2.0 ** -7):
            u = ndi.gaussian_filter1d(a * c, sigma=sigma)
            v = ndi.gaussian_filter1d(a, sigma=sigma) * c
            if not np.array_equal(u, v, equal_nan=True):
                bad += 1
    run.obligation("assumption:gaussian-filter-commutes-with-factors",
                   bad == 0, f"{bad} of {2 * len(GAUSS_SEEN[:40])} filtered "
                   "arrays differ between filter(c*a) and c*filter(a)")


def name_cases(run, exprs, descr):
    from nanite.rate.features import IndentationFeatures as IF
    names = all_names()
    rng = run.rng
    n = 40 if run.tier == "quick" else 300
    for i in range(n):
        which = rng.choice(["all", "binary", "continuous"])
        r = rng.random()
        if r < 0.2:
            req = None
        elif r < 0.3:
            req = []
        else:
            req = rng.sample(names, rng.randint(1, len(names)))
            if rng.random() < 0.3:
                rng.shuffle(req)
            if rng.random() < 0.15:
                req.insert(rng.randint(0, len(req)), "feat_con_nope")
            if rng.random() < 0.1:
                req.append(req[0])
        try:
            got = IF.get_feature_names(which_type=which, names=req)
            obs = "(Some [" + "; ".join(coq_string(g) for g in got) + "])"
        except ValueError:
            obs = "None"
        creq = "None" if req is None else "(Some [" + "; ".join(
            coq_string(q) for q in req) + "])"
        exprs.append(f"names_agree {coq_string(which)} {creq} {obs}")
        descr.append(f"get_feature_names({which}, {req})")
        run.case({"which": which, "names": req}, nontrivial=bool(req),
                 kind="names")


def tiny_indentation(run):
    """fitted curves whose contact point (held fixed) leaves an indentation
    part of one, two, ... points: every feature is NaN or finite, nothing
    raises"""
    cols, k = c07.synthetic("hertz_para", 3, n_app=700, n_ret=200, noise=2e-11)
    for back in (1, 2, 3, 5, 21, 51):
        idnt = curves.make_indentation(cols, k=k)
        with warnings.catch_warnings():
            warnings.simplefilter("ignore")
            idnt.apply_preprocessing(list(PIPE))
            x = np.asarray(idnt["tip position"])[:700]
            p = idnt.get_initial_fit_parameters(model_key="hertz_para")
            p["contact_point"].set(value=float(0.5 * (x[-back - 1]
                                                      + x[-back])),
                                   vary=False)
            idnt.fit_model(model_key="hertz_para", params_initial=p)
        oracle(run, f"synthetic:indentation-of-{back}-points", idnt,
               "fitted-fixed-cp")


def unfitted_sequence_cases(run):
    """curves that have settings but no fit (only preprocessed; a setting
    edited after the fit), of approach lengths on both sides of the
    600-point criterion, analysed one after the other in both orders: the
    size criterion is each curve's own (and the rest NaN)"""
    sizes = [2000, 300, 700, 450, 90, 601, 599]
    made = []
    for j, n_app in enumerate(sizes):
        cols, k = c07.synthetic("hertz_para", 40 + j, n_app=n_app, n_ret=150,
                                noise=2e-11)
        if j % 2:
            # approach part only (the retract part was not recorded)
            ka_ = np.asarray(cols["segment"]) == 0
            cols = {c_: np.asarray(v_)[ka_] for c_, v_ in cols.items()}
        idnt = curves.make_indentation(cols, k=k)
        with warnings.catch_warnings():
            warnings.simplefilter("ignore")
            idnt.apply_preprocessing(list(PIPE))
            if j % 3 == 2:
                idnt.fit_model(model_key="hertz_para")
                idnt.fit_properties["weight_cp"] = 3e-6     # unfitted again
        made.append((n_app, idnt))
    for order in (made, made[::-1]):
        for n_app, idnt in order:
            run.case({"unfitted-sequence": n_app,
                      "first": order[0][0]}, kind="unfitted-sequence")
            key = f"unfitted-sequence:{order[0][0]}:{n_app}"
            try:
                vals, names = feats(idnt, ret_names=True)
                v = dict(zip(names, [float(x) for x in vals]))
                want = 1.0 if n_app >= 600 else 0.0
                why = None
                if v["feat_bin_size"] != want:
                    why = (f"feat_bin_size = {v['feat_bin_size']} for an "
                           f"unfitted curve with {n_app} approach points "
                           f"(analysed after "
                           f"{[a for a, _ in order[:[b for b, _ in order].index(n_app)]]})")
                elif [n_ for n_, x in v.items() if n_ != "feat_bin_size"
                      and not math.isnan(x)]:
                    why = "features other than the size criterion are not NaN"
            except BaseException as e:
                why = f"raised {type(e).__name__}: {e}"
            if why:
                run.failing(SITE, key, why, payload={"kind": "rerun"},
                            theorem="C17_guards")


def type_list_cases(run):
    """which_type given as a list / tuple of types (any order): names and
    indices are those of the union, in sorted-name order, and the indices
    belong to the names"""
    from nanite.rate.features import IndentationFeatures as IF
    names = all_names()
    rng = run.rng
    for i in range(12 if run.tier == "quick" else 100):
        which = rng.choice([["continuous", "binary"], ("continuous", "binary"),
                            ["binary", "continuous"], ["continuous"],
                            ["binary"], ("binary",)])
        req = None if i % 3 == 0 else rng.sample(names,
                                                 rng.randint(1, len(names)))
        run.case({"which": list(which), "names": req}, kind="names-type-list")
        key = f"type-list:{list(which)}:{common.sha(req)[:8]}"
        try:
            got, idx = IF.get_feature_names(which_type=which, names=req,
                                            ret_indices=True)
        except BaseException as e:
            run.failing(SITE, key, f"get_feature_names({which}, {req}) raised"
                        f" {type(e).__name__}: {e}", payload={"kind": "rerun"},
                        theorem="C17_order")
            continue
        pool = [n for n in names if any(
            n.startswith({"binary": "feat_bin_",
                          "continuous": "feat_con_"}[w]) for w in which)]
        want = sorted(n for n in pool if req is None or n in req)
        if list(got) != want:
            run.failing(SITE, key, f"get_feature_names({which}, {req}) "
                        f"returns {list(got)}, not the sorted names {want}",
                        payload={"kind": "rerun"}, theorem="C17_order")
        elif [sorted(names)[j] for j in idx] != list(got):
            run.failing(SITE, key + "|indices", f"get_feature_names({which},"
                        f" {req}, ret_indices=True): indices {list(idx)} do "
                        "not belong to the returned names",
                        payload={"kind": "rerun"}, theorem="C17_order")


def returned_name_lists(run):
    """get_feature_names / compute_features(ret_names=True) hand out lists
    that are the caller's: editing one in place does not change what the next
    call returns"""
    from nanite.rate.features import IndentationFeatures as IF
    want = {w: list(IF.get_feature_names(which_type=w))
            for w in ("all", "binary", "continuous")}
    for w in ("all", "binary", "continuous"):
        run.case({"returned-names": w}, kind="names-returned-list")
        for edit in ("pop", "reverse", "append"):
            r = IF.get_feature_names(which_type=w)
            if edit == "append":
                r.append("feat_con_not_a_feature")
            else:
                getattr(r, edit)()
            bad = [w2 for w2 in want
                   if list(IF.get_feature_names(which_type=w2)) != want[w2]]
            try:
                lst = list(IF.get_feature_names(which_type=[
                    "continuous", "binary"]))
            except BaseException as e:
                lst = f"{type(e).__name__}: {e}"
            if bad or lst != sorted(want["all"]):
                run.failing(SITE, f"returned-names:{w}:{edit}",
                            f"after the list returned by get_feature_names("
                            f"{w!r}) was edited in place ({edit}), "
                            f"get_feature_names returns other names for "
                            f"{bad or ['a list of types']}",
                            payload={"kind": "rerun"}, theorem="C17_order")
                # restore for the rest of the run
                for w2 in want:
                    cur = IF.get_feature_names(which_type=w2)
                    if list(cur) != want[w2]:
                        cur[:] = want[w2]
                break


def breakthrough(run):
    """a curve whose force drops monotonically over the last quarter of the
    approach (breakthrough), fitted with the contact point held fixed inside
    the dropping part: the indentation part has no positive gradient"""
    cols, k = c07.synthetic("hertz_para", 3, n_app=700, n_ret=200, noise=0.0)
    f, n = cols["force"], 700
    peak = f[int(0.75 * n)]
    f[int(0.75 * n):n] = peak * np.linspace(1, 0.2, n - int(0.75 * n))
    idnt = curves.make_indentation(cols, k=k)
    with warnings.catch_warnings():
        warnings.simplefilter("ignore")
        idnt.apply_preprocessing(list(PIPE))
        p = idnt.get_initial_fit_parameters(model_key="hertz_para")
        p["contact_point"].set(value=float(idnt["tip position"][int(0.78 * n)]),
                               vary=False)
        idnt.fit_model(model_key="hertz_para", params_initial=p)
    oracle(run, "synthetic:breakthrough", idnt, "fitted-fixed-cp")


def check(run):
    run.sources = common.source_digests(["src/nanite/rate/features.py",
                                         "src/nanite/rate/rater.py"])
    gen_all.generate_all()
    common.prove(run, "C17", extra_targets=["Model/FeaturesQ.vo"])
    run.trusted = [
        "Coq 8.16.1 kernel + vm_compute; Reals axioms for the R theorems",
        "coq/Model/Features.v, FeaturesG.v, FeaturesG2.v (guards, name "
        "selection, arithmetic of all fifteen features before the finishing "
        "log) tied by evaluating the exact rational instance on the approach "
        "rows of every fitted curve and comparing with the implementation's "
        "values (pre-images of c*log(1+v) to 1e-9; least-squares slope to "
        "1e-6), and by comparing name selection on random requests",
        "harness observation of scipy.ndimage.gaussian_filter1d outputs and "
        "numpy.std values inside the five filter-based features (handed to "
        "the model as the oracles' answers)",
    ]
    run.assumptions = [
        "scipy's gaussian filter and the square root inside numpy.std are "
        "oracle parameters of the model; the filter-based theorems assume the "
        "filter commutes with positive factors (checked bit for bit with "
        "2^10 and 2^-7 on every array handed to it, obligation "
        "'assumption:gaussian-filter-commutes-with-factors')",
        "comparisons of the spike features that lie within 1e-9 of their "
        "3-sigma threshold are not replayed exactly (rounding of the "
        "subtraction in the implementation could decide them either way)",
        "log is monotone: the finishing maps are inverted numerically to "
        "obtain the interval the modelled core must lie in",
    ]
    exprs, descr = [], []
    name_cases(run, exprs, descr)
    for name, cols, k, kw in catalogue(run.tier):
        states = {}
        try:
            states["fitted"] = fitted(cols, k, **kw)
        except BaseException as e:
            run.count("fit-raised:" + type(e).__name__)
        fresh = curves.make_indentation(cols, k=k)
        states["fresh"] = fresh
        # settings but neither a fit nor the fit's abscissa column
        notip = curves.make_indentation(cols, k=k)
        notip.apply_preprocessing(["correct_force_offset"])
        states["preprocessed-without-tip-position"] = notip
        sonly = curves.make_indentation(cols, k=k)
        sonly.fit_properties["model_key"] = "hertz_para"
        states["settings-only"] = sonly
        pre = curves.make_indentation(cols, k=k)
        with warnings.catch_warnings():
            warnings.simplefilter("ignore")
            pre.apply_preprocessing(list(PIPE))
            states["preprocessed"] = pre
            try:
                ed = fitted(cols, k, **kw)
                ed.fit_properties["weight_cp"] = 3e-6
                states["edited-after-fit"] = ed
                un = fitted(cols, k, range_type="relative cp",
                            range_x=[1e-3, 2e-3], **kw)
                states["unsuccessful"] = un
                # the retract segment fitted: the features still describe
                # the approach segment (NaN where they need its fit)
                states["retract-fitted"] = fitted(cols, k, segment="retract",
                                                  **kw)
                states["fitted-with-correction-factor"] = fitted(
                    cols, k, gcf_k=0.5, **kw)
                # only the deeper part of the indentation fitted, contact
                # point held fixed outside the fitted interval
                dp = curves.make_indentation(cols, k=k)
                dp.apply_preprocessing(list(PIPE))
                mk_ = kw.get("model_key", "hertz_para")
                p_ = dp.get_initial_fit_parameters(model_key=mk_)
                p_["contact_point"].set(value=0.0, vary=False)
                xa_ = np.asarray(dp["tip position"])[
                    np.asarray(dp["segment"]) == 0]
                lo_ = float(np.min(xa_))
                if lo_ < 0:
                    dp.fit_model(**({"model_key": mk_} | kw | dict(
                        params_initial=p_, range_type="absolute",
                        range_x=[1.2 * lo_, 0.3 * lo_])))
                    states["fitted-deep-part-fixed-contact-point"] = dp
                if run.tier != "quick":
                    states["fitted-weighted"] = fitted(
                        cols, k, weight_cp=5e-7, range_x=[-2e-6, 2e-6], **kw)
            except BaseException as e:
                run.count("state-raised:" + type(e).__name__)
        for st, idnt in states.items():
            v = oracle(run, name, idnt, st)
            s = idnt.fit_properties
            nonempty = bool(s)
            succ = bool(s.get("success", False))
            hascp = "contact_point" in (s.get("params_fitted") or {})
            if v is not None:
                cpnan = math.isnan(v["feat_bin_cp_position"])
                vnan = math.isnan(v["feat_bin_size"])
                exprs.append(
                    "guard_agree {| fp_nonempty := %s; fp_success := %s; "
                    "has_cp_param := %s |} %s %s" % tuple(
                        "true" if b else "false"
                        for b in (nonempty, succ, hascp, cpnan, vnan)))
                descr.append(f"guards {name} {st}")
            if st.startswith("fitted") and v is not None:
                ex = coq_curve_case(idnt, v)
                if ex:
                    exprs.append(ex)
                    descr.append(f"arithmetic {name} {st}")
                    run.count("coq-arithmetic")
    breakthrough(run)
    tiny_indentation(run)
    unfitted_sequence_cases(run)
    returned_name_lists(run)
    type_list_cases(run)
    gauss_assumption(run)
    fits.eval_bool_cases(run, "c17_feat", exprs, descr, head=HEAD, chunk=10)
    run.rule = ("curves (synthetic over models, noise, spikes, short/long "
                "segments; recorded good and bad) x states (fresh, "
                "preprocessed, fitted, edited, unsuccessful): bounds and NaN "
                "conventions, ordering and pairing for subsets, curve "
                "unchanged, bit-identical features under 2^k force factors "
                "(1e-9 under 3.7), independence of the retract rows "
                "(perturbed / truncated); modelled features recomputed "
                "exactly in Coq; name selection on random requests; distinct "
                "by (curve, state) / request")


def replay(rec):
    pl = rec.get("payload") or {}
    if pl.get("kind") != "curve":
        return common.replay_by_rerun(sys.modules[__name__], rec)

    class R:
        bad = False
        rng = __import__("random").Random(0)

        def failing(self, *a, **k):
            R.bad = True
            return True

        def case(self, *a, **k):
            pass

        def count(self, *a, **k):
            pass
    for tier in ("quick", "thorough"):
        for name, cols, k, kw in catalogue(tier):
            if name == pl["name"] and pl.get("state", "").startswith("fitted"):
                oracle(R(), name, fitted(cols, k, **kw), pl["state"])
                return not R.bad
    return common.replay_by_rerun(sys.modules[__name__], rec)
