"""C12 -- the fit hash identifies data plus effective settings."""
import copy
import json
import os
import re
import subprocess
import sys
import warnings

import numpy as np

from .. import common, gen_tables, curves, pyval
from ..pyval import to_coq, hexs, canon

SITE = "nanite.fit.obj2bytes"
SITE_HASH = "nanite.fit.IndentationFitter._hash"


class Md5Capture:
    """stand-in for the `hashlib` name inside nanite.fit"""

    def __init__(self):
        import hashlib
        self._h = hashlib
        self.last = None

    def md5(self, data):
        self.last = bytes(data)
        return self._h.md5(data)

    def __getattr__(self, name):
        return getattr(self._h, name)


class Unencodable:
    pass


# ---------------------------------------------------------------------------
# generators
# ---------------------------------------------------------------------------
def rnd_number(rng, allow_special=True):
    r = rng.random()
    if r < 0.25:
        return rng.choice([0, 1, 2, -3, 7, 100, 12345])
    if r < 0.35:
        return rng.choice([True, False])
    if r < 0.45 and allow_special:
        return rng.choice([float("inf"), float("-inf"), float("nan")])
    if r < 0.6:
        return rng.choice([0.0, 1.0, -0.0, 1e-6, 5e-7, 2.5, 1e22, 1.02, 23.0,
                           3.0])
    return rng.uniform(-1, 1) * 10 ** rng.randint(-9, 3)


def rnd_params(rng):
    import lmfit
    from nanite import model
    key = rng.choice(sorted(model.models_available))
    try:
        p = model.models_available[key].get_parameter_defaults()
    except BaseException:
        p = lmfit.Parameters()
        p.add("E", 3000.0)
    for name in list(p):
        if rng.random() < 0.5:
            p[name].set(value=rnd_number(rng, allow_special=False) * 1.0)
        if rng.random() < 0.3:
            p[name].set(vary=rng.random() < 0.5)
        if rng.random() < 0.2:
            p[name].set(min=-abs(rng.uniform(1, 5)) * 1e3)
        if rng.random() < 0.2:
            p[name].set(max=abs(rng.uniform(6, 9)) * 1e9)
    if rng.random() < 0.15 and "baseline" in p and "E" in p:
        p["baseline"].set(expr="E*1e-12")
    return p


def rnd_options(rng):
    from nanite import poc
    d = {}
    items = []
    if rng.random() < 0.6:
        items.append(("correct_tip_offset",
                      {"method": rng.choice([m.identifier
                                             for m in poc.POC_METHODS])}))
    if rng.random() < 0.5:
        inner = [("region", rng.choice(["baseline", "approach", "all"])),
                 ("strategy", rng.choice(["shift", "drift"]))]
        rng.shuffle(inner)
        items.append(("correct_force_slope", dict(inner)))
    rng.shuffle(items)
    d.update(items)
    return d


def rnd_kws(rng):
    d = {}
    keys = ["ftol", "xtol", "max_nfev", "nan_policy", "tol", "options"]
    rng.shuffle(keys)
    for k in keys[:rng.randint(0, 4)]:
        r = rng.random()
        if r < 0.5:
            d[k] = rnd_number(rng)
        elif r < 0.6:
            d[k] = None
        elif r < 0.7:
            d[k] = rng.choice(["omit", "raise", "propagate"])
        elif r < 0.8:
            d[k] = [rnd_number(rng), (rnd_number(rng), "a")]
        elif r < 0.9:
            d[k] = np.arange(rng.randint(1, 4), dtype=float)
        else:
            d[k] = {"maxiter": rng.randint(1, 50), "adaptive": True}
    return d


def rnd_fp(rng, malformed=False):
    from nanite import preproc, model
    from nanite.fit import FP_DEFAULT
    ids = [p.identifier for p in preproc.PREPROCESSORS]
    steps = [rng.choice(ids) for _ in range(rng.randint(0, 4))]
    fp = {}
    for key in FP_DEFAULT:
        fp[key] = copy.deepcopy(FP_DEFAULT[key])
    fp["model_key"] = rng.choice(sorted(model.models_available) + ["nope"])
    fp["optimal_fit_edelta"] = rng.choice([False, False, True, 0, 1, 2, 0.0])
    fp["optimal_fit_num_samples"] = rng.choice([100, 10, 7, 100.0])
    fp["params_initial"] = rnd_params(rng) if rng.random() < 0.8 else None
    fp["preprocessing"] = steps if rng.random() < 0.7 else tuple(steps)
    fp["preprocessing_options"] = rnd_options(rng)
    fp["range_type"] = rng.choice(["absolute", "relative cp", "relative"])
    rx = [rnd_number(rng), rnd_number(rng)]
    fp["range_x"] = rx if rng.random() < 0.6 else tuple(rx)
    fp["segment"] = rng.choice([0, 1, True, "approach", "retract", 0.0])
    fp["weight_cp"] = rng.choice([1e-6, 5e-7, False, 0, 0.0, 2e-6, 1])
    fp["gcf_k"] = rng.choice([1.0, 0.5, 1, 2, 0.3183098861837907])
    fp["x_axis"] = rng.choice(["tip position", "height (measured)"])
    fp["y_axis"] = rng.choice(["force", "height (piezo)"])
    fp["method"] = rng.choice(["leastsq", "nelder", "least_squares"])
    fp["method_kws"] = rnd_kws(rng)
    if malformed:
        which = rng.choice(["obj", "short", "scalar", "npint", "missing"])
        if which == "obj":
            k = rng.choice(["method_kws", "weight_cp", "model_key"])
            if k == "method_kws":
                fp[k] = {"x": Unencodable()}
            else:
                fp[k] = Unencodable()
        elif which == "short":
            fp["range_x"] = [1.0]
            fp["optimal_fit_edelta"] = True
        elif which == "scalar":
            fp["range_x"] = 1.5
            fp["optimal_fit_edelta"] = True
        elif which == "npint":
            fp["optimal_fit_num_samples"] = np.int64(5)
            fp["optimal_fit_edelta"] = True
        elif which == "missing":
            fp.pop(rng.choice(["gcf_k", "method", "segment"]))
    return fp


def rnd_arrays(rng):
    n = rng.randint(1, 10)
    x = np.array([rng.uniform(-1e-5, 1e-5) for _ in range(n)])
    y = np.array([rng.uniform(-1e-9, 1e-8) for _ in range(n)])
    if rng.random() < 0.1:
        y = y.astype(np.float32)
    return x, y


# ---------------------------------------------------------------------------
# implementation runner
# ---------------------------------------------------------------------------
class RealHasher:
    def __init__(self):
        import nanite.fit as nfit
        self.nfit = nfit
        self.idnt = curves.tiny_indentation()
        self.idnt.apply_preprocessing(["compute_tip_position"])
        self.fitter = nfit.IndentationFitter(self.idnt)
        self.cap = Md5Capture()

    def __enter__(self):
        self.saved = self.nfit.hashlib
        self.nfit.hashlib = self.cap
        return self

    def __exit__(self, *a):
        self.nfit.hashlib = self.saved

    def run(self, fp, x, y):
        f = self.fitter
        dict.clear(f.fp)
        for k, v in fp.items():
            dict.__setitem__(f.fp, k, v)
        f.x_axis, f.y_axis = x, y
        self.cap.last = None
        try:
            h = f._hash()
            return ("ok", self.cap.last, h)
        except BaseException as e:
            return (type(e).__name__, None, None)


def coq_expected(r):
    if r[0] == "ok":
        return "(Ok " + hexs(r[1]) + ")"
    if r[0] in ("ValueError", "IndexError", "TypeError", "KeyError"):
        return f"(Err {r[0]})"
    return "(Err OtherError)"


CASE_TAIL = """
Definition res_eqb (a b : res string) : bool :=
  match a, b with
  | Ok x, Ok y => String.eqb x y
  | Err e, Err f => exn_eqb e f
  | _, _ => false end.
Definition agree (c : list (string * pyval) * pyval * pyval * res string) : bool :=
  let '(fp, x, y, ex) := c in res_eqb (preimage fp_default_keys fp x y) ex.
Fixpoint bad (i : nat) (cs : list (list (string * pyval) * pyval * pyval * res string)) : list nat :=
  match cs with [] => [] | c :: t => if agree c then bad (S i) t else i :: bad (S i) t end.
"""


def fp_to_coq(fp):
    return "[" + "; ".join(f"({hexs(k)}, {to_coq(v)})"
                           for k, v in fp.items()) + "]"


def correspondence(run, name, cases, results):
    rows = []
    for (fp, x, y), r in zip(cases, results):
        rows.append(f"({fp_to_coq(fp)}, {to_coq(x)}, {to_coq(y)}, "
                    f"{coq_expected(r)})")
    text = (pyval.COQ_HEAD + CASE_TAIL
            + "Definition cases : list (list (string * pyval) * pyval * pyval"
            " * res string) := [\n" + ";\n".join(rows) + "].\n"
            + "Eval vm_compute in (List.length cases, bad 0 cases).\n")
    ok, out = common.coq_run(name, text, timeout=900)
    m = re.search(r"=\s*\((\d+),\s*\[(.*?)\]\)", out, flags=re.S)
    if not ok or not m or int(m.group(1)) != len(cases):
        run.obligation(f"correspondence:{name}", False, out[-3000:])
        return None
    badix = [int(v) for v in re.findall(r"\d+", m.group(2))]
    run.obligation(
        f"correspondence:{name}", not badix,
        f"{len(badix)} of {len(cases)} pre-images disagree, e.g. "
        + "; ".join(json.dumps(canon(cases[i][0]))[:600] + " impl="
                    + str(results[i][0]) for i in badix[:3]))
    return badix


# ---------------------------------------------------------------------------
# direct oracle through the API
# ---------------------------------------------------------------------------
def leaf_texts(o):
    import lmfit
    if isinstance(o, (list, tuple)):
        out = []
        for v in o:
            out += leaf_texts(v)
        return out
    if isinstance(o, dict):
        out = []
        for k, v in sorted(o.items()):
            out += [k] + leaf_texts(v)
        return out
    if isinstance(o, lmfit.Parameter):
        return leaf_texts([o.value, o.max, o.min, o.vary, o.expr, o.name])
    if o is None:
        return ["none"]
    if isinstance(o, str):
        return [o]
    if isinstance(o, (bool, int, float, np.bool_)):
        return [str(float(o))]
    return [repr(o)]


def api_hash(idnt, **kw):
    from nanite.fit import IndentationFitter, FitKeyError
    try:
        return IndentationFitter(idnt, **kw).hash
    except FitKeyError:
        return None


def base_kwargs():
    from nanite import model
    p = model.models_available["hertz_para"].get_parameter_defaults()
    p["contact_point"].set(1e-6)
    return dict(model_key="hertz_para", params_initial=p, range_x=[0, 0],
                range_type="absolute", segment=0, weight_cp=1e-6, gcf_k=1.0,
                x_axis="tip position", y_axis="force", method="leastsq",
                method_kws={}, optimal_fit_edelta=False,
                optimal_fit_num_samples=100)


def mkparams(**edits):
    from nanite import model
    p = model.models_available["hertz_para"].get_parameter_defaults()
    p["contact_point"].set(1e-6)
    for name, kw in edits.items():
        p[name].set(**kw)
    return p


def oracle_api(run):
    """equal settings -> equal hash; single change -> different hash"""
    idnt = curves.make_indentation(n_app=40, n_ret=20)
    idnt.apply_preprocessing(["compute_tip_position", "correct_force_offset",
                              "correct_tip_offset"])
    b = base_kwargs()
    h0 = api_hash(idnt, **b)
    n = 0

    def same(label, **kw):
        nonlocal n
        n += 1
        k2 = dict(b)
        k2.update(kw)
        base2 = dict(b)
        base2.update(kw.pop("_base", {}) if "_base" in kw else {})
        h = api_hash(idnt, **{k: v for k, v in k2.items() if k != "_base"})
        href = api_hash(idnt, **base2)
        run.case({"invariance": label}, kind="api-invariance")
        if h != href:
            run.failing(SITE_HASH, "invariance:" + label,
                        f"representation/don't-care variant '{label}' "
                        f"changes the hash ({href} -> {h})",
                        payload={"kind": "invariance", "label": label},
                        expected=href, observed=h,
                        theorem="C12_tuple_list/C12_dict_order/"
                        "C12_dontcare_*")
    same("range_x tuple", range_x=(0, 0))
    same("range_x float", range_x=[0.0, 0.0])
    same("weight_cp int vs float",
         _base=dict(weight_cp=1.0), weight_cp=1)
    same("weight_cp False vs 0", _base=dict(weight_cp=0), weight_cp=False)
    same("gcf_k int", gcf_k=1)
    same("segment approach", segment="approach")
    same("segment retract", _base=dict(segment=1), segment="retract")
    same("segment True", _base=dict(segment=1), segment=True)
    same("num_samples dontcare", optimal_fit_num_samples=7)
    same("range_x[0] dontcare with plateau search",
         _base=dict(optimal_fit_edelta=True, range_x=[-1e-6, 1e-6]),
         optimal_fit_edelta=True, range_x=[-2e-6, 1e-6])
    same("method_kws order",
         _base=dict(method_kws={"ftol": 1e-9, "xtol": 1e-8, "max_nfev": 90}),
         method_kws={"max_nfev": 90, "xtol": 1e-8, "ftol": 1e-9})
    same("params equal-valued fresh object", params_initial=mkparams())
    # equal settings, other object histories: a value assigned directly
    # instead of through set(), results of an earlier fit left on the object
    pa = mkparams()
    pa["E"].value = 4321.0
    pb = mkparams(E={"value": 4321.0})
    same("params value assigned vs set", _base=dict(params_initial=pb),
         params_initial=pa)
    pc = mkparams()
    for nm in pc:
        pc[nm].stderr = 1.5
        pc[nm].correl = {"baseline": 0.3}
    same("params carrying stderr/correl of an earlier fit",
         params_initial=pc)
    try:
        ifit = curves.make_indentation(n_app=40, n_ret=20)
        ifit.apply_preprocessing(["compute_tip_position",
                                  "correct_force_offset",
                                  "correct_tip_offset"])
        with warnings.catch_warnings():
            warnings.simplefilter("ignore")
            ifit.fit_model(**b)
        pfit = ifit.fit_properties["params_fitted"]
        pfresh = mkparams()
        for nm in pfresh:
            pfresh[nm].set(value=float(pfit[nm].value))
        same("params_fitted of an earlier fit reused vs fresh equal values",
             _base=dict(params_initial=pfresh), params_initial=pfit)
    except BaseException as e:
        run.count("c12-reuse-raised:" + type(e).__name__)
    # preprocessing options order: through apply_preprocessing
    i2 = curves.make_indentation(n_app=40, n_ret=20)
    i3 = curves.make_indentation(n_app=40, n_ret=20)
    st = ["compute_tip_position", "correct_tip_offset", "correct_force_slope"]
    i2.apply_preprocessing(st, options={
        "correct_tip_offset": {"method": "deviation_from_baseline"},
        "correct_force_slope": {"region": "baseline", "strategy": "shift"}})
    i3.apply_preprocessing(tuple(st), options={
        "correct_force_slope": {"strategy": "shift", "region": "baseline"},
        "correct_tip_offset": {"method": "deviation_from_baseline"}})
    run.case({"invariance": "options order + steps tuple"},
             kind="api-invariance")
    if api_hash(i2, **b) != api_hash(i3, **b):
        run.failing(SITE_HASH, "invariance:options-order",
                    "insertion order of preprocessing options / tuple steps "
                    "changes the hash", payload={"kind": "invariance",
                                                 "label": "options-order"},
                    theorem="C12_dict_order")

    # ---- sensitivity -----------------------------------------------------
    domains = {
        "model_key": ["hertz_para", "sneddon_spher_approx"],
        "range_type": ["absolute", "relative cp"],
        "range_x": [[0, 0], [0, 1e-6], [-1e-6, 1e-6], [-1e-6, 0],
                    [1.0, 23.0], [1.02, 3.0], [1.0, 2.0], [11.0, 2.0],
                    [1.0, 12.0], [float("-inf"), 0.0]],
        "segment": [0, 1],
        "weight_cp": [1e-6, 5e-7, 0, 2e-6],
        "gcf_k": [1.0, 0.5, 2.0, 0.3183098861837907],
        "x_axis": ["tip position", "height (measured)"],
        "y_axis": ["force", "height (piezo)"],
        "method": ["leastsq", "nelder", "least_squares"],
        "method_kws": [{}, {"ftol": 1e-9}, {"ftol": 1e-8},
                       {"ftol": 1e-9, "xtol": 1e-9}, {"max_nfev": 50},
                       # (the same values under other keywords)
                       {"xtol": 1e-9}, {"ftol": 1e-9, "gtol": 1e-9}],
        "optimal_fit_edelta": [False, True],
    }
    pdomain = [
        mkparams(), mkparams(E={"value": 5000.0}), mkparams(E={"vary": False}),
        mkparams(E={"min": 10.0}), mkparams(E={"max": 1e6}),
        mkparams(R={"value": 5e-6}), mkparams(nu={"value": 0.4}),
        mkparams(baseline={"value": 1e-10}),
        mkparams(baseline={"expr": "E*1e-13"}),
        mkparams(contact_point={"value": 2e-6}),
        mkparams(contact_point={"min": -1e-5, "max": 1e-5}),
        # D7-shaped pairs: value/max digits regroup
        mkparams(E={"value": 1.0, "max": 23.0}),
        mkparams(E={"value": 1.02, "max": 3.0}),
    ]
    domains["params_initial"] = pdomain

    def differ(key, v1, v2, extra=None):
        k1 = dict(b)
        k2 = dict(b)
        if extra:
            k1.update(extra)
            k2.update(extra)
        k1[key] = v1
        k2[key] = v2
        if key == "model_key":
            k1.pop("params_initial")
            k2.pop("params_initial")
        h1, h2 = api_hash(idnt, **k1), api_hash(idnt, **k2)
        run.case({"sensitivity": key, "a": canon(v1), "b": canon(v2)},
                 kind="api-sensitivity")
        if h1 is None or h2 is None:
            return
        if h1 == h2:
            t1, t2 = leaf_texts(v1), leaf_texts(v2)
            if t1 != t2 and "".join(t1) == "".join(t2):
                kk = "list-join-collision"
                site = SITE
            else:
                kk = f"{key}:{json.dumps(canon(v1))}|{json.dumps(canon(v2))}"
                site = SITE_HASH
            run.failing(site, kk,
                        f"distinct values of '{key}' give the same hash: "
                        f"{canon(v1)} vs {canon(v2)}",
                        payload={"kind": "sensitivity", "key": key,
                                 "a": canon(v1), "b": canon(v2)},
                        expected="different hashes", observed=h1,
                        theorem="C12_key_effect / C12_sensitive_*")
    for key, dom in domains.items():
        for i in range(len(dom)):
            for j in range(i + 1, len(dom)):
                differ(key, dom[i], dom[j])
    # every attribute of every parameter matters in every context (plain,
    # fixed, constrained by an expression): bounds still clip a constrained
    # or fixed value, so they are part of the effective settings
    for pname in ["E", "R", "nu", "contact_point", "baseline"]:
        for ctx in [{}, {"vary": False}, {"expr": "E*1e-13"}]:
            if "expr" in ctx and pname == "E":
                continue
            for edit in [{"min": -5.0}, {"max": 7.5}, {"min": -1.0, "max": 9.0},
                         {"value": 0.123}]:
                if "value" in edit and "expr" in ctx:
                    continue    # the value of a constrained parameter is derived
                a = mkparams(**{pname: dict(ctx)})
                bb = mkparams(**{pname: dict(ctx, **edit)})
                differ("params_initial", a, bb)
    # don't-cares become cares in the other mode
    differ("optimal_fit_num_samples", 10, 20,
           extra=dict(optimal_fit_edelta=True, range_x=[-1e-6, 1e-6]))
    differ("range_x", [-1e-6, 1e-6], [-1e-6, 2e-6],
           extra=dict(optimal_fit_edelta=True))
    # ... also when the two bounds coincide: with the plateau search the
    # upper bound is the end of every scan fit, not "the whole segment"
    for ra, rb in [([1e-6, 1e-6], [2e-6, 2e-6]), ([1e-6, 1e-6], [0, 0]),
                   ([2e-6, 2e-6], [0.0, 0.0]), ([-1e-6, 1e-6], [2e-6, 2e-6])]:
        differ("range_x", ra, rb, extra=dict(optimal_fit_edelta=True))
    # the plateau-search flag in its other true representations (1,
    # numpy.bool_): same don't-cares, same sensitivities, same hash as True
    for tag, flag in (("1", 1), ("numpy.bool_", np.bool_(True))):
        same(f"plateau flag {tag} hashes like True",
             _base=dict(optimal_fit_edelta=True, range_x=[-1e-6, 1e-6]),
             optimal_fit_edelta=flag, range_x=[-1e-6, 1e-6])
        same(f"range_x[0] dontcare with plateau flag {tag}",
             _base=dict(optimal_fit_edelta=flag, range_x=[-1e-6, 1e-6]),
             optimal_fit_edelta=flag, range_x=[-2e-6, 1e-6])
        differ("optimal_fit_num_samples", 8, 9,
               extra=dict(optimal_fit_edelta=flag, range_x=[-1e-6, 1e-6]))
    same("range_x[0] dontcare with plateau search (coinciding bounds)",
         _base=dict(optimal_fit_edelta=True, range_x=[0, 1e-6]),
         optimal_fit_edelta=True, range_x=[1e-6, 1e-6])
    # preprocessing and data: through other curve objects
    variants = []
    for st2, op2 in [
        (["compute_tip_position", "correct_force_offset",
          "correct_tip_offset"], {}),
        (["compute_tip_position", "correct_tip_offset",
          "correct_force_offset"], {}),
        (["compute_tip_position", "correct_tip_offset"], {}),
        (["compute_tip_position", "correct_tip_offset"],
         {"correct_tip_offset": {"method": "frechet_direct_path"}}),
        (["compute_tip_position", "correct_tip_offset"],
         {"correct_tip_offset": {"method": "gradient_zero_crossing"}}),
        # steps that leave the fitted columns as they are (the segment
        # boundary or the piezo height change instead)
        (["compute_tip_position", "correct_tip_offset",
          "correct_split_approach_retract"], {}),
        (["compute_tip_position", "correct_tip_offset", "smooth_height"],
         {}),
        (["compute_tip_position", "correct_force_offset",
          "correct_tip_offset", "correct_split_approach_retract"], {}),
    ]:
        ii = curves.make_indentation(n_app=40, n_ret=20)
        ii.apply_preprocessing(st2, options=op2)
        variants.append((st2, op2, api_hash(ii, **b)))
    for i in range(len(variants)):
        for j in range(i + 1, len(variants)):
            run.case({"sensitivity": "preprocessing", "a": variants[i][:2],
                      "b": variants[j][:2]}, kind="api-sensitivity")
            if variants[i][2] == variants[j][2]:
                run.failing(SITE_HASH, f"preprocessing:{i}|{j}",
                            "different preprocessing, same hash: "
                            f"{variants[i][:2]} vs {variants[j][:2]}",
                            payload={"kind": "sensitivity",
                                     "key": "preprocessing"},
                            theorem="C12_sensitive_steps")
    # one data sample
    cols = curves.make_arrays(n_app=40, n_ret=20)
    for col, ix, d in [("force", 7, 1e-13), ("force", 55, 1e-12),
                       ("height (measured)", 3, 1e-12)]:
        c2 = {k: v.copy() for k, v in cols.items()}
        c2[col][ix] += d
        ia = curves.make_indentation(cols)
        ib = curves.make_indentation(c2)
        for o in (ia, ib):
            o.apply_preprocessing(["compute_tip_position"])
        run.case({"sensitivity": "sample", "col": col, "index": ix},
                 kind="api-sensitivity")
        if api_hash(ia, **b) == api_hash(ib, **b):
            run.failing(SITE_HASH, f"sample:{col}:{ix}",
                        f"changing sample {ix} of {col} keeps the hash",
                        payload={"kind": "sensitivity", "key": "sample"},
                        theorem="C12_sensitive_sample")
    # ... also on a curve that already carries the hash of a fit: the hash is
    # a function of the values now, not of the object's history
    from nanite.fit import IndentationFitter
    for col, ix, d in [("force", 9, 1e-13), ("tip position", 30, 1e-12)]:
        ia = curves.make_indentation(cols)
        ia.apply_preprocessing(["compute_tip_position"])
        run.case({"sensitivity": "sample-after-fit", "col": col, "index": ix},
                 kind="api-sensitivity")
        try:
            with warnings.catch_warnings():
                warnings.simplefilter("ignore")
                ia.fit_model(**b)
                h_fit = ia.fit_properties.get("hash")
                arr = np.array(ia[col], copy=True)
                arr[ix] += d
                ia[col] = arr
                h_after = IndentationFitter(ia).hash
                ib = curves.make_indentation(cols)
                ib.apply_preprocessing(["compute_tip_position"])
                ib[col] = arr.copy()
                h_fresh = api_hash(ib, **b)
        except BaseException as e:
            run.failing(SITE_HASH, f"sample-after-fit:{col}:raised",
                        f"raised {type(e).__name__}: {e}",
                        payload={"kind": "rerun"})
            continue
        if h_after == h_fit:
            run.failing(SITE_HASH, f"sample-after-fit:{col}:{ix}",
                        f"sample {ix} of {col} changed on a fitted curve: "
                        "the fitter still reports the hash of the earlier "
                        "fit", payload={"kind": "rerun"},
                        theorem="C12_sensitive_sample")
        elif h_after != h_fresh:
            run.failing(SITE_HASH, f"sample-after-fit:{col}:{ix}:fresh",
                        f"after sample {ix} of {col} changed on a fitted "
                        "curve the hash differs from that of a fresh curve "
                        "with the same data and settings",
                        payload={"kind": "rerun"},
                        theorem="C12_pure_function")
    # a small but real change of a numeric setting on an ALREADY FITTED curve:
    # the stored hash is that of the new setting (= a fresh curve's)
    for skey, va, vb in [("range_x", [-2e-6, 1e-6], [-2.009e-6, 1.009e-6]),
                         ("weight_cp", 0, 8e-9),
                         ("weight_cp", 1e-6, 1.000005e-6),
                         ("gcf_k", 1.0, 1.000001),
                         ("range_x", [-2e-6, 1e-6], [-2e-6, 1.000000001e-6])]:
        run.case({"sensitivity": "after-fit:" + skey, "a": canon(va),
                  "b": canon(vb)}, kind="api-sensitivity")
        k2 = f"after-fit:{skey}:{json.dumps(canon(va))}|{json.dumps(canon(vb))}"
        try:
            with warnings.catch_warnings():
                warnings.simplefilter("ignore")
                ia = curves.make_indentation(cols)
                ia.apply_preprocessing(["compute_tip_position"])
                ka = dict(b)
                ka[skey] = va
                ia.fit_model(**ka)
                h_a = ia.fit_properties.get("hash")
                ia.fit_model(**{skey: vb})
                h_ab = ia.fit_properties.get("hash")
                ib = curves.make_indentation(cols)
                ib.apply_preprocessing(["compute_tip_position"])
                kb = dict(b)
                kb[skey] = vb
                ib.fit_model(**kb)
                h_b = ib.fit_properties.get("hash")
        except BaseException as e:
            run.failing(SITE_HASH, k2 + "|raised", f"raised "
                        f"{type(e).__name__}: {e}", payload={"kind": "rerun"})
            continue
        if h_ab != h_b or h_ab == h_a:
            run.failing(SITE_HASH, k2, f"fit with {skey} = {va}, then "
                        f"fit_model({skey}={vb}) on the same curve: stored "
                        f"hash {h_ab} (first fit {h_a}); a fresh curve fitted "
                        f"with {vb} has {h_b}", payload={"kind": "rerun"},
                        theorem="C12_key_effect / C12_sensitive_*")
    # a NESTED setting changed in place in the caller's own object and passed
    # again: the stored hash is that of the new value (= a curve that got the
    # same sequence of values in fresh objects)
    for label, mk_opts, edit in [
        ("preprocessing_options",
         lambda: {"correct_tip_offset": {"method": "deviation_from_baseline"}},
         lambda o: o["correct_tip_offset"].__setitem__(
             "method", "fit_constant_line")),
    ]:
        run.case({"sensitivity": "nested-in-place:" + label},
                 kind="api-sensitivity")
        k2 = "nested-in-place:" + label
        try:
            with warnings.catch_warnings():
                warnings.simplefilter("ignore")
                pipe = ["compute_tip_position", "correct_force_offset",
                        "correct_tip_offset"]
                hs = []
                for shared in (True, False):
                    ic = curves.make_indentation(cols)
                    o1 = mk_opts()
                    kw = dict(b)
                    kw.pop("method_kws", None)
                    kw.update(preprocessing=list(pipe),
                              preprocessing_options=o1)
                    ic.fit_model(**kw)
                    h1 = ic.fit_properties.get("hash")
                    edit(o1)
                    o2 = o1 if shared else copy.deepcopy(o1)
                    kw["preprocessing_options"] = o2
                    ic.fit_model(**kw)
                    hs.append((h1, ic.fit_properties.get("hash")))
        except BaseException as e:
            run.failing(SITE_HASH, k2 + "|raised", f"raised "
                        f"{type(e).__name__}: {e}", payload={"kind": "rerun"})
            continue
        (a1, a2), (b1, b2) = hs
        if a2 != b2 or a2 == a1:
            run.failing(SITE_HASH, k2, f"{label}: nested value changed in "
                        f"place and passed again -> stored hash {a2} (before "
                        f"{a1}); with fresh objects per call {b2}",
                        payload={"kind": "rerun"},
                        theorem="C12_key_effect / C12_sensitive_*")
    return h0


SUBPROC = r"""
import sys, json
sys.path.insert(0, %(tools)r)
from nv.props import c12
from nv import curves
import warnings; warnings.simplefilter("ignore")
idnt = curves.make_indentation(n_app=40, n_ret=20)
idnt.apply_preprocessing(["compute_tip_position", "correct_tip_offset",
                          "correct_force_slope"],
    options={"correct_force_slope": {"strategy": "shift", "region": "all"},
             "correct_tip_offset": {"method": "frechet_direct_path"}})
b = c12.base_kwargs()
out = [c12.api_hash(idnt, **b)]
b["method_kws"] = {"xtol": 1e-9, "ftol": 1e-8, "a": {"z": 1, "y": (1, 2)}}
out.append(c12.api_hash(idnt, **b))
b["method_kws"] = {"xtol": 1e-9, "ftol": 1e-8}
out.append(c12.api_hash(idnt, **b))
idnt.fit_model(**b)
out.append(idnt.fit_properties["hash"])
print(json.dumps(out))
"""


def cross_process(run, seeds):
    res = []
    for hs in seeds:
        env = dict(os.environ)
        env["PYTHONHASHSEED"] = hs
        r = subprocess.run([sys.executable, "-W", "ignore", "-c",
                            SUBPROC % {"tools": str(common.VERIF / "tools")}],
                           env=env, capture_output=True, text=True,
                           timeout=300)
        if r.returncode != 0:
            run.obligation("cross-process-run", False, r.stderr[-1500:])
            return
        res.append(json.loads(r.stdout.strip().splitlines()[-1]))
        run.case({"process": hs, "hashes": res[-1]}, kind="cross-process")
    if any(r != res[0] for r in res) or res[0][2] != res[0][3]:
        run.failing(SITE_HASH, "cross-process",
                    f"hash differs across processes/hash seeds: {res}",
                    payload={"kind": "cross-process"},
                    theorem="(determinism; outside the Coq model)")


def check(run):
    run.sources = common.source_digests(["src/nanite/fit.py"])
    gen_tables.generate()
    common.prove(run, "C12")
    run.trusted = [
        "Coq 8.16.1 kernel + vm_compute",
        "tools/nv/gen_tables.py (FP_DEFAULT key order, step names)",
        "hand-written model coq/Model/HashEnc.v tied by byte-exact "
        "comparison of the md5 pre-image (hashlib.md5 wrapped from the "
        "harness) on random settings",
        "tools/nv/pyval.py (Python value -> Coq term)",
    ]
    run.assumptions = [
        "md5 is collision-free on the pre-images that occur (the theorems "
        "speak about the pre-image)",
        "str(float(x)) is carried as text: int/float/bool of equal value "
        "print the same text (CPython), distinct floats print distinct text",
        "numpy tobytes() is injective on arrays of equal dtype and shape",
        "dictionary keys in settings are strings",
    ]
    rng = run.rng
    n = 240 if run.tier == "quick" else 3000
    cases = []
    for i in range(n):
        fp = rnd_fp(rng, malformed=(i % 6 == 5))
        x, y = rnd_arrays(rng)
        cases.append((fp, x, y))
    with RealHasher() as rh:
        results = [rh.run(*c) for c in cases]
    for (fp, x, y), r in zip(cases, results):
        run.case({"fp": canon(fp), "outcome": r[0]},
                 kind="preimage-" + r[0])
    for i in range(0, n, 120):
        correspondence(run, f"c12_{i // 120}", cases[i:i + 120],
                       results[i:i + 120])
    oracle_api(run)
    cross_process(run, ["0", "1", "random"] if run.tier == "quick"
                  else ["0", "1", "2", "random", "random"])
    run.rule = ("random complete settings dictionaries (every FP_DEFAULT key; "
                "1 in 6 malformed) with random arrays: pre-image compared "
                "byte for byte with the Coq model; plus API-level invariance"
                "/sensitivity pairs per key and parameter attribute and "
                "cross-process runs; distinct by canonical settings")


def replay(rec):
    class R:
        bad = False

        def failing(self, *a, **k):
            R.bad = True

        def case(self, *a, **k):
            pass

        def obligation(self, *a, **k):
            pass
    oracle_api(R())
    return not R.bad
