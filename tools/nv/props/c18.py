"""C18 -- the model registry accepts only complete, consistent models."""
import copy
import inspect
import math
import pathlib
import sys
import types

import numpy as np

from .. import common, gen_all, curves, fits, m1
from ..common import coq_string

SITE = "nanite.model.core.NaniteFitModel._module_check"
SITE_L = "nanite.model.logic.load_model_from_file"
SITE_R = "nanite.model.logic (registry)"
SITE_A = "nanite.fit.guess_initial_parameters"

ATTRS = ["get_parameter_defaults", "model_doc", "model_func", "model_key",
         "model_name", "parameter_keys", "parameter_names", "parameter_units",
         "valid_axes_x", "valid_axes_y"]
ANC = ["compute_ancillaries", "parameter_anc_keys", "parameter_anc_names",
       "parameter_anc_units"]


def base_module(key="nv_reg", anc=False):
    import lmfit
    m = types.ModuleType("nv_mod_" + key)
    keys = ["E", "R", "contact_point", "baseline"]

    def get_parameter_defaults():
        p = lmfit.Parameters()
        for k in m._default_keys:
            p.add(k, value=1.0)
        return p

    def model_func(delta, E, R, contact_point=0, baseline=0):
        return np.zeros_like(delta) + baseline
    m._default_keys = list(keys)
    m.get_parameter_defaults = get_parameter_defaults
    m.model_doc = "doc"
    m.model_func = model_func
    m.model_key = key
    m.model_name = "harness registry model"
    m.parameter_keys = list(keys)
    m.parameter_names = ["Modulus", "Radius", "Contact", "Baseline"]
    m.parameter_units = ["Pa", "m", "m", "N"]
    m.valid_axes_x = ["tip position"]
    m.valid_axes_y = ["force"]
    if anc:
        m.compute_ancillaries = lambda fd: {"E": 1234.0, "R": float("nan"),
                                            "other": 5.0}
        m.parameter_anc_keys = ["E", "R", "other"]
        m.parameter_anc_names = ["anc E", "anc R", "anc other"]
        m.parameter_anc_units = ["Pa", "m", ""]
    return m


WARN_ONLY = ("func-other-order", "func-fewer-args", "units-with-space")


def mutants():
    """all single-fault mutants of a valid module (with and without
    ancillaries)"""
    out = [("valid", lambda m: None, False), ("valid-anc", lambda m: None,
                                              True)]
    for a in ATTRS:
        out.append((f"delete:{a}", lambda m, a=a: delattr(m, a), False))
    for a in ANC[1:]:
        out.append((f"delete:{a}", lambda m, a=a: delattr(m, a), True))
    for a in ["parameter_keys", "parameter_names", "parameter_units"]:
        out.append((f"shorten:{a}",
                    lambda m, a=a: setattr(m, a, getattr(m, a)[:-1]), False))
        out.append((f"lengthen:{a}",
                    lambda m, a=a: setattr(m, a, getattr(m, a) + ["x"]),
                    False))
        out.append((f"empty:{a}", lambda m, a=a: setattr(m, a, []), False))
    out.append(("duplicate:parameter_names",
                lambda m: setattr(m, "parameter_names",
                                  ["Modulus", "Modulus", "Contact",
                                   "Baseline"]), False))
    out.append(("duplicate:parameter_units",
                lambda m: setattr(m, "parameter_units",
                                  ["Pa", "m", "m", "m"]), False))
    out.append(("reorder:parameter_keys",
                lambda m: setattr(m, "parameter_keys",
                                  ["R", "E", "contact_point", "baseline"]),
                False))
    out.append(("reorder:defaults",
                lambda m: setattr(m, "_default_keys",
                                  ["E", "contact_point", "R", "baseline"]),
                False))
    out.append(("defaults-shorter",
                lambda m: setattr(m, "_default_keys", ["E", "R",
                                                       "contact_point"]),
                False))
    out.append(("defaults-longer",
                lambda m: setattr(m, "_default_keys",
                                  ["E", "R", "contact_point", "baseline",
                                   "extra"]), False))

    def all_longer(m):
        m.parameter_keys = m.parameter_keys + ["x"]
        m.parameter_names = m.parameter_names + ["X"]
        m.parameter_units = m.parameter_units + [""]
    out.append(("keys-names-units-longer-than-defaults", all_longer, False))
    out.append(("func-fewer-args",
                lambda m: setattr(m, "model_func", lambda delta, E: delta),
                False))
    out.append(("func-other-order",
                lambda m: setattr(
                    m, "model_func",
                    lambda delta, R, E, contact_point=0, baseline=0: delta),
                False))
    out.append(("units-with-space",
                lambda m: setattr(m, "parameter_units",
                                  ["Pa ", "m", "m", "N"]), False))
    # a fault together with a deviation that only warns: still rejected
    single = list(out)
    for wn in WARN_ONLY:
        wmut = [f for n_, f, _ in single if n_ == wn][0]
        for n_, f, anc in single:
            if n_ in WARN_ONLY or n_.startswith("valid") or anc \
                    or n_.startswith("func-"):
                continue

            def both(m, f=f, wmut=wmut):
                wmut(m)
                f(m)
            out.append((f"{wn}+{n_}", both, False))
    return out


def coq_mod(m):
    def sl(l):
        return "[" + "; ".join(coq_string(str(x)) for x in l) + "]"
    present = [a for a in ATTRS + ANC + ["model", "residual"]
               if hasattr(m, a)]
    try:
        dflt = list(m.get_parameter_defaults().keys()) \
            if hasattr(m, "get_parameter_defaults") else []
    except BaseException:
        dflt = []
    try:
        args = list(inspect.signature(m.model_func).parameters.keys()) \
            if hasattr(m, "model_func") else []
    except BaseException:
        args = []
    return ("{| mkey := " + coq_string(getattr(m, "model_key", ""))
            + "; present := " + sl(present)
            + "; pkeys := " + sl(getattr(m, "parameter_keys", []))
            + "; pnames := " + sl(getattr(m, "parameter_names", []))
            + "; punits := " + sl(getattr(m, "parameter_units", []))
            + "; pdefaults := " + sl(dflt) + "; pargs := " + sl(args) + " |}")


CASE_HEAD = """From Coq Require Import List String Bool.
From NV Require Import Base.Exn Model.Registry.
Import ListNotations.
Local Open Scope string_scope.
Definition res_eqb (a b : res unit) : bool :=
  match a, b with Ok _, Ok _ => true | Err e, Err f => exn_eqb e f | _, _ => false end.
"""


def run_check(m):
    from nanite.model import core
    try:
        core.NaniteFitModel(m)
        return "ok"
    except BaseException as e:
        if isinstance(e, (KeyboardInterrupt, SystemExit)):
            raise
        return type(e).__name__


def check_mutants(run):
    from nanite import model
    exprs, descr = [], []
    for name, mut, anc in mutants():
        m = base_module("nv_reg_" + str(len(exprs)), anc=anc)
        mut(m)
        before = dict(model.models_available)
        out = run_check(m)
        try:
            model.register_model(m)
            reg = "ok"
        except BaseException as e:
            reg = type(e).__name__
        after = dict(model.models_available)
        key = getattr(m, "model_key", None)
        run.case({"mutant": name, "outcome": out}, kind="mutant-" + out)
        fkey = "mutant:" + name
        # argument order/number of model_func and unit spelling only warn
        valid = name in ("valid", "valid-anc", "func-other-order",
                         "func-fewer-args", "units-with-space",
                         "duplicate:parameter_units") or (
            "+" in name and name.split("+", 1)[1]
            == "duplicate:parameter_units")
        if valid:
            if out != "ok" or reg != "ok" or key not in after:
                run.failing(SITE, fkey, f"valid module ({name}) rejected: "
                            f"{out}/{reg}", payload={"kind": "mutant",
                                                     "name": name},
                            theorem="C18_check_complete")
            else:
                md = after[key]
                pk = md.get_parameter_defaults()
                ok = callable(md.model) and callable(md.residual) and \
                    md.parameter_keys == m.parameter_keys and \
                    md.get_anc_parm_keys()[0] == "max_indent" and \
                    (not anc or md.get_anc_parm_keys()[1:]
                     == m.parameter_anc_keys)
                if not ok:
                    run.failing(SITE_R, fkey, "registered model lacks the "
                                "documented defaults",
                                payload={"kind": "mutant", "name": name},
                                theorem="C18_register_available")
                model.deregister_model(md)
                if key in model.models_available or \
                        set(model.models_available) != set(before):
                    run.failing(SITE_R, fkey, "deregister did not remove "
                                "exactly the key",
                                payload={"kind": "mutant", "name": name},
                                theorem="C18_deregister_exact")
        else:
            if out not in ("ModelIncompleteError",
                           "ModelImplementationError"):
                run.failing(SITE, fkey, f"faulty module ({name}) -> {out} "
                            "instead of a model error",
                            payload={"kind": "mutant", "name": name},
                            observed=out,
                            theorem="C18_rejected_with_model_error")
            if set(after) != set(before):
                run.failing(SITE_R, fkey, "rejected registration changed the "
                            "registry", payload={"kind": "mutant",
                                                 "name": name},
                            theorem="C18_failure_preserves")
                for k in set(after) - set(before):
                    model.models_available.pop(k)
        exp = "(Ok tt)" if out == "ok" else f"(Err {m1.exn_coq(out)})"
        exprs.append(f"res_eqb (module_check {coq_mod(m)}) {exp}")
        descr.append(f"{name} -> {out}")
    saved = fits.CASE_HEAD
    fits.CASE_HEAD = CASE_HEAD
    try:
        fits.eval_bool_cases(run, "c18_mutants", exprs, descr)
    finally:
        fits.CASE_HEAD = saved


MODEL_SRC = '''
import lmfit
import numpy as np

def get_parameter_defaults():
    p = lmfit.Parameters()
    p.add("E", value=3e3, min=0)
    p.add("contact_point", value=0)
    p.add("baseline", value=0)
    return p

def fn(delta, E, contact_point=0, baseline=0):
    root = contact_point - delta
    out = np.zeros_like(delta)
    out[root > 0] = E * root[root > 0] ** 2
    return out + baseline

model_doc = "doc"
model_func = fn
model_key = "%(key)s"
model_name = "file model %(key)s"
parameter_keys = ["E", "contact_point", "baseline"]
parameter_names = ["Modulus", "Contact", "Baseline"]
parameter_units = ["Pa", "m", "N"]
valid_axes_x = ["tip position"]
valid_axes_y = ["force"]
'''


def check_loader(run):
    from nanite import model
    from nanite.model.core import ModelImportError
    d = common.scratch() / "models"
    (d / "a").mkdir(parents=True, exist_ok=True)
    (d / "b").mkdir(parents=True, exist_ok=True)
    (d / "a" / "nvfile.py").write_text(MODEL_SRC % {"key": "nv_file_a"})
    (d / "b" / "nvfile.py").write_text(MODEL_SRC % {"key": "nv_file_b"})
    (d / "a" / "broken.py").write_text("def (:\n")
    (d / "a" / "raises.py").write_text("raise RuntimeError('boom')\n")
    (d / "a" / "incomplete.py").write_text(
        (MODEL_SRC % {"key": "nv_inc"}).replace('model_name = ', 'zz = '))
    cases = [
        ("valid-a", d / "a" / "nvfile.py", True, "ok"),
        ("same-stem-other-dir", d / "b" / "nvfile.py", True, "ok"),
        ("missing", d / "a" / "nothere.py", False, "ModelImportError"),
        ("syntax-error", d / "a" / "broken.py", False, "ModelImportError"),
        ("raises-on-import", d / "a" / "raises.py", False,
         "ModelImportError"),
        ("incomplete", d / "a" / "incomplete.py", True,
         "ModelIncompleteError"),
        # paths the import machinery has no loader for: valid model code in
        # a file without a Python suffix, a folder
        ("text-suffix", d / "a" / "model_custom.txt", False,
         "ModelImportError"),
        ("no-suffix", d / "a" / "model_custom", False, "ModelImportError"),
        ("directory", d / "b", False, "ModelImportError"),
    ]
    (d / "a" / "model_custom.txt").write_text(MODEL_SRC % {"key": "nv_txt"})
    (d / "a" / "model_custom").write_text(MODEL_SRC % {"key": "nv_nosuf"})
    for presence in ("absent", "present-early", "present-last"):
        for name, path, reg, want in cases:
            saved_path = list(sys.path)
            if presence == "present-early":
                sys.path.insert(1, str(path.parent))
            elif presence == "present-last":
                sys.path.append(str(path.parent))
            before_path = list(sys.path)
            before_reg = set(model.models_available)
            try:
                md = model.load_model_from_file(path, register=reg)
                out = "ok"
            except BaseException as e:
                out = type(e).__name__
                md = None
            path_ok = list(sys.path) == before_path
            sys.path[:] = saved_path
            run.case({"file": name, "sys.path": presence, "outcome": out},
                     kind="load-" + out)
            key = f"load:{name}:{presence}"
            if out != want:
                run.failing(SITE_L, key, f"loading {name} -> {out}, expected "
                            f"{want}", payload={"kind": "load", "name": name},
                            theorem="C18_error_kinds")
            if not path_ok:
                run.failing(SITE_L, key, f"sys.path changed by loading "
                            f"{name} ({presence})",
                            payload={"kind": "load", "name": name},
                            theorem="C18_syspath_restored")
            if out == "ok":
                want_key = "nv_file_b" if "other-dir" in name else "nv_file_a"
                x = np.linspace(1e-6, -1e-6, 7)
                p = md.get_parameter_defaults()
                got = md.model(p, x)
                ref = np.zeros_like(x)
                ref[-x > 0] = 3e3 * (-x[-x > 0]) ** 2
                if md.model_key != want_key or not np.allclose(got, ref):
                    run.failing(SITE_L, key, f"loaded model is "
                                f"{md.model_key}, expected {want_key} (or it "
                                "does not behave like its code)",
                                payload={"kind": "load", "name": name},
                                theorem="C18_register_available")
                # registered means: visible in the registry every part of
                # the library reads (fitting, initial parameters, ...)
                why_ = None
                if reg:
                    try:
                        from nanite.model import logic as _logic
                        if md.model_key not in model.models_available:
                            why_ = "is not in nanite.model.models_available"
                        elif _logic.models_available is not \
                                model.models_available:
                            why_ = ("went into another registry object than "
                                    "the one nanite.model exposes")
                        else:
                            model.get_init_parms(md.model_key)
                            model.get_model_by_name(md.model_name)
                    except BaseException as e:
                        why_ = f"cannot be used: {type(e).__name__}: {e}"
                if why_:
                    run.failing(SITE_R, key + "|visible", f"model "
                                f"{md.model_key} registered from a file "
                                f"{why_} (history: earlier loads in this "
                                "process failed)",
                                payload={"kind": "load", "name": name},
                                theorem="C18_register_available")
                if md.model_key in model.models_available:
                    model.deregister_model(md)
                    if md.model_key in model.models_available:
                        run.failing(SITE_R, key + "|dereg", "deregister did "
                                    "not remove the key from "
                                    "nanite.model.models_available",
                                    payload={"kind": "load", "name": name},
                                    theorem="C18_deregister_exact")
            elif set(model.models_available) != before_reg:
                run.failing(SITE_R, key, "failed load changed the registry",
                            payload={"kind": "load", "name": name},
                            theorem="C18_failure_preserves")


def check_own_functions(run):
    """a module's own `model` / `residual` are kept; only what is missing gets
    the default wrapper"""
    from nanite import model

    def own_residual(params, delta, data, weight_cp=5e-7):
        return np.full_like(np.asarray(delta, float), 52.0)

    def own_model(params, delta):
        return np.full_like(np.asarray(delta, float), 7.0)
    for tag, has_m, has_r in [("neither", False, False),
                              ("own-residual", False, True),
                              ("own-model", True, False),
                              ("both", True, True)]:
        m = base_module("nv_own_" + tag.replace("-", "_"))
        if has_m:
            m.model = own_model
        if has_r:
            m.residual = own_residual
        run.case({"own-functions": tag}, kind="own-functions")
        try:
            md = model.register_model(m)
        except BaseException as e:
            run.failing(SITE_R, "own-functions:" + tag, f"registration "
                        f"raised {type(e).__name__}: {e}",
                        payload={"kind": "rerun"})
            continue
        try:
            x = np.linspace(1e-6, -1e-6, 5)
            p = md.get_parameter_defaults()
            reg = model.models_available[m.model_key]
            why = None
            for inst in (md, reg):
                if has_r and not np.array_equal(
                        inst.residual(p, x, np.zeros(5), 5e-7),
                        np.full(5, 52.0)):
                    why = "the module's own residual was replaced"
                if has_m and not np.array_equal(inst.model(p, x),
                                                np.full(5, 7.0)):
                    why = "the module's own model was replaced"
                if not callable(inst.model) or not callable(inst.residual):
                    why = "model / residual missing after registration"
            if why:
                run.failing(SITE_R, "own-functions:" + tag,
                            f"module with {tag}: {why}",
                            payload={"kind": "rerun"},
                            theorem="C18_register_available")
        finally:
            model.deregister_model(md)


def check_reload(run):
    """the model-development workflow on ONE path: load, edit the file, load
    again; load a faulty file, correct it, load again -- every load must
    behave like the code the file holds at that moment"""
    from nanite import model
    d = common.scratch() / "models_reload"
    d.mkdir(parents=True, exist_ok=True)
    path = d / "nvdev.py"
    good = MODEL_SRC % {"key": "nv_dev"}
    steps = [
        ("first", good, "ok", "file model nv_dev", ["Pa", "m", "N"], 2.0),
        ("edited names/units/function",
         good.replace("file model nv_dev", "second draft")
             .replace('["Pa", "m", "N"]', '["kPa", "um", "nN"]')
             .replace("** 2", "** 2 * 2.0"),
         "ok", "second draft", ["kPa", "um", "nN"], 4.0),
        ("made incomplete", good.replace("model_name = ", "zz = "),
         "ModelIncompleteError", None, None, None),
        ("corrected", good, "ok", "file model nv_dev", ["Pa", "m", "N"], 2.0),
    ]
    for reg in (True, False):
        for j, (what, src, want, name, units, fac) in enumerate(steps):
            path.write_text(src)
            # a changed size / time stamp, as after a real edit
            import os
            os.utime(path, (1000000000 + 10 * j, 1000000000 + 10 * j))
            key = f"reload:{reg}:{j}"
            run.case({"reload": what, "register": reg}, kind="reload")
            try:
                md = model.load_model_from_file(path, register=reg)
                out = "ok"
            except BaseException as e:
                out, md = type(e).__name__, None
            why = None
            if out != want:
                why = f"-> {out}, expected {want}"
            elif md is not None:
                x = np.linspace(1e-6, -1e-6, 7)
                p = md.get_parameter_defaults()
                ref = np.zeros_like(x)
                ref[-x > 0] = 3e3 * (-x[-x > 0]) ** 2 * (fac / 2.0)
                reg_md = model.models_available.get("nv_dev") if reg else md
                if md.model_name != name or list(md.parameter_units) != units:
                    why = (f"loaded model has name {md.model_name!r}, units "
                           f"{list(md.parameter_units)}; the file says "
                           f"{name!r}, {units}")
                elif not np.allclose(md.model(p, x), ref, rtol=1e-12):
                    why = "loaded model does not evaluate the file's function"
                elif reg and (reg_md is None or reg_md.model_name != name):
                    why = "the registry holds another model than the file's"
            if why:
                run.failing(SITE_L, key, f"load #{j + 1} of one path "
                            f"({what}, register={reg}): {why}",
                            payload={"kind": "rerun"},
                            theorem="C18_register_available")
        if "nv_dev" in model.models_available:
            model.deregister_model(model.models_available["nv_dev"])


def rekey_cases(run):
    """a module registered under one key, its key attribute changed, the
    module registered again (two entries now), then the entries deregistered
    through the objects register_model returned: each removes exactly the key
    it was registered under, and the registry returns to where it started"""
    from nanite import model
    for order in ("first-then-second", "second-then-first", "first-only"):
        start = set(model.models_available)
        mod = base_module("nv_rekey_a")
        key = f"rekey:{order}"
        run.case({"rekey": order}, kind="rekey")
        why = None
        try:
            md_a = model.register_model(mod)
            mod.model_key = "nv_rekey_b"
            mod.model_name = "harness model rekeyed"
            md_b = model.register_model(mod)
            both = {"nv_rekey_a", "nv_rekey_b"} <= set(model.models_available)
            if not both:
                why = "after registering under two keys one of them is missing"
            else:
                seq = {"first-then-second": [md_a, md_b],
                       "second-then-first": [md_b, md_a],
                       "first-only": [md_a]}[order]
                for md in seq:
                    k_ = md.model_key
                    before = set(model.models_available)
                    try:
                        model.deregister_model(md)
                    except BaseException as e:
                        why = (f"deregistering the model registered as "
                               f"{k_!r} raised {type(e).__name__}: {e}")
                        break
                    if set(model.models_available) != before - {k_}:
                        gone = before - set(model.models_available)
                        why = (f"deregistering the model registered as {k_!r}"
                               f" removed {sorted(gone)}")
                        break
        except BaseException as e:
            why = f"raised {type(e).__name__}: {e}"
        for k_ in ("nv_rekey_a", "nv_rekey_b"):
            model.models_available.pop(k_, None)
        if why is None and set(model.models_available) != start:
            why = "the registry did not return to its initial contents"
        if why:
            run.failing(SITE_R, key, f"{order}: {why}",
                        payload={"kind": "rerun"},
                        theorem="C18_deregister_exact")


def check_sequences(run):
    """random register / deregister / load sequences against rstep"""
    from nanite import model
    exprs, descr = [], []
    n = 30 if run.tier == "quick" else 300
    for h in range(n):
        mods = [base_module(f"nv_seq_{i}") for i in range(3)]
        bad = base_module("nv_seq_bad")
        del bad.model_name
        # malformed modules carrying the key of a valid one (an edited copy
        # of a model that is already registered)
        bad0 = base_module("nv_seq_0")
        del bad0.model_doc
        bad1 = base_module("nv_seq_1")
        bad1.parameter_names = bad1.parameter_names[:-1]
        start = dict(model.models_available)
        ops, outs = [], []
        scripts = [
            [("reg", 0), ("edit", 0, "shorten-units"), ("reg", 0),
             ("edit", 0, "rename"), ("reg", 0), ("edit", 0, "duplicate-names"),
             ("reg", 0), ("edit", 0, "restore"), ("reg", 0)],
            [("reg", 1), ("edit", 1, "rename"), ("reg", 1), ("dereg", 1),
             ("edit", 1, "shorten-units"), ("reg", 1), ("reg", 1)],
        ]
        if h < len(scripts):
            plan = scripts[h]
        else:
            plan = []
            for _ in range(run.rng.randint(2, 8)):
                r = run.rng.random()
                if r < 0.2:
                    plan.append(("edit", run.rng.randrange(3), run.rng.choice(
                        ["shorten-units", "restore", "rename",
                         "duplicate-names"])))
                elif r < 0.6:
                    plan.append(("reg", run.rng.randrange(6)))
                else:
                    plan.append(("dereg", run.rng.randrange(3)))
        for item in plan:
            r = {"edit": 0.1, "reg": 0.5, "dereg": 0.9}[item[0]]
            if r < 0.2:
                # the caller edits a module object in place (it may be
                # registered already): what counts at the next registration is
                # its content then
                m = mods[item[1]]
                how = item[2]
                ref = base_module(m.model_key)
                if how == "shorten-units":
                    m.parameter_units = list(ref.parameter_units)[:-1]
                elif how == "duplicate-names":
                    m.parameter_names = [ref.parameter_names[0]] * len(
                        ref.parameter_names)
                elif how == "rename":
                    m.parameter_names = [n + " (edited)"
                                         for n in ref.parameter_names]
                    m.parameter_units = list(ref.parameter_units)
                else:
                    m.parameter_names = list(ref.parameter_names)
                    m.parameter_units = list(ref.parameter_units)
                continue
            if r < 0.6:
                m = (mods + [bad, bad0, bad1])[item[1]]
                before = dict(model.models_available)
                try:
                    model.register_model(m)
                    outs.append("None")
                    md = model.models_available.get(m.model_key)
                    if md is None or list(md.parameter_names) != list(
                            m.parameter_names) or list(
                            md.parameter_units) != list(m.parameter_units):
                        run.failing(
                            SITE_R, f"registered-model-is-stale:{m.model_key}",
                            f"register_model({m.model_key!r}) succeeded but "
                            "the registry's model does not carry the names / "
                            "units the module has now",
                            payload={"kind": "sequence"},
                            theorem="C18_register_available")
                except BaseException as e:
                    outs.append(f"(Some {m1.exn_coq(type(e).__name__)})")
                    after = dict(model.models_available)
                    if list(after) != list(before) or any(
                            after[k] is not before[k] for k in before):
                        run.failing(
                            SITE_R, f"rejected-registration-changes-registry:"
                            f"{m.model_key}",
                            f"register_model of a malformed module with key "
                            f"{m.model_key!r} raised {type(e).__name__} but "
                            f"changed the registry: removed "
                            f"{sorted(set(before) - set(after))}, added "
                            f"{sorted(set(after) - set(before))}",
                            payload={"kind": "sequence"},
                            theorem="C18_failure_preserves")
                ops.append(f"Register {coq_mod(m)}")
            else:
                m = mods[item[1]]
                try:
                    model.deregister_model(model.NaniteFitModel(
                        base_module(m.model_key)))
                    outs.append("None")
                except BaseException as e:
                    outs.append(f"(Some {m1.exn_coq(type(e).__name__)})")
                ops.append(f"Deregister {coq_string(m.model_key)}")
        final = sorted(k for k in model.models_available if k not in start)
        for k in final:
            model.models_available.pop(k)
        run.case({"ops": len(ops), "final": final},
                 nontrivial=len(ops) >= 3, kind="sequence")
        exprs.append(
            "let run := fold_left (fun (acc : (registry * list string) * "
            "list (option exn)) o => let '(st, outs) := acc in let '(st', e) "
            ":= rstep st o in (st', (outs ++ [e])%list)) ["
            + "; ".join(ops) + "] (([], []), []) in "
            "let keys := map fst (fst (fst run)) in "
            "(fix same (a b : list (option exn)) {struct a} := match a, b with [], [] =>"
            " true | Some e :: s, Some f :: t => exn_eqb e f && same s t | "
            "None :: s, None :: t => same s t | _, _ => false end) (snd run) "
            "[" + "; ".join(outs) + "] && Nat.eqb (List.length keys) "
            f"{len(final)} && forallb (fun k => existsb (String.eqb k) keys) "
            "[" + "; ".join(coq_string(k) for k in final) + "]")
        descr.append(f"{len(ops)} ops -> {final}")
    saved = fits.CASE_HEAD
    fits.CASE_HEAD = CASE_HEAD
    try:
        fits.eval_bool_cases(run, "c18_seq", exprs, descr)
    finally:
        fits.CASE_HEAD = saved


def check_seeding(run):
    """ancillary values whose key matches a parameter seed it unless NaN"""
    from nanite import model
    from nanite.fit import guess_initial_parameters
    m = base_module("nv_anc", anc=True)
    md = model.register_model(m)
    try:
        # the ancillary keys a model reports: the common ones plus its own,
        # the same at every call, and nobody else's
        run.case({"anc-keys": "nv_anc"}, kind="seeding")
        k1 = list(md.get_anc_parm_keys())
        k2 = list(md.get_anc_parm_keys())
        others = {kk: list(model.models_available[kk].get_anc_parm_keys())
                  for kk in ("hertz_para", "hertz_cone")
                  if kk in model.models_available}
        k3 = list(md.get_anc_parm_keys())
        if k1 != ["max_indent"] + list(m.parameter_anc_keys) or k2 != k1 \
                or k3 != k1 or any(v != ["max_indent"]
                                   for v in others.values()):
            run.failing(SITE_A, "anc-keys", f"get_anc_parm_keys: first call "
                        f"{k1}, second {k2}, third {k3}; shipped models "
                        f"report {others}", payload={"kind": "rerun"},
                        theorem="C18_register_available")
        cols = m1.small_curve(5)
        idnt = curves.make_indentation(cols)
        idnt.apply_preprocessing(["compute_tip_position"])
        for anc in ({"E": 1234.0, "R": float("nan"), "other": 5.0},
                    {"E": float("nan"), "R": 2e-6, "other": 1.0},
                    {"E": 7.0, "R": 8.0, "other": float("nan")}):
            m.compute_ancillaries = lambda fd, anc=anc: dict(anc)
            p = guess_initial_parameters(idnt, model_key="nv_anc")
            p0 = guess_initial_parameters(idnt, model_key="nv_anc",
                                          model_ancillaries=False)
            run.case({"ancillaries": {k: repr(v) for k, v in anc.items()}},
                     kind="seeding")
            for name in ("E", "R"):
                want = anc[name] if not math.isnan(anc[name]) \
                    else p0[name].value
                if p[name].value != want:
                    run.failing(SITE_A, f"seed:{name}:{anc}",
                                f"ancillary {name}={anc[name]} -> initial "
                                f"value {p[name].value}, expected {want}",
                                payload={"kind": "seed"},
                                theorem="C18_ancillary_seeding")
            # ... also when the common ancillaries are switched off, and
            # through the Indentation method
            for common_anc in (True, False):
                for via in ("fit", "indent"):
                    if via == "fit":
                        q = guess_initial_parameters(
                            idnt, model_key="nv_anc",
                            common_ancillaries=common_anc,
                            model_ancillaries=True)
                        q0 = guess_initial_parameters(
                            idnt, model_key="nv_anc",
                            common_ancillaries=common_anc,
                            model_ancillaries=False)
                    else:
                        q = idnt.get_initial_fit_parameters(
                            model_key="nv_anc", common_ancillaries=common_anc,
                            model_ancillaries=True)
                        q0 = idnt.get_initial_fit_parameters(
                            model_key="nv_anc", common_ancillaries=common_anc,
                            model_ancillaries=False)
                    for name in ("E", "R"):
                        want = anc[name] if not math.isnan(anc[name]) \
                            else q0[name].value
                        if q[name].value != want:
                            run.failing(
                                SITE_A, f"seed:{name}:{anc}:{common_anc}:{via}",
                                f"ancillary {name}={anc[name]} (common "
                                f"ancillaries {common_anc}, via {via}) -> "
                                f"initial value {q[name].value}, expected "
                                f"{want}", payload={"kind": "rerun"},
                                theorem="C18_ancillary_seeding")
            # the model's documented defaults are not touched by guesses
            # or by a caller editing what it was handed, and a NaN ancillary
            # leaves the documented default (not an earlier curve's seed)
            doc = m.get_parameter_defaults()
            now = md.get_parameter_defaults()
            now_vals = {k: (now[k].value, now[k].vary) for k in now}
            now["E"].set(value=99.0, vary=False)
            again = md.get_parameter_defaults()
            bad = [k for k in doc
                   if now_vals.get(k) != (doc[k].value, doc[k].vary)
                   or (again[k].value, again[k].vary)
                   != (doc[k].value, doc[k].vary)]
            bad += [f"{k} (NaN ancillary)" for k in ("E", "R")
                    if math.isnan(anc[k]) and p[k].value != doc[k].value]
            if bad:
                run.failing(SITE_A, f"seed:defaults:{anc}",
                            f"after guessing with ancillaries {anc} the "
                            f"registered model's defaults / NaN-seeded values "
                            f"differ from the documented ones for {bad}",
                            payload={"kind": "rerun"},
                            theorem="C18_ancillary_seeding")
            if "other" in p or set(p) != set(p0):
                run.failing(SITE_A, f"seed:created:{anc}",
                            "seeding created a parameter",
                            payload={"kind": "seed"},
                            theorem="C18_ancillary_seeding")
    finally:
        model.deregister_model(md)


def check(run):
    run.sources = common.source_digests(
        ["src/nanite/model/core.py", "src/nanite/model/logic.py",
         "src/nanite/model/__init__.py", "src/nanite/fit.py"])
    gen_all.generate_all()
    common.prove(run, "C18", extra_targets=["Model/Registry.vo"])
    run.trusted = [
        "Coq 8.16.1 kernel + vm_compute",
        "coq/Model/Registry.v hand-written, tied exhaustively over all "
        "single-fault mutants of a valid module and by random operation "
        "sequences (comparison inside Coq)",
    ]
    run.assumptions = [
        "Python's import machinery is an oracle (import succeeded with a "
        "module / failed); sys.path is observed before/after",
        "units with surrounding spaces only warn (not modelled)",
    ]
    check_mutants(run)
    check_loader(run)
    check_reload(run)
    check_own_functions(run)
    check_sequences(run)
    rekey_cases(run)
    check_seeding(run)
    run.exhaustive = True
    run.rule = ("every single-fault mutant (delete / shorten / lengthen / "
                "empty / duplicate / reorder each attribute, defaults and "
                "signature variants) of a valid module with and without "
                "ancillaries; files that load, are missing, do not parse, "
                "raise, are incomplete or share a name, with the directory "
                "absent/present on sys.path; random register/deregister "
                "sequences; ancillary dictionaries with NaN")


def replay(rec):
    return common.replay_by_rerun(sys.modules[__name__], rec)
